
val negb : bool -> bool

type nat =
| O
| S of nat

val fst : ('a1 * 'a2) -> 'a1

val snd : ('a1 * 'a2) -> 'a2

val length : 'a1 list -> nat

type comparison =
| Eq
| Lt
| Gt

val compOpp : comparison -> comparison

val add : nat -> nat -> nat

val mul : nat -> nat -> nat

module Nat :
 sig
  val eqb : nat -> nat -> bool

  val leb : nat -> nat -> bool

  val ltb : nat -> nat -> bool
 end

val nth : nat -> 'a1 list -> 'a1 -> 'a1

val map : ('a1 -> 'a2) -> 'a1 list -> 'a2 list

val existsb : ('a1 -> bool) -> 'a1 list -> bool

val forallb : ('a1 -> bool) -> 'a1 list -> bool

val combine : 'a1 list -> 'a2 list -> ('a1 * 'a2) list

val firstn : nat -> 'a1 list -> 'a1 list

val skipn : nat -> 'a1 list -> 'a1 list

val seq : nat -> nat -> nat list

type positive =
| XI of positive
| XO of positive
| XH

type z =
| Z0
| Zpos of positive
| Zneg of positive

module Pos :
 sig
  val succ : positive -> positive

  val add : positive -> positive -> positive

  val add_carry : positive -> positive -> positive

  val pred_double : positive -> positive

  val mul : positive -> positive -> positive

  val compare_cont : comparison -> positive -> positive -> comparison

  val compare : positive -> positive -> comparison

  val eqb : positive -> positive -> bool
 end

module Z :
 sig
  val double : z -> z

  val succ_double : z -> z

  val pred_double : z -> z

  val pos_sub : positive -> positive -> z

  val add : z -> z -> z

  val opp : z -> z

  val sub : z -> z -> z

  val mul : z -> z -> z

  val compare : z -> z -> comparison

  val leb : z -> z -> bool

  val ltb : z -> z -> bool

  val eqb : z -> z -> bool

  val pos_div_eucl : positive -> z -> z * z

  val div_eucl : z -> z -> z * z

  val modulo : z -> z -> z
 end

type sx =
| A of z
| L of sx list

val sx_eqb : sx -> sx -> bool

val sZ : z -> sx

val sList : ('a1 -> sx) -> 'a1 list -> sx

val sErr : z -> sx

val sOk : sx -> sx

val dZ : sx -> z

val dList : (sx -> 'a1) -> sx -> 'a1 list

val dNth : sx -> nat -> sx

val dOpt : (sx -> 'a1) -> sx -> 'a1 option

val dZs : sx -> z list

val dZss : sx -> z list list

val sZs : z list -> sx

val sZss : z list list -> sx

val lex_ltb : z list -> z list -> bool

val lex_eqb : z list -> z list -> bool

val insert_kv : z list -> 'a1 -> (z list * 'a1) list -> (z list * 'a1) list

val sort_kv : (z list * 'a1) list -> (z list * 'a1) list

val has_dup : z list list -> bool

val wsum : z list -> z list -> z

val column : nat -> z list list -> z list

val matvec : nat -> z list list -> z list -> z list

val vscale : z -> z list -> z list

val vmod : z -> z list -> z list

val vmod_at : nat -> z -> z list -> z list

type leg_err =
| LE_signature
| LE_D
| LE_t
| LE_count
| LE_range
| LE_repeat

type 't lres =
| LOk of 't
| LErr of leg_err

type leg = { lg_s : z; lg_t : z list list; lg_D : z list }

val chunks : nat -> nat -> z list -> z list list

val all_some : z option list -> z list option

val leg_make :
  nat -> (z list list -> z list -> z -> z list) -> z option -> z option list
  -> z option list -> leg lres

val nsym_U1 : nat

val fuse_U1 : z list list -> z list -> z -> z list

val nsym_U1xU1 : nat

val fuse_U1xU1 : z list list -> z list -> z -> z list

val nsym_U1xU1xZ2 : nat

val fuse_U1xU1xZ2 : z list list -> z list -> z -> z list

val nsym_Z2 : nat

val fuse_Z2 : z list list -> z list -> z -> z list

val nsym_Z2xU1 : nat

val fuse_Z2xU1 : z list list -> z list -> z -> z list

val nsym_Z3 : nat

val fuse_Z3 : z list list -> z list -> z -> z list

val nsym_dense : nat

val fuse_dense : z list list -> z list -> z -> z list

val fuse_by_index : z -> z list list -> z list -> z -> z list

val nsym_by_index : z -> nat

val run_fuse : sx -> sx

val leg_err_code : leg_err -> z

val run_leg_make : sx -> sx

val run : z -> sx -> sx

val run_case : sx -> sx
