(* Extract.v -- extraction of the executable model to OCaml.
   Directives in force: exactly those of ExtrOcamlBasic (bool, option, unit, prod, list,
   sumbool mapped to OCaml's own; no Extract Constant).  Z, positive, nat stay
   extracted datatypes. *)
From Coq Require Import Extraction ExtrOcamlBasic.
From Yv Require Import Base.Sx Run.Dispatch.
Extraction Language OCaml.
Extraction "model.ml" run_case sx_eqb.
