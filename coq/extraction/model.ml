
(** val negb : bool -> bool **)

let negb = function
| true -> false
| false -> true

type nat =
| O
| S of nat

(** val fst : ('a1 * 'a2) -> 'a1 **)

let fst = function
| (x, _) -> x

(** val snd : ('a1 * 'a2) -> 'a2 **)

let snd = function
| (_, y) -> y

(** val length : 'a1 list -> nat **)

let rec length = function
| [] -> O
| _ :: l' -> S (length l')

type comparison =
| Eq
| Lt
| Gt

(** val compOpp : comparison -> comparison **)

let compOpp = function
| Eq -> Eq
| Lt -> Gt
| Gt -> Lt

(** val add : nat -> nat -> nat **)

let rec add n m =
  match n with
  | O -> m
  | S p -> S (add p m)

(** val mul : nat -> nat -> nat **)

let rec mul n m =
  match n with
  | O -> O
  | S p -> add m (mul p m)

module Nat =
 struct
  (** val eqb : nat -> nat -> bool **)

  let rec eqb n m =
    match n with
    | O -> (match m with
            | O -> true
            | S _ -> false)
    | S n' -> (match m with
               | O -> false
               | S m' -> eqb n' m')

  (** val leb : nat -> nat -> bool **)

  let rec leb n m =
    match n with
    | O -> true
    | S n' -> (match m with
               | O -> false
               | S m' -> leb n' m')

  (** val ltb : nat -> nat -> bool **)

  let ltb n m =
    leb (S n) m
 end

(** val nth : nat -> 'a1 list -> 'a1 -> 'a1 **)

let rec nth n l default =
  match n with
  | O -> (match l with
          | [] -> default
          | x :: _ -> x)
  | S m -> (match l with
            | [] -> default
            | _ :: t -> nth m t default)

(** val map : ('a1 -> 'a2) -> 'a1 list -> 'a2 list **)

let rec map f = function
| [] -> []
| a :: t -> (f a) :: (map f t)

(** val existsb : ('a1 -> bool) -> 'a1 list -> bool **)

let rec existsb f = function
| [] -> false
| a :: l0 -> (||) (f a) (existsb f l0)

(** val forallb : ('a1 -> bool) -> 'a1 list -> bool **)

let rec forallb f = function
| [] -> true
| a :: l0 -> (&&) (f a) (forallb f l0)

(** val combine : 'a1 list -> 'a2 list -> ('a1 * 'a2) list **)

let rec combine l l' =
  match l with
  | [] -> []
  | x :: tl ->
    (match l' with
     | [] -> []
     | y :: tl' -> (x, y) :: (combine tl tl'))

(** val firstn : nat -> 'a1 list -> 'a1 list **)

let rec firstn n l =
  match n with
  | O -> []
  | S n0 -> (match l with
             | [] -> []
             | a :: l0 -> a :: (firstn n0 l0))

(** val skipn : nat -> 'a1 list -> 'a1 list **)

let rec skipn n l =
  match n with
  | O -> l
  | S n0 -> (match l with
             | [] -> []
             | _ :: l0 -> skipn n0 l0)

(** val seq : nat -> nat -> nat list **)

let rec seq start = function
| O -> []
| S len0 -> start :: (seq (S start) len0)

type positive =
| XI of positive
| XO of positive
| XH

type z =
| Z0
| Zpos of positive
| Zneg of positive

module Pos =
 struct
  (** val succ : positive -> positive **)

  let rec succ = function
  | XI p -> XO (succ p)
  | XO p -> XI p
  | XH -> XO XH

  (** val add : positive -> positive -> positive **)

  let rec add x y =
    match x with
    | XI p ->
      (match y with
       | XI q -> XO (add_carry p q)
       | XO q -> XI (add p q)
       | XH -> XO (succ p))
    | XO p ->
      (match y with
       | XI q -> XI (add p q)
       | XO q -> XO (add p q)
       | XH -> XI p)
    | XH -> (match y with
             | XI q -> XO (succ q)
             | XO q -> XI q
             | XH -> XO XH)

  (** val add_carry : positive -> positive -> positive **)

  and add_carry x y =
    match x with
    | XI p ->
      (match y with
       | XI q -> XI (add_carry p q)
       | XO q -> XO (add_carry p q)
       | XH -> XI (succ p))
    | XO p ->
      (match y with
       | XI q -> XO (add_carry p q)
       | XO q -> XI (add p q)
       | XH -> XO (succ p))
    | XH ->
      (match y with
       | XI q -> XI (succ q)
       | XO q -> XO (succ q)
       | XH -> XI XH)

  (** val pred_double : positive -> positive **)

  let rec pred_double = function
  | XI p -> XI (XO p)
  | XO p -> XI (pred_double p)
  | XH -> XH

  (** val mul : positive -> positive -> positive **)

  let rec mul x y =
    match x with
    | XI p -> add y (XO (mul p y))
    | XO p -> XO (mul p y)
    | XH -> y

  (** val compare_cont : comparison -> positive -> positive -> comparison **)

  let rec compare_cont r x y =
    match x with
    | XI p ->
      (match y with
       | XI q -> compare_cont r p q
       | XO q -> compare_cont Gt p q
       | XH -> Gt)
    | XO p ->
      (match y with
       | XI q -> compare_cont Lt p q
       | XO q -> compare_cont r p q
       | XH -> Gt)
    | XH -> (match y with
             | XH -> r
             | _ -> Lt)

  (** val compare : positive -> positive -> comparison **)

  let compare =
    compare_cont Eq

  (** val eqb : positive -> positive -> bool **)

  let rec eqb p q =
    match p with
    | XI p0 -> (match q with
                | XI q0 -> eqb p0 q0
                | _ -> false)
    | XO p0 -> (match q with
                | XO q0 -> eqb p0 q0
                | _ -> false)
    | XH -> (match q with
             | XH -> true
             | _ -> false)
 end

module Z =
 struct
  (** val double : z -> z **)

  let double = function
  | Z0 -> Z0
  | Zpos p -> Zpos (XO p)
  | Zneg p -> Zneg (XO p)

  (** val succ_double : z -> z **)

  let succ_double = function
  | Z0 -> Zpos XH
  | Zpos p -> Zpos (XI p)
  | Zneg p -> Zneg (Pos.pred_double p)

  (** val pred_double : z -> z **)

  let pred_double = function
  | Z0 -> Zneg XH
  | Zpos p -> Zpos (Pos.pred_double p)
  | Zneg p -> Zneg (XI p)

  (** val pos_sub : positive -> positive -> z **)

  let rec pos_sub x y =
    match x with
    | XI p ->
      (match y with
       | XI q -> double (pos_sub p q)
       | XO q -> succ_double (pos_sub p q)
       | XH -> Zpos (XO p))
    | XO p ->
      (match y with
       | XI q -> pred_double (pos_sub p q)
       | XO q -> double (pos_sub p q)
       | XH -> Zpos (Pos.pred_double p))
    | XH ->
      (match y with
       | XI q -> Zneg (XO q)
       | XO q -> Zneg (Pos.pred_double q)
       | XH -> Z0)

  (** val add : z -> z -> z **)

  let add x y =
    match x with
    | Z0 -> y
    | Zpos x' ->
      (match y with
       | Z0 -> x
       | Zpos y' -> Zpos (Pos.add x' y')
       | Zneg y' -> pos_sub x' y')
    | Zneg x' ->
      (match y with
       | Z0 -> x
       | Zpos y' -> pos_sub y' x'
       | Zneg y' -> Zneg (Pos.add x' y'))

  (** val opp : z -> z **)

  let opp = function
  | Z0 -> Z0
  | Zpos x0 -> Zneg x0
  | Zneg x0 -> Zpos x0

  (** val sub : z -> z -> z **)

  let sub m n =
    add m (opp n)

  (** val mul : z -> z -> z **)

  let mul x y =
    match x with
    | Z0 -> Z0
    | Zpos x' ->
      (match y with
       | Z0 -> Z0
       | Zpos y' -> Zpos (Pos.mul x' y')
       | Zneg y' -> Zneg (Pos.mul x' y'))
    | Zneg x' ->
      (match y with
       | Z0 -> Z0
       | Zpos y' -> Zneg (Pos.mul x' y')
       | Zneg y' -> Zpos (Pos.mul x' y'))

  (** val compare : z -> z -> comparison **)

  let compare x y =
    match x with
    | Z0 -> (match y with
             | Z0 -> Eq
             | Zpos _ -> Lt
             | Zneg _ -> Gt)
    | Zpos x' -> (match y with
                  | Zpos y' -> Pos.compare x' y'
                  | _ -> Gt)
    | Zneg x' ->
      (match y with
       | Zneg y' -> compOpp (Pos.compare x' y')
       | _ -> Lt)

  (** val leb : z -> z -> bool **)

  let leb x y =
    match compare x y with
    | Gt -> false
    | _ -> true

  (** val ltb : z -> z -> bool **)

  let ltb x y =
    match compare x y with
    | Lt -> true
    | _ -> false

  (** val eqb : z -> z -> bool **)

  let eqb x y =
    match x with
    | Z0 -> (match y with
             | Z0 -> true
             | _ -> false)
    | Zpos p -> (match y with
                 | Zpos q -> Pos.eqb p q
                 | _ -> false)
    | Zneg p -> (match y with
                 | Zneg q -> Pos.eqb p q
                 | _ -> false)

  (** val pos_div_eucl : positive -> z -> z * z **)

  let rec pos_div_eucl a b =
    match a with
    | XI a' ->
      let (q, r) = pos_div_eucl a' b in
      let r' = add (mul (Zpos (XO XH)) r) (Zpos XH) in
      if ltb r' b
      then ((mul (Zpos (XO XH)) q), r')
      else ((add (mul (Zpos (XO XH)) q) (Zpos XH)), (sub r' b))
    | XO a' ->
      let (q, r) = pos_div_eucl a' b in
      let r' = mul (Zpos (XO XH)) r in
      if ltb r' b
      then ((mul (Zpos (XO XH)) q), r')
      else ((add (mul (Zpos (XO XH)) q) (Zpos XH)), (sub r' b))
    | XH -> if leb (Zpos (XO XH)) b then (Z0, (Zpos XH)) else ((Zpos XH), Z0)

  (** val div_eucl : z -> z -> z * z **)

  let div_eucl a b =
    match a with
    | Z0 -> (Z0, Z0)
    | Zpos a' ->
      (match b with
       | Z0 -> (Z0, a)
       | Zpos _ -> pos_div_eucl a' b
       | Zneg b' ->
         let (q, r) = pos_div_eucl a' (Zpos b') in
         (match r with
          | Z0 -> ((opp q), Z0)
          | _ -> ((opp (add q (Zpos XH))), (add b r))))
    | Zneg a' ->
      (match b with
       | Z0 -> (Z0, a)
       | Zpos _ ->
         let (q, r) = pos_div_eucl a' b in
         (match r with
          | Z0 -> ((opp q), Z0)
          | _ -> ((opp (add q (Zpos XH))), (sub b r)))
       | Zneg b' -> let (q, r) = pos_div_eucl a' (Zpos b') in (q, (opp r)))

  (** val modulo : z -> z -> z **)

  let modulo a b =
    let (_, r) = div_eucl a b in r
 end

type sx =
| A of z
| L of sx list

(** val sx_eqb : sx -> sx -> bool **)

let rec sx_eqb a b =
  match a with
  | A x -> (match b with
            | A y -> Z.eqb x y
            | L _ -> false)
  | L xs ->
    (match b with
     | A _ -> false
     | L ys ->
       let rec go xs0 ys0 =
         match xs0 with
         | [] -> (match ys0 with
                  | [] -> true
                  | _ :: _ -> false)
         | x :: xs' ->
           (match ys0 with
            | [] -> false
            | y :: ys' -> (&&) (sx_eqb x y) (go xs' ys'))
       in go xs ys)

(** val sZ : z -> sx **)

let sZ z0 =
  A z0

(** val sList : ('a1 -> sx) -> 'a1 list -> sx **)

let sList f l =
  L (map f l)

(** val sErr : z -> sx **)

let sErr code =
  L ((A (Zneg XH)) :: ((A code) :: []))

(** val sOk : sx -> sx **)

let sOk v =
  L ((A Z0) :: (v :: []))

(** val dZ : sx -> z **)

let dZ = function
| A z0 -> z0
| L _ -> Z0

(** val dList : (sx -> 'a1) -> sx -> 'a1 list **)

let dList f = function
| A _ -> []
| L l -> map f l

(** val dNth : sx -> nat -> sx **)

let dNth s i =
  match s with
  | A _ -> L []
  | L l -> nth i l (L [])

(** val dOpt : (sx -> 'a1) -> sx -> 'a1 option **)

let dOpt f = function
| A _ -> None
| L l -> (match l with
          | [] -> None
          | x :: _ -> Some (f x))

(** val dZs : sx -> z list **)

let dZs =
  dList dZ

(** val dZss : sx -> z list list **)

let dZss =
  dList dZs

(** val sZs : z list -> sx **)

let sZs =
  sList sZ

(** val sZss : z list list -> sx **)

let sZss =
  sList sZs

(** val lex_ltb : z list -> z list -> bool **)

let rec lex_ltb a b =
  match a with
  | [] -> (match b with
           | [] -> false
           | _ :: _ -> true)
  | x :: a' ->
    (match b with
     | [] -> false
     | y :: b' ->
       if Z.ltb x y then true else if Z.ltb y x then false else lex_ltb a' b')

(** val lex_eqb : z list -> z list -> bool **)

let rec lex_eqb a b =
  match a with
  | [] -> (match b with
           | [] -> true
           | _ :: _ -> false)
  | x :: a' ->
    (match b with
     | [] -> false
     | y :: b' -> (&&) (Z.eqb x y) (lex_eqb a' b'))

(** val insert_kv :
    z list -> 'a1 -> (z list * 'a1) list -> (z list * 'a1) list **)

let rec insert_kv k v l = match l with
| [] -> (k, v) :: []
| p :: r ->
  let (k', v') = p in
  if lex_ltb k' k then (k', v') :: (insert_kv k v r) else (k, v) :: l

(** val sort_kv : (z list * 'a1) list -> (z list * 'a1) list **)

let rec sort_kv = function
| [] -> []
| p :: r -> let (k, v) = p in insert_kv k v (sort_kv r)

(** val has_dup : z list list -> bool **)

let rec has_dup = function
| [] -> false
| x :: r -> (||) (existsb (lex_eqb x) r) (has_dup r)

(** val wsum : z list -> z list -> z **)

let rec wsum sigs ts =
  match sigs with
  | [] -> Z0
  | s :: ss ->
    (match ts with
     | [] -> Z0
     | t :: ts' -> Z.add (Z.mul s t) (wsum ss ts'))

(** val column : nat -> z list list -> z list **)

let column c charges =
  map (fun t -> nth c t Z0) charges

(** val matvec : nat -> z list list -> z list -> z list **)

let matvec nsym charges sigs =
  map (fun c -> wsum sigs (column c charges)) (seq O nsym)

(** val vscale : z -> z list -> z list **)

let vscale k v =
  map (Z.mul k) v

(** val vmod : z -> z list -> z list **)

let vmod k v =
  map (fun x -> Z.modulo x k) v

(** val vmod_at : nat -> z -> z list -> z list **)

let rec vmod_at i k = function
| [] -> []
| x :: r ->
  (match i with
   | O -> (Z.modulo x k) :: r
   | S i' -> x :: (vmod_at i' k r))

type leg_err =
| LE_signature
| LE_D
| LE_t
| LE_count
| LE_range
| LE_repeat

type 't lres =
| LOk of 't
| LErr of leg_err

type leg = { lg_s : z; lg_t : z list list; lg_D : z list }

(** val chunks : nat -> nat -> z list -> z list list **)

let rec chunks n k l =
  match k with
  | O -> []
  | S k' -> (firstn n l) :: (chunks n k' (skipn n l))

(** val all_some : z option list -> z list option **)

let rec all_some = function
| [] -> Some []
| o :: r ->
  (match o with
   | Some x ->
     (match all_some r with
      | Some r' -> Some (x :: r')
      | None -> None)
   | None -> None)

(** val leg_make :
    nat -> (z list list -> z list -> z -> z list) -> z option -> z option
    list -> z option list -> leg lres **)

let leg_make nsym fuse s t d =
  match s with
  | Some s0 ->
    if negb ((||) (Z.eqb s0 (Zpos XH)) (Z.eqb s0 (Zneg XH)))
    then LErr LE_signature
    else (match all_some d with
          | Some dz ->
            if negb (forallb (fun x -> Z.ltb Z0 x) dz)
            then LErr LE_D
            else (match all_some t with
                  | Some tz ->
                    let lD = length dz in
                    if (||) (negb (Nat.eqb (mul lD nsym) (length tz)))
                         ((&&) (Nat.eqb nsym O) (Nat.ltb (S O) lD))
                    then LErr LE_count
                    else let oldt = chunks nsym lD tz in
                         let newt =
                           map (fun c -> fuse (c :: []) (s0 :: []) s0) oldt
                         in
                         if negb
                              (forallb (fun p -> lex_eqb (fst p) (snd p))
                                (combine oldt newt))
                         then LErr LE_range
                         else if has_dup newt
                              then LErr LE_repeat
                              else let tD = sort_kv (combine newt dz) in
                                   LOk { lg_s = s0; lg_t = (map fst tD);
                                   lg_D = (map snd tD) }
                  | None -> LErr LE_t)
          | None -> LErr LE_D)
  | None -> LErr LE_signature

(** val nsym_U1 : nat **)

let nsym_U1 =
  S O

(** val fuse_U1 : z list list -> z list -> z -> z list **)

let fuse_U1 charges signatures new_signature =
  vscale new_signature (matvec nsym_U1 charges signatures)

(** val nsym_U1xU1 : nat **)

let nsym_U1xU1 =
  S (S O)

(** val fuse_U1xU1 : z list list -> z list -> z -> z list **)

let fuse_U1xU1 charges signatures new_signature =
  vscale new_signature (matvec nsym_U1xU1 charges signatures)

(** val nsym_U1xU1xZ2 : nat **)

let nsym_U1xU1xZ2 =
  S (S (S O))

(** val fuse_U1xU1xZ2 : z list list -> z list -> z -> z list **)

let fuse_U1xU1xZ2 charges signatures new_signature =
  let v_teff = vscale new_signature (matvec nsym_U1xU1xZ2 charges signatures)
  in
  vmod_at (S (S O)) (Zpos (XO XH)) v_teff

(** val nsym_Z2 : nat **)

let nsym_Z2 =
  S O

(** val fuse_Z2 : z list list -> z list -> z -> z list **)

let fuse_Z2 charges signatures new_signature =
  vmod (Zpos (XO XH))
    (vscale new_signature (matvec nsym_Z2 charges signatures))

(** val nsym_Z2xU1 : nat **)

let nsym_Z2xU1 =
  S (S O)

(** val fuse_Z2xU1 : z list list -> z list -> z -> z list **)

let fuse_Z2xU1 charges signatures new_signature =
  let v_teff = vscale new_signature (matvec nsym_Z2xU1 charges signatures) in
  vmod_at O (Zpos (XO XH)) v_teff

(** val nsym_Z3 : nat **)

let nsym_Z3 =
  S O

(** val fuse_Z3 : z list list -> z list -> z -> z list **)

let fuse_Z3 charges signatures new_signature =
  vmod (Zpos (XI XH))
    (vscale new_signature (matvec nsym_Z3 charges signatures))

(** val nsym_dense : nat **)

let nsym_dense =
  O

(** val fuse_dense : z list list -> z list -> z -> z list **)

let fuse_dense charges signatures _ =
  matvec nsym_dense charges signatures

(** val fuse_by_index : z -> z list list -> z list -> z -> z list **)

let fuse_by_index = function
| Z0 -> fuse_U1
| Zpos p ->
  (match p with
   | XI p0 ->
     (match p0 with
      | XI _ -> (fun _ _ _ -> [])
      | XO p1 -> (match p1 with
                  | XH -> fuse_Z3
                  | _ -> (fun _ _ _ -> []))
      | XH -> fuse_Z2)
   | XO p0 ->
     (match p0 with
      | XI p1 -> (match p1 with
                  | XH -> fuse_dense
                  | _ -> (fun _ _ _ -> []))
      | XO p1 -> (match p1 with
                  | XH -> fuse_Z2xU1
                  | _ -> (fun _ _ _ -> []))
      | XH -> fuse_U1xU1xZ2)
   | XH -> fuse_U1xU1)
| Zneg _ -> (fun _ _ _ -> [])

(** val nsym_by_index : z -> nat **)

let nsym_by_index = function
| Z0 -> nsym_U1
| Zpos p ->
  (match p with
   | XI p0 ->
     (match p0 with
      | XI _ -> O
      | XO p1 -> (match p1 with
                  | XH -> nsym_Z3
                  | _ -> O)
      | XH -> nsym_Z2)
   | XO p0 ->
     (match p0 with
      | XI p1 -> (match p1 with
                  | XH -> nsym_dense
                  | _ -> O)
      | XO p1 -> (match p1 with
                  | XH -> nsym_Z2xU1
                  | _ -> O)
      | XH -> nsym_U1xU1xZ2)
   | XH -> nsym_U1xU1)
| Zneg _ -> O

(** val run_fuse : sx -> sx **)

let run_fuse a =
  sZs
    (fuse_by_index (dZ (dNth a O)) (dZss (dNth a (S O)))
      (dZs (dNth a (S (S O)))) (dZ (dNth a (S (S (S O))))))

(** val leg_err_code : leg_err -> z **)

let leg_err_code = function
| LE_signature -> Zpos XH
| LE_D -> Zpos (XO XH)
| LE_t -> Zpos (XI XH)
| LE_count -> Zpos (XO (XO XH))
| LE_range -> Zpos (XI (XO XH))
| LE_repeat -> Zpos (XO (XI XH))

(** val run_leg_make : sx -> sx **)

let run_leg_make a =
  let i = dZ (dNth a O) in
  (match leg_make (nsym_by_index i) (fuse_by_index i)
           (dOpt dZ (dNth a (S O))) (dList (dOpt dZ) (dNth a (S (S O))))
           (dList (dOpt dZ) (dNth a (S (S (S O))))) with
   | LOk l -> sOk (L ((sZ l.lg_s) :: ((sZss l.lg_t) :: ((sZs l.lg_D) :: []))))
   | LErr e -> sErr (leg_err_code e))

(** val run : z -> sx -> sx **)

let run op arg =
  match op with
  | Zpos p ->
    (match p with
     | XI _ -> sErr (Zpos (XI (XI (XI (XO (XO (XI (XI (XI (XI XH))))))))))
     | XO p0 ->
       (match p0 with
        | XH -> run_leg_make arg
        | _ -> sErr (Zpos (XI (XI (XI (XO (XO (XI (XI (XI (XI XH)))))))))))
     | XH -> run_fuse arg)
  | _ -> sErr (Zpos (XI (XI (XI (XO (XO (XI (XI (XI (XI XH))))))))))

(** val run_case : sx -> sx **)

let run_case c =
  run (dZ (dNth c O)) (dNth c (S O))
