(* C10 -- TDVP conserves what it must and is exact on the full manifold.  Statements only.
   PROVED, about definitions GENERATED from yastn/tn/mps/_tdvp.py on every run:
   (a) clock (Gen/StepGen.v): for every interval longer than 1e-12 and every requested dt > 0 the number of steps is the least integer n with
       n dt > T - 1e-12, the step length tiles the interval exactly (the reported time reaches the snapshot exactly), is positive and not longer
       than dt (up to the 1e-12 slack); a 2nd order step is one sweep over the whole step evaluated at its midpoint; a 4th order step is five
       sweeps whose lengths add up to the step and each of which is evaluated at the midpoint of the sub-interval it covers; the constant of
       the 4th order scheme cancels the third-order error term; inside a sweep forward updates evolve by -u dt/2 and backward updates by
       +u dt/2 (ring identities: valid for complex u).
   (b) environments (Gen/SweepGen.v on the model Sweep/Sweep.v): in the 1-site and 2-site sweeps, for every chain length, with and without
       precompute, every local generator is built from environments that are present and computed from the current site tensors, the central
       block is never updated outside the chain, no gauge move is refused, and the sweep leaves the environment ready for the next sweep (a
       time-independent generator re-uses it for all steps).
   NOT proved (premises; validated numerically on every run): the local exponentials (C18), exactness of the projector splitting on the full
   manifold, conservation laws, convergence orders.  The mixed '12site' method is covered with the decisions of env.enlarge_bond as an
   arbitrary oracle (it reads site tensors only and refuses bonds across the ends of the chain, both checked by the translator). *)
From Coq Require Import List ZArith QArith Qabs Bool.
From Yv Require Import Gen.StepGen Tdvp.StepLaws Sweep.Sweep Gen.SweepGen Sweep.SweepBase Sweep.SweepTdvp Sweep.SweepTdvp12 Sweep.SweepTdvp12Pre.
From Yv Require Base.Deleg Gen.DelegGen.
Import ListNotations.

Theorem C10_steps t0 t1 dt : (0 < dt)%Q -> (eps < t1 - t0)%Q ->
  exists n : Z, (tdvp_steps t0 t1 dt == inject_Z n)%Q /\ (1 <= n)%Z /\
    ((inject_Z n - 1) * dt <= (t1 - t0) - eps)%Q /\ ((t1 - t0) - eps < inject_Z n * dt)%Q.
Proof. exact (steps_spec t0 t1 dt). Qed.
Theorem C10_step_length t0 t1 dt : (0 < dt)%Q -> (eps < t1 - t0)%Q -> let n := tdvp_steps t0 t1 dt in let ds := tdvp_ds t0 t1 n in
  (n * ds == t1 - t0 /\ 0 < ds /\ n * ds < n * dt + eps)%Q.
Proof. exact (ds_spec t0 t1 dt). Qed.
Theorem C10_snapshot_reached t0 t1 dt : (0 < dt)%Q -> (eps < t1 - t0)%Q ->
  forall z : Z, (tdvp_steps t0 t1 dt == inject_Z z)%Q -> (clock (tdvp_t_start t0) (tdvp_ds t0 t1 (tdvp_steps t0 t1 dt)) (Z.to_nat z) == t1)%Q.
Proof. exact (snapshot_reached t0 t1 dt). Qed.
Theorem C10_order2 t ds : (total (tdvp_order2 t ds) == ds)%Q /\ midpoints t (tdvp_order2 t ds).
Proof. exact (order2_tiles t ds). Qed.
Theorem C10_order4 t ds s2 : (total (tdvp_order4 t ds s2) == ds)%Q /\ midpoints t (tdvp_order4 t ds s2).
Proof. exact (order4_tiles t ds s2). Qed.
Theorem C10_s2 : (Qabs (4 * tdvp_s2 * tdvp_s2 * tdvp_s2 + (1 - 4 * tdvp_s2) * (1 - 4 * tdvp_s2) * (1 - 4 * tdvp_s2)) < 1 # 1000000000000000)%Q.
Proof. exact s2_cancels_third_order. Qed.
Theorem C10_half_steps u dt :
  (tdvp1_forward u dt == - (u * dt) / 2 /\ tdvp1_backward u dt == (u * dt) / 2 /\ tdvp1_forward u dt + tdvp1_backward u dt == 0 /\
   tdvp2_forward u dt == - (u * dt) / 2 /\ tdvp2_backward u dt == (u * dt) / 2 /\ tdvp2_forward u dt + tdvp2_backward u dt == 0 /\
   tdvp1_forward u dt + tdvp1_forward u dt == - (u * dt))%Q.
Proof. exact (half_steps u dt). Qed.

Open Scope Z_scope.
Theorem C10_sweep_1site N s : 1 <= N -> P N 0 0 s -> P N (-1) (-1) (run_sweep false N tdvp_1site_passes tdvp_1site_body tdvp_1site_final s).
Proof. exact (tdvp_1site_sweep N s). Qed.
Theorem C10_sweep_1site_precompute N s : 1 <= N -> PC N 0 0 0 0 s -> PC N (-1) (-1) (-1) (-1) (run_sweep true N tdvp_1site_passes tdvp_1site_body tdvp_1site_final s).
Proof. exact (tdvp_1site_sweep_pre N s). Qed.
Theorem C10_sweep_2site N s : 2 <= N -> P N 0 1 s -> P N (-1) (-1) (run_sweep false N tdvp_2site_passes tdvp_2site_body tdvp_2site_final s).
Proof. exact (tdvp_2site_sweep N s). Qed.
Theorem C10_sweep_2site_precompute N s : 2 <= N -> PC N 0 1 0 1 s -> PC N (-1) (-1) (-1) 0 (run_sweep true N tdvp_2site_passes tdvp_2site_body tdvp_2site_final s).
Proof. exact (tdvp_2site_sweep_pre N s). Qed.
(* the mixed method: for every chain length and EVERY sequence of decisions of env.enlarge_bond (an arbitrary oracle per site and pass) *)
Theorem C10_sweep_12site N orcL orcF s : 1 <= N -> P N 0 0 s -> P N (-1) (-1) (sweep12 false N orcL orcF s).
Proof. exact (tdvp_12site_sweep N orcL orcF s). Qed.
Theorem C10_sweep_12site_precompute N orcL orcF s : 1 <= N -> PC N 0 0 0 0 s -> PC N (-1) (-1) (-1) (-1) (sweep12 true N orcL orcF s).
Proof. exact (tdvp_12site_sweep_pre N orcL orcF s). Qed.
Theorem C10_sweep_12site_is_its_operations pre N orcL orcF s : sweep12 pre N orcL orcF s = run_ops pre N (sweep12_ops N orcL orcF) s.
Proof. exact (sweep12_is_run_ops pre N orcL orcF s). Qed.

Theorem C10_all_reads_fresh N ms : 2 <= N ->
  ok (fold_left (fun s m => tdvp_sweep false N m s) ms (ready_state N)) = true /\ ok (fold_left (fun s m => tdvp_sweep true N m s) ms (ready_state N)) = true.
Proof. exact (tdvp_all_reads_fresh N ms). Qed.

Example C10_nonvacuous :
  (exists n : Z, (tdvp_steps 0 1 (3 # 10) == inject_Z n)%Q /\ n = 4) /\
  ok (fold_left (fun s m => tdvp_sweep true 4 m s) [T1; T2; T1] (ready_state 4)) = true /\
  (* swapping the order of environment refresh and centre update in the 1-site body is caught by the model *)
  ok (run_ops false 3 [OHeff1 0; OWrite1 0; OOrth 0 ToLast; OHeff0] (ready_state 3)) = false.
Proof. split; [exists 4; split; [vm_compute; reflexivity|reflexivity]|]. vm_compute. split; reflexivity. Qed.

(* --- options are handed down under their own names (facts regenerated from the source on every run by tools/translate/tr_deleg.py): tdvp_ and its sweeps pass normalize / subtract_E / precompute / opts_* on to every local update under their own names (dt is the sub-step: allowed, see StepGen) --- *)
Theorem C10_options_forwarded :
  Deleg.deleg_ok Deleg.pre_tdvp DelegGen.delegations DelegGen.allowed = true /\ Nat.ltb 0 (Deleg.n_facts Deleg.pre_tdvp DelegGen.delegations) = true.
Proof. split; vm_compute; reflexivity. Qed.

Print Assumptions C10_steps.
Print Assumptions C10_step_length.
Print Assumptions C10_snapshot_reached.
Print Assumptions C10_order2.
Print Assumptions C10_order4.
Print Assumptions C10_s2.
Print Assumptions C10_half_steps.
Print Assumptions C10_sweep_1site.
Print Assumptions C10_sweep_1site_precompute.
Print Assumptions C10_sweep_2site.
Print Assumptions C10_sweep_2site_precompute.
Print Assumptions C10_sweep_12site.
Print Assumptions C10_sweep_12site_precompute.
Print Assumptions C10_sweep_12site_is_its_operations.
Print Assumptions C10_all_reads_fresh.
Print Assumptions C10_options_forwarded.
