(* C11 -- PEPS gates and their application act exactly as the dense operators.  Statements only.
   PROVED, about the closed forms TRANSLATED from yastn/tn/fpeps/gates.py (Gen/GatesGen.v): the operators of gate_nn_hopping, gate_nn_Ising,
   gate_local_field, gate_local_occupation and gate_local_Coulomb denote, in the Jordan-Wigner convention of fkron, exactly the generator K of
   the gate and its square / the identity / orthogonal projectors, with coefficient kinds 1, cosh x - 1, sinh x, cosh x, -sinh x, e^x - 1 and
   the arguments x = t step, J step, h step, mu step, step (mu + U/2), ...; and for EVERY commutative coefficient ring, EVERY coefficient
   sequence a_k (a_k = x^k / k! gives the exponential) and EVERY truncation order n the closed form equals sum_{k <= n} a_k K^k term by term,
   because K^3 = K (hopping), K^2 = I (Ising, field), K^2 = K (occupation).  So the closed forms are the exponentials for all parameter
   values, real or complex.
   NOT proved (validated numerically on every run): gate_nn_exp / gate_local_exp (eigh), Heisenberg and t-J gates, the SVD splitting,
   apply_gate_ on a PEPS (swap gates by bond orientation, ancillas, MPO gates), two-layer contractions, sums of PEPS. *)
From Coq Require Import List String ZArith Bool Ring.
From Yv Require Import Gates.Series Gates.JW2 Gates.GateLang Gen.GatesGen Gates.GateSpec.
Import ListNotations.

Theorem C11_hopping_form : denote_form 0 gate_nn_hopping_form = [(CfOne, I4); (CfCoshM1 x_ts, hop_P); (CfSinh x_ts, hop_K)].
Proof. exact hopping_form_denotes. Qed.
Theorem C11_ising_form : denote_form 1 gate_nn_Ising_form = [(CfCosh x_Js, I4); (CfNegSinh x_Js, ising_K)].
Proof. exact ising_form_denotes. Qed.
Theorem C11_field_form : denote_form 1 gate_local_field_form = [(CfCosh x_hs, m_I); (CfSinh x_hs, m_X)].
Proof. exact field_form_denotes. Qed.
Theorem C11_occupation_form : denote_form 0 gate_local_occupation_form = [(CfOne, m_I); (CfExpM1 x_ms, m_n)].
Proof. exact occupation_form_denotes. Qed.
Theorem C11_coulomb_form : denote_form 2 gate_local_Coulomb_form = [(CfOne, I4); (CfExpM1 x_d, P_d); (CfExpM1 x_u, P_u); (CfExpM1 x_ud, P_ud)].
Proof. exact coulomb_form_denotes. Qed.

Section AnyRing.
Variable R : Type.
Variables (r0 r1 : R) (radd rmul rsub : R -> R -> R) (ropp : R -> R).
Hypothesis Rth : ring_theory r0 r1 radd rmul rsub ropp (@eq R).
Theorem C11_hopping_series a n :
  meq R 4 (psum R r0 r1 radd rmul 4 a (lift R r0 r1 radd rmul ropp (fn hop_K)) n) (form_sum R r0 r1 radd rmul ropp 4 (denote_form 0 gate_nn_hopping_form) a n).
Proof. exact (hopping_closed_form R r0 r1 radd rmul rsub ropp Rth a n). Qed.
Theorem C11_ising_series a n :
  meq R 4 (psum R r0 r1 radd rmul 4 a (lift R r0 r1 radd rmul ropp (fn ising_K)) n) (form_sum R r0 r1 radd rmul ropp 4 (denote_form 1 gate_nn_Ising_form) a n).
Proof. exact (ising_closed_form R r0 r1 radd rmul rsub ropp Rth a n). Qed.
Theorem C11_field_series a n :
  meq R 2 (psum R r0 r1 radd rmul 2 a (lift R r0 r1 radd rmul ropp (fn m_X)) n) (form_sum R r0 r1 radd rmul ropp 2 (denote_form 1 gate_local_field_form) a n).
Proof. exact (field_closed_form R r0 r1 radd rmul rsub ropp Rth a n). Qed.
Theorem C11_occupation_series a n :
  meq R 2 (psum R r0 r1 radd rmul 2 a (lift R r0 r1 radd rmul ropp (fn m_n)) n) (form_sum R r0 r1 radd rmul ropp 2 (denote_form 0 gate_local_occupation_form) a n).
Proof. exact (occupation_closed_form R r0 r1 radd rmul rsub ropp Rth a n). Qed.
End AnyRing.

Theorem C11_coulomb_projectors :
  lmul P_d P_d = P_d /\ lmul P_u P_u = P_u /\ lmul P_ud P_ud = P_ud /\
  lmul P_d P_u = lmul P_u P_d /\ lmul P_d P_ud = lmul P_ud P_d /\ lmul P_u P_ud = lmul P_ud P_u /\
  lmul P_d P_u = [[0;0;0;0];[0;0;0;0];[0;0;0;0];[0;0;0;0]]%Z /\ lmul P_d P_ud = lmul P_d P_u /\ lmul P_u P_ud = lmul P_d P_u /\
  fst (denote 2 (OpName "n_up")) = ladd P_u P_ud /\ fst (denote 2 (OpName "n_dn")) = ladd P_d P_ud.
Proof. exact coulomb_projectors. Qed.

(* the collapsed series is not a tautology: for a generator with K^3 <> K the closed form fails already at second order *)
Example C11_nonvacuous :
  Zmmul 4 (Zmmul 4 (fn hop_K) (fn hop_K)) (fn hop_K) 1%nat 2%nat = fn hop_K 1%nat 2%nat /\ fn hop_K 1%nat 2%nat = 1%Z /\
  zeqb 2 (Zmmul 2 (fn m_c) (fn m_c)) (fn m_c) = false.
Proof. vm_compute. repeat split; reflexivity. Qed.

Print Assumptions C11_hopping_form.
Print Assumptions C11_ising_form.
Print Assumptions C11_field_form.
Print Assumptions C11_occupation_form.
Print Assumptions C11_coulomb_form.
Print Assumptions C11_hopping_series.
Print Assumptions C11_ising_series.
Print Assumptions C11_field_series.
Print Assumptions C11_occupation_series.
Print Assumptions C11_coulomb_projectors.
