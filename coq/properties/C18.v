(* C18 -- Krylov solvers agree with dense matrix functions.  Statements only.
   PROVED
   (a) exact time keeping of expmv, on the controller arithmetic GENERATED from yastn/krylov/_krylov.py, for every sequence of numerical
       verdicts (error estimates, proposed steps, breakdowns): the clock never overshoots, every applied sub-step is positive and fits into the
       remaining interval, a rejected pass leaves the clock untouched, a happy breakdown finishes in that pass with exactly the remaining
       interval, and once the loop has stopped the applied sub-steps add up to |t| -- with the sign factor to t -- so the composition
       exp(tau_1 F) ... exp(tau_k F) is exp(t F); the Krylov size stays in [1, ncv_max].
   (b) the index bookkeeping of expand_krylov_space (Arnoldi and Lanczos, fresh and re-entered after a rejected pass): no missing entry is
       read, the projected matrix has exactly the Hessenberg / tridiagonal pattern of m = (len V if happy else len V - 1) columns, the
       sub-diagonal entry expmv pops exists, a rejected pass restores the entry set; eigs / lin_solver use that m, keep m vectors (all of
       them on a breakdown) and build a least-squares problem of matching shape.
   (c) over an ARBITRARY commutative ring: if the Krylov space is invariant, every eigenpair of the projected matrix lifts to an eigenpair
       of the map (eigs is exact after a happy breakdown); otherwise the Ritz pair misses by exactly (y.e) r, the residual direction.
   NOT proved (premises; validated numerically on every run): floating-point Arnoldi/Lanczos orthogonality, expm of the small matrix and the
   Niesen-Wright error estimate, variational bounds, pseudo-inverse; exp(a F) exp(b F) = exp((a+b) F). *)
From Coq Require Import List ZArith QArith Qabs Bool Ring.
From Yv Require Import Gen.KrylovGen Krylov.ExpmvCtl Krylov.ExpmvLaws Krylov.Arnoldi Krylov.ArnoldiLaws Krylov.RitzLift.
Import ListNotations.

Theorem C18_clock_invariant t ds : Inv (expmv_t_out0 t) (run (expmv_t_out0 t) (init t) ds).
Proof. exact (expmv_inv t ds). Qed.

Theorem C18_exact_time t ds : let s := run (expmv_t_out0 t) (init t) ds in
  finished (expmv_t_out0 t) s = true ->
  (t_now s == Qabs t /\ qsum (accepted s) == Qabs t /\ expmv_sgn t (expmv_t_out0 t) * qsum (accepted s) == t)%Q.
Proof. exact (expmv_exact_time t ds). Qed.

Theorem C18_happy_finishes t_out s d : Inv t_out s -> expmv_continue (t_now s) t_out = true -> happy d = true ->
  (t_now (pass t_out s d) == t_out)%Q /\ finished t_out (pass t_out s d) = true /\
  exists a, accepted (pass t_out s d) = a :: accepted s /\ (a == t_out - t_now s)%Q.
Proof. exact (happy_finishes t_out s d). Qed.

Theorem C18_accepted_fits t_out s d : Inv t_out s -> expmv_continue (t_now s) t_out = true ->
  forall a, accepted (pass t_out s d) = a :: accepted s -> (0 < a /\ t_now s + a <= t_out /\ t_now (pass t_out s d) == t_now s + a)%Q.
Proof. exact (accepted_fits t_out s d). Qed.

Theorem C18_rejected_keeps_time t_out s d : happy d = false -> expmv_accept (omega d) expmv_delta = false ->
  t_now (pass t_out s d) = t_now s /\ accepted (pass t_out s d) = accepted s.
Proof. exact (rejected_keeps_time t_out s d). Qed.

Theorem C18_ncv_range ncv_max m ncv_new : (1 <= ncv_max)%Q ->
  (1 <= expmv_ncv_next ncv_max m ncv_new /\ expmv_ncv_next ncv_max m ncv_new <= ncv_max)%Q /\ exists z : Z, expmv_ncv_next ncv_max m ncv_new = inject_Z z.
Proof. intro H. destruct (ncv_next_range ncv_max m ncv_new H) as (A & B & C). exact (conj (conj A B) C). Qed.

Theorem C18_ncv0_range ncv vsize : (1 <= expmv_ncv0 ncv /\ expmv_ncv0 ncv <= expmv_ncv_max (expmv_ncv0 ncv) vsize)%Q.
Proof. exact (ncv0_range ncv vsize). Qed.
Theorem C18_ncv_max_grows ncv_max supp : (ncv_max <= expmv_ncv_max_grow ncv_max supp)%Q.
Proof. exact (ncv_max_grows ncv_max supp). Qed.

Theorem C18_dims_expmv lenV : expmv_m_happy lenV = krylov_m true lenV /\ expmv_m_unhappy lenV = krylov_m false lenV.
Proof. exact (expmv_m_spec lenV). Qed.
Theorem C18_dims_eigs happy lenV supp : (1 <= lenV)%Q -> let m := eigs_m_cap (eigs_m happy lenV) supp in
  eigs_m happy lenV = krylov_m happy lenV /\ eigs_kept m = eigs_T_dim m /\ (eigs_kept m <= lenV)%Q /\ (eigs_kept m <= supp)%Q
  /\ (happy = true -> (lenV <= supp)%Q -> (eigs_kept m == lenV)%Q).
Proof. exact (eigs_dims happy lenV supp). Qed.
Theorem C18_dims_lin_solver happy lenV supp : (1 <= lenV)%Q -> let m := lin_solver_m_cap (lin_solver_m happy lenV) supp in
  lin_solver_m happy lenV = krylov_m happy lenV /\ (lin_solver_T_rows m == lin_solver_rhs_len m)%Q /\ (lin_solver_T_cols m == lin_solver_kept m)%Q
  /\ (lin_solver_T_rows m <= lin_solver_T_dim m)%Q /\ (lin_solver_T_cols m <= lin_solver_T_dim m)%Q
  /\ (lin_solver_kept m <= lenV)%Q /\ (lin_solver_kept m <= supp)%Q /\ (happy = true -> (lenV <= supp)%Q -> (lin_solver_kept m == lenV)%Q).
Proof. exact (lin_solver_dims happy lenV supp). Qed.

Theorem C18_expand_krylov ncv hermitian brk lenV0 ks0 : (1 <= lenV0)%Z -> (forall k, has k ks0 = pattern hermitian (lenV0 - 1) k) ->
  let r := expand_krylov ncv hermitian brk lenV0 ks0 in
  missing r = false /\ (lenV0 <= lenV r)%Z /\ (lenV r <= Z.max lenV0 (ncv + 1))%Z /\
  (forall k, has k (keys r) = pattern hermitian (krylov_dim (happyR r) (lenV r)) k && negb (happyR r && (fst k =? lenV r)%Z)) /\
  (happyR r = true -> brk (lenV r - 1)%Z = true) /\ (happyR r = false -> lenV r = Z.max lenV0 (ncv + 1)).
Proof. exact (expand_krylov_spec ncv hermitian brk lenV0 ks0). Qed.
Theorem C18_subdiagonal_present hermitian n ks : (2 <= n)%Z -> (forall k, has k ks = pattern hermitian (n - 1) k) ->
  has (n - 1, n - 2)%Z ks = true /\ forall k, has k (del (n - 1, n - 2)%Z ks) = pattern hermitian (n - 1) k && negb (fst k =? n - 1)%Z.
Proof. exact (unhappy_subdiagonal_present hermitian n ks). Qed.
Theorem C18_reject_restores hermitian n ks : (2 <= n)%Z -> (forall k, has k ks = pattern hermitian (n - 1) k) ->
  forall k, has k (put (n - 1, n - 2)%Z (del (0, n - 1)%Z (put (0, n - 1)%Z (del (n - 1, n - 2)%Z ks)))) = pattern hermitian (n - 1) k.
Proof. exact (reject_restores hermitian n ks). Qed.

Theorem C18_ritz_exact (R : Type) (r0 r1 : R) (radd rmul rsub : R -> R -> R) (ropp : R -> R)
  (Rth : ring_theory r0 r1 radd rmul rsub ropp (@eq R)) n m (Qm F H : list (list R)) (y : list R) (lam : R) :
  length Qm = m -> width_ok R n Qm -> length F = n -> width_ok R n F -> length H = m -> width_ok R m H -> length y = m ->
  matmul R r0 radd rmul n Qm F = matmul R r0 radd rmul n H Qm ->
  vecmat R r0 radd rmul m y H = vscale R rmul lam y ->
  vecmat R r0 radd rmul n (vecmat R r0 radd rmul n y Qm) F = vscale R rmul lam (vecmat R r0 radd rmul n y Qm).
Proof. exact (ritz_pair_exact R r0 r1 radd rmul rsub ropp Rth n m Qm F H y lam). Qed.
Theorem C18_ritz_residual (R : Type) (r0 r1 : R) (radd rmul rsub : R -> R -> R) (ropp : R -> R)
  (Rth : ring_theory r0 r1 radd rmul rsub ropp (@eq R)) n m (Qm F H : list (list R)) (y e r : list R) (lam : R) :
  length Qm = m -> width_ok R n Qm -> length F = n -> width_ok R n F -> length H = m -> width_ok R m H -> length y = m ->
  length e = m -> length r = n ->
  matmul R r0 radd rmul n Qm F = madd R radd (matmul R r0 radd rmul n H Qm) (outer R rmul e r) ->
  vecmat R r0 radd rmul m y H = vscale R rmul lam y ->
  vecmat R r0 radd rmul n (vecmat R r0 radd rmul n y Qm) F =
  vadd R radd (vscale R rmul lam (vecmat R r0 radd rmul n y Qm)) (vscale R rmul (dot R r0 radd rmul y e) r).
Proof. exact (ritz_pair_residual R r0 r1 radd rmul rsub ropp Rth n m Qm F H y e r lam). Qed.

(* non-vacuity: a run with a rejected pass, an accepted sub-step and a final breakdown; an invariant 2-dimensional Krylov space over Z *)
Example C18_nonvacuous :
  (let s := run (expmv_t_out0 (-3#1)) (init (-3#1))
      [ {| happy := false; omega := 5#1; tau_new := 1#1 |}; {| happy := false; omega := 1#2; tau_new := 3#1 |}; {| happy := true; omega := 0; tau_new := 0 |} ] in
   finished 3 s = true /\ Qred (t_now s) = 3%Q /\ map Qred (accepted s) = [2#1; 1#1]%Q) /\
  (let r := expand_krylov 3 true (fun j => (j =? 1)%Z) 1 [] in lenV r = 2%Z /\ happyR r = true /\ missing r = false) /\
  (let Qm := [[1; 0; 0]; [0; 1; 0]]%Z in let F := [[2; 1; 0]; [1; 2; 0]; [0; 0; 5]]%Z in let H := [[2; 1]; [1; 2]]%Z in
   matmul Z 0%Z Z.add Z.mul 3 Qm F = matmul Z 0%Z Z.add Z.mul 3 H Qm /\ vecmat Z 0%Z Z.add Z.mul 2 [1; 1]%Z H = vscale Z Z.mul 3%Z [1; 1]%Z).
Proof. vm_compute. repeat split; reflexivity. Qed.

Print Assumptions C18_clock_invariant.
Print Assumptions C18_exact_time.
Print Assumptions C18_happy_finishes.
Print Assumptions C18_accepted_fits.
Print Assumptions C18_rejected_keeps_time.
Print Assumptions C18_ncv_range.
Print Assumptions C18_ncv0_range.
Print Assumptions C18_ncv_max_grows.
Print Assumptions C18_dims_expmv.
Print Assumptions C18_dims_eigs.
Print Assumptions C18_dims_lin_solver.
Print Assumptions C18_expand_krylov.
Print Assumptions C18_subdiagonal_present.
Print Assumptions C18_reject_restores.
Print Assumptions C18_ritz_exact.
Print Assumptions C18_ritz_residual.
