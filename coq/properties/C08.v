(* C08 -- Canonical forms preserve the state; truncation is honest.  Statements only.
   PROVED: (i) the gauge bookkeeping -- for every chain length and direction canonize_ never gets stuck, there is at most one central block and it
   is absorbed before the next orthogonalisation (a second orthogonalisation is refused), and after canonize_(to='last') every site carries the
   left-canonical flag (the mirror statement for to='first' is covered by the trace correspondence); (ii) the composition of discarded weights:
   the number returned by truncate_ is 1 - prod_i (1 - d_i) of the local relative weights, lies in [0, 1], and is 0 iff nothing is discarded.
   (iii) state preservation by gauge moves (Mps/Gauge.v, any commutative ring): if the matrices of a site factor as A[s] = Q[s].R (resp. B[s] = L.Q[s])
   -- the PREMISE delivered by the blockwise QR, validated numerically on every real move -- then replacing (A, B) by (Q, R.B) (resp. (A.L, Q)) anywhere
   in a chain leaves the amplitude of EVERY configuration unchanged, and so does every finite sequence of such moves (canonize_ in either direction,
   any number of times); a central block left on a bond is equivalent to its absorption into either neighbour (tied exactly to absorb_central_).
   NOT proved (premises: QR/SVD per block; validated numerically): isometries, Schmidt values and entropies vs the dense
   state, equality of the reported number with the true relative distance. *)
From Coq Require Import List ZArith QArith.
From Coq Require Import Ring InitialRing.
From Yv Require Import Mps.Canon Mps.CanonLaws.
From Yv Require Base.Deleg Gen.DelegGen.
From Yv Require Mps.Gauge.
Import ListNotations.

Theorem C08_never_stuck st to : exists st', canonize st to = Some st' /\ pC st' = None /\ N st' = N st.
Proof. exact (canonize_total st to). Qed.

Theorem C08_one_center st n to st' m to' : orth st n to = Some st' -> orth st' m to' = None.
Proof. exact (one_center_only st n to st' m to'). Qed.

Theorem C08_flags_to_last st : length (flags st) = Z.to_nat (N st) ->
  exists st', canonize st ToLast = Some st' /\ pC st' = None /\ forall i, (i < Z.to_nat (N st))%nat -> nth i (flags st') FNone = FLeft.
Proof. exact (canonize_to_last_all_left st). Qed.

Theorem C08_discard_compose ds : (total_discarded2 ds == 1 - kept_product ds)%Q.
Proof. exact (total_discarded2_is_one_minus_product ds). Qed.

Theorem C08_discard_range ds : Forall (fun d => 0 <= d <= 1)%Q ds -> (0 <= total_discarded2 ds <= 1)%Q.
Proof. exact (total_discarded2_range ds). Qed.

Theorem C08_discard_zero ds : Forall (fun d => d == 0)%Q ds -> (total_discarded2 ds == 0)%Q.
Proof. exact (total_discarded2_zero ds). Qed.

Example C08_nonvacuous :
  (total_discarded2 [1#4; 1#2; 0] == 5#8)%Q /\
  exists st', canonize {| N := 3; pC := Some (1, 2)%Z; flags := [FNone; FNone; FNone] |} ToLast = Some st' /\ flags st' = [FLeft; FLeft; FLeft].
Proof. split; [reflexivity|]. eexists. split; vm_compute; reflexivity. Qed.

(* --- gauge moves preserve the represented state --- *)
Section GaugeMoves.
Variable R : Type.
Variables (r0 r1 : R) (radd rmul rsub : R -> R -> R) (ropp : R -> R).
Hypothesis Rth : ring_theory r0 r1 radd rmul rsub ropp (@eq R).
Notation prop := (Gauge.prop R r0 radd rmul).
Notation msite := (Gauge.msite R).

Theorem C08_move_right dl u (sA sB sQ : msite) Rm s1 s2 j : Gauge.factors_right R r0 radd rmul (Gauge.dr R sQ) sA sQ Rm ->
  prop dl u [sA; sB] [s1; s2] j = prop dl u [sQ; Gauge.absorb_right R r0 radd rmul sB Rm (Gauge.dr R sA)] [s1; s2] j.
Proof. exact (Gauge.move_right R r0 r1 radd rmul rsub ropp Rth dl u sA sB sQ Rm s1 s2 j). Qed.

Theorem C08_move_left dl u (sA sB sQ : msite) Lm dm s1 s2 j : Gauge.dr R sQ = Gauge.dr R sB -> Gauge.factors_left R r0 radd rmul dm sB sQ Lm ->
  prop dl u [sA; sB] [s1; s2] j = prop dl u [Gauge.absorb_left R r0 radd rmul sA Lm dm; sQ] [s1; s2] j.
Proof. exact (Gauge.move_left R r0 r1 radd rmul rsub ropp Rth dl u sA sB sQ Lm dm s1 s2 j). Qed.

(* every finite sequence of moves anywhere in a chain of any length: every amplitude is unchanged *)
Theorem C08_gauge_moves_preserve_state (c c' : list msite) : Gauge.gauge_steps R r0 radd rmul c c' ->
  forall dl u sigma, length sigma = length c -> forall j, prop dl u c sigma j = prop dl u c' sigma j.
Proof. exact (Gauge.gauge_steps_preserve R r0 r1 radd rmul rsub ropp Rth c c'). Qed.

Theorem C08_central_block dl u (sA sB : msite) C dc s1 s2 z j :
  prop dl u [sA; Gauge.csite R dc C; sB] [s1; z; s2] j = prop dl u [sA; Gauge.absorb_right R r0 radd rmul sB C dc] [s1; s2] j /\
  prop dl u [sA; Gauge.csite R dc C; sB] [s1; z; s2] j = prop dl u [Gauge.absorb_left R r0 radd rmul sA C dc; sB] [s1; s2] j.
Proof. split; [exact (Gauge.center_right R r0 r1 radd rmul rsub ropp Rth dl u sA sB C dc s1 s2 z j)
              | exact (Gauge.center_left R r0 r1 radd rmul rsub ropp Rth dl u sA sB C dc s1 s2 z j)]. Qed.
End GaugeMoves.

(* a concrete move over Z: A[s] = Q[s].R with R = [[1 2][0 1]] *)
Example C08_gauge_nonvacuous :
  let Rm := fun i j : nat => match i, j with 0%nat, 0%nat => 1 | 0%nat, 1%nat => 2 | 1%nat, 1%nat => 1 | _, _ => 0 end%Z in
  let sQ := {| Gauge.dr := 2; Gauge.Mt := fun s i j => Z.of_nat (1 + s + 2 * i + j) |} in
  let sA := {| Gauge.dr := 2; Gauge.Mt := fun s => Gauge.mm Z 0%Z Z.add Z.mul 2 (Gauge.Mt Z sQ s) Rm |} in
  let sB := {| Gauge.dr := 1; Gauge.Mt := fun s i j => Z.of_nat (3 + s * i) |} in
  Gauge.factors_right Z 0%Z Z.add Z.mul 2 sA sQ Rm /\
  Gauge.prop Z 0%Z Z.add Z.mul 1 (fun k => if Nat.eqb k 0 then 1%Z else 0%Z) [sA; sB] [1%nat; 0%nat] 0%nat = 27%Z.
Proof. split; [intros s i j; reflexivity | vm_compute; reflexivity]. Qed.

(* --- options are handed down under their own names (facts regenerated from the source on every run by tools/translate/tr_deleg.py): canonize_ / truncate_ pass to and normalize on to orthogonalize_site_ / diagonalize_central_ / absorb_central_ under their own names --- *)
Theorem C08_options_forwarded :
  Deleg.deleg_ok Deleg.pre_mps_obc DelegGen.delegations DelegGen.allowed = true /\ Nat.ltb 0 (Deleg.n_facts Deleg.pre_mps_obc DelegGen.delegations) = true.
Proof. split; vm_compute; reflexivity. Qed.

Print Assumptions C08_never_stuck.
Print Assumptions C08_move_right.
Print Assumptions C08_move_left.
Print Assumptions C08_gauge_moves_preserve_state.
Print Assumptions C08_central_block.
Print Assumptions C08_one_center.
Print Assumptions C08_flags_to_last.
Print Assumptions C08_discard_compose.
Print Assumptions C08_discard_range.
Print Assumptions C08_discard_zero.
Print Assumptions C08_options_forwarded.
