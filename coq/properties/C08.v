(* C08 -- Canonical forms preserve the state; truncation is honest.  Statements only.
   PROVED: (i) the gauge bookkeeping -- for every chain length and direction canonize_ never gets stuck, there is at most one central block and it
   is absorbed before the next orthogonalisation (a second orthogonalisation is refused), and after canonize_(to='last') every site carries the
   left-canonical flag (the mirror statement for to='first' is covered by the trace correspondence); (ii) the composition of discarded weights:
   the number returned by truncate_ is 1 - prod_i (1 - d_i) of the local relative weights, lies in [0, 1], and is 0 iff nothing is discarded.
   NOT proved (premises: QR/SVD per block; validated numerically): state preservation, isometries, Schmidt values and entropies vs the dense
   state, equality of the reported number with the true relative distance. *)
From Coq Require Import List ZArith QArith.
From Yv Require Import Mps.Canon Mps.CanonLaws.
Import ListNotations.

Theorem C08_never_stuck st to : exists st', canonize st to = Some st' /\ pC st' = None /\ N st' = N st.
Proof. exact (canonize_total st to). Qed.

Theorem C08_one_center st n to st' m to' : orth st n to = Some st' -> orth st' m to' = None.
Proof. exact (one_center_only st n to st' m to'). Qed.

Theorem C08_flags_to_last st : length (flags st) = Z.to_nat (N st) ->
  exists st', canonize st ToLast = Some st' /\ pC st' = None /\ forall i, (i < Z.to_nat (N st))%nat -> nth i (flags st') FNone = FLeft.
Proof. exact (canonize_to_last_all_left st). Qed.

Theorem C08_discard_compose ds : (total_discarded2 ds == 1 - kept_product ds)%Q.
Proof. exact (total_discarded2_is_one_minus_product ds). Qed.

Theorem C08_discard_range ds : Forall (fun d => 0 <= d <= 1)%Q ds -> (0 <= total_discarded2 ds <= 1)%Q.
Proof. exact (total_discarded2_range ds). Qed.

Theorem C08_discard_zero ds : Forall (fun d => d == 0)%Q ds -> (total_discarded2 ds == 0)%Q.
Proof. exact (total_discarded2_zero ds). Qed.

Example C08_nonvacuous :
  (total_discarded2 [1#4; 1#2; 0] == 5#8)%Q /\
  exists st', canonize {| N := 3; pC := Some (1, 2)%Z; flags := [FNone; FNone; FNone] |} ToLast = Some st' /\ flags st' = [FLeft; FLeft; FLeft].
Proof. split; [reflexivity|]. eexists. split; vm_compute; reflexivity. Qed.

Print Assumptions C08_never_stuck.
Print Assumptions C08_one_center.
Print Assumptions C08_flags_to_last.
Print Assumptions C08_discard_compose.
Print Assumptions C08_discard_range.
Print Assumptions C08_discard_zero.
