(* C15 -- Operations never modify their operands; copies are independent.  Statements only.
   Heap model: values = (structure, location); operations are Alias (may share, never write), Fresh (new location),
   Copy, or the documented in-place API (SetItem writes through the receiver's location, Rebind gives the receiver
   fresh storage).  The classification of each public operation and "non-in-place operations perform no write to
   existing storage" are validated on the real code by per-call byte snapshots (tools/checks/C15.py). *)
From Coq Require Import List ZArith Bool Arith.
From Yv Require Import Heap.Heap Heap.Frame.
Import ListNotations.

(* for ALL finite sequences of non-in-place operations and ALL initial heaps: every object that existed before has the
   same observable value (structure and data) afterwards -- even when results share its storage *)
Theorem C15_frame (ops : list op) st : forallb (fun o => negb (in_place o)) ops = true -> env_ok st ->
  forall i, i < length (snd st) -> obs (run st ops) i = obs st i.
Proof. exact (frame ops st). Qed.

(* after b = copy(a): any sequence of in-place element writes through a leaves b unchanged, and vice versa *)
Theorem C15_copy_independent st a (writes : list (nat * Z)) : env_ok st -> a < length (snd st) ->
  let st1 := step st (OCopy a) in
  let b := length (snd st) in
  obs (run st1 (map (fun w => OSetItem a (fst w) (snd w)) writes)) b = obs st1 b /\
  obs (run st1 (map (fun w => OSetItem b (fst w) (snd w)) writes)) a = obs st1 a.
Proof. exact (copy_independent st a writes). Qed.

(* an in-place element write changes only objects that share the receiver's storage *)
Theorem C15_inplace_only_receiver st r i x j v : env_ok st ->
  nth_error (snd st) j = Some v ->
  (forall w, nth_error (snd st) r = Some w -> tv_loc w <> tv_loc v) ->
  obs (step st (OSetItem r i x)) j = obs st j.
Proof. exact (inplace_only_receiver st r i x j v). Qed.

Example C15_nonvacuous :
  let st0 : heap * env := ([[1; 2; 3]%Z], [{| tv_struct := [7%Z]; tv_loc := 0 |}]) in
  let st1 := run st0 [OAlias 0 [8%Z]; OFresh [0; 1] [9%Z] (fun ds => concat ds); OCopy 0] in
  env_ok st0 /\ obs st1 0 = obs st0 0 /\ obs st1 2 = Some ([9%Z], [1; 2; 3; 1; 2; 3]%Z) /\
  obs (step st1 (OSetItem 0 1 50%Z)) 1 = Some ([8%Z], [1; 50; 3]%Z) /\ obs (step st1 (OSetItem 0 1 50%Z)) 3 = Some ([7%Z], [1; 2; 3]%Z).
Proof.
  simpl. repeat split; try reflexivity.
  intros i v H. destruct i as [|[|i]]; simpl in H; inversion H; subst; simpl; auto.
Qed.

Print Assumptions C15_frame.
Print Assumptions C15_copy_independent.
Print Assumptions C15_inplace_only_receiver.
