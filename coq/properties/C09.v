(* C09 -- DMRG is variational and self-consistent.  Statements only.
   PROVED, about the sweep programs GENERATED from yastn/tn/mps/_dmrg.py (Gen/SweepGen.v) run on the hand-written bookkeeping model of the
   environment dictionary (Sweep/Sweep.v), for EVERY chain length N >= 2 (1-site sweeps: N >= 1), with and without precompute:
     - in a 1-site and in a 2-site sweep every application of the effective Hamiltonian and the closing energy measurement read environment
       tensors (and, with precompute, cached products) that are present and computed from the current site tensors; no gauge move is refused;
     - a sweep returns the bookkeeping to the state the next sweep expects, so the same holds for every number of sweeps and every way of
       switching between the two methods (dmrg_all_reads_fresh), starting from what Env(...).setup_(to='first') leaves behind.
   This is the self-consistency half of the property: the energy dmrg_ reports is computed from environments of the state it returns.
   NOT proved (premises; validated numerically on every run): the contractions themselves, the local eigensolver, variational bound,
   monotonicity, eigenstate at full bond dimension, penalty terms. *)
From Coq Require Import List ZArith Bool.
From Yv Require Import Sweep.Sweep Gen.SweepGen Sweep.SweepBase Sweep.SweepDmrg.
From Yv Require Base.Deleg Gen.DelegGen.
Import ListNotations.
Open Scope Z_scope.

Theorem C09_sweep_1site N s : 1 <= N -> P N 0 0 s ->
  let s' := run_sweep false N dmrg_1site_passes dmrg_1site_body dmrg_1site_final s in P N (-1) (-1) s' /\ ok (step false N OMeasure s') = true.
Proof. exact (dmrg_1site_sweep N s). Qed.
Theorem C09_sweep_1site_precompute N s : 1 <= N -> PC N 0 0 0 0 s ->
  let s' := run_sweep true N dmrg_1site_passes dmrg_1site_body dmrg_1site_final s in PC N (-1) (-1) (-1) (-1) s' /\ ok (step true N OMeasure s') = true.
Proof. exact (dmrg_1site_sweep_pre N s). Qed.
Theorem C09_sweep_2site N s : 2 <= N -> P N 0 1 s ->
  let s' := run_sweep false N dmrg_2site_passes dmrg_2site_body dmrg_2site_final s in P N (-1) (-1) s' /\ ok (step false N OMeasure s') = true.
Proof. exact (dmrg_2site_sweep N s). Qed.
Theorem C09_sweep_2site_precompute N s : 2 <= N -> PC N 0 1 0 1 s ->
  let s' := run_sweep true N dmrg_2site_passes dmrg_2site_body dmrg_2site_final s in PC N (-1) (-1) (-1) 0 s' /\ ok (step true N OMeasure s') = true.
Proof. exact (dmrg_2site_sweep_pre N s). Qed.

(* every run of dmrg_: set-up, energy, then any sequence of sweeps each followed by an energy measurement *)
Theorem C09_all_reads_fresh N ms : 2 <= N -> ok (dmrg_run false N ms (ready_state N)) = true /\ ok (dmrg_run true N ms (ready_state N)) = true.
Proof. exact (dmrg_all_reads_fresh N ms). Qed.

(* the model does detect a missing refresh: dropping the environment update from the 1-site body makes the next site read a missing entry *)
Example C09_detects_missing_update :
  ok (run_ops false 3 [OHeff1 0; OWrite1 0; OOrth 0 ToLast; OAbsorb ToLast; OClear 0; OHeff1 1] (ready_state 3)) = false /\
  ok (run_ops false 3 [OHeff1 0; OWrite1 0; OOrth 0 ToLast; OAbsorb ToLast; OUpdate 0 ToLast; OHeff1 1; OWrite1 1; OOrth 1 ToLast; OAbsorb ToLast; OUpdate 1 ToLast; OHeff1 2;
                       OWrite1 2; OOrth 2 ToFirst; OAbsorb ToFirst; OHeff1 1] (ready_state 3)) = false /\
  ok (dmrg_run true 5 [M1; M2; M2; M1] (ready_state 5)) = true.
Proof. vm_compute. repeat split; reflexivity. Qed.

(* --- options are handed down under their own names (facts regenerated from the source on every run by tools/translate/tr_deleg.py): dmrg_ and its sweeps pass opts_eigs / opts_svd / precompute on under their own names --- *)
Theorem C09_options_forwarded :
  Deleg.deleg_ok Deleg.pre_dmrg DelegGen.delegations DelegGen.allowed = true /\ Nat.ltb 0 (Deleg.n_facts Deleg.pre_dmrg DelegGen.delegations) = true.
Proof. split; vm_compute; reflexivity. Qed.

Print Assumptions C09_sweep_1site.
Print Assumptions C09_sweep_1site_precompute.
Print Assumptions C09_sweep_2site.
Print Assumptions C09_sweep_2site_precompute.
Print Assumptions C09_all_reads_fresh.
Print Assumptions C09_options_forwarded.
