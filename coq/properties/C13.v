(* C13 -- Truncation keeps exactly the largest weights and reports the true error.
   Statements only.  The model Linalg/Trunc.v mirrors truncation_mask's two stages; NumPy's argsort is an
   input constrained by [valid_argsort] (a permutation putting the values in non-decreasing order), so ties are the
   only freedom.  Values are exact (integers; tolerances p/q). *)
From Coq Require Import List ZArith Bool Permutation Lia.
From Yv Require Import Linalg.Trunc Linalg.TruncLaws.
From Yv Require Base.Deleg Gen.DelegGen.
Import ListNotations.
Open Scope Z_scope.

(* limits, block stage: per sector at most D_block values and at most the number above tol_block survive *)
Theorem C13_block_limit p q Dblock vals inds : valid_argsort vals inds ->
  (on_count (mask_block p q Dblock vals inds) <= cap Dblock (count_above p q (max_abs vals) vals))%nat /\
  length (mask_block p q Dblock vals inds) = length vals.
Proof. exact (block_limit p q Dblock vals inds). Qed.

(* limits, global stage: at most D_total values and at most the number above tol survive *)
Theorem C13_global_limit p q Dtotal S m1 inds : length m1 = length S -> Permutation inds (seq 0 (length S)) ->
  (on_count (mask_global p q Dtotal S m1 inds) <= cap Dtotal (count_above p q (max_abs (masked S m1)) (masked S m1)))%nat.
Proof. exact (global_limit p q Dtotal S m1 inds). Qed.

(* maximality: whenever a stage switches index i off and leaves j alone, value(i) <= value(j); both stages switch off a
   prefix of a valid argsort, so no discarded value exceeds a kept value competing under the same limit *)
Theorem C13_maximal vals inds (m0 : list bool) k i j :
  valid_argsort vals inds -> (k <= length vals)%nat -> (i < length vals)%nat -> (j < length vals)%nat ->
  existsb (Nat.eqb i) (firstn k inds) = true -> existsb (Nat.eqb j) (firstn k inds) = false ->
  nth i vals 0 <= nth j vals 0.
Proof. exact (stage_maximal vals inds m0 k i j). Qed.

(* switching off a prefix of the argsort is all a stage does: position j stays as it was unless it is in the prefix *)
Theorem C13_stage_shape idx m j : nth j (set_false idx m) false = if existsb (Nat.eqb j) idx then false else nth j m false.
Proof. exact (nth_set_false idx m j). Qed.

(* limits that do not bind discard nothing *)
Theorem C13_nonbinding p q Dblock Dtotal vals inds S m1 ginds :
  ((length vals <= cap Dblock (count_above p q (max_abs vals) vals))%nat -> (0 < length vals)%nat ->
     mask_block p q Dblock vals inds = repeat true (length vals)) /\
  ((length S <= cap Dtotal (count_above p q (max_abs (masked S m1)) (masked S m1)))%nat -> (0 < length S)%nat ->
     mask_global p q Dtotal S m1 ginds = m1).
Proof. exact (conj (block_nonbinding p q Dblock vals inds) (global_nonbinding p q Dtotal S m1 ginds)). Qed.

(* the spectrum differs from its truncation by exactly the discarded weight (squared norms); with U, V (co)isometric --
   premises validated numerically per call -- this is the error of the truncated factorisation *)
Theorem C13_error_identity (S : list Z) (m : list bool) : length m = length S ->
  sumsq (map (fun xb : Z * bool => fst xb - (if snd xb then fst xb else 0)) (combine S m)) = sumsq (discarded S m)
  /\ sumsq S = sumsq (kept S m) + sumsq (discarded S m).
Proof. exact (error_is_discarded_weight S m). Qed.

(* non-vacuity: a degenerate spectrum, D_block = 2, tol_block = 1/4: values 8 8 2 8 with argsort [2;0;1;3] *)
Example C13_nonvacuous :
  valid_argsort [8; 8; 2; 8] [2; 0; 1; 3]%nat /\ mask_block 1 4 (Some 2%nat) [8; 8; 2; 8] [2; 0; 1; 3]%nat = [false; true; false; true].
Proof.
  split; [|vm_compute; reflexivity]. split; [|].
  - apply Permutation_sym. apply (Permutation_trans (l' := [2; 0; 1; 3]%nat)); [|apply Permutation_refl].
    change (seq 0 (length [8; 8; 2; 8])) with [0; 1; 2; 3]%nat.
    apply (perm_trans (l' := [0; 2; 1; 3]%nat)); [apply perm_skip; apply perm_swap | apply perm_swap].
  - intros a b [Hab Hb]. simpl in Hb.
    destruct a as [|[|[|[|a]]]]; destruct b as [|[|[|[|b]]]]; simpl; try lia.
Qed.

(* --- options are handed down under their own names (facts regenerated from the source on every run by tools/translate/tr_deleg.py): the truncating decompositions pass every limit (tol, tol_block, D_block, D_total, truncate_multiplets, mask_f) and every option of eigh on under its own name --- *)
Theorem C13_options_forwarded :
  Deleg.deleg_ok Deleg.pre_linalg DelegGen.delegations DelegGen.allowed = true /\ Nat.ltb 0 (Deleg.n_facts Deleg.pre_linalg DelegGen.delegations) = true.
Proof. split; vm_compute; reflexivity. Qed.

Print Assumptions C13_block_limit.
Print Assumptions C13_global_limit.
Print Assumptions C13_maximal.
Print Assumptions C13_stage_shape.
Print Assumptions C13_nonbinding.
Print Assumptions C13_error_identity.
Print Assumptions C13_options_forwarded.
