(* C05 -- Fermionic signs are consistent and order-independent.  Statements only.
   PROVED (all symmetries/ranks/groupings/lengths): the block sign of swap_gate (involutive, trivial for bosonic statistics, symmetric in the
   two groups, depends only on the declared components, multiplicative over the swapped pairs), and that sign_canonical_order is the
   inversion parity of the site sequence weighted by the charge products (operators on one site never swapped).
   NOT proved: order-independence of ncon with swaps on contracted legs (the jump-move scheduler _resolve_bad_swaps) and the CAR of fkron for
   every N -- both are covered by exact correspondence (all contraction orders of generated networks; fkron vs Jordan-Wigner matrices). *)
From Coq Require Import List ZArith Bool.
From Yv Require Import Fermi.Fermi Fermi.FermiLaws Fermi.CanonOrder.
Import ListNotations.
Open Scope Z_scope.

Theorem C05_swap_involutive nsym fss key pairs :
  sign_of (swap_parity nsym fss key pairs) * sign_of (swap_parity nsym fss key pairs) = 1.
Proof. exact (swap_involutive nsym fss key pairs). Qed.

Theorem C05_swap_bosonic nsym fss key pairs : forallb negb fss = true -> swap_parity nsym fss key pairs = 0.
Proof. exact (swap_bosonic nsym fss key pairs). Qed.

Theorem C05_swap_symmetric nsym fss key pairs :
  swap_parity nsym fss key (map (fun p => (snd p, fst p)) pairs) = swap_parity nsym fss key pairs.
Proof. exact (swap_symmetric nsym fss key pairs). Qed.

Theorem C05_swap_only_declared_components nsym fss key key' pairs :
  (forall g c, nth c fss false = true -> nth c (group_par nsym key g) 0 = nth c (group_par nsym key' g) 0) ->
  swap_parity nsym fss key pairs = swap_parity nsym fss key' pairs.
Proof. exact (swap_only_declared_components nsym fss key key' pairs). Qed.

Theorem C05_swap_sign_multiplicative nsym fss key p1 p2 :
  sign_of (swap_parity nsym fss key (p1 ++ p2)) = sign_of (swap_parity nsym fss key p1) * sign_of (swap_parity nsym fss key p2).
Proof. exact (swap_sign_multiplicative nsym fss key p1 p2). Qed.

(* sign_canonical_order = (-1)^(number of inversions weighted by <c_i, c_j>), for every length, repetition and order *)
Theorem C05_sign_is_inversion_parity fss sites charges : length sites = length charges ->
  sign_canonical_order fss sites charges = sign_of (inv_exp fss sites charges mod 2).
Proof. exact (sign_canonical_order_is_inversion_parity fss sites charges). Qed.

Theorem C05_ordered_sites_no_sign fss sites charges : length sites = length charges ->
  (forall i j, (i < j < length sites)%nat -> nth i sites 0 <= nth j sites 0) -> inv_exp fss sites charges = 0.
Proof. exact (inv_exp_sorted fss sites charges). Qed.

Example C05_nonvacuous :
  swap_parity 2 [true; false] [[1; 0]; [1; 5]; [0; 1]] [([0%nat], [1%nat])] = 1 /\
  swap_parity 2 [true; false] [[1; 0]; [0; 5]; [0; 1]] [([0%nat], [1%nat; 2%nat])] = 0 /\
  sign_canonical_order [true] [2; 0; 1; 0] [[1]; [1]; [1]; [1]] = 1 /\ sign_canonical_order [true] [1; 0; 0] [[1]; [1]; [1]] = 1 /\
  sign_canonical_order [true] [1; 0] [[1]; [1]] = -1.
Proof. vm_compute. repeat split; reflexivity. Qed.

Print Assumptions C05_swap_involutive.
Print Assumptions C05_swap_bosonic.
Print Assumptions C05_swap_symmetric.
Print Assumptions C05_swap_only_declared_components.
Print Assumptions C05_swap_sign_multiplicative.
Print Assumptions C05_sign_is_inversion_parity.
Print Assumptions C05_ordered_sites_no_sign.
