(* C16 -- Metadata caches are transparent.
   Statements only.  [f i] is the undecorated function behind cache i; the hypothesis
   [key_complete] (equal argument tuples => equal results) and immutability of cached values are
   exactly the premises the probes check dynamically on every hit (tools/checks/C16.py). *)
From Coq Require Import List ZArith Bool String.
From Yv Require Import Cache.Lru Cache.LruLaws Gen.CacheGen.
Import ListNotations.

Section Transparency.
  Variables K V : Type.
  Variable keqb : K -> K -> bool.
  Variable f : nat -> K -> V.
  Hypothesis key_complete : forall i a b, keqb a b = true -> f i a = f i b.

  (* for ALL histories of calls / cache_clear / clear_cache / re-wrapping on ANY number of caches and
     ALL maxsize values (None, 0, n): every call returns the value of the undecorated function *)
  Theorem C16_refines_pure h st st' outs :
    inv K V f st -> run K V keqb f st h = (st', outs) ->
    inv K V f st' /\ Forall (fun o => let '(i, k, v, _) := o in v = f i k) outs.
  Proof. exact (run_refines_pure K V keqb f key_complete h st st' outs). Qed.

  (* warm, cold, cleared or resized: the same call gives the same result in any two histories *)
  Theorem C16_history_independent h1 h2 ms1 ms2 st1 outs1 st2 outs2 :
    run K V keqb f (map (fresh K V) ms1) h1 = (st1, outs1) ->
    run K V keqb f (map (fresh K V) ms2) h2 = (st2, outs2) ->
    forall i k v1 hit1 v2 hit2, In (i, k, v1, hit1) outs1 -> In (i, k, v2, hit2) outs2 -> v1 = v2.
  Proof. exact (results_history_independent K V keqb f key_complete h1 h2 ms1 ms2 st1 outs1 st2 outs2). Qed.

  (* no cross-talk: a hit hands out only a value stored under an EQUAL key *)
  Theorem C16_no_cross_talk c k c' v : call K V keqb (f 0) c k = (c', v, true) ->
    exists k0, In (k0, v) (entries K V c) /\ keqb k k0 = true.
  Proof. exact (hit_only_for_equal_key K V keqb f c k c' v). Qed.

  Theorem C16_size_bounded h st st' outs : inv K V f st -> run K V keqb f st h = (st', outs) ->
    forall i c n, nth_error st' i = Some c -> maxsize K V c = Some n -> List.length (entries K V c) <= n.
  Proof. exact (size_bounded K V keqb f key_complete h st st' outs). Qed.
End Transparency.

(* facts REGENERATED from the source on every run: the functions re-wrapped by set_cache_maxsize and cleared by
   clear_cache are decorated (so __wrapped__/cache_clear exist), and no cached function reads anything but its
   parameters, locals, builtins and immutable module-level definitions *)
Definition mem (x : string) (l : list string) : bool := existsb (String.eqb x) l.
Theorem C16_registry :
  forallb (fun x => mem x decorated) resized && forallb (fun x => mem x decorated) cleared
  && forallb (fun p => match snd p with [] => true | _ => false end) hidden_inputs = true.
Proof. vm_compute. reflexivity. Qed.

(* every cached function is reached by resize and by clear, at its defining module (the translator refuses a re-wrap through an imported name), and
   every second handle on a cached function -- a 'from ._x import f' anywhere in the package -- is pointed to the new object by set_cache_maxsize *)
Theorem C16_registry_complete :
  forallb (fun x => mem x resized) decorated && forallb (fun x => mem x cleared) decorated && forallb (fun x => mem x rebound) aliases = true.
Proof. vm_compute. reflexivity. Qed.

(* non-vacuity: a concrete history with a hit, an eviction, a clear and a re-wrap *)
Example C16_nonvacuous :
  snd (run nat nat Nat.eqb (fun i k => 10 * i + k) [fresh nat nat (Some 1); fresh nat nat None]
        [ECall nat 0 5; ECall nat 0 5; ECall nat 0 6; ECall nat 0 5; EClearAll nat; ECall nat 1 7; ERewrap nat 1 (Some 0); ECall nat 1 7])
  = [(0, 5, 5, false); (0, 5, 5, true); (0, 6, 6, false); (0, 5, 5, false); (1, 7, 17, false); (1, 7, 17, false)].
Proof. vm_compute. reflexivity. Qed.

Print Assumptions C16_refines_pure.
Print Assumptions C16_history_independent.
Print Assumptions C16_no_cross_talk.
Print Assumptions C16_size_bounded.
Print Assumptions C16_registry.
Print Assumptions C16_registry_complete.
