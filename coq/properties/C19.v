(* C19 -- Symmetry rules are abelian groups and legs hold canonical charges.
   This file contains only statements closed by [exact]/[apply] of lemmas proved
   elsewhere, each followed by Print Assumptions.  [f] below is the fusion rule
   GENERATED from the current yastn/sym/sym_<name>.py; charges range over all of
   Z (no box). *)
From Coq Require Import List ZArith String Sorted Permutation.
From Yv Require Import Base.LexOrder Sym.Descr Sym.SymLaws Sym.Leg Sym.LegLaws Gen.SymGen Sym.SymInst.
Import ListNotations.
Open Scope Z_scope.

Section Shipped.
  Variables (name : string) (d : descr) (f : fuse_fn).
  Hypothesis Hin : In (name, (d, f)) shipped.

  Let Hd : okdescr d := proj1 (shipped_entry name d f Hin).
  Let Hf : forall c s n, f c s n = gfuse d c s n := proj2 (shipped_entry name d f Hin).

  Definition add (a b : charge) := f [a; b] [1; 1] 1.

  Theorem C19_comm a b : add a b = add b a.
  Proof. unfold add. rewrite !Hf. exact (gadd_comm d Hd a b). Qed.

  Theorem C19_assoc a b c : add (add a b) c = add a (add b c).
  Proof. unfold add. rewrite !Hf. exact (gadd_assoc d Hd a b c). Qed.

  Theorem C19_identity a : in_range d a -> add (gzero d) a = a /\ add a (gzero d) = a.
  Proof. unfold add. rewrite !Hf. exact (gadd_identity d Hd a). Qed.

  Theorem C19_inverse_by_signature_flip a : f [a; a] [1; -1] 1 = gzero d.
  Proof. rewrite Hf. exact (gfuse_flip_inverse d Hd a). Qed.

  Theorem C19_inverse a : add a (f [a] [1] (-1)) = gzero d.
  Proof. unfold add. rewrite !Hf. exact (gadd_gneg d Hd a). Qed.

  Theorem C19_canonical charges sigs snew : in_range d (f charges sigs snew).
  Proof. rewrite Hf. exact (gfuse_in_range d Hd charges sigs snew). Qed.

  Theorem C19_order_irrelevant (p q : list (Z * charge)) snew : Permutation p q ->
    f (map snd p) (map fst p) snew = f (map snd q) (map fst q) snew.
  Proof. rewrite !Hf. exact (gfuse_perm d Hd p q snew). Qed.

  Theorem C19_grouping (gs : list group) snew : Forall g_ok gs ->
    f (map (fun g => let '(cs, ss, sg) := g in f cs ss sg) gs)
      (map (fun g => let '(_, _, sg) := g in sg) gs) snew
    = f (List.concat (map (fun g => let '(cs, _, _) := g in cs) gs))
        (List.concat (map (fun g => let '(_, ss, _) := g in ss) gs)) snew.
  Proof. exact (grouping_for_fn d f Hd Hf gs snew). Qed.

  (* Leg: accepted <-> signature +-1, positive integer D, integer canonical non-repeated charges, counts match *)
  Theorem C19_leg_accepts_iff s t D :
    (exists l, leg_make (List.length d) (gfuse d) s t D = LOk l) <-> leg_valid d s t D.
  Proof. exact (leg_accepts_iff d Hd s t D). Qed.

  Theorem C19_leg_sorted s t D l : leg_make (List.length d) (gfuse d) s t D = LOk l ->
    exists s' tz Dz, s = Some s' /\ t = map Some tz /\ D = map Some Dz /\ lg_s l = s' /\
      StronglySorted lex_lt (lg_t l) /\
      Permutation (combine (chunks (List.length d) (List.length Dz) tz) Dz) (combine (lg_t l) (lg_D l)) /\
      List.length (lg_t l) = List.length (lg_D l).
  Proof. exact (leg_stored d Hd s t D l). Qed.
End Shipped.

Theorem C19_every_shipped_symmetry_is_covered : map fst shipped = shipped_ids.
Proof. exact shipped_is_what_the_source_ships. Qed.

Theorem C19_identity_of_group :
  (forall c s n, fuse_dense c s n = gfuse [] c s n) /\
  (forall c s n, fuse_Z2 c s n = gfuse [Some 2] c s n) /\
  (forall c s n, fuse_Z3 c s n = gfuse [Some 3] c s n) /\
  (forall c s n, fuse_U1 c s n = gfuse [None] c s n) /\
  (forall c s n, fuse_U1xU1 c s n = gfuse [None; None] c s n) /\
  (forall c s n, fuse_Z2xU1 c s n = gfuse [Some 2; None] c s n) /\
  (forall c s n, fuse_U1xU1xZ2 c s n = gfuse [None; None; Some 2] c s n).
Proof.
  exact (conj fuse_dense_is_generic (conj fuse_Z2_is_generic (conj fuse_Z3_is_generic
        (conj fuse_U1_is_generic (conj fuse_U1xU1_is_generic (conj fuse_Z2xU1_is_generic
         fuse_U1xU1xZ2_is_generic)))))).
Qed.

Theorem C19_add_charges_wrapper d :
  (forall sigs snew, add_charges d [] sigs snew = gzero d) /\
  (forall c cs snew, add_charges d (c :: cs) None snew = gfuse d (c :: cs) (map (fun _ => 1) (c :: cs)) snew).
Proof. split; [exact (add_charges_empty d) | exact (add_charges_default d)]. Qed.

Theorem C19_conj_involutive l : leg_conj (leg_conj l) = l.
Proof. exact (leg_conj_involutive l). Qed.

Theorem C19_conj_dual l : lg_s (leg_conj l) = - lg_s l /\ leg_tD (leg_conj l) = leg_tD l.
Proof. exact (leg_conj_dual l). Qed.

(* non-vacuity: the hypotheses are met by concrete shipped instances *)
Example C19_nonvacuous_shipped : In ("U1xU1xZ2"%string, (descr_U1xU1xZ2, fuse_U1xU1xZ2)) shipped.
Proof. unfold shipped. simpl. tauto. Qed.
Example C19_nonvacuous_leg :
  exists l, leg_make 2 (gfuse descr_Z2xU1) (Some (-1)) (map Some [1; 5; 0; -2; 1; -7]) (map Some [2; 1; 3]) = LOk l
            /\ lg_t l = [[0; -2]; [1; -7]; [1; 5]] /\ lg_D l = [1; 3; 2].
Proof. eexists. split; [vm_compute; reflexivity|]. split; reflexivity. Qed.

Print Assumptions C19_comm.
Print Assumptions C19_assoc.
Print Assumptions C19_identity.
Print Assumptions C19_inverse_by_signature_flip.
Print Assumptions C19_inverse.
Print Assumptions C19_canonical.
Print Assumptions C19_order_irrelevant.
Print Assumptions C19_grouping.
Print Assumptions C19_leg_accepts_iff.
Print Assumptions C19_leg_sorted.
Print Assumptions C19_every_shipped_symmetry_is_covered.
Print Assumptions C19_identity_of_group.
Print Assumptions C19_add_charges_wrapper.
Print Assumptions C19_conj_involutive.
Print Assumptions C19_conj_dual.
