(* C14 -- Results do not depend on contraction policy, fusion mode or lazy state.  Statements only.
   PROVED: the lazy-transposition mechanism is faithful (a pending permutation acts on indices exactly as the materialised
   permutation would; pending permutations compose; axes are mapped to the native legs carrying the requested indices).
   The model semantics of a program (L-block / dense) mentions neither tensordot_policy nor fusion mode; each of the three policy
   implementations and both fusion modes are tied to it by the differential correspondence of tools/checks/C14.py (all
   configurations must agree with each other and with NumPy).  A model-level theorem about the three block-pairing strategies
   is NOT proved yet (absent, not admitted). *)
From Coq Require Import List Arith.
From Yv Require Import Lazy.Lazy.
Import ListNotations.

Theorem C14_lazy_transpose_is_transpose trans q alpha : Forall (fun i => i < length trans) q ->
  visible_index (lazy_transpose trans q) alpha = perm_apply 0 q (visible_index trans alpha).
Proof. exact (lazy_transpose_visible trans q alpha). Qed.

Theorem C14_lazy_transposes_compose trans q1 q2 : Forall (fun i => i < length q1) q2 ->
  lazy_transpose (lazy_transpose trans q1) q2 = lazy_transpose trans (perm_apply 0 q2 q1).
Proof. exact (lazy_transpose_compose trans q1 q2). Qed.

Theorem C14_identity_transpose trans : lazy_transpose trans (seq 0 (length trans)) = trans.
Proof. exact (lazy_transpose_id trans). Qed.

Theorem C14_axes_through_trans trans axes alpha : Forall (fun i => i < length trans) axes ->
  map alpha (to_native trans axes) = perm_apply 0 axes (visible_index trans alpha).
Proof. exact (to_native_selects trans axes alpha). Qed.

Example C14_nonvacuous : lazy_transpose (lazy_transpose [0; 1; 2; 3] [2; 0; 3; 1]) [1; 0; 2; 3] = [0; 2; 3; 1]
  /\ to_native [2; 0; 3; 1] [3; 0] = [1; 2].
Proof. split; reflexivity. Qed.

Print Assumptions C14_lazy_transpose_is_transpose.
Print Assumptions C14_lazy_transposes_compose.
Print Assumptions C14_identity_transpose.
Print Assumptions C14_axes_through_trans.
