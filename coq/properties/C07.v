(* C07 -- MPO construction and measurements realise Jordan-Wigner operators.  Statements only.
   PROVED (on the sign layer shared by generate_mpo, measure_2site, measure_nsite; all lengths, repetitions, orders, charges, fermionic flags):
   the ordering sign is the inversion parity (C05), exchanging two neighbouring operators on different sites changes it by exactly the fermionic
   exchange sign of their charges while operators on one site pass for free -- the rule under which a product of Jordan-Wigner operators is
   independent of the order in which its factors are listed; the pair sign of measure_2site is the swap sign iff i > j; bosonic flags give no signs.
   NOT proved: the dressed operators / string charges and the MPO assembly (incl. SVD compression), environments with charge swaps, rdm, sample:
   exact (resp. toleranced) correspondence of dense matrices and expectation values with explicit Jordan-Wigner matrices. *)
From Coq Require Import List ZArith Bool.
From Yv Require Import Fermi.Fermi Fermi.FermiLaws Fermi.CanonOrder Fermi.JWSign.
Import ListNotations.
Open Scope Z_scope.

Theorem C07_term_sign_is_inversion_parity fss sites charges : length sites = length charges ->
  sign_canonical_order fss sites charges = sign_of (inv_exp fss sites charges mod 2).
Proof. exact (sign_canonical_order_is_inversion_parity fss sites charges). Qed.

Theorem C07_exchange_sign fss sa sb ca cb s1 c1 s2 c2 : length s1 = length c1 -> sa <> sb ->
  (inv_exp fss (s1 ++ sa :: sb :: s2) (c1 ++ ca :: cb :: c2)) mod 2
  = (inv_exp fss (s1 ++ sb :: sa :: s2) (c1 ++ cb :: ca :: c2) + dotsel fss ca cb) mod 2.
Proof. exact (exchange_sign fss sa sb ca cb s1 c1 s2 c2). Qed.

Theorem C07_same_site_no_sign fss s ca cb s1 c1 s2 c2 : length s1 = length c1 ->
  inv_exp fss (s1 ++ s :: s :: s2) (c1 ++ ca :: cb :: c2) = inv_exp fss (s1 ++ s :: s :: s2) (c1 ++ cb :: ca :: c2).
Proof. exact (same_site_no_sign fss s ca cb s1 c1 s2 c2). Qed.

Theorem C07_2site_sign fss i j nO nP :
  sign_canonical_order fss [i; j] [nO; nP] = if j <? i then sign_of (dotsel fss nO nP mod 2) else 1.
Proof. exact (pair_sign fss i j nO nP). Qed.

Theorem C07_bosonic_no_strings fss sites charges : forallb negb fss = true -> length sites = length charges ->
  sign_canonical_order fss sites charges = 1.
Proof. exact (bosonic_no_sign fss sites charges). Qed.

Example C07_nonvacuous :
  sign_canonical_order [true] [3; 1] [[1]; [1]] = -1 /\ sign_canonical_order [true] [1; 3] [[1]; [1]] = 1 /\
  sign_canonical_order [true; false] [2; 0; 2; 1] [[1; 0]; [1; 1]; [1; 0]; [0; 1]] = -1.
Proof. vm_compute. repeat split; reflexivity. Qed.

Print Assumptions C07_term_sign_is_inversion_parity.
Print Assumptions C07_exchange_sign.
Print Assumptions C07_same_site_no_sign.
Print Assumptions C07_2site_sign.
Print Assumptions C07_bosonic_no_strings.
