(* C12 -- Exact PEPS environments give exact expectation values and valid metrics.  Statements only.
   PROVED (hand-written model of DoublePepsTensor.add_charge_swaps_, tied by exact correspondence): the pending charge swaps left on the legs
   of a two-layer tensor by operators inserted elsewhere form, for every symmetry descriptor, the leg-wise group sum of all inserted charges:
   every occurrence of a leg adds the charge once more, other legs are untouched, insertions commute (the order in which the string of an
   n-site correlator is laid does not matter), a second insertion on the same leg adds to the pending charge instead of replacing it, and a
   charge followed by its inverse leaves nothing pending.
   NOT proved (validated numerically on every run): the contractions of boundary-MPS / CTM / BP environments, positivity and hermiticity of NTU
   bond metrics, exactness of an evolution step whose truncation does not bind. *)
From Coq Require Import List ZArith.
From Yv Require Import Sym.Descr Sym.SymLaws Peps.Swaps.
Import ListNotations.

Theorem C12_swaps_accumulate d (Hd : okdescr d) c axes s ax : Forall (fun a => (a < length s)%nat) axes -> (ax < length s)%nat ->
  nth ax (add_charge_swaps d c axes s) (gzero d) = iter_add d (count_occ Nat.eq_dec axes ax) c (nth ax s (gzero d)).
Proof. exact (add_charge_swaps_nth d c axes s ax). Qed.
Theorem C12_swaps_commute d (Hd : okdescr d) c1 ax1 c2 ax2 s ax :
  Forall (fun a => (a < length s)%nat) ax1 -> Forall (fun a => (a < length s)%nat) ax2 -> (ax < length s)%nat ->
  nth ax (add_charge_swaps d c1 ax1 (add_charge_swaps d c2 ax2 s)) (gzero d) = nth ax (add_charge_swaps d c2 ax2 (add_charge_swaps d c1 ax1 s)) (gzero d).
Proof. exact (add_charge_swaps_commute d Hd c1 ax1 c2 ax2 s ax). Qed.
Theorem C12_second_swap_adds d c1 c2 s ax : (ax < length s)%nat ->
  nth ax (add_charge_swaps d c2 [ax] (add_charge_swaps d c1 [ax] s)) (gzero d) = gadd d (gadd d (nth ax s (gzero d)) c1) c2.
Proof. exact (second_swap_adds d c1 c2 s ax). Qed.
Theorem C12_swap_and_inverse_cancel d (Hd : okdescr d) c s ax : (ax < length s)%nat -> nth ax s (gzero d) = gzero d -> in_range d c ->
  nth ax (add_charge_swaps d (gneg d c) [ax] (add_charge_swaps d c [ax] s)) (gzero d) = gzero d.
Proof. exact (swap_and_inverse_cancel d Hd c s ax). Qed.

Example C12_nonvacuous :
  run_swaps [None] [([1]%Z, [1; 6]%nat); ([0]%Z, [6]%nat); ([-1]%Z, [9; 1]%nat)] (no_swaps [None]) =
  [[0]; [0]; [0]; [0]; [0]; [0]; [1]; [0]; [0]; [-1]]%Z.
Proof. vm_compute. reflexivity. Qed.

Print Assumptions C12_swaps_accumulate.
Print Assumptions C12_swaps_commute.
Print Assumptions C12_second_swap_adds.
Print Assumptions C12_swap_and_inverse_cancel.
