(* C12 -- Exact PEPS environments give exact expectation values and valid metrics.  Statements only.
   PROVED (hand-written model of DoublePepsTensor.add_charge_swaps_, tied by exact correspondence): the pending charge swaps left on the legs
   of a two-layer tensor by operators inserted elsewhere form, for every symmetry descriptor, the leg-wise group sum of all inserted charges:
   every occurrence of a leg adds the charge once more, other legs are untouched, insertions commute (the order in which the string of an
   n-site correlator is laid does not matter), a second insertion on the same leg adds to the pending charge instead of replacing it, and a
   charge followed by its inverse leaves nothing pending.
   PROVED on the programs translated from yastn/tn/fpeps/envs/_env_window.py (Gen/WindowGen.v, regenerated on every run): while the string of the first
   operator of a 2-site measurement passes a site -- in the same row/column and in every later one -- the charge swaps left on that site and its operator
   slot do NOT depend on whether the pair (first site, this site) is among the requested pairs; a listed site is measured exactly once, with its operator
   set, and the operator is removed again; the string left behind is the same in both kinds of sweep.  (This is the bookkeeping whose violation gave
   the wrong signs repaired in e400d3a.)
   NOT proved (validated numerically on every run): the contractions of boundary-MPS / CTM / BP environments, positivity and hermiticity of NTU
   bond metrics, exactness of an evolution step whose truncation does not bind. *)
From Coq Require Import List ZArith.
From Yv Require Import Sym.Descr Sym.SymLaws Peps.Swaps.
From Yv Require Peps.WindowModel Gen.WindowGen.
Import ListNotations.

Theorem C12_swaps_accumulate d (Hd : okdescr d) c axes s ax : Forall (fun a => (a < length s)%nat) axes -> (ax < length s)%nat ->
  nth ax (add_charge_swaps d c axes s) (gzero d) = iter_add d (count_occ Nat.eq_dec axes ax) c (nth ax s (gzero d)).
Proof. exact (add_charge_swaps_nth d c axes s ax). Qed.
Theorem C12_swaps_commute d (Hd : okdescr d) c1 ax1 c2 ax2 s ax :
  Forall (fun a => (a < length s)%nat) ax1 -> Forall (fun a => (a < length s)%nat) ax2 -> (ax < length s)%nat ->
  nth ax (add_charge_swaps d c1 ax1 (add_charge_swaps d c2 ax2 s)) (gzero d) = nth ax (add_charge_swaps d c2 ax2 (add_charge_swaps d c1 ax1 s)) (gzero d).
Proof. exact (add_charge_swaps_commute d Hd c1 ax1 c2 ax2 s ax). Qed.
Theorem C12_second_swap_adds d c1 c2 s ax : (ax < length s)%nat ->
  nth ax (add_charge_swaps d c2 [ax] (add_charge_swaps d c1 [ax] s)) (gzero d) = gadd d (gadd d (nth ax s (gzero d)) c1) c2.
Proof. exact (second_swap_adds d c1 c2 s ax). Qed.
Theorem C12_swap_and_inverse_cancel d (Hd : okdescr d) c s ax : (ax < length s)%nat -> nth ax s (gzero d) = gzero d -> in_range d c ->
  nth ax (add_charge_swaps d (gneg d c) [ax] (add_charge_swaps d c [ax] s)) (gzero d) = gzero d.
Proof. exact (swap_and_inverse_cancel d Hd c s ax). Qed.

(* --- the fermionic string of a 2-site measurement passes every site, listed or not --- *)
Theorem C12_string_independent_of_listing : Forall WindowModel.string_independent_of_listing WindowGen.window_programs.
Proof. repeat constructor; vm_compute; reflexivity. Qed.
Theorem C12_listed_site_measured_once_with_operator : Forall WindowModel.measures_once_with_operator WindowGen.window_programs.
Proof. repeat constructor; eexists; split; vm_compute; reflexivity. Qed.
Theorem C12_same_string_in_both_sweeps :
  WindowModel.sw (WindowModel.run false WindowGen.rows_same_line) = WindowModel.sw (WindowModel.run false WindowGen.rows_later_line) /\
  WindowModel.sw (WindowModel.run false WindowGen.cols_same_line) = WindowModel.sw (WindowModel.run false WindowGen.cols_later_line).
Proof. split; vm_compute; reflexivity. Qed.
Example C12_window_nonvacuous : length WindowGen.window_programs = 4%nat /\
  WindowModel.sw (WindowModel.run false WindowGen.rows_same_line) = [1; 0; 0; 0; 0; 0; 0; 1; 0; 1]%Z.
Proof. split; vm_compute; reflexivity. Qed.

Example C12_nonvacuous :
  run_swaps [None] [([1]%Z, [1; 6]%nat); ([0]%Z, [6]%nat); ([-1]%Z, [9; 1]%nat)] (no_swaps [None]) =
  [[0]; [0]; [0]; [0]; [0]; [0]; [1]; [0]; [0]; [-1]]%Z.
Proof. vm_compute. reflexivity. Qed.

Print Assumptions C12_swaps_accumulate.
Print Assumptions C12_string_independent_of_listing.
Print Assumptions C12_listed_site_measured_once_with_operator.
Print Assumptions C12_same_string_in_both_sweeps.
Print Assumptions C12_swaps_commute.
Print Assumptions C12_second_swap_adds.
Print Assumptions C12_swap_and_inverse_cancel.
