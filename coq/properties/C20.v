(* C20 -- Lattice geometry is a consistent indexing of the square lattice.
   Statements only (closed by [exact]); all hold for EVERY Nx, Ny >= 1 -- not only the <= 5x5 box.
   The model (Geom/Lattice.v) is hand-written and tied to _geometry.py by exhaustive correspondence
   over the property's box on every run (tools/checks/C20.py). *)
From Coq Require Import List ZArith Bool.
From Yv Require Import Base.LexOrder Geom.Lattice Geom.GeomLaws.
Import ListNotations.
Open Scope Z_scope.

(* neighbour lookup is mutually inverse wherever defined (all 8 directions and arbitrary shifts) *)
Theorem C20_nn_inverse b Nx Ny s d s' : 0 < Nx -> 0 < Ny -> on_lattice b Nx Ny s ->
  nn_site b Nx Ny s d = Some s' -> nn_site b Nx Ny s' (- fst d, - snd d) = Some s.
Proof. exact (nn_site_inverse b Nx Ny s d s'). Qed.

(* each unique site is listed exactly once *)
Theorem C20_sites_once Nx Ny : NoDup (sq_sites Nx Ny) /\ forall s, In s (sq_sites Nx Ny) <-> in_cell Nx Ny s.
Proof. exact (conj (NoDup_sq_sites Nx Ny) (in_sq_sites Nx Ny)). Qed.

(* each unique bond is listed exactly once: the list is exactly {(s, nn_site s dir)} *)
Theorem C20_bonds_once b Nx Ny :
  NoDup (sq_bonds_h b Nx Ny) /\ NoDup (sq_bonds_v b Nx Ny) /\
  (forall s s', In (s, s') (sq_bonds_h b Nx Ny) <-> In s (sq_sites Nx Ny) /\ nn_site b Nx Ny s dir_r = Some s') /\
  (forall s s', In (s, s') (sq_bonds_v b Nx Ny) <-> In s (sq_sites Nx Ny) /\ nn_site b Nx Ny s dir_b = Some s').
Proof.
  exact (conj (NoDup_bonds_dir b Nx Ny dir_r _ (NoDup_sq_sites Nx Ny))
        (conj (NoDup_bonds_dir b Nx Ny dir_b _ (NoDup_sq_sites Nx Ny))
        (conj (in_bonds_dir b Nx Ny dir_r (sq_sites Nx Ny)) (in_bonds_dir b Nx Ny dir_b (sq_sites Nx Ny))))).
Qed.

(* horizontal bonds join nearest neighbours in lattice order ('lr') and fermionic order *)
Theorem C20_bonds_h b Nx Ny s s' : 0 < Nx -> 0 < Ny ->
  In (s, s') (sq_bonds_h b Nx Ny) -> nn_bond_dirn b Nx Ny s s' = Some LR /\ f_ordered s s' = true.
Proof. exact (bonds_h_are_lr b Nx Ny s s'). Qed.

(* vertical bonds: lattice order 'tb' always; fermionic order EXACTLY unless it is a boundary-crossing bond of a cylinder *)
Theorem C20_bonds_v b Nx Ny s s' : 0 < Nx -> 0 < Ny ->
  In (s, s') (sq_bonds_v b Nx Ny) ->
  nn_bond_dirn b Nx Ny s s' = Some TB /\
  (f_ordered s s' = false <-> (b = Cyl /\ 2 <= Nx /\ fst s = Nx - 1 /\ fst s' = 0)).
Proof. exact (bonds_v_are_tb b Nx Ny s s'). Qed.

(* the literal statement "every listed bond is fermionically ordered" is FALSE of the faithful model
   (known finding C20-cylinder-wrap; the witness replays on the implementation) *)
Theorem C20_cylinder_wrap_refuted :
  exists Nx Ny s s', In (s, s') (sq_bonds_v Cyl Nx Ny) /\ nn_bond_dirn Cyl Nx Ny s s' = Some TB /\ f_ordered s s' = false.
Proof. exact cylinder_wrap_refuted. Qed.

(* site-to-tensor indexing is invariant under the lattice periods and only those *)
Theorem C20_index_periodic b Nx Ny x y a c : 0 < Nx -> 0 < Ny ->
  (site2index b Nx Ny (x + a, y + c) = site2index b Nx Ny (x, y) <-> is_period b Nx Ny a c).
Proof. exact (site2index_period_iff b Nx Ny x y a c). Qed.

Theorem C20_index_identity_on_cell b Nx Ny s : 0 < Nx -> 0 < Ny -> in_cell Nx Ny s -> site2index b Nx Ny s = s.
Proof. exact (site2index_in_cell b Nx Ny s). Qed.

(* the fermionic order is a total order (columns first, then rows: the order of sites()) *)
Theorem C20_f_order_total :
  (forall s, f_ordered s s = true) /\
  (forall s t, f_ordered s t = true -> f_ordered t s = true -> s = t) /\
  (forall s t u, f_ordered s t = true -> f_ordered t u = true -> f_ordered s u = true) /\
  (forall s t, f_ordered s t = true \/ f_ordered t s = true) /\
  (forall x y x' y', f_ordered (x, y) (x', y') = true <-> (y < y' \/ (y = y' /\ x <= x'))).
Proof.
  exact (conj f_ordered_refl (conj f_ordered_antisym (conj f_ordered_trans (conj f_ordered_total f_ordered_lists_columns_first)))).
Qed.

(* Checkerboard and 3-site triangular lattices: fixed tables + exact period lattices *)
Theorem C20_checkerboard :
  (forallb (fun b => match nn_bond_dirn Inf 2 2 (fst b) (snd b) with Some LR => f_ordered (fst b) (snd b) | _ => false end) cb_bonds_h
   && forallb (fun b => match nn_bond_dirn Inf 2 2 (fst b) (snd b) with Some TB => f_ordered (fst b) (snd b) | _ => false end) cb_bonds_v
   && (cb_site2index (0, 0) =? 0) && (cb_site2index (0, 1) =? 1) = true) /\
  (forall x y a c, cb_site2index (x + a, y + c) = cb_site2index (x, y) <-> (a + c) mod 2 = 0).
Proof. exact (conj cb_tables_ok cb_period_iff). Qed.

Theorem C20_triangular3_period x y a c : tri3_site2index (x + a, y + c) = tri3_site2index (x, y) <-> (c - a) mod 3 = 0.
Proof. exact (tri3_period_iff x y a c). Qed.

Theorem C20_triangular_full Nx Ny : 0 < Nx -> 0 < Ny ->
  (forall x y a c, a mod Nx = 0 -> c mod Ny = 0 -> trifull_site2index Nx Ny (x + a, y + c) = trifull_site2index Nx Ny (x, y)) /\
  (forall s t, in_cell Nx Ny s -> in_cell Nx Ny t -> trifull_site2index Nx Ny s = trifull_site2index Nx Ny t -> s = t) /\
  (forall b sb sr, In (sb, sr) (trifull_bonds_d b Nx Ny) ->
     exists s, in_cell Nx Ny s /\ nn_site b Nx Ny s dir_b = Some sb /\ nn_site b Nx Ny s dir_r = Some sr).
Proof.
  intros HNx HNy.
  exact (conj (fun x y a c => trifull_period_if Nx Ny x y a c HNx HNy)
        (conj (fun s t => trifull_injective_on_cell Nx Ny s t HNx HNy)
              (fun b sb sr => trifull_diag_bonds b Nx Ny sb sr HNx HNy))).
Qed.

(* geometries that would give a tensor two different neighbourhoods are rejected, and only those *)
Theorem C20_rect_unitcell_valid p : pat_rect p = true ->
  ((exists ss bh bv, ruc_make p = RucOk ss bh bv) <-> one_neighbourhood_per_label p).
Proof. exact (ruc_accepts_iff p). Qed.

Theorem C20_rect_unitcell_sites p u u' :
  In u (pat_unique_sites p) -> In u' (pat_unique_sites p) -> pat_get p u = pat_get p u' -> u = u'.
Proof. exact (ruc_unique_sites_distinct_labels p u u'). Qed.

Theorem C20_rect_unitcell_periodic p x y a c : 0 < pat_Nx p -> 0 < pat_Ny p -> a mod pat_Nx p = 0 -> c mod pat_Ny p = 0 ->
  pat_get p (x + a, y + c) = pat_get p (x, y).
Proof. exact (pat_get_periodic p x y a c). Qed.

(* the container stores and returns objects consistently with the indexing, including patches *)
Theorem C20_lattice_get_set (K : Type) (keqb : K -> K -> bool) (Hk : forall a b, keqb a b = true <-> a = b)
  (s2i : site -> K) (V : Type) (l : lat K V) (s : site) (v : V) :
  (forall s', assoc_get site_eqb s (patch K V l) = None -> assoc_get site_eqb s' (patch K V l) = None ->
              s2i s' = s2i s -> lat_get K keqb s2i V (lat_set K keqb s2i V l s v) s' = Some (Some v)) /\
  (forall s', assoc_get site_eqb s (patch K V l) = None -> s2i s' <> s2i s ->
              lat_get K keqb s2i V (lat_set K keqb s2i V l s v) s' = lat_get K keqb s2i V l s') /\
  (forall w, assoc_get site_eqb s (patch K V l) = Some w ->
      lat_get K keqb s2i V (lat_set K keqb s2i V l s v) s = Some (Some v) /\
      site_data K V (lat_set K keqb s2i V l s v) = site_data K V l /\
      forall s', s' <> s -> lat_get K keqb s2i V (lat_set K keqb s2i V l s v) s' = lat_get K keqb s2i V l s') /\
  (forall s', patch K V l = [(s, v)] -> s2i s' = s2i s ->
      lat_get K keqb s2i V (lat_apply_patch K keqb s2i V l) s' = Some (Some v) /\ patch K V (lat_apply_patch K keqb s2i V l) = []).
Proof.
  exact (conj (lat_get_set_same K keqb Hk s2i V l s v)
        (conj (lat_get_set_other K keqb Hk s2i V l s v)
        (conj (fun w => lat_patch_shadows K keqb s2i V l s w v)
              (lat_apply_patch_commits K keqb Hk s2i V l s v)))).
Qed.

(* non-vacuity *)
Example C20_nonvacuous_cyl : In ((2, 1), (0, 1)) (sq_bonds_v Cyl 3 2) /\ on_lattice Cyl 3 2 (2, 1) /\ nn_site Cyl 3 2 (2, 1) (4, 0) = Some (0, 1).
Proof. vm_compute. repeat split; auto; try discriminate. right; right; right; right; right; left; reflexivity. Qed.
Example C20_nonvacuous_ruc : pat_rect [[0; 1; 2]; [1; 2; 0]; [2; 0; 1]] = true /\ exists ss bh bv, ruc_make [[0; 1; 2]; [1; 2; 0]; [2; 0; 1]] = RucOk ss bh bv.
Proof. split; [reflexivity|]. vm_compute. eauto. Qed.

Print Assumptions C20_nn_inverse.
Print Assumptions C20_sites_once.
Print Assumptions C20_bonds_once.
Print Assumptions C20_bonds_h.
Print Assumptions C20_bonds_v.
Print Assumptions C20_cylinder_wrap_refuted.
Print Assumptions C20_index_periodic.
Print Assumptions C20_index_identity_on_cell.
Print Assumptions C20_f_order_total.
Print Assumptions C20_checkerboard.
Print Assumptions C20_triangular3_period.
Print Assumptions C20_triangular_full.
Print Assumptions C20_rect_unitcell_valid.
Print Assumptions C20_rect_unitcell_sites.
Print Assumptions C20_rect_unitcell_periodic.
Print Assumptions C20_lattice_get_set.
