(* C17 -- Serialisation round-trips every object exactly.  Statements only.
   PROVED: combine_data_and_meta inverts split_data_and_meta on every dictionary tree (tensors, MPS, PEPS, environments all serialise to such
   trees: any nesting depth, any number of data arrays, the key "data" wherever it occurs); the tuple/list conversion applied by from_dict
   inverts what transport (numpy save/load, HDF5, JSON) does to the tuple-only structures to_dict emits, and always yields hashable tuples.
   NOT proved: the field-by-field content of to_dict/from_dict, the zero-block fill-in against a supplied meta, HDF5 layout -- exact round-trip
   correspondence on generated objects (all levels, both dictionary generations, all transports). *)
From Coq Require Import List ZArith.
From Yv Require Import Serial.SplitCombine Serial.SplitCombineLaws Serial.Listify.
From Yv Require Base.Deleg Gen.DelegGen.
Import ListNotations.

Theorem C17_split_combine d : let '(m, data) := split_dict d [] in combine_dict data m = d.
Proof. exact (combine_split d). Qed.

Theorem C17_split_combine_invariants d acc :
  let '(m, acc') := split_dict d acc in
  (exists ext, acc' = acc ++ ext) /\ idx_below (length acc') m /\ combine_dict acc' m = d.
Proof. exact (split_combine_gen d acc). Qed.

Theorem C17_transport_roundtrip x : list_free x -> convert (listify x) = x.
Proof. exact (convert_listify x). Qed.

Theorem C17_no_transport_roundtrip x : list_free x -> convert x = x.
Proof. exact (convert_id x). Qed.

Theorem C17_converted_is_hashable x : list_free (convert x).
Proof. exact (convert_list_free x). Qed.

Example C17_nonvacuous :
  let d := DCons 0 (VOpaque 11) (DCons 3 (VDict (DCons 0 (VOpaque 12) (DCons 5 (VOpaque 7) DNil))) (DCons 4 (VOpaque 9) DNil)) in
  split_dict d [] = (MCons 0 (MIdx 0) (MCons 3 (MDict (MCons 0 (MIdx 1) (MCons 5 (MOpaque 7) MNil))) (MCons 4 (MOpaque 9) MNil)), [VOpaque 11; VOpaque 12])
  /\ convert (listify (PTuple (SCons (PAtom 1) (SCons (PTuple (SCons (PAtom 2) SNil)) SNil)))) = PTuple (SCons (PAtom 1) (SCons (PTuple (SCons (PAtom 2) SNil)) SNil)).
Proof. split; reflexivity. Qed.

(* --- options are handed down under their own names (facts regenerated from the source on every run by tools/translate/tr_deleg.py): to_dict / to_numpy / to_dense delegate level, meta, legs, native, reverse under their own names (one inner call after the embedding drops meta: allowed once) --- *)
Theorem C17_options_forwarded :
  Deleg.deleg_ok Deleg.pre_output DelegGen.delegations DelegGen.allowed = true /\ Nat.ltb 0 (Deleg.n_facts Deleg.pre_output DelegGen.delegations) = true.
Proof. split; vm_compute; reflexivity. Qed.

Print Assumptions C17_split_combine.
Print Assumptions C17_split_combine_invariants.
Print Assumptions C17_transport_roundtrip.
Print Assumptions C17_no_transport_roundtrip.
Print Assumptions C17_converted_is_hashable.
Print Assumptions C17_options_forwarded.
