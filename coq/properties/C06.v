(* C06 -- MPS/MPO algebra agrees with the states and operators it represents.  Statements only.
   PROVED: the direct-sum construction of MPS addition (row-stacking with the amplitudes folded into the first site, block-diagonal bulk,
   column-stacking at the last site) represents x*a + y*b amplitude by amplitude -- for EVERY chain length >= 2, every bond-dimension profile,
   every local dimension and every configuration (transfer-vector recursion, the one Env2 uses for overlaps).
   PROVED (Mps/MpoApply.v, over any commutative ring): the product MPO.MPS built site by site (Kronecker product of the two bond spaces, the
   shared physical index summed) has, at every configuration sigma, the amplitude  sum over sigma' of O(sigma, sigma') * psi(sigma')  -- for EVERY
   chain length, all bond-dimension profiles of both factors and every local dimension (mixed-product property of the Kronecker product carried
   through the transfer-vector recursion).  MPO.MPO is the same statement with the second physical index of the right factor carried along (C06_mpo_times_mpo).
   NOT proved: conj/transpose/reverse, product states, overlaps with environments:
   exact correspondence with NumPy on integer-valued MPS/MPO of every operator family and symmetry (tools/checks/C06.py); mps_from_tensor,
   zipper and variational compression (SVD inside) are compared with tolerance. *)
From Coq Require Import List ZArith.
From Coq Require Import Ring InitialRing.
From Yv Require Import Mps.Vec Mps.MpsDense Mps.MpsLaws.
From Yv Require Base.Deleg Gen.DelegGen.
From Yv Require Mps.MpoApply.
Import ListNotations.
Open Scope Z_scope.

Theorem C06_add x y (a b : chain) sigma :
  length a = length b -> (2 <= length a)%nat ->
  wf_chain 1 a -> wf_chain 1 b ->
  Forall2 (fun s i => (i < length (mats s))%nat) a sigma -> Forall2 (fun s i => (i < length (mats s))%nat) b sigma ->
  wr (last a {| wr := 0; mats := [] |}) = 1%nat -> wr (last b {| wr := 0; mats := [] |}) = 1%nat ->
  amplitude (add2 x y a b) sigma = x * amplitude a sigma + y * amplitude b sigma.
Proof. exact (add2_amplitude x y a b sigma). Qed.

(* the block lemmas the construction rests on *)
Theorem C06_block_diagonal wa wb va vb A B : length va = length A -> mwidth_ok wa A -> mwidth_ok wb B ->
  vecmat (wa + wb) (va ++ vb) (blockdiag wa wb A B) = vecmat wa va A ++ vecmat wb vb B.
Proof. exact (vecmat_blockdiag wa wb va vb A B). Qed.

Theorem C06_column_stack w va vb A B : length va = length A -> mwidth_ok w A -> mwidth_ok w B ->
  vecmat w (va ++ vb) (A ++ B) = vadd (vecmat w va A) (vecmat w vb B).
Proof. exact (vecmat_stack w va vb A B). Qed.

Example C06_nonvacuous :
  let a := [{| wr := 2; mats := [[[1; 2]]; [[0; 1]]] |}; {| wr := 1; mats := [[[1]; [3]]; [[2]; [0]]] |}] in
  let b := [{| wr := 1; mats := [[[2]]; [[1]]] |}; {| wr := 1; mats := [[[1]]; [[-1]]] |}] in
  wf_chain 1 a /\ wf_chain 1 b /\ amplitude a [0%nat; 0%nat] = 7 /\ amplitude b [0%nat; 1%nat] = -2 /\
  amplitude (add2 3 (-2) a b) [0%nat; 1%nat] = 3 * amplitude a [0%nat; 1%nat] + (-2) * amplitude b [0%nat; 1%nat].
Proof. simpl. repeat split; repeat constructor; reflexivity. Qed.

(* --- MPO MpoApply.applied to an MPS --- *)
Section Product.
Variable R : Type.
Variables (r0 r1 : R) (radd rmul rsub : R -> R -> R) (ropp : R -> R).
Hypothesis Rth : ring_theory r0 r1 radd rmul rsub ropp (@eq R).

(* one step: (a (x) b) . (A (x) B) = (a . A) (x) (b . B) on the fused bond *)
Theorem C06_kron_mixed dal dbl dbr a b A B l : (0 < dbl)%nat ->
  MpoApply.vecmat R r0 radd rmul (dal * dbl) (MpoApply.kronv R rmul dbl a b) (MpoApply.kronm R rmul dbl dbr A B) l
  = MpoApply.kronv R rmul dbr (MpoApply.vecmat R r0 radd rmul dal a A) (MpoApply.vecmat R r0 radd rmul dbl b B) l.
Proof. exact (MpoApply.kron_mixed R r0 r1 radd rmul rsub ropp Rth dal dbl dbr a b A B l). Qed.

(* whole chains: the amplitude of the product chain is the sum over the contracted configurations of (operator amplitude) * (state amplitude) *)
Theorem C06_mpo_times_mps d (c : list (MpoApply.psite R)) dwl dal uW uA sigma k :
  (0 < dal)%nat -> MpoApply.bonds_ok R c -> length sigma = length c ->
  MpoApply.propP R r0 radd rmul d dwl dal (MpoApply.kronv R rmul dal uW uA) c sigma k
  = MpoApply.sumconf R r0 radd d (length c)
      (fun sp => MpoApply.kronv R rmul (MpoApply.lastda R dal c) (MpoApply.transW R r0 radd rmul dwl uW c sigma sp) (MpoApply.transA R r0 radd rmul dal uA c sp) k).
Proof. exact (MpoApply.product_amplitude R r0 r1 radd rmul rsub ropp Rth d c dwl dal uW uA sigma k). Qed.
(* MPO . MPO: entry (sigma, sigma') of the product chain = sum over the middle configurations tau of O1(sigma, tau) * O2(tau, sigma') *)
Theorem C06_mpo_times_mpo d (c : list (MpoApply.osite2 R)) dwl dal u1 u2 sigma sigma' k :
  (0 < dal)%nat -> (forall s, In s c -> (0 < MpoApply.dw2 R s)%nat) -> length sigma = length c -> length sigma' = length c ->
  MpoApply.propP R r0 radd rmul d dwl dal (MpoApply.kronv R rmul dal u1 u2) (MpoApply.zip_sites R c sigma') sigma k
  = MpoApply.sumconf R r0 radd d (length c)
      (fun tau => MpoApply.kronv R rmul (MpoApply.lastda R dal (MpoApply.zip_sites R c sigma'))
                    (MpoApply.transW R r0 radd rmul dwl u1 (MpoApply.zip_sites R c sigma') sigma tau)
                    (MpoApply.transA R r0 radd rmul dal u2 (MpoApply.zip_sites R c sigma') tau) k).
Proof. exact (MpoApply.mpo_product_amplitude R r0 r1 radd rmul rsub ropp Rth d c dwl dal u1 u2 sigma sigma' k). Qed.
End Product.

(* instance used by the correspondence check: integers *)
Theorem C06_mpo_times_mps_Z d (c : list (MpoApply.psite Z)) sigma : MpoApply.bonds_ok Z c -> length sigma = length c ->
  MpoApply.propP Z 0 Z.add Z.mul d 1 1 (MpoApply.kronv Z Z.mul 1 (fun k => if Nat.eqb k 0 then 1 else 0) (fun k => if Nat.eqb k 0 then 1 else 0)) c sigma 0%nat
  = MpoApply.applied Z 0 Z.add Z.mul d 1 1 (fun k => if Nat.eqb k 0 then 1 else 0) (fun k => if Nat.eqb k 0 then 1 else 0) c sigma 0%nat.
Proof. intros Hb _. apply (MpoApply.product_represents_application Z 0 1 Z.add Z.mul Z.sub Z.opp Zth d c); [constructor | exact Hb]. Qed.

Example C06_product_nonvacuous :
  let s1 := {| MpoApply.dw := 2; MpoApply.da := 2; MpoApply.Wm := fun s s' i j => Z.of_nat (s + 2 * s' + i + 3 * j); MpoApply.Am := fun s' i j => Z.of_nat (1 + s' + j) |} in
  let s2 := {| MpoApply.dw := 1; MpoApply.da := 1; MpoApply.Wm := fun s s' i j => Z.of_nat (1 + s * s' + i); MpoApply.Am := fun s' i j => Z.of_nat (2 + s' * i) |} in
  MpoApply.bonds_ok Z [s1; s2] /\
  MpoApply.propP Z 0 Z.add Z.mul 2 1 1 (MpoApply.kronv Z Z.mul 1 (fun k => if Nat.eqb k 0 then 1 else 0) (fun k => if Nat.eqb k 0 then 1 else 0)) [s1; s2] [1%nat; 0%nat] 0%nat = 471.
Proof. split; [cbn; repeat split; repeat constructor | vm_compute; reflexivity]. Qed.

(* --- options are handed down under their own names (facts regenerated from the source on every run by tools/translate/tr_deleg.py): compression_ / zipper pass opts_svd and normalize on under their own names (the initial canonisation normalises: allowed once) --- *)
Theorem C06_options_forwarded :
  Deleg.deleg_ok Deleg.pre_compression DelegGen.delegations DelegGen.allowed = true /\ Nat.ltb 0 (Deleg.n_facts Deleg.pre_compression DelegGen.delegations) = true.
Proof. split; vm_compute; reflexivity. Qed.

Print Assumptions C06_add.
Print Assumptions C06_kron_mixed.
Print Assumptions C06_mpo_times_mps.
Print Assumptions C06_mpo_times_mps_Z.
Print Assumptions C06_mpo_times_mpo.
Print Assumptions C06_block_diagonal.
Print Assumptions C06_column_stack.
Print Assumptions C06_options_forwarded.
