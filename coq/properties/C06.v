(* C06 -- MPS/MPO algebra agrees with the states and operators it represents.  Statements only.
   PROVED: the direct-sum construction of MPS addition (row-stacking with the amplitudes folded into the first site, block-diagonal bulk,
   column-stacking at the last site) represents x*a + y*b amplitude by amplitude -- for EVERY chain length >= 2, every bond-dimension profile,
   every local dimension and every configuration (transfer-vector recursion, the one Env2 uses for overlaps).
   NOT proved: products MPO.MPS / MPO.MPO (Kronecker of virtual legs), conj/transpose/reverse, product states, overlaps with environments:
   exact correspondence with NumPy on integer-valued MPS/MPO of every operator family and symmetry (tools/checks/C06.py); mps_from_tensor,
   zipper and variational compression (SVD inside) are compared with tolerance. *)
From Coq Require Import List ZArith.
From Yv Require Import Mps.Vec Mps.MpsDense Mps.MpsLaws.
Import ListNotations.
Open Scope Z_scope.

Theorem C06_add x y (a b : chain) sigma :
  length a = length b -> (2 <= length a)%nat ->
  wf_chain 1 a -> wf_chain 1 b ->
  Forall2 (fun s i => (i < length (mats s))%nat) a sigma -> Forall2 (fun s i => (i < length (mats s))%nat) b sigma ->
  wr (last a {| wr := 0; mats := [] |}) = 1%nat -> wr (last b {| wr := 0; mats := [] |}) = 1%nat ->
  amplitude (add2 x y a b) sigma = x * amplitude a sigma + y * amplitude b sigma.
Proof. exact (add2_amplitude x y a b sigma). Qed.

(* the block lemmas the construction rests on *)
Theorem C06_block_diagonal wa wb va vb A B : length va = length A -> mwidth_ok wa A -> mwidth_ok wb B ->
  vecmat (wa + wb) (va ++ vb) (blockdiag wa wb A B) = vecmat wa va A ++ vecmat wb vb B.
Proof. exact (vecmat_blockdiag wa wb va vb A B). Qed.

Theorem C06_column_stack w va vb A B : length va = length A -> mwidth_ok w A -> mwidth_ok w B ->
  vecmat w (va ++ vb) (A ++ B) = vadd (vecmat w va A) (vecmat w vb B).
Proof. exact (vecmat_stack w va vb A B). Qed.

Example C06_nonvacuous :
  let a := [{| wr := 2; mats := [[[1; 2]]; [[0; 1]]] |}; {| wr := 1; mats := [[[1]; [3]]; [[2]; [0]]] |}] in
  let b := [{| wr := 1; mats := [[[2]]; [[1]]] |}; {| wr := 1; mats := [[[1]]; [[-1]]] |}] in
  wf_chain 1 a /\ wf_chain 1 b /\ amplitude a [0%nat; 0%nat] = 7 /\ amplitude b [0%nat; 1%nat] = -2 /\
  amplitude (add2 3 (-2) a b) [0%nat; 1%nat] = 3 * amplitude a [0%nat; 1%nat] + (-2) * amplitude b [0%nat; 1%nat].
Proof. simpl. repeat split; repeat constructor; reflexivity. Qed.

Print Assumptions C06_add.
Print Assumptions C06_block_diagonal.
Print Assumptions C06_column_stack.
