(* C02 -- Every produced tensor is well-formed and conserves charge.  Statements only.
   [wf_struct] is the executable predicate run (extracted) on the exported structure of EVERY intermediate tensor of the
   generated programs; the charge theorems hold for every symmetry descriptor with positive moduli and all integer charges. *)
From Coq Require Import List ZArith Bool Permutation.
From Yv Require Import Base.LexOrder Sym.Descr Sym.SymLaws Sym.Leg Block.Charge Block.Struct Block.StructLaws Block.Programs Block.ProgramsLaws.
Import ListNotations.
Open Scope Z_scope.

(* what the predicate checked on every produced tensor means *)
Theorem C02_wf_selection_rule fuse t k : wf_struct fuse t = true -> In k (ts_keys t) ->
  fuse (chunks (ts_nsym t) (length (ts_s t)) k) (ts_s t) 1 = ts_n t.
Proof. exact (wf_selection_rule fuse t k). Qed.

Theorem C02_wf_blocks_unique fuse t : wf_struct fuse t = true -> NoDup (ts_keys t).
Proof. exact (wf_blocks_unique fuse t). Qed.

Theorem C02_zero_outside fuse t data k off : wf_struct fuse t = true ->
  fuse (chunks (ts_nsym t) (length (ts_s t)) k) (ts_s t) 1 <> ts_n t -> sector_value t data k off = 0.
Proof. exact (wf_zero_outside fuse t data k off). Qed.

Theorem C02_wf_storage fuse t : wf_struct fuse t = true ->
  slices_contiguous 0 (ts_slices t) = Some (ts_size t) /\ ts_size t = ts_datalen t.
Proof. exact (wf_storage fuse t). Qed.

(* the total charge of a result is the one algebra dictates *)
Theorem C02_charge_tensordot d (Hd : okdescr d) ka_out kc kb_out sa_out sc sb_out na nb :
  length ka_out = length sa_out -> length kc = length sc ->
  sel d (ka_out ++ kc) (sa_out ++ sc) na -> sel d (kc ++ kb_out) (map Z.opp sc ++ sb_out) nb ->
  sel d (ka_out ++ kb_out) (sa_out ++ sb_out) (gadd d na nb).
Proof. exact (sel_tensordot d Hd ka_out kc kb_out sa_out sc sb_out na nb). Qed.

Theorem C02_charge_conj d (Hd : okdescr d) key s n : sel d key s n -> sel d key (map Z.opp s) (gneg d n).
Proof. exact (sel_conj d Hd key s n). Qed.

Theorem C02_charge_transpose d (Hd : okdescr d) (p q : list (Z * list Z)) n : Permutation p q ->
  sel d (map snd p) (map fst p) n -> sel d (map snd q) (map fst q) n.
Proof. exact (sel_transpose d Hd p q n). Qed.

Theorem C02_charge_trace d (Hd : okdescr d) k_out s_out t x n : length k_out = length s_out ->
  sel d (k_out ++ [t; t]) (s_out ++ [x; - x]) n -> sel d k_out s_out n.
Proof. exact (sel_trace d k_out s_out t x n). Qed.

Theorem C02_charge_fuse d (Hd : okdescr d) (gs : list group) n : Forall g_ok gs ->
  sel d (concat (map (fun g => let '(cs, _, _) := g in cs) gs)) (concat (map (fun g => let '(_, ss, _) := g in ss) gs)) n ->
  sel d (map (fun g => let '(cs, ss, sg) := g in gfuse d cs ss sg) gs) (map (fun g => let '(_, _, sg) := g in sg) gs) n.
Proof. exact (sel_fuse d Hd gs n). Qed.

Theorem C02_charge_add_leg d (Hd : okdescr d) key s n t x : length key = length s ->
  sel d key s n -> sel d (key ++ [t]) (s ++ [x]) (gfuse d [n; t] [1; x] 1).
Proof. exact (sel_add_leg d Hd key s n t x). Qed.

(* for ALL finite programs over conj / transposition generators / trace / add_leg / tensordot: charge is conserved *)
Theorem C02_programs_conserve_charge d (Hd : okdescr d) (e : cexpr) c :
  leaves_wf d e -> ceval d e = Some c -> cwf d c.
Proof. exact (programs_conserve_charge d Hd e c). Qed.

(* non-vacuity: a U1xZ2 program  trace(A . conj-ish B)  evaluates and its leaves are well-formed *)
Example C02_nonvacuous :
  let d := [None; Some 2] in
  let A := {| cs_s := [1; -1; 1]; cs_n := [1; 1]; cs_keys := [[[1;0]; [0;0]; [0;1]]; [[2;1]; [1;1]; [0;1]]] |} in
  let B := {| cs_s := [-1; 1]; cs_n := [0; 0]; cs_keys := [[[0;1]; [0;1]]; [[3;0]; [3;0]]] |} in
  leaves_wf d (CTraceLast (CRotate (CDot 1 (CLeaf A) (CLeaf B)))) /\
  exists c, ceval d (CDot 1 (CLeaf A) (CLeaf B)) = Some c /\ cs_keys c <> [].
Proof.
  simpl. split.
  - split; unfold cwf, sel; simpl; repeat constructor.
  - eexists. split; [vm_compute; reflexivity|]. discriminate.
Qed.

Print Assumptions C02_wf_selection_rule.
Print Assumptions C02_wf_blocks_unique.
Print Assumptions C02_zero_outside.
Print Assumptions C02_wf_storage.
Print Assumptions C02_charge_tensordot.
Print Assumptions C02_charge_conj.
Print Assumptions C02_charge_transpose.
Print Assumptions C02_charge_trace.
Print Assumptions C02_charge_fuse.
Print Assumptions C02_charge_add_leg.
Print Assumptions C02_programs_conserve_charge.
