(* C01 -- Tensor algebra agrees with dense linear algebra.  Statements only.
   PROVED here (L-block model, all ranks / sector sets / dimensions): the linear structure -- scalar multiples, negation,
   sums, differences and linear combinations commute with the dense semantics [sget] (value at a sector tuple and position,
   ZERO where no block is stored), including sectors present in only one operand.
   NOT yet proved (stated in DESIGN.md, covered by exact correspondence with NumPy on every run): transposition, tensordot,
   trace, vdot, broadcast, masks, diag, ncon -- the theorem names reserved for them are absent, not admitted. *)
From Coq Require Import List ZArith Bool.
From Yv Require Import Base.LexOrder Block.Block Block.BlockLaws.
Import ListNotations.
Open Scope Z_scope.

Theorem C01_scal c a k i : sget (bscal c a) k i = c * sget a k i.
Proof. exact (sget_bscal c a k i). Qed.

Theorem C01_neg a k i : sget (bneg a) k i = - sget a k i.
Proof. exact (sget_bneg a k i). Qed.

Theorem C01_elementwise f a k i : f 0 = 0 -> sget (bmap f a) k i = f (sget a k i).
Proof. exact (sget_bmap f a k i). Qed.

Theorem C01_add a b k i :
  keys_sorted a = true -> keys_sorted b = true -> compatible a b = true ->
  (forall kb, In kb a -> length (fst kb) = length k) -> (forall kb, In kb b -> length (fst kb) = length k) ->
  sget (badd a b) k i = sget a k i + sget b k i.
Proof. exact (sget_badd a b k i). Qed.

(* views agree: block access and the dense semantics describe one array; outside stored blocks it is zero *)
Theorem C01_views_agree a k i : sget a k i = match bfind k a with Some (_, d) => nth i d 0 | None => 0 end.
Proof. reflexivity. Qed.

Example C01_nonvacuous :
  let a := [([0; 1], ([1; 2], [5; 7])); ([1; 0], ([2; 1], [1; -1]))] in
  let b := [([1; 0], ([2; 1], [10; 20])); ([2; 2], ([1; 1], [3]))] in
  keys_sorted a = true /\ keys_sorted b = true /\ compatible a b = true /\
  badd a b = [([0; 1], ([1; 2], [5; 7])); ([1; 0], ([2; 1], [11; 19])); ([2; 2], ([1; 1], [3]))].
Proof. vm_compute. repeat split; reflexivity. Qed.

Print Assumptions C01_scal.
Print Assumptions C01_neg.
Print Assumptions C01_elementwise.
Print Assumptions C01_add.
Print Assumptions C01_views_agree.
