(* C03 -- Leg fusion is a faithful, reversible change of basis.  Statements only.
   PROVED: the index maps fusion is made of are bijections -- (i) a list of segment lengths partitions [0, total): (segment, offset) <-> flat
   position (sector layout along a leg, product sectors inside a fused sector, operands inside a block()), (ii) row-major merging of the legs
   of one product sector; the fused leg is exactly as large as the occurring product sectors together (nothing lost, nothing invented); and
   the fused tensor obeys the selection rule with the fused charges (C02_charge_fuse).  A bijective re-indexing preserves every element,
   hence norms and contractions.
   NOT proved: the block-level statement unfuse(fuse a) = a, masks for mismatched histories, block(): exact correspondence with NumPy. *)
From Coq Require Import List ZArith Arith.
From Yv Require Import Sym.Descr Sym.SymLaws Block.Charge Fusion.Index Fusion.Fusion.
Import ListNotations.
Open Scope nat_scope.

Theorem C03_segments_sound Ps x j o : locate Ps x = Some (j, o) -> j < length Ps /\ o < nth j Ps 0 /\ x = seg_lo Ps j + o.
Proof. exact (locate_sound Ps x j o). Qed.

Theorem C03_segments_complete Ps j o : j < length Ps -> o < nth j Ps 0 -> locate Ps (seg_lo Ps j + o) = Some (j, o).
Proof. exact (locate_complete Ps j o). Qed.

Theorem C03_segments_cover Ps x : x < sum_list Ps -> exists j o, locate Ps x = Some (j, o).
Proof. exact (locate_total Ps x). Qed.

Theorem C03_segments_disjoint Ps j o j' o' : j < length Ps -> o < nth j Ps 0 -> j' < length Ps -> o' < nth j' Ps 0 ->
  seg_lo Ps j + o = seg_lo Ps j' + o' -> j = j' /\ o = o'.
Proof. exact (seg_injective Ps j o j' o'). Qed.

Theorem C03_merge_legs_bijective Ds :
  (forall os, in_box Ds os -> ravel Ds os < prod_list Ds /\ unravel Ds (ravel Ds os) = os) /\
  (forall x, x < prod_list Ds -> in_box Ds (unravel Ds x) /\ ravel Ds (unravel Ds x) = x).
Proof. exact (conj (fun os H => conj (ravel_lt Ds os H) (unravel_ravel Ds os H)) (ravel_unravel Ds)). Qed.

Theorem C03_fused_dimension fuse ss snew (combos : list combo) :
  sum_list (map snd (fused_leg fuse ss snew combos)) = sum_list (map (fun c => prod_list (snd c)) combos).
Proof. exact (fused_leg_total_dimension fuse ss snew combos). Qed.

Theorem C03_fused_selection_rule d (Hd : okdescr d) (gs : list group) n : Forall g_ok gs ->
  sel d (concat (map (fun g => let '(cs, _, _) := g in cs) gs)) (concat (map (fun g => let '(_, ss, _) := g in ss) gs)) n ->
  sel d (map (fun g => let '(cs, ss, sg) := g in gfuse d cs ss sg) gs) (map (fun g => let '(_, _, sg) := g in sg) gs) n.
Proof. exact (sel_fuse d Hd gs n). Qed.

Example C03_nonvacuous :
  fused_leg (gfuse [None]) [1; 1]%Z 1%Z [([[0]; [1]]%Z, [2; 3]); ([[1]; [0]]%Z, [1; 2]); ([[0]; [0]]%Z, [2; 2])] = [([0]%Z, 4); ([1]%Z, 8)]
  /\ fused_slices (gfuse [None]) [1; 1]%Z 1%Z [([[0]; [1]]%Z, [2; 3]); ([[1]; [0]]%Z, [1; 2]); ([[0]; [0]]%Z, [2; 2])] = [(0, 4); (0, 6); (6, 8)]
  /\ locate [6; 2] 7 = Some (1, 1) /\ unravel [2; 3] 4 = [1; 1].
Proof. vm_compute. repeat split; reflexivity. Qed.

Print Assumptions C03_segments_sound.
Print Assumptions C03_segments_complete.
Print Assumptions C03_segments_cover.
Print Assumptions C03_segments_disjoint.
Print Assumptions C03_merge_legs_bijective.
Print Assumptions C03_fused_dimension.
Print Assumptions C03_fused_selection_rule.
