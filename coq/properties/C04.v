(* C04 -- Factorisations reconstruct the input with the promised structure.  Statements only.
   PROVED (every symmetry descriptor, all integer charges, all four (nU, sU) branches): every block of U, S, V (and Q, R) obeys the selection
   rule of its tensor -- U has signature (s0, sU) and carries the tensor charge iff nU, S has signature (-sU, sU) and charge 0, V has
   signature (-sU, s1) and carries the charge iff not nU; Q keeps the charge, R has charge 0.  With C13_error_identity and the bijections of C03
   this is the structural half of the property.
   NOT proved (premises, validated numerically on every run): LAPACK's svd/qr/eigh/eig meet their specifications per block (reconstruction,
   (co)isometry, ordering and non-negativity of S, triangular R with non-negative diagonal, bi-orthonormal eigenvectors). *)
From Coq Require Import List ZArith Bool.
From Yv Require Import Sym.Descr Sym.SymLaws Block.Charge Linalg.MetaSvd.
Import ListNotations.
Open Scope Z_scope.

Theorem C04_charge_svd d (Hd : okdescr d) (nU : bool) sU s0 s1 tl tr n :
  sgn_ok sU -> sgn_ok s0 -> sgn_ok s1 -> sel d [tl; tr] [s0; s1] n ->
  let tc := t_con d nU sU s0 s1 tl tr in
  sel d [tl; tc] [s0; sU] (Un d nU n) /\ sel d [tc; tc] [- sU; sU] (gzero d) /\ sel d [tc; tr] [- sU; s1] (Vn d nU n).
Proof. exact (svd_blocks_obey_selection_rule d Hd nU sU s0 s1 tl tr n). Qed.

Theorem C04_charge_qr d (Hd : okdescr d) sQ s0 s1 tl tr n :
  sgn_ok sQ -> sgn_ok s1 -> sel d [tl; tr] [s0; s1] n ->
  let tc := t_con_qr d sQ s1 tr in
  sel d [tl; tc] [s0; sQ] n /\ sel d [tc; tr] [- sQ; s1] (gzero d).
Proof. exact (qr_blocks_obey_selection_rule d Hd sQ s0 s1 tl tr n). Qed.

Example C04_nonvacuous :
  sel [None; Some 2] [[2; 1]; [1; 0]] [1; -1] [1; 1] /\
  t_con [None; Some 2] true 1 1 (-1) [2; 1] [1; 0] = [-1; 0] /\ t_con [None; Some 2] false 1 1 (-1) [2; 1] [1; 0] = [-2; 1].
Proof. vm_compute. repeat split; reflexivity. Qed.

Print Assumptions C04_charge_svd.
Print Assumptions C04_charge_qr.
