(* Vec.v -- list-based vectors and matrices over Z (a matrix is a list of rows) and the lemmas about block structure
   that the MPS direct-sum construction rests on.  Executable; stdlib only. *)
From Coq Require Import List ZArith Lia.
Import ListNotations.
Open Scope Z_scope.

Notation vec := (list Z) (only parsing).
Notation mat := (list (list Z)) (only parsing).  (* rows *)

Fixpoint vadd (a b : vec) : vec :=
  match a, b with
  | x :: a', y :: b' => (x + y) :: vadd a' b'
  | [], _ => b
  | _, [] => a
  end.
Definition vscale (c : Z) (a : vec) : vec := map (Z.mul c) a.
Definition vzero (n : nat) : vec := repeat 0 n.

(* v . M  =  sum_k v_k * row_k ; [w] is the width (length of the rows) *)
Fixpoint vecmat (w : nat) (v : vec) (M : mat) : vec :=
  match v, M with
  | x :: v', r :: M' => vadd (vscale x r) (vecmat w v' M')
  | _, _ => vzero w
  end.

Definition mwidth_ok (w : nat) (M : mat) : Prop := Forall (fun r => length r = w) M.

(* block-diagonal matrix and the row/column stackings used at the chain ends *)
Definition blockdiag (wa wb : nat) (A B : mat) : mat :=
  map (fun r => r ++ vzero wb) A ++ map (fun r => vzero wa ++ r) B.

Lemma vadd_length a b : length a = length b -> length (vadd a b) = length a.
Proof. revert b; induction a as [|x a IH]; intros [|y b] H; simpl in *; try discriminate; auto. Qed.

Lemma vscale_length c a : length (vscale c a) = length a.
Proof. apply map_length. Qed.

Lemma vzero_length n : length (vzero n) = n.
Proof. apply repeat_length. Qed.

Lemma vecmat_length w v M : mwidth_ok w M -> length (vecmat w v M) = w.
Proof.
  revert M; induction v as [|x v IH]; intros [|r M] H; simpl; try apply vzero_length.
  inversion H; subst. rewrite vadd_length; rewrite vscale_length; auto. rewrite IH; auto.
Qed.

Lemma vadd_app a b c d : length a = length c -> vadd (a ++ b) (c ++ d) = vadd a c ++ vadd b d.
Proof. revert c; induction a as [|x a IH]; intros [|y c] H; simpl in *; try discriminate; auto. rewrite IH by lia. reflexivity. Qed.

Lemma vscale_app c a b : vscale c (a ++ b) = vscale c a ++ vscale c b.
Proof. apply map_app. Qed.

Lemma vscale_vzero c n : vscale c (vzero n) = vzero n.
Proof. unfold vscale, vzero. induction n; simpl; auto. rewrite IHn. f_equal. lia. Qed.

Lemma vadd_vzero_l n a : length a = n -> vadd (vzero n) a = a.
Proof. revert a; induction n as [|n IH]; intros [|x a] H; simpl in *; try discriminate; auto. rewrite IH by lia. reflexivity. Qed.

Lemma vadd_vzero_r n a : length a = n -> vadd a (vzero n) = a.
Proof. revert a; induction n as [|n IH]; intros [|x a] H; simpl in *; try discriminate; auto. rewrite IH by lia. f_equal. lia. Qed.

Lemma vzero_app a b : vzero (a + b) = vzero a ++ vzero b.
Proof. unfold vzero. apply repeat_app. Qed.

(* a vector that lives in the B-part only sees the B-block *)
Lemma vecmat_zero_pad_right wa wb v B : mwidth_ok wb B ->
  vecmat (wa + wb) v (map (fun r => vzero wa ++ r) B) = vzero wa ++ vecmat wb v B.
Proof.
  revert B; induction v as [|x v IH]; intros [|r B] H; simpl; try apply vzero_app.
  inversion H; subst. rewrite IH by assumption. rewrite vscale_app, vscale_vzero.
  rewrite vadd_app by (rewrite !vzero_length; reflexivity). rewrite vadd_vzero_l by apply vzero_length. reflexivity.
Qed.

(* KEY LEMMA: (va ++ vb) . blockdiag(A, B) = (va . A) ++ (vb . B) *)
Theorem vecmat_blockdiag wa wb va vb A B : length va = length A -> mwidth_ok wa A -> mwidth_ok wb B ->
  vecmat (wa + wb) (va ++ vb) (blockdiag wa wb A B) = vecmat wa va A ++ vecmat wb vb B.
Proof.
  unfold blockdiag. revert A; induction va as [|x va IH]; intros [|r A] Hl HA HB; simpl in *; try discriminate.
  - rewrite vecmat_zero_pad_right by assumption. rewrite vadd_vzero_l || idtac. 
    reflexivity.
  - inversion HA; subst. rewrite IH by (try lia; assumption).
    rewrite vscale_app, vscale_vzero.
    rewrite vadd_app by (rewrite vscale_length, vecmat_length by assumption; reflexivity).
    rewrite vadd_vzero_l by (apply vecmat_length; assumption). reflexivity.
Qed.

Lemma vadd_assoc a : forall b c, vadd a (vadd b c) = vadd (vadd a b) c.
Proof.
  induction a as [|x a IH]; intros [|y b] [|z c]; simpl; auto.
  rewrite IH. f_equal. lia.
Qed.

(* column stacking at the last site: (va ++ vb) . [A; B] = va . A + vb . B *)
Theorem vecmat_stack w va vb A B : length va = length A -> mwidth_ok w A -> mwidth_ok w B ->
  vecmat w (va ++ vb) (A ++ B) = vadd (vecmat w va A) (vecmat w vb B).
Proof.
  revert A; induction va as [|x va IH]; intros [|r A] Hl HA HB; simpl in *; try discriminate.
  - rewrite vadd_vzero_l by (apply vecmat_length; assumption). reflexivity.
  - inversion HA; subst. rewrite IH by (try lia; assumption). apply vadd_assoc.
Qed.

(* row stacking at the first site: [1] . [rowA ++ rowB] = rowA ++ rowB *)
Lemma vecmat_unit w r : length r = w -> vecmat w [1] [r] = r.
Proof.
  intro H. simpl. rewrite vadd_vzero_r by (rewrite vscale_length; exact H).
  unfold vscale. rewrite <- (map_id r) at 2. apply map_ext. intro; lia.
Qed.
