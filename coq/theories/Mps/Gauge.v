(* Gauge.v -- moving a factor across a bond leaves every amplitude of a matrix-product chain unchanged.
   Site tensors are families of matrices indexed by the physical index; if the matrices of a site factor as A[s] = Q[s] . R (all s) then replacing
   (A, B) by (Q, R . B) -- what orthogonalize_site_(to='last') followed by absorb_central_ does with the QR factors -- gives the same transfer vector
   for every configuration; the mirror statement covers to='first'; a sequence of such moves (canonize_) therefore preserves the state.
   Over an arbitrary commutative ring; matrices are functions on nat, compared below their dimensions. *)
From Coq Require Import List Arith Ring Lia PeanoNat.
From Yv Require Import Mps.MpoApply.
Import ListNotations.

Section OverRing.
Variable R : Type.
Variables (r0 r1 : R) (radd rmul rsub : R -> R -> R) (ropp : R -> R).
Hypothesis Rth : ring_theory r0 r1 radd rmul rsub ropp (@eq R).
Add Ring RringG : Rth.
Notation "a +! b" := (radd a b) (at level 50, left associativity).
Notation "a *! b" := (rmul a b) (at level 40, left associativity).
Notation rsum := (rsum R r0 radd).
Notation vecmat := (vecmat R r0 radd rmul).

Definition mm (n : nat) (A B : nat -> nat -> R) : nat -> nat -> R := fun i j => rsum n (fun k => A i k *! B k j).

Lemma vecmat_assoc l m v A B j : vecmat m (vecmat l v A) B j = vecmat l v (mm m A B) j.
Proof.
  unfold MpoApply.vecmat, mm.
  erewrite (rsum_ext R r0 radd m); [|intros k _; symmetry; apply (rsum_scale_r R r0 r1 radd rmul rsub ropp Rth)].
  rewrite (rsum_swap R r0 r1 radd rmul rsub ropp Rth).
  apply rsum_ext. intros i _.
  rewrite <- (rsum_scale R r0 r1 radd rmul rsub ropp Rth). apply rsum_ext. intros k _. ring.
Qed.

(* one site: right bond dimension and the matrix of each physical index *)
Record msite := { dr : nat; Mt : nat -> nat -> nat -> R }.
Fixpoint prop (dl : nat) (u : nat -> R) (c : list msite) (sigma : list nat) : nat -> R :=
  match c, sigma with
  | s :: c', i :: sg => prop (dr s) (vecmat dl u (Mt s i)) c' sg
  | _, _ => u
  end.

Lemma vecmat_ext_v dl u v M : (forall i, i < dl -> u i = v i) -> forall j, vecmat dl u M j = vecmat dl v M j.
Proof. intros H j. unfold MpoApply.vecmat. apply rsum_ext. intros i Hi. rewrite (H i Hi). reflexivity. Qed.
Lemma vecmat_ext_m dl u M M' : (forall i j, i < dl -> M i j = M' i j) -> forall j, vecmat dl u M j = vecmat dl u M' j.
Proof. intros H j. unfold MpoApply.vecmat. apply rsum_ext. intros i Hi. rewrite (H i j Hi). reflexivity. Qed.

Lemma prop_ext c : forall dl u v sigma, (forall i, u i = v i) -> forall j, prop dl u c sigma j = prop dl v c sigma j.
Proof.
  induction c as [|s c IH]; intros dl u v sigma H j; cbn [prop]; [apply H|].
  destruct sigma as [|i sg]; [apply H|]. apply IH. intro k. apply vecmat_ext_v. intros; apply H.
Qed.

Lemma last_cons_default (l : list nat) : forall a d, last (a :: l) d = last l a.
Proof.
  induction l as [|y l IH]; intros a d; [reflexivity|].
  change (last (a :: y :: l) d) with (last (y :: l) d). rewrite (IH y d), (IH y a). reflexivity.
Qed.

Lemma prop_app c1 : forall c2 dl u sg1 sg2, length sg1 = length c1 ->
  forall j, prop dl u (c1 ++ c2) (sg1 ++ sg2) j = prop (last (map dr c1) dl) (prop dl u c1 sg1) c2 sg2 j.
Proof.
  induction c1 as [|s c1 IH]; intros c2 dl u sg1 sg2 Hl j.
  - destruct sg1; [reflexivity | discriminate].
  - destruct sg1 as [|i sg1]; [discriminate|]. cbn [app prop map]. rewrite IH by (cbn [length] in Hl; lia).
    rewrite last_cons_default. reflexivity.
Qed.

(* ---- the two local moves ---- *)
(* to = 'last':  A[s] = Q[s] . R   ==>   (A, B) ~ (Q, R . B) *)
Definition factors_right (dq : nat) (sA sQ : msite) (Rm : nat -> nat -> R) : Prop :=
  forall s i j, Mt sA s i j = mm dq (Mt sQ s) Rm i j.
Definition absorb_right (sB : msite) (Rm : nat -> nat -> R) (dm : nat) : msite :=
  {| dr := dr sB; Mt := fun s => mm dm Rm (Mt sB s) |}.

Lemma move_right dl u sA sB sQ Rm s1 s2 j : factors_right (dr sQ) sA sQ Rm ->
  prop dl u [sA; sB] [s1; s2] j = prop dl u [sQ; absorb_right sB Rm (dr sA)] [s1; s2] j.
Proof.
  intro HF. cbn [prop absorb_right dr Mt].
  etransitivity; [|apply (vecmat_assoc (dr sQ) (dr sA))]. apply vecmat_ext_v. intros k _.
  etransitivity; [|symmetry; apply (vecmat_assoc dl (dr sQ))]. apply vecmat_ext_m. intros i j' _. apply HF.
Qed.

(* to = 'first':  B[s] = L . Q[s]   ==>   (A, B) ~ (A . L, Q) *)
Definition factors_left (dm : nat) (sB sQ : msite) (Lm : nat -> nat -> R) : Prop :=
  forall s i j, Mt sB s i j = mm dm Lm (Mt sQ s) i j.
Definition absorb_left (sA : msite) (Lm : nat -> nat -> R) (dm : nat) : msite :=
  {| dr := dm; Mt := fun s => mm (dr sA) (Mt sA s) Lm |}.

Lemma move_left dl u sA sB sQ Lm dm s1 s2 j : dr sQ = dr sB -> factors_left dm sB sQ Lm ->
  prop dl u [sA; sB] [s1; s2] j = prop dl u [absorb_left sA Lm dm; sQ] [s1; s2] j.
Proof.
  intros Hd HF. cbn [prop absorb_left dr Mt].
  symmetry.
  etransitivity; [apply vecmat_ext_v; intros k _; symmetry; apply (vecmat_assoc dl (dr sA))|].
  etransitivity; [apply (vecmat_assoc (dr sA) dm)|]. apply vecmat_ext_m. intros i j' _. symmetry. apply HF.
Qed.

(* ---- a central block on a bond (what orthogonalize_site_ leaves behind) and its absorption ---- *)
Definition csite (dc : nat) (C : nat -> nat -> R) : msite := {| dr := dc; Mt := fun _ => C |}.
Lemma center_right dl u sA sB C dc s1 s2 z j :
  prop dl u [sA; csite dc C; sB] [s1; z; s2] j = prop dl u [sA; absorb_right sB C dc] [s1; s2] j.
Proof. cbn [prop csite absorb_right dr Mt]. apply (vecmat_assoc (dr sA) dc). Qed.
Lemma center_left dl u sA sB C dc s1 s2 z j :
  prop dl u [sA; csite dc C; sB] [s1; z; s2] j = prop dl u [absorb_left sA C dc; sB] [s1; s2] j.
Proof.
  cbn [prop csite absorb_left dr Mt]. apply vecmat_ext_v. intros k _. apply (vecmat_assoc dl (dr sA)).
Qed.

(* ---- anywhere in a chain ---- *)
Inductive gauge_step : list msite -> list msite -> Prop :=
| GRight pre post sA sB sQ Rm : factors_right (dr sQ) sA sQ Rm ->
    gauge_step (pre ++ [sA; sB] ++ post) (pre ++ [sQ; absorb_right sB Rm (dr sA)] ++ post)
| GLeft pre post sA sB sQ Lm dm : dr sQ = dr sB -> factors_left dm sB sQ Lm ->
    gauge_step (pre ++ [sA; sB] ++ post) (pre ++ [absorb_left sA Lm dm; sQ] ++ post).

Lemma two_site_lift pre post (m1 m2 : list msite) dl u sigma :
  length m1 = 2 -> length m2 = 2 -> length sigma = length (pre ++ m1 ++ post) ->
  last (map dr m1) 0 = last (map dr m2) 0 ->
  (forall d v s1 s2 j, prop d v m1 [s1; s2] j = prop d v m2 [s1; s2] j) ->
  forall j, prop dl u (pre ++ m1 ++ post) sigma j = prop dl u (pre ++ m2 ++ post) sigma j.
Proof.
  intros L1 L2 Hs Hlast H2 j.
  rewrite !app_length, L1 in Hs.
  set (n1 := length pre) in *.
  assert (E : sigma = firstn n1 sigma ++ (firstn 2 (skipn n1 sigma)) ++ skipn 2 (skipn n1 sigma)) by (rewrite !firstn_skipn; reflexivity).
  assert (Lf : length (firstn n1 sigma) = length pre) by (rewrite firstn_length; lia).
  assert (Lm : length (firstn 2 (skipn n1 sigma)) = 2) by (rewrite firstn_length, skipn_length; lia).
  rewrite E. rewrite !(prop_app pre) by exact Lf.
  rewrite (prop_app m1) by (rewrite Lm, L1; reflexivity). rewrite (prop_app m2) by (rewrite Lm, L2; reflexivity).
  destruct (firstn 2 (skipn n1 sigma)) as [|s1 [|s2 [|? ?]]] eqn:Ef; try discriminate.
  destruct m1 as [|a1 [|b1 [|? ?]]]; try discriminate. destruct m2 as [|a2 [|b2 [|? ?]]]; try discriminate.
  cbn [map last] in Hlast |- *. rewrite Hlast.
  apply prop_ext. intro k. apply H2.
Qed.

Theorem gauge_step_preserves c c' : gauge_step c c' ->
  forall dl u sigma, length sigma = length c -> forall j, prop dl u c sigma j = prop dl u c' sigma j.
Proof.
  intros G dl u sigma Hs j. destruct G as [pre post sA sB sQ Rm HF | pre post sA sB sQ Lm dm Hd HF].
  - apply (two_site_lift pre post [sA; sB] [sQ; absorb_right sB Rm (dr sA)]); try reflexivity; try exact Hs.
    intros d v s1 s2 k. apply move_right. apply HF.
  - apply (two_site_lift pre post [sA; sB] [absorb_left sA Lm dm; sQ]); try reflexivity; try exact Hs.
    + cbn [map last]. symmetry. exact Hd.
    + intros d v s1 s2 k. apply move_left; assumption.
Qed.

Lemma gauge_step_length c c' : gauge_step c c' -> length c' = length c.
Proof. intro G; destruct G; rewrite !app_length; reflexivity. Qed.

(* any finite sequence of moves (a canonisation sweep in either direction, or several) *)
Inductive gauge_steps : list msite -> list msite -> Prop :=
| GS0 c : gauge_steps c c
| GSS c c' c'' : gauge_step c c' -> gauge_steps c' c'' -> gauge_steps c c''.

Theorem gauge_steps_preserve c c' : gauge_steps c c' ->
  forall dl u sigma, length sigma = length c -> forall j, prop dl u c sigma j = prop dl u c' sigma j.
Proof.
  induction 1 as [c | c c' c'' G1 _ IH]; intros dl u sigma Hs j; [reflexivity|].
  rewrite (gauge_step_preserves c c' G1 dl u sigma Hs j). apply IH. rewrite (gauge_step_length _ _ G1). exact Hs.
Qed.
End OverRing.
