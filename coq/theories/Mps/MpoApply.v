(* MpoApply.v -- the product MPO.MPS built site by site (Kronecker products of the bond spaces, contraction of the shared physical index)
   represents the operator applied to the state: its amplitude at sigma is the sum over sigma' of (operator amplitude) * (state amplitude),
   for every chain length, all bond dimensions, every local dimension; over an arbitrary commutative ring.
   Vectors and matrices are functions on nat compared below their dimensions. *)
From Coq Require Import List Arith Ring Lia Bool PeanoNat.
Import ListNotations.

Section OverRing.
Variable R : Type.
Variables (r0 r1 : R) (radd rmul rsub : R -> R -> R) (ropp : R -> R).
Hypothesis Rth : ring_theory r0 r1 radd rmul rsub ropp (@eq R).
Add Ring RringM : Rth.
Notation "a +! b" := (radd a b) (at level 50, left associativity).
Notation "a *! b" := (rmul a b) (at level 40, left associativity).

Fixpoint rsum (n : nat) (f : nat -> R) : R := match n with O => r0 | S k => rsum k f +! f k end.
Lemma rsum_ext n f g : (forall k, k < n -> f k = g k) -> rsum n f = rsum n g.
Proof. induction n as [|n IH]; intro H; cbn [rsum]; [reflexivity|]. rewrite IH by (intros; apply H; lia). rewrite (H n) by lia. reflexivity. Qed.
Lemma rsum_add n f g : rsum n (fun k => f k +! g k) = rsum n f +! rsum n g.
Proof. induction n as [|n IH]; cbn [rsum]; [ring|]. rewrite IH. ring. Qed.
Lemma rsum_scale n c f : rsum n (fun k => c *! f k) = c *! rsum n f.
Proof. induction n as [|n IH]; cbn [rsum]; [ring|]. rewrite IH. ring. Qed.
Lemma rsum_scale_r n c f : rsum n (fun k => f k *! c) = rsum n f *! c.
Proof. induction n as [|n IH]; cbn [rsum]; [ring|]. rewrite IH. ring. Qed.
Lemma rsum_zero n : rsum n (fun _ => r0) = r0.
Proof. induction n as [|n IH]; cbn [rsum]; [reflexivity|]. rewrite IH. ring. Qed.
Lemma rsum_swap m n (f : nat -> nat -> R) : rsum m (fun i => rsum n (fun j => f i j)) = rsum n (fun j => rsum m (fun i => f i j)).
Proof.
  induction m as [|m IH]; cbn [rsum]. - symmetry. apply rsum_zero.
  - rewrite IH. rewrite <- rsum_add. reflexivity.
Qed.
(* a sum over a product index set *)
Lemma rsum_prod m n (f : nat -> nat -> R) : 0 < n -> rsum (m * n) (fun k => f (k / n) (k mod n)) = rsum m (fun i => rsum n (fun j => f i j)).
Proof.
  intro Hn. induction m as [|m IH]; [reflexivity|].
  cbn [rsum]. rewrite <- IH. replace (S m * n) with (m * n + n) by lia.
  assert (G : forall q, q <= n -> rsum (m * n + q) (fun k => f (k / n) (k mod n)) = rsum (m * n) (fun k => f (k / n) (k mod n)) +! rsum q (fun j => f m j)).
  { induction q as [|q IHq]; intro Hq. - rewrite Nat.add_0_r. cbn [rsum]. ring.
    - replace (m * n + S q) with (S (m * n + q)) by lia. cbn [rsum]. rewrite IHq by lia.
      replace ((m * n + q) / n) with m by (symmetry; rewrite Nat.add_comm, Nat.div_add by lia; rewrite Nat.div_small by lia; lia).
      replace ((m * n + q) mod n) with q by (symmetry; rewrite Nat.add_comm, Nat.mod_add by lia; apply Nat.mod_small; lia).
      ring. }
  apply G. lia.
Qed.

Definition vecmat (dl : nat) (v : nat -> R) (M : nat -> nat -> R) : nat -> R := fun j => rsum dl (fun i => v i *! M i j).
Definition kronv (db : nat) (a b : nat -> R) : nat -> R := fun k => a (k / db) *! b (k mod db).
Definition kronm (dbl dbr : nat) (A B : nat -> nat -> R) : nat -> nat -> R := fun k l => A (k / dbl) (l / dbr) *! B (k mod dbl) (l mod dbr).

(* mixed product: (a (x) b) . (A (x) B) = (a . A) (x) (b . B) *)
Lemma kron_mixed dal dbl dbr a b A B l : 0 < dbl ->
  vecmat (dal * dbl) (kronv dbl a b) (kronm dbl dbr A B) l = kronv dbr (vecmat dal a A) (vecmat dbl b B) l.
Proof.
  intro Hb. unfold vecmat, kronv, kronm.
  rewrite (rsum_prod dal dbl (fun i j => a i *! b j *! (A i (l / dbr) *! B j (l mod dbr)))) by exact Hb.
  rewrite <- rsum_scale_r. apply rsum_ext. intros i Hi.
  rewrite <- rsum_scale. apply rsum_ext. intros j Hj. ring.
Qed.

Lemma vecmat_ext dl u v M : (forall i, i < dl -> u i = v i) -> forall j, vecmat dl u M j = vecmat dl v M j.
Proof. intros H j. unfold vecmat. apply rsum_ext. intros i Hi. rewrite (H i Hi). reflexivity. Qed.
Lemma vecmat_rsum dl d (F : nat -> nat -> R) M j : vecmat dl (fun i => rsum d (fun s => F s i)) M j = rsum d (fun s => vecmat dl (F s) M j).
Proof.
  unfold vecmat. rewrite rsum_swap. apply rsum_ext. intros i Hi. symmetry. apply rsum_scale_r.
Qed.

(* one site: W sigma sigma' is the MPO matrix (dwl x dw), A sigma' the MPS matrix (dal x da) *)
Record psite := { dw : nat; da : nat; Wm : nat -> nat -> nat -> nat -> R; Am : nat -> nat -> nat -> R }.
Variable d : nat.     (* local dimension *)

(* site tensor of the product: Kronecker product of the bonds, shared physical index summed *)
Definition prodmat (dal : nat) (s : psite) (sigma : nat) : nat -> nat -> R :=
  fun k l => rsum d (fun s' => kronm dal (da s) (Wm s sigma s') (Am s s') k l).

Fixpoint propP (dwl dal : nat) (u : nat -> R) (c : list psite) (sigma : list nat) : nat -> R :=
  match c, sigma with
  | s :: c', i :: sigma' => propP (dw s) (da s) (vecmat (dwl * dal) u (prodmat dal s i)) c' sigma'
  | _, _ => u
  end.
(* the operator applied to the state, as nested sums over the contracted physical indices of transfer vectors of the two chains *)
Fixpoint applied (dwl dal : nat) (uW uA : nat -> R) (c : list psite) (sigma : list nat) : nat -> R :=
  match c, sigma with
  | s :: c', i :: sigma' => fun k => rsum d (fun s' => applied (dw s) (da s) (vecmat dwl uW (Wm s i s')) (vecmat dal uA (Am s s')) c' sigma' k)
  | _, _ => kronv dal uW uA
  end.
Fixpoint bonds_ok (c : list psite) : Prop := match c with [] => True | s :: c' => 0 < da s /\ bonds_ok c' end.

Lemma propP_ext c : forall dwl dal u v sigma, (forall l, u l = v l) -> forall k, propP dwl dal u c sigma k = propP dwl dal v c sigma k.
Proof.
  induction c as [|s c IH]; intros dwl dal u v sigma H k; cbn [propP]; [apply H|].
  destruct sigma as [|i sigma]; [apply H|]. apply IH. intro l. apply vecmat_ext. intros; apply H.
Qed.
Lemma propP_rsum c : forall dwl dal (F : nat -> nat -> R) sigma k,
  propP dwl dal (fun l => rsum d (fun s => F s l)) c sigma k = rsum d (fun s => propP dwl dal (F s) c sigma k).
Proof.
  induction c as [|s c IH]; intros dwl dal F sigma k; cbn [propP]; [reflexivity|].
  destruct sigma as [|i sigma]; [reflexivity|].
  rewrite <- IH. apply propP_ext. intro l. apply vecmat_rsum.
Qed.

Lemma prod_step dwl dal s i uW uA l : 0 < dal ->
  vecmat (dwl * dal) (kronv dal uW uA) (prodmat dal s i) l = rsum d (fun s' => kronv (da s) (vecmat dwl uW (Wm s i s')) (vecmat dal uA (Am s s')) l).
Proof.
  intro Hd. unfold prodmat, vecmat at 1.
  erewrite rsum_ext; [|intros k Hk; symmetry; apply rsum_scale].
  rewrite rsum_swap. apply rsum_ext. intros s' Hs'.
  apply (kron_mixed dwl dal (da s) uW uA (Wm s i s') (Am s s') l Hd).
Qed.

(* MAIN: the product chain started from uW (x) uA propagates to the operator applied to the state *)
Theorem product_represents_application c : forall dwl dal uW uA sigma, 0 < dal -> bonds_ok c ->
  forall k, propP dwl dal (kronv dal uW uA) c sigma k = applied dwl dal uW uA c sigma k.
Proof.
  induction c as [|s c IH]; intros dwl dal uW uA sigma Hd Hb k; cbn [propP applied]; [reflexivity|].
  destruct sigma as [|i sigma]; [reflexivity|]. destruct Hb as [Hs Hb].
  rewrite (propP_ext c (dw s) (da s) _ (fun l => rsum d (fun s' => kronv (da s) (vecmat dwl uW (Wm s i s')) (vecmat dal uA (Am s s')) l)) sigma
             (fun l => prod_step dwl dal s i uW uA l Hd) k).
  rewrite propP_rsum. apply rsum_ext. intros s' Hs'. apply IH; assumption.
Qed.

(* the same statement with the sum over the contracted configurations sigma' made explicit:
   amplitude of (O psi) at sigma  =  sum over sigma' of  O(sigma, sigma') * psi(sigma') *)
Fixpoint transW (dwl : nat) (uW : nat -> R) (c : list psite) (sigma sp : list nat) : nat -> R :=
  match c, sigma, sp with
  | s :: c', i :: sg, j :: sp' => transW (dw s) (vecmat dwl uW (Wm s i j)) c' sg sp'
  | _, _, _ => uW
  end.
Fixpoint transA (dal : nat) (uA : nat -> R) (c : list psite) (sp : list nat) : nat -> R :=
  match c, sp with
  | s :: c', j :: sp' => transA (da s) (vecmat dal uA (Am s j)) c' sp'
  | _, _ => uA
  end.
Fixpoint lastda (dal : nat) (c : list psite) : nat := match c with [] => dal | s :: c' => lastda (da s) c' end.
Fixpoint sumconf (n : nat) (f : list nat -> R) : R :=
  match n with O => f [] | S m => rsum d (fun j => sumconf m (fun sp => f (j :: sp))) end.

Lemma sumconf_ext n : forall f g, (forall sp, f sp = g sp) -> sumconf n f = sumconf n g.
Proof. induction n as [|n IH]; intros f g H; cbn [sumconf]; [apply H|]. apply rsum_ext. intros j _. apply IH. intro sp. apply H. Qed.

Lemma applied_is_sum c : forall dwl dal uW uA sigma k, length sigma = length c ->
  applied dwl dal uW uA c sigma k = sumconf (length c) (fun sp => kronv (lastda dal c) (transW dwl uW c sigma sp) (transA dal uA c sp) k).
Proof.
  induction c as [|s c IH]; intros dwl dal uW uA sigma k Hl.
  - destruct sigma; [|discriminate]. reflexivity.
  - destruct sigma as [|i sg]; [discriminate|]. cbn [applied length sumconf]. apply rsum_ext. intros j _.
    rewrite IH by (cbn [length] in Hl; lia). apply sumconf_ext. intro sp. reflexivity.
Qed.

Theorem product_amplitude c dwl dal uW uA sigma k : 0 < dal -> bonds_ok c -> length sigma = length c ->
  propP dwl dal (kronv dal uW uA) c sigma k
  = sumconf (length c) (fun sp => kronv (lastda dal c) (transW dwl uW c sigma sp) (transA dal uA c sp) k).
Proof. intros Hd Hb Hl. rewrite product_represents_application by assumption. apply applied_is_sum. exact Hl. Qed.

(* ---- MPO . MPO: the same statement with the second physical index of the right factor carried along ----
   a site of the pair: W1 s t (dw1l x dw1), W2 t s' (dw2l x dw2); for a fixed lower configuration sigma' the right factor is a state *)
Record osite2 := { dw1 : nat; dw2 : nat; W1m : nat -> nat -> nat -> nat -> R; W2m : nat -> nat -> nat -> nat -> R }.
Definition as_psite (s : osite2) (sp : nat) : psite := {| dw := dw1 s; da := dw2 s; Wm := W1m s; Am := fun t => W2m s t sp |}.
Fixpoint zip_sites (c : list osite2) (sigma' : list nat) : list psite :=
  match c, sigma' with s :: c', i :: sg => as_psite s i :: zip_sites c' sg | _, _ => [] end.
(* site tensor of the product operator at (sigma, sigma'): Kronecker product of the bonds, the middle index summed *)
Definition prodop (dal : nat) (s : osite2) (sg sp : nat) : nat -> nat -> R :=
  fun k l => rsum d (fun t => kronm dal (dw2 s) (W1m s sg t) (W2m s t sp) k l).
Lemma prodop_is_prodmat dal s sg sp k l : prodop dal s sg sp k l = prodmat dal (as_psite s sp) sg k l.
Proof. reflexivity. Qed.
Lemma zip_sites_length c : forall sg, length sg = length c -> length (zip_sites c sg) = length c.
Proof. induction c as [|s c IH]; intros [|i sg] H; try discriminate; [reflexivity|]. cbn [zip_sites length]. rewrite IH by (cbn [length] in H; lia). reflexivity. Qed.
Lemma zip_sites_bonds c : forall sg, length sg = length c -> (forall s, In s c -> 0 < dw2 s) -> bonds_ok (zip_sites c sg).
Proof.
  induction c as [|s c IH]; intros [|i sg] H Hb; try discriminate; [exact I|].
  cbn [zip_sites bonds_ok as_psite da]. split; [apply Hb; left; reflexivity|]. apply IH; [cbn [length] in H; lia|]. intros s' Hs'. apply Hb. right. exact Hs'.
Qed.

Theorem mpo_product_amplitude (c : list osite2) dwl dal u1 u2 sigma sigma' k :
  0 < dal -> (forall s, In s c -> 0 < dw2 s) -> length sigma = length c -> length sigma' = length c ->
  propP dwl dal (kronv dal u1 u2) (zip_sites c sigma') sigma k
  = sumconf (length c) (fun tau => kronv (lastda dal (zip_sites c sigma')) (transW dwl u1 (zip_sites c sigma') sigma tau) (transA dal u2 (zip_sites c sigma') tau) k).
Proof.
  intros Hd Hb Hs Hs'. pose proof (zip_sites_length c sigma' Hs') as E. rewrite <- E.
  apply product_amplitude; [exact Hd | apply zip_sites_bonds; assumption | rewrite zip_sites_length by exact Hs'; exact Hs].
Qed.
End OverRing.
