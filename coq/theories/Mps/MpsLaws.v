(* MpsLaws.v -- the direct-sum MPS represents the linear combination of the states: for every chain length >= 2, every bond
   dimension profile, every local dimension and every configuration. *)
From Coq Require Import List ZArith Lia.
From Yv Require Import Mps.Vec Mps.MpsDense.
Import ListNotations.
Open Scope Z_scope.

Lemma combine_nth' {A B} (a : list A) (b : list B) i da db : (i < length a)%nat -> (i < length b)%nat ->
  nth i (combine a b) (da, db) = (nth i a da, nth i b db).
Proof.
  revert b i; induction a as [|x a IH]; intros [|y b] [|i] Ha Hb; simpl in *; try lia; auto. apply IH; lia.
Qed.

Lemma nth_zipmats f a b i : (i < length a)%nat -> (i < length b)%nat ->
  nth i (zipmats f a b) [] = f (nth i a []) (nth i b []).
Proof.
  unfold zipmats. intros Ha Hb.
  rewrite (nth_indep _ [] ((fun p : mat * mat => f (fst p) (snd p)) ([], []))) by (rewrite map_length, combine_length; lia).
  rewrite (map_nth (fun p : mat * mat => f (fst p) (snd p))). rewrite combine_nth' by lia. reflexivity.
Qed.

Definition sigma_ok (c : chain) (sigma : list nat) : Prop :=
  length sigma = length c /\ Forall2 (fun s i => (i < length (mats s))%nat) c sigma.

(* bulk + last: the joint boundary vector is the concatenation of the two, and at the end their sum *)
Lemma tail_sum_propagate : forall a b sigma va vb wa wb,
  length a = length b -> a <> [] ->
  wf_chain wa a -> wf_chain wb b -> length va = wa -> length vb = wb ->
  Forall2 (fun s i => (i < length (mats s))%nat) a sigma -> Forall2 (fun s i => (i < length (mats s))%nat) b sigma ->
  wr (last a {| wr := 0; mats := [] |}) = wr (last b {| wr := 0; mats := [] |}) ->
  propagate (va ++ vb) (tail_sum a b) sigma = vadd (propagate va a sigma) (propagate vb b sigma).
Proof.
  induction a as [|sa a IH]; intros b sigma va vb wa wb Hl Hne Wa Wb La Lb Sa Sb Hw; [congruence|].
  destruct b as [|sb b]; [discriminate|].
  inversion Sa as [|? i ? sigma' Hi Sa']; subst. inversion Sb as [|? ? ? ? Hi' Sb']; subst.
  destruct Wa as [Ma Wa']. destruct Wb as [Mb Wb'].
  rewrite Forall_forall in Ma, Mb.
  destruct (Ma (nth i (mats sa) []) (nth_In _ _ Hi)) as [RA WA].
  destruct (Mb (nth i (mats sb) []) (nth_In _ _ Hi')) as [RB WB].
  destruct a as [|sa2 a]; destruct b as [|sb2 b]; try discriminate.
  - (* last site *)
    simpl. rewrite nth_zipmats by assumption. simpl in Hw.
    rewrite vecmat_stack; [|lia|exact WA|rewrite Hw; exact WB].
    rewrite Hw. destruct sigma'; reflexivity.
  - (* bulk site *)
    cbn [tail_sum propagate]. cbn [bulk_sum wr mats]. rewrite nth_zipmats by assumption.
    rewrite vecmat_blockdiag; [|lia|exact WA|exact WB].
    apply (IH (sb2 :: b) sigma' _ _ (wr sa) (wr sb)); auto; try discriminate; try (simpl in *; lia);
      apply vecmat_length; assumption.
Qed.

Lemma vecmat_single_row w x r : length r = w -> vecmat w [x] [r] = vscale x r.
Proof. intro H. simpl. apply vadd_vzero_r. rewrite vscale_length. exact H. Qed.

Lemma vscale_vadd c a b : length a = length b -> vscale c (vadd a b) = vadd (vscale c a) (vscale c b).
Proof. revert b; induction a as [|x a IH]; intros [|y b] H; simpl in *; try discriminate; auto. rewrite IH by lia. f_equal. lia. Qed.

Lemma vscale_vscale c e a : vscale c (vscale e a) = vscale (c * e) a.
Proof. unfold vscale. rewrite map_map. apply map_ext. intro. lia. Qed.

Lemma vecmat_vscale w c v M : mwidth_ok w M -> vecmat w (vscale c v) M = vscale c (vecmat w v M).
Proof.
  revert M; induction v as [|x v IH]; intros [|r M] H; simpl; try (symmetry; apply vscale_vzero).
  inversion H; subst. rewrite IH by assumption.
  rewrite vscale_vadd by (rewrite vscale_length, vecmat_length by assumption; reflexivity).
  rewrite !vscale_vscale. reflexivity.
Qed.

Lemma propagate_vscale : forall c sigma v x wl, wf_chain wl c ->
  Forall2 (fun s i => (i < length (mats s))%nat) c sigma ->
  propagate (vscale x v) c sigma = vscale x (propagate v c sigma).
Proof.
  induction c as [|s c IH]; intros sigma v x wl W S; [destruct sigma; reflexivity|].
  inversion S as [|? i ? sigma' Hi S']; subst. destruct W as [M W']. rewrite Forall_forall in M.
  destruct (M _ (nth_In _ [] Hi)) as [_ WM]. simpl. rewrite vecmat_vscale by exact WM. apply (IH _ _ _ (wr s)); assumption.
Qed.

(* amplitude of (x a + y b) = x * amplitude a + y * amplitude b, for chains of length >= 2 *)
Theorem add2_amplitude x y (a b : chain) sigma :
  length a = length b -> (2 <= length a)%nat ->
  wf_chain 1 a -> wf_chain 1 b ->
  Forall2 (fun s i => (i < length (mats s))%nat) a sigma -> Forall2 (fun s i => (i < length (mats s))%nat) b sigma ->
  wr (last a {| wr := 0; mats := [] |}) = 1%nat -> wr (last b {| wr := 0; mats := [] |}) = 1%nat ->
  amplitude (add2 x y a b) sigma = x * amplitude a sigma + y * amplitude b sigma.
Proof.
  intros Hl H2 Wa Wb Sa Sb La Lb.
  destruct a as [|sa a]; [simpl in H2; lia|]. destruct b as [|sb b]; [discriminate|].
  inversion Sa as [|? i ? sigma' Hi Sa']; subst. inversion Sb as [|? ? ? ? Hi' Sb']; subst.
  destruct Wa as [Ma Wa']. destruct Wb as [Mb Wb']. rewrite Forall_forall in Ma, Mb.
  destruct (Ma _ (nth_In _ [] Hi)) as [RA WA]. destruct (Mb _ (nth_In _ [] Hi')) as [RB WB].
  assert (HA : exists ra, nth i (mats sa) [] = [ra] /\ length ra = wr sa).
  { remember (nth i (mats sa) []) as MA eqn:EMA. destruct MA as [|ra MA']; [simpl in RA; lia|]. destruct MA' as [|r2 MA'']; [|simpl in RA; lia]. exists ra. split; auto. inversion WA; auto. }
  assert (HB : exists rb, nth i (mats sb) [] = [rb] /\ length rb = wr sb).
  { remember (nth i (mats sb) []) as MB eqn:EMB. destruct MB as [|rb MB']; [simpl in RB; lia|]. destruct MB' as [|r2 MB'']; [|simpl in RB; lia]. exists rb. split; auto. inversion WB; auto. }
  destruct HA as [ra [EA Lra]]. destruct HB as [rb [EB Lrb]].
  unfold amplitude. cbn [add2 propagate first_sum wr mats]. rewrite nth_zipmats by assumption. rewrite EA, EB.
  subst.
  cbn [hd].
  rewrite vecmat_single_row by (rewrite app_length, !vscale_length; lia).
  assert (E1 : vscale 1 (vscale x ra ++ vscale y rb) = vscale x ra ++ vscale y rb).
  { unfold vscale. rewrite <- (map_id (map (Z.mul x) ra ++ map (Z.mul y) rb)) at 2. apply map_ext. intro; lia. }
  rewrite E1.
  assert (Hne : a <> []) by (destruct a; simpl in H2; [lia|discriminate]).
  rewrite (tail_sum_propagate a b sigma' (vscale x ra) (vscale y rb) (wr sa) (wr sb)); auto.
  - rewrite (propagate_vscale a sigma' ra x (wr sa) Wa' Sa'), (propagate_vscale b sigma' rb y (wr sb) Wb' Sb').
    assert (Ex : vscale 1 ra = ra) by (unfold vscale; rewrite <- (map_id ra) at 2; apply map_ext; intro; lia).
    assert (Ey : vscale 1 rb = rb) by (unfold vscale; rewrite <- (map_id rb) at 2; apply map_ext; intro; lia).
    rewrite (vecmat_single_row (wr sa) 1 ra Lra), (vecmat_single_row (wr sb) 1 rb Lrb), Ex, Ey.
    destruct (propagate ra a sigma') as [|pa ?]; destruct (propagate rb b sigma') as [|pb ?]; simpl; lia.
  - rewrite vscale_length; exact Lra.
  - rewrite vscale_length; exact Lrb.
  - destruct a; [contradiction|]. destruct b; [simpl in Hl; discriminate|]. simpl in La, Lb |- *. rewrite La, Lb. reflexivity.
Qed.
