From Coq Require Import List ZArith Lia Bool.
From Yv Require Import Mps.Canon.
Import ListNotations.
Open Scope Z_scope.

Lemma absorb_no_center st to : pC (absorb st to) = None.
Proof. unfold absorb. destruct (pC st) as [[n1 n2]|] eqn:E; [reflexivity | exact E]. Qed.

Lemma absorb_N st to : N (absorb st to) = N st.
Proof. unfold absorb. destruct (pC st) as [[n1 n2]|]; reflexivity. Qed.

Lemma orth_N st n to st' : orth st n to = Some st' -> N st' = N st /\ pC st' <> None.
Proof. unfold orth. destruct (pC st); [discriminate|]. intro H; inversion H; simpl. split; [reflexivity|discriminate]. Qed.

(* at most one central block, and it is always absorbed before the next orthogonalisation: the loop never gets stuck *)
Theorem canonize_loop_total : forall sites st to, pC st = None -> exists st', canonize_loop st sites to = Some st' /\ pC st' = None /\ N st' = N st.
Proof.
  induction sites as [|n r IH]; intros st to H; simpl.
  - exists st. auto.
  - unfold orth. rewrite H.
    set (st1 := {| N := N st; pC := _; flags := _ |}).
    destruct (IH (absorb st1 to) to (absorb_no_center st1 to)) as [st' [E [P Nn]]].
    exists st'. rewrite E. rewrite Nn, absorb_N. auto.
Qed.

Theorem canonize_total st to : exists st', canonize st to = Some st' /\ pC st' = None /\ N st' = N st.
Proof.
  unfold canonize. destruct (canonize_loop_total (sweep (N st) to) (absorb st to) to (absorb_no_center st to)) as [st' [E [P Nn]]].
  exists st'. rewrite absorb_N in Nn. auto.
Qed.

(* a second orthogonalisation without absorbing first is refused (YastnError 'Only one central block is allowed') *)
Theorem one_center_only st n to st' m to' : orth st n to = Some st' -> orth st' m to' = None.
Proof. intro H. destruct (orth_N _ _ _ _ H) as [_ P]. unfold orth. destruct (pC st'); [reflexivity|contradiction]. Qed.

(* ---- after canonize_(to='last') every site is left-canonical (given that QR makes the orthogonalised site an isometry) ---- *)
Lemma nth_set_flag_same i f l : (i < length l)%nat -> nth i (set_flag i f l) FNone = f.
Proof. revert i; induction l as [|x l IH]; intros [|i] H; simpl in *; try lia; auto; apply IH; lia. Qed.
Lemma nth_set_flag_other i j f l : i <> j -> nth j (set_flag i f l) FNone = nth j l FNone.
Proof. revert i j; induction l as [|x l IH]; intros [|i] [|j] H; simpl; auto; try lia; apply IH; lia. Qed.
Lemma set_flag_length i f l : length (set_flag i f l) = length l.
Proof. revert i; induction l as [|x l IH]; intros [|i]; simpl; auto. Qed.

Definition left_upto (k : nat) (st : gstate) : Prop := forall i, (i < k)%nat -> nth i (flags st) FNone = FLeft.

Lemma step_to_last st k : pC st = None -> length (flags st) = Z.to_nat (N st) -> (k < Z.to_nat (N st))%nat -> left_upto k st ->
  exists st1, orth st (Z.of_nat k) ToLast = Some st1 /\
              let st2 := absorb st1 ToLast in
              pC st2 = None /\ N st2 = N st /\ length (flags st2) = Z.to_nat (N st) /\ left_upto (S k) st2.
Proof.
  intros Hp Hl Hk Hinv. unfold orth. rewrite Hp. eexists. split; [reflexivity|].
  cbv zeta. unfold absorb. cbn [pC N flags].
  rewrite Nat2Z.id.
  destruct (Z.of_nat k + 1 <=? N st - 1) eqn:E1.
  - (* the block goes into site k+1 *)
    replace ((Z.of_nat k <? 0) || (N st - 1 <? Z.of_nat k + 1)) with false by lia.
    cbn [pC N flags]. repeat split; auto.
    + rewrite !set_flag_length. exact Hl.
    + intros i Hi. replace (Z.to_nat (Z.of_nat k + 1)) with (S k) by lia. cbn [flags].
      rewrite nth_set_flag_other by lia.
      destruct (Nat.eq_dec i k) as [->|Hne]; [apply nth_set_flag_same; lia | rewrite nth_set_flag_other by lia; apply Hinv; lia].
  - (* last site: the 1x1 block leaves the chain, flags stay *)
    replace ((Z.of_nat k <? 0) || (N st - 1 <? Z.of_nat k + 1)) with true by lia.
    cbn [pC N flags]. repeat split; auto.
    + rewrite set_flag_length. exact Hl.
    + intros i Hi. cbn [flags]. destruct (Nat.eq_dec i k) as [->|Hne]; [apply nth_set_flag_same; lia | rewrite nth_set_flag_other by lia; apply Hinv; lia].
Qed.

Lemma loop_to_last : forall m k st, pC st = None -> length (flags st) = Z.to_nat (N st) -> (k + m = Z.to_nat (N st))%nat -> left_upto k st ->
  exists st', canonize_loop st (map Z.of_nat (seq k m)) ToLast = Some st' /\ left_upto (Z.to_nat (N st)) st' /\ pC st' = None.
Proof.
  induction m as [|m IH]; intros k st Hp Hl Hkm Hinv; simpl.
  - exists st. replace (Z.to_nat (N st)) with k by lia. auto.
  - destruct (step_to_last st k Hp Hl ltac:(lia) Hinv) as [st1 [E (P2 & N2 & L2 & I2)]]. rewrite E.
    destruct (IH (S k) (absorb st1 ToLast) P2 ltac:(rewrite N2; exact L2) ltac:(rewrite N2; lia) I2) as [st' [E' [I' P']]].
    exists st'. rewrite N2 in I'. auto.
Qed.

Theorem canonize_to_last_all_left st : length (flags st) = Z.to_nat (N st) ->
  exists st', canonize st ToLast = Some st' /\ pC st' = None /\ forall i, (i < Z.to_nat (N st))%nat -> nth i (flags st') FNone = FLeft.
Proof.
  intro Hl. unfold canonize, sweep.
  assert (Hl' : length (flags (absorb st ToLast)) = Z.to_nat (N (absorb st ToLast))).
  { rewrite absorb_N. unfold absorb. destruct (pC st) as [[n1 n2]|]; cbn [flags]; [|exact Hl].
    destruct ((n1 <? 0) || (N st - 1 <? n2)); [exact Hl | rewrite set_flag_length; exact Hl]. }
  destruct (loop_to_last (Z.to_nat (N st)) 0 (absorb st ToLast) (absorb_no_center st ToLast) Hl' ltac:(rewrite absorb_N; lia) ltac:(intros i Hi; lia))
    as [st' [E [I P]]].
  rewrite absorb_N in *. exists st'. auto.
Qed.
