(* MpsDense.v -- an MPS over Z as a chain of site tensors (one matrix per physical index value, with the width of its right bond),
   its amplitudes by the transfer-vector recursion (what Env2 does), and addition as a direct sum: row-stacking at the first site (amplitudes
   folded in), block-diagonal in the bulk, column-stacking at the last site (_mps_obc.add via block()).  Model + refinement theorem. *)
From Coq Require Import List ZArith Lia.
From Yv Require Import Mps.Vec.
Import ListNotations.
Open Scope Z_scope.

Record site := { wr : nat; mats : list mat }.      (* mats[sigma] : (left width) x wr *)
Definition chain := list site.

(* propagate a boundary vector through the chain for a physical configuration sigma *)
Fixpoint propagate (v : vec) (c : chain) (sigma : list nat) : vec :=
  match c, sigma with
  | s :: c', i :: sigma' => propagate (vecmat (wr s) v (nth i (mats s) [])) c' sigma'
  | _, _ => v
  end.
Definition amplitude (c : chain) (sigma : list nat) : Z := hd 0 (propagate [1] c sigma).

(* well-formed chain: every matrix of a site has wl rows of length wr, where wl is the previous width *)
Fixpoint wf_chain (wl : nat) (c : chain) : Prop :=
  match c with
  | [] => True
  | s :: c' => Forall (fun M => length M = wl /\ mwidth_ok (wr s) M) (mats s) /\ wf_chain (wr s) c'
  end.

Definition zipmats (f : mat -> mat -> mat) (a b : list mat) : list mat :=
  map (fun p => f (fst p) (snd p)) (combine a b).

(* bulk and last sites of the direct sum *)
Definition bulk_sum (wa wb : nat) (a b : site) : site :=
  {| wr := wr a + wr b; mats := zipmats (blockdiag (wr a) (wr b)) (mats a) (mats b) |}.
Definition last_sum (a b : site) : site := {| wr := wr a; mats := zipmats (@app vec) (mats a) (mats b) |}.
(* first site: single rows, scaled by the amplitudes and concatenated *)
Definition first_sum (x y : Z) (a b : site) : site :=
  {| wr := wr a + wr b;
     mats := zipmats (fun A B => [vscale x (hd [] A) ++ vscale y (hd [] B)]) (mats a) (mats b) |}.

Fixpoint tail_sum (a b : chain) : chain :=
  match a, b with
  | [sa], [sb] => [last_sum sa sb]
  | sa :: a', sb :: b' => bulk_sum (wr sa) (wr sb) sa sb :: tail_sum a' b'
  | _, _ => []
  end.
Definition add2 (x y : Z) (a b : chain) : chain :=
  match a, b with
  | sa :: a', sb :: b' => first_sum x y sa sb :: tail_sum a' b'
  | _, _ => []
  end.
