(* Canon.v -- the gauge state machine of canonize_/truncate_ (central-block bookkeeping of orthogonalize_site_ / absorb_central_)
   and the composition of discarded weights of truncate_ (_mps_obc.py:495).  Model + laws. *)
From Coq Require Import List ZArith QArith Lia Lqa.
Import ListNotations.

(* ---------- composition of discarded weights ---------- *)
Open Scope Q_scope.
(* discarded2_total = discarded2_local + discarded2_total - discarded2_total * discarded2_local *)
Definition acc2 (tot d : Q) : Q := d + tot - tot * d.
Definition total_discarded2 (ds : list Q) : Q := fold_left acc2 ds 0.
Fixpoint kept_product (ds : list Q) : Q := match ds with [] => 1 | d :: r => (1 - d) * kept_product r end.

Lemma acc2_complement tot d : 1 - acc2 tot d == (1 - tot) * (1 - d).
Proof. unfold acc2. ring. Qed.

Lemma fold_acc2 ds : forall tot, 1 - fold_left acc2 ds tot == (1 - tot) * kept_product ds.
Proof.
  induction ds as [|d r IH]; intro tot; simpl.
  - ring.
  - rewrite IH. rewrite acc2_complement. ring.
Qed.

(* the reported total is  1 - prod_i (1 - d_i) : each cut keeps the fraction (1 - d_i) of what the previous cuts kept *)
Theorem total_discarded2_is_one_minus_product ds : total_discarded2 ds == 1 - kept_product ds.
Proof. unfold total_discarded2. pose proof (fold_acc2 ds 0) as H. lra. Qed.

Lemma kept_product_range ds : Forall (fun d => 0 <= d <= 1) ds -> 0 <= kept_product ds <= 1.
Proof.
  induction 1 as [|d r [H0 H1] _ [I0 I1]]; simpl; [lra|].
  split; [apply Qmult_le_0_compat; lra|].
  assert (H : (1 - d) * kept_product r <= 1 * 1) by (apply Qmult_le_compat_nonneg; split; lra). lra.
Qed.

(* it is a relative weight: stays in [0, 1] when every local discarded weight does *)
Theorem total_discarded2_range ds : Forall (fun d => 0 <= d <= 1) ds -> 0 <= total_discarded2 ds <= 1.
Proof. intro H. rewrite total_discarded2_is_one_minus_product. pose proof (kept_product_range ds H). lra. Qed.

(* nothing discarded locally <-> nothing reported *)
Theorem total_discarded2_zero ds : Forall (fun d => d == 0) ds -> total_discarded2 ds == 0.
Proof.
  intro H. rewrite total_discarded2_is_one_minus_product.
  assert (K : kept_product ds == 1) by (induction H as [|d r Hd _ IH]; simpl; [reflexivity | rewrite Hd, IH; ring]). lra.
Qed.
Close Scope Q_scope.

(* ---------- gauge state machine ---------- *)
Open Scope Z_scope.
Inductive flag := FLeft | FRight | FNone.           (* left-canonical, right-canonical, unknown *)
Record gstate := { N : Z; pC : option (Z * Z); flags : list flag }.
Inductive dirn := ToFirst | ToLast.

Fixpoint set_flag (i : nat) (f : flag) (l : list flag) : list flag :=
  match l, i with [], _ => [] | _ :: r, O => f :: r | x :: r, S i' => x :: set_flag i' f r end.

(* orthogonalize_site_(n, to): refuses when a central block exists; site n becomes canonical, the block sits on the bond towards `to` *)
Definition orth (st : gstate) (n : Z) (to : dirn) : option gstate :=
  match pC st with
  | Some _ => None
  | None => Some {| N := N st;
                    pC := Some (match to with ToFirst => (n - 1, n) | ToLast => (n, n + 1) end);
                    flags := set_flag (Z.to_nat n) (match to with ToFirst => FRight | ToLast => FLeft end) (flags st) |}
  end.
(* absorb_central_(to): the block goes into a neighbouring site (the one possible at the chain ends), whose flag is lost *)
Definition absorb (st : gstate) (to : dirn) : gstate :=
  match pC st with
  | None => st
  | Some (n1, n2) =>
    let target := match to with
                  | ToFirst => if (0 <=? n1) then n1 else n2
                  | ToLast => if (n2 <=? N st - 1) then n2 else n1
                  end in
    (* when the block was outside the chain (a 1x1 boundary block) the target keeps its canonical form up to the absorbed scalar *)
    let outside := (n1 <? 0) || (N st - 1 <? n2) in
    {| N := N st; pC := None;
       flags := if outside then flags st else set_flag (Z.to_nat target) FNone (flags st) |}
  end.

Definition sweep (n : Z) (to : dirn) : list Z :=
  match to with
  | ToLast => map Z.of_nat (seq 0 (Z.to_nat n))
  | ToFirst => rev (map Z.of_nat (seq 0 (Z.to_nat n)))
  end.

(* canonize_(to): absorb; then for n in sweep: orthogonalize, absorb *)
Fixpoint canonize_loop (st : gstate) (sites : list Z) (to : dirn) : option gstate :=
  match sites with
  | [] => Some st
  | n :: r => match orth st n to with Some st' => canonize_loop (absorb st' to) r to | None => None end
  end.
Definition canonize (st : gstate) (to : dirn) : option gstate := canonize_loop (absorb st to) (sweep (N st) to) to.
