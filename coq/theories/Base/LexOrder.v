(* LexOrder.v -- lexicographic order on [list Z] (Python tuple comparison),
   insertion sort by key, and their basic properties. *)
From Coq Require Import List ZArith Bool Lia Sorted Permutation.
Import ListNotations.
Open Scope Z_scope.

Fixpoint lex_ltb (a b : list Z) : bool :=
  match a, b with
  | [], [] => false
  | [], _ :: _ => true
  | _ :: _, [] => false
  | x :: a', y :: b' => if x <? y then true else if y <? x then false else lex_ltb a' b'
  end.

Fixpoint lex_eqb (a b : list Z) : bool :=
  match a, b with
  | [], [] => true
  | x :: a', y :: b' => (x =? y) && lex_eqb a' b'
  | _, _ => false
  end.

Definition lex_lt a b := lex_ltb a b = true.

Lemma lex_eqb_eq a b : lex_eqb a b = true <-> a = b.
Proof.
  revert b; induction a as [|x a IH]; intros [|y b]; simpl; split; intro H; try congruence; auto.
  - apply andb_true_iff in H as [H1 H2]. apply Z.eqb_eq in H1. apply IH in H2. congruence.
  - inversion H; subst. rewrite Z.eqb_refl. simpl. apply IH. reflexivity.
Qed.

Lemma lex_eqb_refl a : lex_eqb a a = true.
Proof. apply lex_eqb_eq; reflexivity. Qed.

Lemma lex_ltb_irrefl a : lex_ltb a a = false.
Proof. induction a as [|x a IH]; simpl; auto. rewrite Z.ltb_irrefl. exact IH. Qed.

Lemma lex_ltb_trans a b c : lex_ltb a b = true -> lex_ltb b c = true -> lex_ltb a c = true.
Proof.
  revert b c; induction a as [|x a IH]; intros [|y b] [|z c]; simpl; try congruence; auto.
  destruct (x <? y) eqn:Exy; destruct (y <? z) eqn:Eyz;
  destruct (y <? x) eqn:Eyx; destruct (z <? y) eqn:Ezy;
  destruct (x <? z) eqn:Exz; destruct (z <? x) eqn:Ezx; try congruence; try lia; intros H1 H2; try congruence.
  eapply IH; eauto.
Qed.

Lemma lex_ltb_asym a b : lex_ltb a b = true -> lex_ltb b a = false.
Proof.
  intro H. destruct (lex_ltb b a) eqn:E; auto.
  pose proof (lex_ltb_trans _ _ _ H E) as T. rewrite lex_ltb_irrefl in T. congruence.
Qed.

Lemma lex_trichotomy a b : length a = length b ->
  lex_ltb a b = true \/ a = b \/ lex_ltb b a = true.
Proof.
  revert b; induction a as [|x a IH]; intros [|y b] Hl; simpl in *; try discriminate; auto.
  destruct (x <? y) eqn:Exy; auto.
  destruct (y <? x) eqn:Eyx; auto.
  assert (x = y) by lia. subst.
  destruct (IH b) as [H|[H|H]]; auto. subst; auto.
Qed.

Lemma lex_ltb_neq a b : lex_ltb a b = true -> a <> b.
Proof. intros H E; subst. rewrite lex_ltb_irrefl in H; congruence. Qed.

(* insertion sort of (key, value) pairs by key *)
Section Sort.
  Context {V : Type}.
  Fixpoint insert_kv (k : list Z) (v : V) (l : list (list Z * V)) : list (list Z * V) :=
    match l with
    | [] => [(k, v)]
    | (k', v') :: r => if lex_ltb k' k then (k', v') :: insert_kv k v r else (k, v) :: l
    end.
  Fixpoint sort_kv (l : list (list Z * V)) : list (list Z * V) :=
    match l with
    | [] => []
    | (k, v) :: r => insert_kv k v (sort_kv r)
    end.

  Definition kv_lt (p q : list Z * V) := lex_lt (fst p) (fst q).

  Lemma insert_kv_perm k v l : Permutation ((k, v) :: l) (insert_kv k v l).
  Proof.
    induction l as [|[k' v'] r IH]; simpl; auto.
    destruct (lex_ltb k' k); auto.
    eapply perm_trans; [apply perm_swap|]. apply perm_skip. exact IH.
  Qed.

  Lemma sort_kv_perm l : Permutation l (sort_kv l).
  Proof.
    induction l as [|[k v] r IH]; simpl; auto.
    eapply perm_trans; [|apply insert_kv_perm]. apply perm_skip. exact IH.
  Qed.

  Lemma insert_kv_in k v l p : In p (insert_kv k v l) -> p = (k, v) \/ In p l.
  Proof.
    intro H. apply (Permutation_in _ (Permutation_sym (insert_kv_perm k v l))) in H.
    destruct H; auto.
  Qed.

  (* keys pairwise distinct and of equal length => strictly sorted output *)
  Lemma insert_kv_sorted k v l :
    StronglySorted kv_lt l ->
    (forall p, In p l -> length (fst p) = length k /\ fst p <> k) ->
    StronglySorted kv_lt (insert_kv k v l).
  Proof.
    induction l as [|[k' v'] r IH]; intros Hs Hd; simpl.
    - repeat constructor.
    - inversion Hs as [|? ? Hs' Hall]; subst.
      destruct (lex_ltb k' k) eqn:E.
      + constructor.
        * apply IH; auto. intros p Hp. apply Hd. right; exact Hp.
        * apply Forall_forall. intros p Hp. apply insert_kv_in in Hp as [->|Hp].
          -- exact E.
          -- rewrite Forall_forall in Hall. apply Hall; exact Hp.
      + constructor; auto.
        assert (Hk : kv_lt (k, v) (k', v')).
        { destruct (Hd (k', v')) as [Hl Hne]; [left; reflexivity|]. simpl in *.
          destruct (lex_trichotomy k k') as [H|[H|H]]; auto; try congruence. }
        constructor; auto.
        apply Forall_forall. intros p Hp. rewrite Forall_forall in Hall.
        unfold kv_lt, lex_lt in *. eapply lex_ltb_trans; [exact Hk|]. apply Hall; exact Hp.
  Qed.

  Lemma sort_kv_sorted (n : nat) l :
    (forall p, In p l -> length (fst p) = n) ->
    NoDup (map fst l) ->
    StronglySorted kv_lt (sort_kv l).
  Proof.
    induction l as [|[k v] r IH]; intros Hl Hnd; simpl.
    - constructor.
    - inversion Hnd as [|? ? Hnin Hnd']; subst.
      apply insert_kv_sorted.
      + apply IH; auto. intros p Hp; apply Hl; right; exact Hp.
      + intros p Hp. apply (Permutation_in _ (Permutation_sym (sort_kv_perm r))) in Hp.
        split.
        * rewrite (Hl p (or_intror Hp)). symmetry. apply (Hl (k, v)). left; reflexivity.
        * intro Heq. apply Hnin. rewrite <- Heq. apply in_map. exact Hp.
  Qed.
End Sort.

Fixpoint has_dup (l : list (list Z)) : bool :=
  match l with
  | [] => false
  | x :: r => existsb (lex_eqb x) r || has_dup r
  end.

Lemma has_dup_false_NoDup l : has_dup l = false -> NoDup l.
Proof.
  induction l as [|x r IH]; simpl; intro H; constructor.
  - apply orb_false_iff in H as [H _]. intro Hin.
    assert (existsb (lex_eqb x) r = true).
    { apply existsb_exists. exists x. split; auto. apply lex_eqb_refl. }
    congruence.
  - apply IH. apply orb_false_iff in H as [_ H]. exact H.
Qed.

Lemma NoDup_has_dup_false l : NoDup l -> has_dup l = false.
Proof.
  induction 1 as [|x r Hnin Hnd IH]; simpl; auto.
  rewrite IH, orb_false_r.
  destruct (existsb (lex_eqb x) r) eqn:E; auto.
  apply existsb_exists in E as [y [Hy Heq]]. apply lex_eqb_eq in Heq. subst. contradiction.
Qed.
