(* Sx.v -- universal first-order value type used on the wire between the
   harness (Python), the extracted OCaml driver and the in-Coq [vm_compute]
   sample.  Decoders/encoders for model types are Gallina functions so the glue
   itself is part of the (extracted and cross-checked) model.  No proofs here. *)
From Coq Require Import List ZArith Bool.
Import ListNotations.
Open Scope Z_scope.

Inductive sx : Type :=
| A (z : Z)
| L (l : list sx).

Fixpoint sx_eqb (a b : sx) {struct a} : bool :=
  match a, b with
  | A x, A y => Z.eqb x y
  | L xs, L ys =>
      (fix go (xs ys : list sx) {struct xs} : bool :=
         match xs, ys with
         | [], [] => true
         | x :: xs', y :: ys' => sx_eqb x y && go xs' ys'
         | _, _ => false
         end) xs ys
  | _, _ => false
  end.

Definition sZ (z : Z) : sx := A z.
Definition sN (n : nat) : sx := A (Z.of_nat n).
Definition sB (b : bool) : sx := A (if b then 1 else 0).
Definition sList {T} (f : T -> sx) (l : list T) : sx := L (map f l).
Definition sPair {T U} (f : T -> sx) (g : U -> sx) (p : T * U) : sx := L [f (fst p); g (snd p)].
Definition sOpt {T} (f : T -> sx) (o : option T) : sx :=
  match o with None => L [] | Some x => L [f x] end.
Definition sErr (code : Z) : sx := L [A (-1); A code].
Definition sOk (v : sx) : sx := L [A 0; v].

(* decoders: total, with defaults (harness only sends well-typed values; the
   encoders of results are what is compared) *)
Definition dZ (s : sx) : Z := match s with A z => z | L _ => 0 end.
Definition dN (s : sx) : nat := Z.to_nat (dZ s).
Definition dB (s : sx) : bool := negb (Z.eqb (dZ s) 0).
Definition dList {T} (f : sx -> T) (s : sx) : list T :=
  match s with A _ => [] | L l => map f l end.
Definition dNth (s : sx) (i : nat) : sx :=
  match s with A _ => L [] | L l => nth i l (L []) end.
Definition dPair {T U} (f : sx -> T) (g : sx -> U) (s : sx) : T * U :=
  (f (dNth s 0), g (dNth s 1)).
Definition dOpt {T} (f : sx -> T) (s : sx) : option T :=
  match s with L (x :: _) => Some (f x) | _ => None end.
Definition dZs := dList dZ.
Definition dZss := dList dZs.
Definition sZs := sList sZ.
Definition sZss := sList sZs.

(* compare model outputs with recorded implementation outputs inside Coq *)
Fixpoint mismatches_from (i : nat) (run : sx -> sx) (cases : list (sx * sx)) : list nat :=
  match cases with
  | [] => []
  | (inp, expected) :: r =>
      if sx_eqb (run inp) expected then mismatches_from (S i) run r
      else i :: mismatches_from (S i) run r
  end.
