(* Deleg.v -- same-name delegation facts (Gen/DelegGen.v, regenerated from the source on every run) and the rule they must satisfy:
   an option that caller and callee know under one name is passed on under that name, except at the listed sites (with their multiplicity). *)
From Coq Require Import List String Bool Arith.
Import ListNotations.
Open Scope string_scope.

Definition fact := (string * string * string * string)%type.
Definition fact_eqb (a b : fact) : bool :=
  let '(a1, a2, a3, a4) := a in let '(b1, b2, b3, b4) := b in
  String.eqb a1 b1 && String.eqb a2 b2 && String.eqb a3 b3 && String.eqb a4 b4.
Definition count (f : fact) (l : list fact) : nat := List.length (filter (fact_eqb f) l).
Definition allowance (f : fact) (al : list (fact * nat)) : nat :=
  match find (fun p => fact_eqb f (fst p)) al with Some p => snd p | None => 0 end.
Definition same_name (f : fact) : bool := let '(_, _, p, r) := f in String.eqb p r.
Definition caller (f : fact) : string := let '(c, _, _, _) := f in c.
Definition fact_ok (all : list fact) (al : list (fact * nat)) (f : fact) : bool :=
  same_name f || Nat.leb (count f all) (allowance f al).
Definition deleg_ok (pre : string) (all : list fact) (al : list (fact * nat)) : bool :=
  forallb (fact_ok all al) (filter (fun f => prefix pre (caller f)) all).
Definition n_facts (pre : string) (all : list fact) : nat := List.length (filter (fun f => prefix pre (caller f)) all).

(* soundness of the boolean: every fact of the selected callers is same-name or within its allowance *)
Lemma deleg_ok_spec pre all al : deleg_ok pre all al = true ->
  forall f, In f all -> prefix pre (caller f) = true -> same_name f = true \/ count f all <= allowance f al.
Proof.
  unfold deleg_ok. rewrite forallb_forall. intros H f Hin Hp.
  assert (Hf : In f (filter (fun f0 => prefix pre (caller f0)) all)) by (apply filter_In; split; assumption).
  specialize (H f Hf). unfold fact_ok in H. apply orb_true_iff in H. destruct H as [H | H]; [left; exact H | right; apply Nat.leb_le; exact H].
Qed.

(* module prefixes used by the property files (which do not open string_scope) *)
Definition pre_linalg := "linalg.".
Definition pre_tdvp := "_tdvp.".
Definition pre_dmrg := "_dmrg.".
Definition pre_output := "_output.".
Definition pre_mps_obc := "_mps_obc.".
Definition pre_compression := "_compression.".
