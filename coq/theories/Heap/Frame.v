(* Frame.v -- operations that return new objects never change the observable value of any existing object,
   even when results share storage; copies are independent of later in-place modification of the source. *)
From Coq Require Import List ZArith Bool Arith Lia.
From Yv Require Import Heap.Heap.
Import ListNotations.

Lemma nth_app_l {A} (l r : list A) i d : i < length l -> nth i (l ++ r) d = nth i l d.
Proof. intro H. apply app_nth1. exact H. Qed.

Lemma nth_error_app_l {A} (l r : list A) i : i < length l -> nth_error (l ++ r) i = nth_error l i.
Proof. intro H. apply nth_error_app1. exact H. Qed.

Definition env_ok (st : heap * env) : Prop := forall i v, nth_error (snd st) i = Some v -> tv_loc v < length (fst st).

Lemma env_ok_extend (h : heap) (e : env) (h' : heap) v : (forall i w, nth_error e i = Some w -> tv_loc w < length h) ->
  length h <= length h' -> tv_loc v < length h' ->
  forall i w, nth_error (e ++ [v]) i = Some w -> tv_loc w < length h'.
Proof.
  intros Hok Hl Hv i w Hi. destruct (Nat.lt_ge_cases i (length e)) as [L|G].
  - rewrite nth_error_app1 in Hi by exact L. specialize (Hok i w Hi). lia.
  - rewrite nth_error_app2 in Hi by exact G. destruct (i - length e) as [|k]; simpl in Hi; [|destruct k; discriminate].
    inversion Hi; subst. exact Hv.
Qed.

Lemma step_pure_frame st o : in_place o = false -> env_ok st ->
  env_ok (step st o) /\
  (forall l, l < length (fst st) -> hget (fst (step st o)) l = hget (fst st) l) /\
  (forall i, i < length (snd st) -> nth_error (snd (step st o)) i = nth_error (snd st) i) /\
  length (fst st) <= length (fst (step st o)) /\ length (snd st) <= length (snd (step st o)).
Proof.
  destruct st as [h e]. unfold env_ok. intros Hp Hok. simpl in Hok.
  destruct o as [src ns|srcs ns f|src|r i x|r ns d]; simpl in Hp; try discriminate; simpl.
  - destruct (nth_error e src) as [v|] eqn:E; simpl; [|repeat split; auto].
    split; [|split; [|split; [|split]]]; auto.
    + apply (env_ok_extend h e h); auto. simpl. exact (Hok src v E).
    + intros i Hi. apply nth_error_app1. exact Hi.
    + rewrite app_length. simpl. lia.
  - split; [|split; [|split; [|split]]].
    + apply (env_ok_extend h e); auto; rewrite app_length; simpl; lia.
    + intros l Hl. unfold hget. apply app_nth1. exact Hl.
    + intros i Hi. apply nth_error_app1. exact Hi.
    + rewrite app_length. simpl. lia.
    + rewrite app_length. simpl. lia.
  - destruct (nth_error e src) as [v|] eqn:E; simpl; [|repeat split; auto].
    split; [|split; [|split; [|split]]].
    + apply (env_ok_extend h e); auto; rewrite app_length; simpl; lia.
    + intros l Hl. unfold hget. apply app_nth1. exact Hl.
    + intros i Hi. apply nth_error_app1. exact Hi.
    + rewrite app_length. simpl. lia.
    + rewrite app_length. simpl. lia.
Qed.

(* FRAME: for every finite sequence of non-in-place operations, every object that existed before has the same
   observable value (structure and data) afterwards *)
Theorem frame (ops : list op) : forall st, forallb (fun o => negb (in_place o)) ops = true -> env_ok st ->
  forall i, i < length (snd st) -> obs (run st ops) i = obs st i.
Proof.
  induction ops as [|o ops IH]; intros st Hp Hok i Hi; [reflexivity|].
  simpl in Hp. apply andb_true_iff in Hp as [Ho Hp]. apply negb_true_iff in Ho.
  destruct (step_pure_frame st o Ho Hok) as (Hok' & Hh & He & Lh & Le).
  change (run st (o :: ops)) with (run (step st o) ops).
  rewrite (IH (step st o) Hp Hok' i ltac:(lia)).
  unfold obs. rewrite (He i Hi). destruct (nth_error (snd st) i) as [v|] eqn:E; auto.
  rewrite (Hh (tv_loc v) (Hok i v E)). reflexivity.
Qed.

Lemma list_set_nth_other {A} (l : list A) i j x d : i <> j -> nth j (list_set i x l) d = nth j l d.
Proof. revert i j; induction l as [|y l IH]; intros [|i] [|j] H; simpl; auto; try lia; apply IH; lia. Qed.
Lemma list_set_length {A} (l : list A) i x : length (list_set i x l) = length l.
Proof. revert i; induction l as [|y l IH]; intros [|i]; simpl; auto. Qed.
Lemma nth_error_list_set_other {A} (l : list A) i j x : i <> j -> nth_error (list_set i x l) j = nth_error l j.
Proof. revert i j; induction l as [|y l IH]; intros [|i] [|j] H; simpl; auto; try lia; apply IH; lia. Qed.

(* in-place steps write only the receiver's storage / rebind only the receiver *)
Theorem inplace_only_receiver st r i x j v : env_ok st ->
  nth_error (snd st) j = Some v ->
  (forall w, nth_error (snd st) r = Some w -> tv_loc w <> tv_loc v) ->
  obs (step st (OSetItem r i x)) j = obs st j.
Proof.
  destruct st as [h e]. intros Hok Hj Hne. simpl in *. destruct (nth_error e r) as [w|] eqn:E; [|reflexivity].
  unfold obs; simpl. rewrite Hj. unfold hget. rewrite list_set_nth_other by (apply (Hne w eq_refl)). reflexivity.
Qed.

(* COPY INDEPENDENCE: after b = copy(a), any sequence of item assignments through a leaves b unchanged, and vice versa *)
Theorem copy_independent st a (writes : list (nat * Z)) : env_ok st -> a < length (snd st) ->
  let st1 := step st (OCopy a) in
  let b := length (snd st) in
  obs (run st1 (map (fun w => OSetItem a (fst w) (snd w)) writes)) b = obs st1 b /\
  obs (run st1 (map (fun w => OSetItem b (fst w) (snd w)) writes)) a = obs st1 a.
Proof.
  destruct st as [h e]. intros Hok Ha. simpl in Ha.
  destruct (nth_error e a) as [va|] eqn:Ea; [|apply nth_error_None in Ea; lia].
  simpl. rewrite Ea. set (vb := {| tv_struct := tv_struct va; tv_loc := length h |}).
  assert (Hla : tv_loc va < length h) by (exact (Hok a va Ea)).
  assert (Gen : forall ws r other vr vo, r <> other ->
            forall hh, nth_error (e ++ [vb]) r = Some vr -> nth_error (e ++ [vb]) other = Some vo -> tv_loc vr <> tv_loc vo ->
            obs (run (hh, e ++ [vb]) (map (fun w : nat * Z => OSetItem r (fst w) (snd w)) ws)) other = obs (hh, e ++ [vb]) other).
  { induction ws as [|[i x] ws IHw]; intros r other vr vo Hro hh Hr Ho Hl; [reflexivity|].
    change (run (hh, e ++ [vb]) (map (fun w : nat * Z => OSetItem r (fst w) (snd w)) ((i, x) :: ws)))
      with (run (step (hh, e ++ [vb]) (OSetItem r i x)) (map (fun w : nat * Z => OSetItem r (fst w) (snd w)) ws)).
    cbn [step]. rewrite Hr.
    rewrite (IHw r other vr vo Hro _ Hr Ho Hl).
    unfold obs. simpl. rewrite Ho. unfold hget. rewrite list_set_nth_other by exact Hl. reflexivity. }
  assert (Hb : nth_error (e ++ [vb]) (length e) = Some vb) by (rewrite nth_error_app2 by lia; rewrite Nat.sub_diag; reflexivity).
  assert (Ha' : nth_error (e ++ [vb]) a = Some va) by (rewrite nth_error_app_l by exact Ha; exact Ea).
  split.
  - apply (Gen writes a (length e) va vb); auto; try lia. simpl. lia.
  - apply (Gen writes (length e) a vb va); auto; try lia. simpl. lia.
Qed.
