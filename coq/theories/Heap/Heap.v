(* Heap.v -- storage model for C15: a store of data arrays addressed by locations; a tensor value is
   (structure, location).  Every public operation is one of three kinds:
     Alias    -- returns a value that MAY share the operand's location, never writes (transpose, flip_signature,
                 add_leg, remove_leg, drop_leg_history, shallow_copy, detach, real/conj on real data, identity fast paths, bosonic swap_gate);
     Fresh    -- allocates a new location and writes the result there (everything that computes data; copy/clone);
     InPlace  -- the documented in-place API: writes through the receiver's location (item assignment) or rebinds the receiver (set_block, _-methods).
   Model only. *)
From Coq Require Import List ZArith Bool Arith.
Import ListNotations.

Definition loc := nat.
Definition heap := list (list Z).                 (* location = index *)
Record tval := { tv_struct : list Z; tv_loc : loc }.

Inductive op :=
| OAlias (src : nat) (newstruct : list Z)           (* result shares the storage of variable src *)
| OFresh (srcs : list nat) (newstruct : list Z) (f : list (list Z) -> list Z)   (* result computed from the operands' data *)
| OCopy (src : nat)
| OSetItem (recv : nat) (i : nat) (v : Z)            (* in place: writes one element through the receiver *)
| ORebind (recv : nat) (newstruct : list Z) (d : list Z).   (* in place: receiver gets fresh storage (set_block) *)

Definition env := list tval.                         (* variables *)

Definition hget (h : heap) (l : loc) : list Z := nth l h [].
Fixpoint list_set {A} (i : nat) (x : A) (l : list A) : list A :=
  match l, i with [], _ => [] | _ :: r, O => x :: r | y :: r, S i' => y :: list_set i' x r end.

Definition step (st : heap * env) (o : op) : heap * env :=
  let '(h, e) := st in
  match o with
  | OAlias src ns =>
      match nth_error e src with Some v => (h, e ++ [{| tv_struct := ns; tv_loc := tv_loc v |}]) | None => st end
  | OFresh srcs ns f =>
      let datas := map (fun s => match nth_error e s with Some v => hget h (tv_loc v) | None => [] end) srcs in
      (h ++ [f datas], e ++ [{| tv_struct := ns; tv_loc := length h |}])
  | OCopy src =>
      match nth_error e src with
      | Some v => (h ++ [hget h (tv_loc v)], e ++ [{| tv_struct := tv_struct v; tv_loc := length h |}])
      | None => st end
  | OSetItem r i x =>
      match nth_error e r with Some v => (list_set (tv_loc v) (list_set i x (hget h (tv_loc v))) h, e) | None => st end
  | ORebind r ns d =>
      match nth_error e r with Some v => (h ++ [d], list_set r {| tv_struct := ns; tv_loc := length h |} e) | None => st end
  end.

Definition run (st : heap * env) (ops : list op) : heap * env := fold_left step ops st.
Definition in_place (o : op) : bool := match o with OSetItem _ _ _ | ORebind _ _ _ => true | _ => false end.
(* observable value of variable i: its structure and the contents of its storage *)
Definition obs (st : heap * env) (i : nat) : option (list Z * list Z) :=
  match nth_error (snd st) i with Some v => Some (tv_struct v, hget (fst st) (tv_loc v)) | None => None end.
