(* MetaSvd.v -- charge bookkeeping of the new connecting leg in svd / qr / eigh (linalg.py: _meta_svd, _meta_qr, _meta_eigh):
   for a block (tl, tr) of the merged matrix with signature (s0, s1) and charge n, the charge t_con carried by the new leg in the four
   (nU, sU) branches, and the selection rules of the U-, S-, V- (Q-, R-) blocks.  Model + laws for every symmetry descriptor. *)
From Coq Require Import List ZArith Bool Lia.
From Yv Require Import Sym.Descr Sym.SymLaws Block.Charge.
Import ListNotations.
Open Scope Z_scope.
Local Arguments Z.mul : simpl never.
Local Arguments Z.add : simpl never.
Local Arguments Z.modulo : simpl never.

(* _meta_svd: the four branches of t_con *)
Definition t_con (d : descr) (nU : bool) (sU s0 s1 : Z) (tl tr : list Z) : list Z :=
  if nU then (if sU =? s1 then tr else gfuse d [tr] [1] (-1))
  else (if sU =? - s0 then tl else gfuse d [tl] [1] (-1)).
Definition Un (d : descr) (nU : bool) (n : list Z) : list Z := if nU then n else gzero d.
Definition Vn (d : descr) (nU : bool) (n : list Z) : list Z := if nU then gzero d else n.

(* _meta_qr: Q keeps the tensor charge, R has charge zero *)
Definition t_con_qr (d : descr) (sQ s1 : Z) (tr : list Z) : list Z := if sQ =? s1 then tr else gfuse d [tr] [1] (-1).

Section Laws.
  Variable d : descr.
  Hypothesis Hd : okdescr d.

  Lemma nth_gzero' c : nth c (gzero d) 0 = 0.
  Proof. apply nth_gzero. Qed.

  Ltac start c Hlt Hok :=
    unfold sel; apply list_eq_nth; [rewrite ?gfuse_length; unfold gzero; rewrite ?map_length; first [reflexivity | symmetry; assumption]|];
    intros c Hlt; rewrite gfuse_length in Hlt; pose proof (okdescr_nth d c Hd) as Hok;
    rewrite !nth_gfuse by exact Hlt; unfold comp; simpl.

  Theorem svd_blocks_obey_selection_rule (nU : bool) sU s0 s1 tl tr n :
    sgn_ok sU -> sgn_ok s0 -> sgn_ok s1 ->
    sel d [tl; tr] [s0; s1] n ->
    let tc := t_con d nU sU s0 s1 tl tr in
    sel d [tl; tc] [s0; sU] (Un d nU n) /\          (* U block *)
    sel d [tc; tc] [- sU; sU] (gzero d) /\          (* S block *)
    sel d [tc; tr] [- sU; s1] (Vn d nU n).          (* V block *)
  Proof.
    intros HsU Hs0 Hs1 Hsel. unfold t_con, Un, Vn.
    assert (Hln : length n = length d) by (rewrite <- Hsel; apply gfuse_length).
    assert (Hn : forall c, (c < length d)%nat -> nth c n 0 = norm1 (nth c d None) (s0 * nth c tl 0 + s1 * nth c tr 0)).
    { intros c Hc. rewrite (nth_sel d _ _ _ c Hsel Hc). simpl. f_equal. ring. }
    destruct nU.
    - destruct (sU =? s1) eqn:E.
      + apply Z.eqb_eq in E. subst sU. repeat split.
        * exact Hsel.
        * start c Hlt Hok. rewrite nth_gzero'. replace (1 * (- s1 * nth c tr 0 + (s1 * nth c tr 0 + 0))) with 0 by ring. apply norm1_0; exact Hok.
        * start c Hlt Hok. rewrite nth_gzero'. replace (1 * (- s1 * nth c tr 0 + (s1 * nth c tr 0 + 0))) with 0 by ring. apply norm1_0; exact Hok.
      + assert (sU = - s1) by (destruct HsU, Hs1; subst; simpl in E; try discriminate; reflexivity). subst sU. repeat split.
        * start c Hlt Hok. rewrite (Hn c Hlt). rewrite nth_gfuse by exact Hlt. unfold comp. simpl.
          rewrite !Z.mul_1_l, !Z.add_0_r. rewrite <- (norm1_add_r _ (s0 * nth c tl 0)) by exact Hok.
          rewrite norm1_mul_r by exact Hok. rewrite norm1_add_r by exact Hok. f_equal. ring.
        * start c Hlt Hok. rewrite nth_gzero'. rewrite nth_gfuse by exact Hlt. unfold comp. simpl.
          set (x := norm1 (nth c d None) (-1 * (1 * nth c tr 0 + 0))).
          replace (1 * (- - s1 * x + (- s1 * x + 0))) with 0 by ring. apply norm1_0; exact Hok.
        * start c Hlt Hok. rewrite nth_gzero'. rewrite nth_gfuse by exact Hlt. unfold comp. simpl.
          rewrite !Z.mul_1_l, !Z.add_0_r.
          rewrite <- (norm1_add_l _ _ (s1 * nth c tr 0)) by exact Hok. rewrite norm1_mul_r by exact Hok.
          rewrite norm1_add_l by exact Hok. replace (- - s1 * (-1 * nth c tr 0) + s1 * nth c tr 0) with 0 by ring. apply norm1_0; exact Hok.
    - destruct (sU =? - s0) eqn:E.
      + apply Z.eqb_eq in E. subst sU. repeat split.
        * start c Hlt Hok. rewrite nth_gzero'. replace (1 * (s0 * nth c tl 0 + (- s0 * nth c tl 0 + 0))) with 0 by ring. apply norm1_0; exact Hok.
        * start c Hlt Hok. rewrite nth_gzero'. replace (1 * (- - s0 * nth c tl 0 + (- s0 * nth c tl 0 + 0))) with 0 by ring. apply norm1_0; exact Hok.
        * start c Hlt Hok. rewrite (Hn c Hlt). f_equal. ring.
      + assert (sU = s0) by (destruct HsU, Hs0; subst; simpl in E; try discriminate; reflexivity). subst sU. repeat split.
        * start c Hlt Hok. rewrite nth_gzero'. rewrite nth_gfuse by exact Hlt. unfold comp. simpl.
          rewrite !Z.mul_1_l, !Z.add_0_r.
          rewrite <- (norm1_add_r _ (s0 * nth c tl 0)) by exact Hok. rewrite norm1_mul_r by exact Hok.
          rewrite norm1_add_r by exact Hok. replace (s0 * nth c tl 0 + s0 * (-1 * nth c tl 0)) with 0 by ring. apply norm1_0; exact Hok.
        * start c Hlt Hok. rewrite nth_gzero'. rewrite nth_gfuse by exact Hlt. unfold comp. simpl.
          set (x := norm1 (nth c d None) (-1 * (1 * nth c tl 0 + 0))).
          replace (1 * (- s0 * x + (s0 * x + 0))) with 0 by ring. apply norm1_0; exact Hok.
        * start c Hlt Hok. rewrite (Hn c Hlt). rewrite nth_gfuse by exact Hlt. unfold comp. simpl.
          rewrite !Z.mul_1_l, !Z.add_0_r.
          rewrite <- (norm1_add_l _ _ (s1 * nth c tr 0)) by exact Hok. rewrite norm1_mul_r by exact Hok.
          rewrite norm1_add_l by exact Hok. f_equal. ring.
  Qed.

  Theorem qr_blocks_obey_selection_rule sQ s0 s1 tl tr n :
    sgn_ok sQ -> sgn_ok s1 -> sel d [tl; tr] [s0; s1] n ->
    let tc := t_con_qr d sQ s1 tr in
    sel d [tl; tc] [s0; sQ] n /\ sel d [tc; tr] [- sQ; s1] (gzero d).
  Proof.
    intros HsQ Hs1 Hsel.
    pose proof (svd_blocks_obey_selection_rule true sQ s0 s1 tl tr n HsQ) as H.
    unfold t_con_qr. unfold t_con, Un, Vn in H.
    destruct (sQ =? s1) eqn:E.
    - apply Z.eqb_eq in E. subst sQ. split; [exact Hsel|].
      unfold sel. apply list_eq_nth; [rewrite gfuse_length; unfold gzero; rewrite map_length; reflexivity|].
      intros c Hlt. rewrite gfuse_length in Hlt. pose proof (okdescr_nth d c Hd) as Hok.
      rewrite nth_gfuse by exact Hlt. unfold comp. simpl. rewrite nth_gzero.
      replace (1 * (- s1 * nth c tr 0 + (s1 * nth c tr 0 + 0))) with 0 by ring. apply norm1_0; exact Hok.
    - assert (Hs0' : sgn_ok s0 \/ True) by (right; exact I).
      (* reuse the svd theorem (branch nU, sU = -s1); it needs sgn_ok s0 only in the other branches *)
      assert (sQ = - s1) by (destruct HsQ, Hs1; subst; simpl in E; try discriminate; reflexivity). subst sQ.
      clear H Hs0'.
      assert (Hn : forall c, (c < length d)%nat -> nth c n 0 = norm1 (nth c d None) (s0 * nth c tl 0 + s1 * nth c tr 0)).
      { intros c Hc. rewrite (nth_sel d _ _ _ c Hsel Hc). simpl. f_equal. ring. }
      split.
      + unfold sel. apply list_eq_nth; [rewrite gfuse_length; rewrite <- Hsel, gfuse_length; reflexivity|].
        intros c Hlt. rewrite gfuse_length in Hlt. pose proof (okdescr_nth d c Hd) as Hok.
        rewrite nth_gfuse by exact Hlt. unfold comp. simpl. rewrite (Hn c Hlt). rewrite nth_gfuse by exact Hlt. unfold comp. simpl.
        rewrite !Z.mul_1_l, !Z.add_0_r. rewrite <- (norm1_add_r _ (s0 * nth c tl 0)) by exact Hok.
        rewrite norm1_mul_r by exact Hok. rewrite norm1_add_r by exact Hok. f_equal. ring.
      + unfold sel. apply list_eq_nth; [rewrite gfuse_length; unfold gzero; rewrite map_length; reflexivity|].
        intros c Hlt. rewrite gfuse_length in Hlt. pose proof (okdescr_nth d c Hd) as Hok.
        rewrite nth_gfuse by exact Hlt. unfold comp. simpl. rewrite nth_gzero. rewrite nth_gfuse by exact Hlt. unfold comp. simpl.
        rewrite !Z.mul_1_l, !Z.add_0_r.
        rewrite <- (norm1_add_l _ _ (s1 * nth c tr 0)) by exact Hok. rewrite norm1_mul_r by exact Hok.
        rewrite norm1_add_l by exact Hok. replace (- - s1 * (-1 * nth c tr 0) + s1 * nth c tr 0) with 0 by ring. apply norm1_0; exact Hok.
  Qed.
End Laws.
