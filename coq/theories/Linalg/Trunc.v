(* Trunc.v -- model of yastn.linalg.truncation_mask (linalg.py:694-735), default path
   (truncate_multiplets=False, mask_f=None).  Spectrum values and tolerances are exact:
   values are integers, a tolerance is a fraction p/q with q > 0, and `x > tol * max` is x*q > p*max.
   NumPy's argsort enters as an INPUT permutation (ties are the only freedom it has).  Model only. *)
From Coq Require Import List ZArith Bool Arith.
Import ListNotations.
Open Scope Z_scope.

Definition max_abs (l : list Z) : Z := fold_left (fun m x => Z.max m (Z.abs x)) l 0.
Definition above (p q mx x : Z) : bool := p * mx <? x * q.
Definition count_above (p q mx : Z) (l : list Z) : nat := length (filter (above p q mx) l).

Fixpoint set_false_at (i : nat) (m : list bool) : list bool :=
  match m, i with
  | [], _ => []
  | _ :: r, O => false :: r
  | b :: r, S i' => b :: set_false_at i' r
  end.
Definition set_false (idx : list nat) (m : list bool) : list bool := fold_left (fun m i => set_false_at i m) idx m.

(* None = float('inf') *)
Definition cap (D : option nat) (n : nat) : nat := match D with None => n | Some d => Nat.min d n end.

(* block stage for one charge sector *)
Definition mask_block (p q : Z) (Dblock : option nat) (vals : list Z) (inds : list nat) : list bool :=
  let n := length vals in
  let Dtol := count_above p q (max_abs vals) vals in
  let Dbl := cap Dblock Dtol in
  if (Nat.ltb 0%nat Dbl) && (Nat.ltb Dbl n) then set_false (firstn (n - Dbl)%nat inds) (repeat true n)
  else if Nat.eqb Dbl 0%nat then repeat false n else repeat true n.

(* D_block / tol_block given as a scalar or as a per-charge dictionary; a charge missing from a dictionary
   gets 0 (D) resp. 0. (tol) -- exactly the code's D_null / tol_null *)
Inductive tolspec := TolS (p q : Z) | TolD (d : list (list Z * (Z * Z))).
Inductive dspec := DS (d : option nat) | DD (d : list (list Z * option nat)).
Fixpoint zs_eqb (a b : list Z) : bool :=
  match a, b with [], [] => true | x :: a', y :: b' => (x =? y) && zs_eqb a' b' | _, _ => false end.
Fixpoint lookup_t {T} (t : list Z) (d : list (list Z * T)) : option T :=
  match d with [] => None | (t', v) :: r => if zs_eqb t t' then Some v else lookup_t t r end.
Definition tol_for (ts : tolspec) (t : list Z) : Z * Z :=
  match ts with TolS p q => (p, q) | TolD d => match lookup_t t d with Some pq => pq | None => (0, 1) end end.
Definition D_for (ds : dspec) (t : list Z) : option nat :=
  match ds with DS d => d | DD d => match lookup_t t d with Some x => x | None => Some O end end.
(* the whole block stage: one entry (charge, values, argsort of the values) per stored block, in storage order *)
Definition mask_blocks (ts : tolspec) (ds : dspec) (blocks : list (list Z * (list Z * list nat))) : list bool :=
  concat (map (fun b => let '(t, (vals, inds)) := b in
                        let '(p, q) := tol_for ts t in mask_block p q (D_for ds t) vals inds) blocks).

Definition masked (S : list Z) (m : list bool) : list Z :=
  map (fun xb : Z * bool => if snd xb then fst xb else 0) (combine S m).

(* global stage on the concatenated data, given the block-stage mask m1 and argsort of the masked data *)
Definition mask_global (p q : Z) (Dtotal : option nat) (S : list Z) (m1 : list bool) (inds : list nat) : list bool :=
  let temp := masked S m1 in
  let n := length S in
  let Dtol := count_above p q (max_abs temp) temp in
  let Dt := cap Dtotal Dtol in
  if Nat.eqb Dt 0%nat then repeat false n else set_false (firstn (n - Dt)%nat inds) m1.

Definition kept (S : list Z) (m : list bool) : list Z := map fst (filter (fun xb : Z * bool => snd xb) (combine S m)).
Definition discarded (S : list Z) (m : list bool) : list Z := map fst (filter (fun xb : Z * bool => negb (snd xb)) (combine S m)).
Definition sumsq (l : list Z) : Z := fold_right (fun x a => x * x + a) 0 l.
