(* TruncLaws.v -- what the selection guarantees, for any spectrum, any limits, any valid argsort. *)
From Coq Require Import List ZArith Bool Arith Lia Permutation Sorted.
From Yv Require Import Linalg.Trunc.
Import ListNotations.
Open Scope Z_scope.

Lemma set_false_at_length i m : length (set_false_at i m) = length m.
Proof. revert i; induction m as [|b m IH]; intros [|i]; simpl; auto. Qed.

Lemma set_false_length idx m : length (set_false idx m) = length m.
Proof. unfold set_false. revert m; induction idx as [|i idx IH]; intro m; simpl; auto. rewrite IH. apply set_false_at_length. Qed.

Lemma nth_set_false_at i j m : nth j (set_false_at i m) false = if Nat.eqb i j then false else nth j m false.
Proof.
  revert i j; induction m as [|b m IH]; intros [|i] [|j]; simpl; auto;
    try (destruct (Nat.eqb _ _); reflexivity).
Qed.

Lemma nth_set_false idx : forall m j, nth j (set_false idx m) false = if existsb (Nat.eqb j) idx then false else nth j m false.
Proof.
  unfold set_false. induction idx as [|i idx IH]; intros m j; simpl; auto.
  rewrite IH. rewrite nth_set_false_at. rewrite (Nat.eqb_sym j i).
  destruct (Nat.eqb i j); simpl; [destruct (existsb _ idx); reflexivity | reflexivity].
Qed.

Lemma nth_repeat_true n j : (j < n)%nat -> nth j (repeat true n) false = true.
Proof. revert j; induction n as [|n IH]; intros [|j] H; simpl; auto; try lia. apply IH. lia. Qed.

Lemma nth_repeat_false n j : nth j (repeat false n) false = false.
Proof. revert j; induction n as [|n IH]; intros [|j]; simpl; auto. Qed.

(* a valid argsort of vals: a permutation of the indices, ascending values *)
Definition valid_argsort (vals : list Z) (inds : list nat) : Prop :=
  Permutation inds (seq 0 (length vals)) /\
  forall a b, (a <= b < length inds)%nat -> nth (nth a inds O) vals 0 <= nth (nth b inds O) vals 0.

(* position-wise characterisation of the truncating branch *)
Lemma in_firstn_pos {A} (l : list A) k x : In x (firstn k l) -> exists a, (a < k)%nat /\ (a < length l)%nat /\ nth_error l a = Some x.
Proof.
  revert k; induction l as [|y l IH]; intros [|k] H; simpl in *; try contradiction.
  destruct H as [->|H].
  - exists O. repeat split; try lia. 
  - destruct (IH k H) as [a [Ha [Hl He]]]. exists (S a). repeat split; try lia. exact He.
Qed.

Lemma existsb_eqb_in j idx : existsb (Nat.eqb j) idx = true <-> In j idx.
Proof.
  rewrite existsb_exists. split.
  - intros [x [Hx He]]. apply Nat.eqb_eq in He. subst; exact Hx.
  - intro H. exists j. split; auto. apply Nat.eqb_refl.
Qed.

(* MAXIMALITY at one stage: if the stage discards index i and keeps index j (both kept before), then v[i] <= v[j] *)
Theorem stage_maximal (vals : list Z) (inds : list nat) (m0 : list bool) (k : nat) i j :
  valid_argsort vals inds -> (k <= length vals)%nat ->
  (i < length vals)%nat -> (j < length vals)%nat ->
  existsb (Nat.eqb i) (firstn k inds) = true ->       (* i is switched off by this stage *)
  existsb (Nat.eqb j) (firstn k inds) = false ->      (* j is not *)
  nth i vals 0 <= nth j vals 0.
Proof.
  intros [Hperm Hsorted] Hk Hi Hj Ei Ej.
  apply existsb_eqb_in in Ei. apply in_firstn_pos in Ei as [a [Hak [Hal Ha]]].
  assert (Hlen : length inds = length vals) by (rewrite (Permutation_length Hperm), seq_length; reflexivity).
  assert (Hjin : In j inds) by (apply (Permutation_in _ (Permutation_sym Hperm)); apply in_seq; lia).
  apply In_nth_error in Hjin as [b Hb].
  assert (Hbl : (b < length inds)%nat) by (apply nth_error_Some; congruence).
  assert (Hbk : (k <= b)%nat).
  { destruct (Nat.lt_ge_cases b k) as [Hlt|]; auto. exfalso.
    assert (In j (firstn k inds)).
    { rewrite <- (firstn_skipn k inds) in Hb. rewrite nth_error_app1 in Hb by (rewrite firstn_length; lia).
      eapply nth_error_In; eauto. }
    apply existsb_eqb_in in H. congruence. }
  rewrite <- (nth_error_nth inds a O Ha), <- (nth_error_nth inds b O Hb).
  apply Hsorted. lia.
Qed.

(* LIMITS: the number of entries a stage leaves switched on is at most the limit *)
Lemma count_true_le (m : list bool) : (length (filter (fun b => b) m) <= length m)%nat.
Proof. induction m as [|[] m IH]; simpl; lia. Qed.

Definition on_count (m : list bool) : nat := length (filter (fun b => b) m).

Lemma on_count_repeat_false n : on_count (repeat false n) = O.
Proof. induction n; simpl; auto. Qed.

Lemma on_count_repeat_true n : on_count (repeat true n) = n.
Proof. unfold on_count. induction n; simpl; auto. Qed.

Lemma on_count_set_false_at_le i m : (on_count (set_false_at i m) <= on_count m)%nat.
Proof. unfold on_count. revert i; induction m as [|b m IH]; intros [|i]; simpl; auto. - destruct b; simpl; lia. - destruct b; simpl; specialize (IH i); lia. Qed.

Lemma on_count_set_false_at_strict i m : nth i m false = true -> S (on_count (set_false_at i m)) = on_count m.
Proof.
  unfold on_count. revert i; induction m as [|b m IH]; intros [|i] H; simpl in *; try discriminate.
  - subst. reflexivity.
  - destruct b; simpl; rewrite <- (IH i H); reflexivity.
Qed.

(* switching off a duplicate-free list of in-range indices of an all-true mask leaves exactly n - |idx| on *)
Lemma on_count_set_false_all_true idx : forall n, NoDup idx -> (forall i, In i idx -> (i < n)%nat) ->
  forall m, length m = n -> (forall i, In i idx -> nth i m false = true) ->
  (on_count (set_false idx m) + length idx = on_count m)%nat.
Proof.
  unfold set_false. induction idx as [|i idx IH]; intros n Hnd Hr m Hm Hon; simpl; [lia|].
  inversion Hnd as [|? ? Hnin Hnd']; subst.
  rewrite <- (on_count_set_false_at_strict i m) by (apply Hon; left; reflexivity).
  rewrite <- (IH (length m) Hnd') with (m := set_false_at i m).
  - lia.
  - intros j Hj. apply Hr. right; exact Hj.
  - apply set_false_at_length.
  - intros j Hj. rewrite nth_set_false_at. destruct (Nat.eqb i j) eqn:E.
    + apply Nat.eqb_eq in E. subst. contradiction.
    + apply Hon. right; exact Hj.
Qed.

Lemma In_firstn {A} k (l : list A) x : In x (firstn k l) -> In x l.
Proof. revert k; induction l as [|y l IH]; intros [|k] H; simpl in *; try contradiction. destruct H; [left|right]; eauto. Qed.

Lemma NoDup_firstn {A} k (l : list A) : NoDup l -> NoDup (firstn k l).
Proof.
  revert k; induction l as [|x l IH]; intros [|k] H; simpl; try constructor.
  - inversion H; subst. intro Hin. apply H2. eapply In_firstn; eauto.
  - inversion H; subst. apply IH; auto.
Qed.

(* the block stage keeps at most D_block values, and at most the number above tolerance *)
Theorem block_limit p q Dblock vals inds : valid_argsort vals inds ->
  (on_count (mask_block p q Dblock vals inds) <= cap Dblock (count_above p q (max_abs vals) vals))%nat /\
  length (mask_block p q Dblock vals inds) = length vals.
Proof.
  intros [Hperm _]. unfold mask_block.
  set (n := length vals). set (Dbl := cap Dblock _).
  assert (Hlen : length inds = n) by (rewrite (Permutation_length Hperm), seq_length; reflexivity).
  assert (Hnd : NoDup inds) by (apply (Permutation_NoDup (Permutation_sym Hperm)); apply seq_NoDup).
  destruct (Nat.ltb 0%nat Dbl && Nat.ltb Dbl n) eqn:E.
  - apply andb_true_iff in E as [E1 E2]. apply Nat.ltb_lt in E1, E2. split; [|rewrite set_false_length, repeat_length; reflexivity].
    assert (Hr : forall i, In i (firstn (n - Dbl)%nat inds) -> (i < n)%nat).
    { intros i Hi. apply In_firstn in Hi. apply (Permutation_in _ Hperm) in Hi. apply in_seq in Hi. lia. }
    assert (Hon : forall i, In i (firstn (n - Dbl)%nat inds) -> nth i (repeat true n) false = true).
    { intros i Hi. apply nth_repeat_true. apply Hr; exact Hi. }
    pose proof (on_count_set_false_all_true (firstn (n - Dbl)%nat inds) n (NoDup_firstn _ _ Hnd) Hr (repeat true n) (repeat_length _ _) Hon) as H.
    rewrite on_count_repeat_true, firstn_length, Hlen in H. lia.
  - destruct (Nat.eqb Dbl 0%nat) eqn:E0.
    + rewrite on_count_repeat_false, repeat_length. split; [lia|reflexivity].
    + rewrite on_count_repeat_true, repeat_length. split; [|reflexivity].
      apply andb_false_iff in E. apply Nat.eqb_neq in E0. destruct E as [E|E]; [apply Nat.ltb_ge in E; lia | apply Nat.ltb_ge in E; exact E].
Qed.

(* ---- global stage: at most D_total values survive ---- *)
Lemma filter_perm_length {A} (f : A -> bool) l l' : Permutation l l' -> length (filter f l) = length (filter f l').
Proof.
  induction 1 as [| x l l' _ IH | x y l | l l' l'' _ IH1 _ IH2]; simpl; auto.
  - destruct (f x); simpl; congruence.
  - destruct (f x), (f y); simpl; reflexivity.
  - congruence.
Qed.

Lemma on_count_seq_from m : forall s, on_count m = length (filter (fun j => nth (j - s) m false) (seq s (length m))).
Proof.
  induction m as [|b m IH]; intro s; [reflexivity|].
  assert (E : filter (fun j => nth (j - s) (b :: m) false) (seq (S s) (length m))
            = filter (fun j => nth (j - S s) m false) (seq (S s) (length m))).
  { apply filter_ext_in. intros j Hj. apply in_seq in Hj. replace (j - s)%nat with (S (j - S s)) by lia. reflexivity. }
  change (seq s (length (b :: m))) with (s :: seq (S s) (length m)).
  cbn [filter]. replace (s - s)%nat with O by lia.
  change (nth 0 (b :: m) false) with b. rewrite E.
  unfold on_count in *. cbn [filter]. destruct b; cbn [length]; rewrite (IH (S s)); reflexivity.
Qed.

Lemma on_count_seq m : on_count m = length (filter (fun j => nth j m false) (seq 0 (length m))).
Proof.
  rewrite (on_count_seq_from m 0). f_equal. apply filter_ext. intro j. f_equal. lia.
Qed.

Lemma filter_all_false {A} (f : A -> bool) l : (forall x, In x l -> f x = false) -> filter f l = [].
Proof. induction l as [|x l IH]; intro H; simpl; auto. rewrite (H x (or_introl eq_refl)). apply IH. intros y Hy. apply H. right; exact Hy. Qed.

Lemma filter_length_le {A} (f : A -> bool) l : (length (filter f l) <= length l)%nat.
Proof. induction l as [|x l IH]; simpl; auto. destruct (f x); simpl; lia. Qed.

Theorem switch_off_prefix_limit (inds : list nat) (m : list bool) k :
  Permutation inds (seq 0 (length m)) -> (on_count (set_false (firstn k inds) m) <= length m - k)%nat.
Proof.
  intro Hperm.
  rewrite on_count_seq, set_false_length.
  rewrite <- (filter_perm_length _ _ _ Hperm).
  rewrite <- (firstn_skipn k inds) at 1. rewrite filter_app, app_length.
  assert (Hnd : NoDup inds) by (apply (Permutation_NoDup (Permutation_sym Hperm)); apply seq_NoDup).
  rewrite filter_all_false.
  - simpl. pose proof (filter_length_le (fun j => nth j (set_false (firstn k inds) m) false) (skipn k inds)) as H.
    rewrite skipn_length in H. rewrite (Permutation_length Hperm), seq_length in H. exact H.
  - intros j Hj. rewrite nth_set_false. rewrite (proj2 (existsb_eqb_in j _) Hj). reflexivity.
Qed.

Theorem global_limit p q Dtotal S m1 inds : length m1 = length S -> Permutation inds (seq 0 (length S)) ->
  (on_count (mask_global p q Dtotal S m1 inds) <= cap Dtotal (count_above p q (max_abs (masked S m1)) (masked S m1)))%nat.
Proof.
  intros Hl Hperm. unfold mask_global. set (Dt := cap Dtotal _).
  destruct (Nat.eqb Dt 0) eqn:E.
  - rewrite on_count_repeat_false. lia.
  - rewrite <- Hl in Hperm. pose proof (switch_off_prefix_limit inds m1 (length S - Dt) Hperm) as H.
    assert (Hd : (Dt <= length S)%nat).
    { unfold Dt, cap, count_above. pose proof (filter_length_le (above p q (max_abs (masked S m1))) (masked S m1)) as F.
      assert (length (masked S m1) = length S).
      { unfold masked. rewrite map_length, combine_length. lia. }
      destruct Dtotal; lia. }
    lia.
Qed.

(* limits that do not bind discard nothing *)
Theorem block_nonbinding p q Dblock vals inds :
  (length vals <= cap Dblock (count_above p q (max_abs vals) vals))%nat -> (0 < length vals)%nat ->
  mask_block p q Dblock vals inds = repeat true (length vals).
Proof.
  intros H Hn. unfold mask_block. set (Dbl := cap Dblock _) in *.
  replace (Nat.ltb Dbl (length vals)) with false by (symmetry; apply Nat.ltb_ge; exact H).
  rewrite andb_false_r. replace (Nat.eqb Dbl 0) with false by (symmetry; apply Nat.eqb_neq; lia). reflexivity.
Qed.

Theorem global_nonbinding p q Dtotal S m1 inds :
  (length S <= cap Dtotal (count_above p q (max_abs (masked S m1)) (masked S m1)))%nat -> (0 < length S)%nat ->
  mask_global p q Dtotal S m1 inds = m1.
Proof.
  intros H Hn. unfold mask_global. set (Dt := cap Dtotal _) in *.
  replace (Nat.eqb Dt 0) with false by (symmetry; apply Nat.eqb_neq; lia).
  replace (length S - Dt)%nat with O by lia. reflexivity.
Qed.

(* the truncation error of the spectrum is exactly the weight of the discarded values *)
Theorem error_is_discarded_weight (S : list Z) (m : list bool) : length m = length S ->
  sumsq (map (fun xb : Z * bool => fst xb - (if snd xb then fst xb else 0)) (combine S m)) = sumsq (discarded S m)
  /\ sumsq S = sumsq (kept S m) + sumsq (discarded S m).
Proof.
  revert m; induction S as [|x S IH]; intros [|b m] Hl; simpl in *; try discriminate; auto.
  destruct (IH m ltac:(lia)) as [H1 H2]. unfold kept, discarded in *. destruct b; simpl; split; try lia; rewrite ?H1; try ring; try lia.
Qed.
