(* LruLaws.v -- the cache refines the pure function, for all histories. *)
From Coq Require Import List ZArith Bool Arith Lia.
From Yv Require Import Cache.Lru.
Import ListNotations.

Section Laws.
  Variables K V : Type.
  Variable keqb : K -> K -> bool.
  Variable f : nat -> K -> V.
  (* key completeness: arguments that compare equal give equal results (the premise the probes check dynamically) *)
  Hypothesis key_complete : forall i a b, keqb a b = true -> f i a = f i b.

  Notation cache := (cache K V).
  Definition entries_ok (i : nat) (c : cache) : Prop := Forall (fun kv => snd kv = f i (fst kv)) (entries K V c).
  Definition size_ok (c : cache) : Prop :=
    match maxsize K V c with None => True | Some n => length (entries K V c) <= n end.
  Definition inv_at (i : nat) (c : cache) : Prop := entries_ok i c /\ size_ok c.
  Definition inv (st : list cache) : Prop := forall i c, nth_error st i = Some c -> inv_at i c.

  Lemma lookup_ok i l k v : Forall (fun kv => snd kv = f i (fst kv)) l -> lookup K V keqb k l = Some v -> v = f i k.
  Proof.
    induction 1 as [|[k' v'] r Hh Ht IH]; simpl; [discriminate|].
    destruct (keqb k k') eqn:E; [|exact IH]. intro H; inversion H; subst. simpl in Hh. rewrite Hh.
    symmetry. apply key_complete. exact E.
  Qed.

  Lemma stored_key_ok l k k0 : stored_key K V keqb k l = Some k0 -> keqb k k0 = true.
  Proof. induction l as [|[k' v'] r IH]; simpl; [discriminate|]. destruct (keqb k k') eqn:E; [intro H; inversion H; subst; exact E | exact IH]. Qed.

  Lemma remove_key_ok i l k : Forall (fun kv => snd kv = f i (fst kv)) l -> Forall (fun kv => snd kv = f i (fst kv)) (remove_key K V keqb k l).
  Proof. induction 1 as [|[k' v'] r Hh Ht IH]; simpl; [constructor|]. destruct (keqb k k'); [exact Ht | constructor; assumption]. Qed.

  Lemma remove_key_length_found l k v : lookup K V keqb k l = Some v -> S (length (remove_key K V keqb k l)) = length l.
  Proof. induction l as [|[k' v'] r IH]; simpl; [discriminate|]. destruct (keqb k k'); [reflexivity|]. intro H. simpl. f_equal. exact (IH H). Qed.

  Lemma firstn_Forall {A} (P : A -> Prop) n l : Forall P l -> Forall P (firstn n l).
  Proof. revert l; induction n as [|n IH]; intros l H; simpl; [constructor|]. destruct H; constructor; auto. Qed.

  (* one call: returns f k, keeps the invariant; a hit returns the value stored under an EQUAL key *)
  Lemma call_ok i c k c' v h : inv_at i c -> call K V keqb (f i) c k = (c', v, h) -> v = f i k /\ inv_at i c'.
  Proof.
    intros [He Hs] H. unfold call in H. unfold inv_at, entries_ok, size_ok in *.
    destruct (maxsize K V c) as [[|n]|] eqn:Em.
    - inversion H; subst. rewrite Em. auto.
    - destruct (lookup K V keqb k (entries K V c)) as [v0|] eqn:El;
      [destruct (stored_key K V keqb k (entries K V c)) as [k0|] eqn:Es|].
      + inversion H; subst; clear H. simpl. pose proof (lookup_ok i _ _ _ He El) as Hv. subst v.
        split; [reflexivity|]. split.
        * constructor; [simpl; apply key_complete; apply (stored_key_ok _ _ _ Es) | apply remove_key_ok; exact He].
        * simpl. rewrite (remove_key_length_found _ _ _ El). exact Hs.
      + inversion H; subst; clear H. simpl. split; [reflexivity|]. split.
        * constructor; [reflexivity|]. apply firstn_Forall. exact He.
        * simpl. rewrite firstn_length. lia.
      + inversion H; subst; clear H. simpl. split; [reflexivity|]. split.
        * constructor; [reflexivity|]. apply firstn_Forall. exact He.
        * simpl. rewrite firstn_length. lia.
    - destruct (lookup K V keqb k (entries K V c)) as [v0|] eqn:El;
      [destruct (stored_key K V keqb k (entries K V c)) as [k0|] eqn:Es|].
      + inversion H; subst; clear H. simpl. pose proof (lookup_ok i _ _ _ He El) as Hv. subst v.
        split; [reflexivity|]. split; [|exact I].
        constructor; [simpl; apply key_complete; apply (stored_key_ok _ _ _ Es) | apply remove_key_ok; exact He].
      + inversion H; subst; clear H. simpl. split; [reflexivity|]. split; [|exact I]. constructor; [reflexivity|exact He].
      + inversion H; subst; clear H. simpl. split; [reflexivity|]. split; [|exact I]. constructor; [reflexivity|exact He].
  Qed.

  Lemma nth_error_upd {A} (l : list A) i j x y : nth_error (upd i x l) j = Some y ->
    (j = i /\ y = x /\ i < length l) \/ (j <> i /\ nth_error l j = Some y).
  Proof.
    revert i j; induction l as [|a l IH]; intros i j H; simpl in *.
    - destruct i, j; simpl in H; discriminate.
    - destruct i as [|i], j as [|j]; simpl in *.
      + inversion H; subst. left. repeat split; lia.
      + right. split; [lia|exact H].
      + right. split; [lia|exact H].
      + destruct (IH i j H) as [[-> [-> Hl]]|[Hne Hn]]; [left; repeat split; lia | right; split; [lia|exact Hn]].
  Qed.

  Lemma inv_fresh i m : inv_at i (fresh K V m).
  Proof. split; [constructor|]. unfold size_ok; simpl. destruct m; simpl; lia. Qed.
  Lemma inv_clear i c : inv_at i c -> inv_at i (cache_clear K V c).
  Proof. intros [_ Hs]. split; [constructor|]. unfold size_ok in *; simpl. destruct (maxsize K V c); simpl; lia. Qed.

  Lemma step_ok st e st' o : inv st -> step K V keqb f st e = (st', o) ->
    inv st' /\ match o with Some (i, k, v, _) => v = f i k | None => True end.
  Proof.
    intros Hinv H. destruct e as [i k|i| |i m]; simpl in H.
    - destruct (nth_error st i) as [c|] eqn:En.
      + destruct (call K V keqb (f i) c k) as [[c' v] h] eqn:Ec. inversion H; subst; clear H.
        destruct (call_ok i c k c' v h (Hinv i c En) Ec) as [Hv Hc']. split; [|exact Hv].
        intros j d Hj. apply nth_error_upd in Hj as [[-> [-> _]]|[_ Hj]]; [exact Hc' | exact (Hinv j d Hj)].
      + inversion H; subst. auto.
    - destruct (nth_error st i) as [c|] eqn:En; inversion H; subst; clear H; split; auto.
      intros j d Hj. apply nth_error_upd in Hj as [[-> [-> _]]|[_ Hj]]; [apply inv_clear; exact (Hinv i c En) | exact (Hinv j d Hj)].
    - inversion H; subst; clear H. split; auto. intros j d Hj.
      rewrite nth_error_map in Hj. destruct (nth_error st j) as [c|] eqn:En; simpl in Hj; [|discriminate].
      inversion Hj; subst. apply inv_clear. exact (Hinv j c En).
    - inversion H; subst; clear H. split; auto. intros j d Hj.
      apply nth_error_upd in Hj as [[-> [-> _]]|[_ Hj]]; [apply inv_fresh | exact (Hinv j d Hj)].
  Qed.

  (* every call in every history returns the pure function's value; the invariant survives *)
  Theorem run_refines_pure h : forall st st' outs, inv st -> run K V keqb f st h = (st', outs) ->
    inv st' /\ Forall (fun o => let '(i, k, v, _) := o in v = f i k) outs.
  Proof.
    induction h as [|e h IH]; intros st st' outs Hinv H; simpl in H.
    - inversion H; subst. split; [exact Hinv|constructor].
    - destruct (step K V keqb f st e) as [st1 o] eqn:Es.
      destruct (run K V keqb f st1 h) as [st2 os] eqn:Er. inversion H; subst; clear H.
      destruct (step_ok st e st1 o Hinv Es) as [Hinv1 Ho].
      destruct (IH st1 st' os Hinv1 Er) as [Hinv2 Hos]. split; [exact Hinv2|].
      destruct o as [[[[i k] v] hit]|]; [constructor; assumption | exact Hos].
  Qed.

  Lemma inv_all_fresh ms : inv (map (fresh K V) ms).
  Proof.
    intros i c H. rewrite nth_error_map in H. destruct (nth_error ms i); simpl in H; [|discriminate].
    inversion H; subst. apply inv_fresh.
  Qed.

  (* results do not depend on the history: warm, cold, cleared and resized runs agree call by call *)
  Theorem results_history_independent h1 h2 ms1 ms2 st1 outs1 st2 outs2 :
    run K V keqb f (map (fresh K V) ms1) h1 = (st1, outs1) ->
    run K V keqb f (map (fresh K V) ms2) h2 = (st2, outs2) ->
    forall i k v1 hit1 v2 hit2, In (i, k, v1, hit1) outs1 -> In (i, k, v2, hit2) outs2 -> v1 = v2.
  Proof.
    intros H1 H2 i k v1 hit1 v2 hit2 I1 I2.
    destruct (run_refines_pure h1 _ _ _ (inv_all_fresh ms1) H1) as [_ F1].
    destruct (run_refines_pure h2 _ _ _ (inv_all_fresh ms2) H2) as [_ F2].
    rewrite Forall_forall in F1, F2. specialize (F1 _ I1). specialize (F2 _ I2). simpl in *. congruence.
  Qed.

  (* no cross-talk: a hit returns a value that was stored under a key EQUAL to the one asked for *)
  Theorem hit_only_for_equal_key c k c' v : call K V keqb (f 0) c k = (c', v, true) ->
    exists k0, In (k0, v) (entries K V c) /\ keqb k k0 = true.
  Proof.
    unfold call. destruct (maxsize K V c) as [[|n]|];
      try (destruct (lookup K V keqb k (entries K V c)) as [v0|] eqn:El;
           [destruct (stored_key K V keqb k (entries K V c)) as [k0|] eqn:Es|]);
      intro H; inversion H; subst; clear H.
    all: clear -El Es; induction (entries K V c) as [|[k' v'] r IH]; simpl in *; try discriminate;
         destruct (keqb k k') eqn:E;
         [ inversion El; inversion Es; subst; exists k0; split; [left; reflexivity|exact E]
         | destruct (IH El Es) as [k1 [Hin Hk]]; exists k1; split; [right; exact Hin|exact Hk] ].
  Qed.

  Theorem size_bounded h st st' outs : inv st -> run K V keqb f st h = (st', outs) ->
    forall i c n, nth_error st' i = Some c -> maxsize K V c = Some n -> length (entries K V c) <= n.
  Proof.
    intros Hinv H i c n Hn Hm. destruct (run_refines_pure h _ _ _ Hinv H) as [Hinv' _].
    destruct (Hinv' i c Hn) as [_ Hs]. unfold size_ok in Hs. rewrite Hm in Hs. exact Hs.
  Qed.
End Laws.
