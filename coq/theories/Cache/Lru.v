(* Lru.v -- functools.lru_cache(maxsize) as a state machine; any number of caches
   (the 18 decorated functions, and the extra wrappers that set_cache_maxsize leaves alive)
   driven by an arbitrary history of call / cache_clear / re-wrap events.  Model only. *)
From Coq Require Import List ZArith Bool Arith.
Import ListNotations.

Section Lru.
  Variables K V : Type.
  Variable keqb : K -> K -> bool.          (* Python equality (and hash) of the argument tuples *)

  (* maxsize: None = unbounded, Some 0 = caching disabled, Some n = bounded *)
  Record cache := { maxsize : option nat; entries : list (K * V) (* most recently used first *) }.

  Fixpoint lookup (k : K) (l : list (K * V)) : option V :=
    match l with [] => None | (k', v) :: r => if keqb k k' then Some v else lookup k r end.
  Fixpoint remove_key (k : K) (l : list (K * V)) : list (K * V) :=
    match l with [] => [] | (k', v) :: r => if keqb k k' then r else (k', v) :: remove_key k r end.
  Fixpoint stored_key (k : K) (l : list (K * V)) : option K :=
    match l with [] => None | (k', v) :: r => if keqb k k' then Some k' else stored_key k r end.

  Definition trim (m : option nat) (l : list (K * V)) : list (K * V) :=
    match m with None => l | Some n => firstn n l end.

  (* one call of the wrapper around the undecorated function [f]; returns new state, result, hit? *)
  Definition call (f : K -> V) (c : cache) (k : K) : cache * V * bool :=
    match maxsize c with
    | Some O => (c, f k, false)
    | m =>
      match lookup k (entries c), stored_key k (entries c) with
      | Some v, Some k0 => ({| maxsize := m; entries := (k0, v) :: remove_key k (entries c) |}, v, true)
      | _, _ => let v := f k in ({| maxsize := m; entries := trim m ((k, v) :: entries c) |}, v, false)
      end
    end.
  Definition cache_clear (c : cache) : cache := {| maxsize := maxsize c; entries := [] |}.
  Definition fresh (m : option nat) : cache := {| maxsize := m; entries := [] |}.

  (* histories over a family of caches indexed by nat; [f i] is the undecorated function behind cache i *)
  Inductive event :=
  | ECall (i : nat) (k : K)
  | EClear (i : nat)
  | EClearAll
  | ERewrap (i : nat) (m : option nat).      (* set_cache_maxsize: a fresh empty wrapper (the old one may stay referenced elsewhere: model it as another index) *)

  Fixpoint upd {A} (i : nat) (x : A) (l : list A) : list A :=
    match l, i with
    | [], _ => []
    | _ :: r, O => x :: r
    | y :: r, S i' => y :: upd i' x r
    end.

  Definition step (f : nat -> K -> V) (st : list cache) (e : event) : list cache * option (nat * K * V * bool) :=
    match e with
    | ECall i k =>
      match nth_error st i with
      | Some c => let '(c', v, h) := call (f i) c k in (upd i c' st, Some (i, k, v, h))
      | None => (st, None)
      end
    | EClear i => match nth_error st i with Some c => (upd i (cache_clear c) st, None) | None => (st, None) end
    | EClearAll => (map cache_clear st, None)
    | ERewrap i m => (upd i (fresh m) st, None)
    end.

  Fixpoint run (f : nat -> K -> V) (st : list cache) (h : list event) : list cache * list (nat * K * V * bool) :=
    match h with
    | [] => (st, [])
    | e :: r =>
      let '(st', o) := step f st e in
      let '(st'', os) := run f st' r in
      (st'', match o with Some x => x :: os | None => os end)
    end.
End Lru.
