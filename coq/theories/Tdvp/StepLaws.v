(* StepLaws.v -- the time-step arithmetic of tdvp_ (GENERATED into Gen/StepGen.v from yastn/tn/mps/_tdvp.py): the snapshots are reached
   exactly, with the fewest steps not longer than the requested dt, and the 2nd / 4th order compositions tile each step with sweeps evaluated
   at the midpoints of their sub-intervals. *)
From Coq Require Import QArith Qround Qabs Qminmax Bool ZArith List Lia Lqa.
From Yv Require Import Gen.StepGen.
Import ListNotations.
Open Scope Q_scope.

Definition eps : Q := 1 # 1000000000000.

Lemma Qfloor_inject z : Qfloor (inject_Z z) = z.
Proof. unfold Qfloor, inject_Z. cbn. apply Z.div_1_r. Qed.

(* number of steps for an interval of length T = t1 - t0 > eps and a requested step dt > 0 *)
Theorem steps_spec t0 t1 dt : 0 < dt -> eps < t1 - t0 ->
  exists n : Z, tdvp_steps t0 t1 dt == inject_Z n /\ (1 <= n)%Z /\
    (inject_Z n - 1) * dt <= (t1 - t0) - eps /\ (t1 - t0) - eps < inject_Z n * dt.
Proof.
  intros Hdt HT. unfold tdvp_steps, Qtrunc. rewrite Qfloor_inject.
  set (x := ((t1 - t0 - (1 # 1000000000000)) / dt)).
  exists (Qfloor x + 1)%Z.
  assert (Hx0 : 0 < x). { unfold x. apply Qlt_shift_div_l; [exact Hdt|]. unfold eps in HT. lra. }
  pose proof (Qfloor_le x) as H1. pose proof (Qlt_floor x) as H2.
  assert (Hf : (0 <= Qfloor x)%Z).
  { destruct (Z_lt_le_dec (Qfloor x) 0) as [C|C]; [|exact C]. exfalso.
    assert (inject_Z (Qfloor x + 1) <= 0) by (change 0 with (inject_Z 0); rewrite <- Zle_Qle; lia). lra. }
  rewrite inject_Z_plus in *. change (inject_Z 1) with 1 in *.
  split; [reflexivity|]. split; [lia|].
  assert (E : x * dt == t1 - t0 - (1 # 1000000000000)) by (unfold x; field; lra).
  unfold eps. split.
  - rewrite <- E. apply Qmult_le_compat_r; lra.
  - rewrite <- E. apply Qmult_lt_r; lra.
Qed.

(* the step length: the interval is tiled exactly, and the step is not longer than dt up to the slack eps / steps *)
Theorem ds_spec t0 t1 dt : 0 < dt -> eps < t1 - t0 -> let n := tdvp_steps t0 t1 dt in let ds := tdvp_ds t0 t1 n in
  n * ds == t1 - t0 /\ 0 < ds /\ n * ds < n * dt + eps.
Proof.
  intros Hdt HT n ds. destruct (steps_spec t0 t1 dt Hdt HT) as (z & Ez & Hz & Hlo & Hhi).
  assert (Hn : 1 <= n). { unfold n. rewrite Ez. change 1 with (inject_Z 1). rewrite <- Zle_Qle. exact Hz. }
  assert (E : n * ds == t1 - t0). { unfold ds, tdvp_ds. field. lra. }
  split; [exact E|]. split.
  - unfold ds, tdvp_ds. apply Qlt_shift_div_l; [lra|]. unfold eps in HT. lra.
  - rewrite E. fold n in Ez. rewrite Ez. lra.
Qed.

(* the clock: after k steps of length ds the time is t0 + k ds; in particular the snapshot t1 is reached after all steps *)
Fixpoint clock (t ds : Q) (k : nat) : Q := match k with O => t | S k' => clock (tdvp_t_next t ds) ds k' end.
Lemma clock_spec t ds k : clock t ds k == t + inject_Z (Z.of_nat k) * ds.
Proof.
  revert t; induction k as [|k IH]; intro t; cbn [clock].
  - change (inject_Z (Z.of_nat 0)) with 0. lra.
  - rewrite IH. unfold tdvp_t_next. rewrite Nat2Z.inj_succ, <- Z.add_1_r, inject_Z_plus. change (inject_Z 1) with 1. lra.
Qed.
Theorem snapshot_reached t0 t1 dt : 0 < dt -> eps < t1 - t0 ->
  forall z : Z, tdvp_steps t0 t1 dt == inject_Z z -> clock (tdvp_t_start t0) (tdvp_ds t0 t1 (tdvp_steps t0 t1 dt)) (Z.to_nat z) == t1.
Proof.
  intros Hdt HT z Ez. destruct (steps_spec t0 t1 dt Hdt HT) as (z' & Ez' & Hz & _).
  assert (z = z') by (apply inject_Z_injective; rewrite <- Ez, <- Ez'; reflexivity). subst z'.
  rewrite clock_spec, Z2Nat.id by lia. unfold tdvp_t_start.
  destruct (ds_spec t0 t1 dt Hdt HT) as (E & _). cbv zeta in E. rewrite Ez in E at 1. lra.
Qed.

(* compositions: a list of (time at which the generator is evaluated, length of the sweep) *)
Fixpoint total (l : list (Q * Q)) : Q := match l with [] => 0 | (_, d) :: r => d + total r end.
(* every sweep is evaluated at the midpoint of the sub-interval it covers, the sub-intervals following one another from t *)
Fixpoint midpoints (t : Q) (l : list (Q * Q)) : Prop :=
  match l with [] => True | (tm, d) :: r => tm == t + d / 2 /\ midpoints (t + d) r end.

Theorem order2_tiles t ds : total (tdvp_order2 t ds) == ds /\ midpoints t (tdvp_order2 t ds).
Proof. unfold tdvp_order2. cbn [total midpoints]. split; [lra|]. split; [field|exact I]. Qed.
Theorem order4_tiles t ds s2 : total (tdvp_order4 t ds s2) == ds /\ midpoints t (tdvp_order4 t ds s2).
Proof. unfold tdvp_order4. cbn [total midpoints]. split; [ring|]. repeat split; field. Qed.
(* the constant of the 4th order scheme solves 4 s^3 + (1 - 4 s)^3 = 0 to the precision it is written with: s = 1 / (4 - 4^(1/3)) *)
Theorem s2_cancels_third_order : Qabs (4 * tdvp_s2 * tdvp_s2 * tdvp_s2 + (1 - 4 * tdvp_s2) * (1 - 4 * tdvp_s2) * (1 - 4 * tdvp_s2)) < 1 # 1000000000000000.
Proof. vm_compute. reflexivity. Qed.

(* inside a sweep: forward updates evolve by -u dt / 2, backward updates by +u dt / 2: two half-steps per site and exact cancellation of the
   overlap between neighbouring updates *)
Theorem half_steps u dt :
  tdvp1_forward u dt == - (u * dt) / 2 /\ tdvp1_backward u dt == (u * dt) / 2 /\ tdvp1_forward u dt + tdvp1_backward u dt == 0 /\
  tdvp2_forward u dt == - (u * dt) / 2 /\ tdvp2_backward u dt == (u * dt) / 2 /\ tdvp2_forward u dt + tdvp2_backward u dt == 0 /\
  tdvp1_forward u dt + tdvp1_forward u dt == - (u * dt).
Proof. unfold tdvp1_forward, tdvp1_backward, tdvp2_forward, tdvp2_backward. repeat split; field. Qed.
