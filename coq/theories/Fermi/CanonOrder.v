(* CanonOrder.v -- sign_canonical_order computes the inversion parity:
   the exponent accumulated by the selection loop equals  sum over pairs i<j with site_i > site_j of <c_i, c_j>
   (operators on the same site are never swapped), for all lengths, repetitions and orders. *)
From Coq Require Import List ZArith Bool Arith Lia.
From Yv Require Import Fermi.Fermi Fermi.FermiLaws.
Import ListNotations.
Open Scope Z_scope.

(* inversion exponent, directly from the definition *)
Fixpoint inv_exp (fss : list bool) (sites : list Z) (charges : list (list Z)) : Z :=
  match sites, charges with
  | s :: sr, c :: cr =>
      sumZ (map (fun p => if fst p <? s then dotsel fss c (snd p) else 0) (combine sr cr)) + inv_exp fss sr cr
  | _, _ => 0
  end.

(* --- argmin: first occurrence of the minimum --- *)
Lemma argmin_from_spec l : forall bi best i,
  (argmin_from bi best i l = bi /\ forall k, (k < length l)%nat -> nth k l 0 >= best)
  \/ (exists j, (j < length l)%nat /\ argmin_from bi best i l = (i + j)%nat /\ nth j l 0 < best /\
                 (forall k, (k < j)%nat -> nth k l 0 > nth j l 0) /\
                 (forall k, (j < k < length l)%nat -> nth k l 0 >= nth j l 0)).
Proof.
  induction l as [|s r IH]; intros bi best i; simpl.
  - left. split; [reflexivity|]. intros k Hk. lia.
  - destruct (s <? best) eqn:E.
    + right. destruct (IH i s (S i)) as [[Hm Hall]|[j (Hj & Hm & Hlt & Hb & Ha)]].
      * exists 0%nat. repeat split; try lia.
        intros [|k] Hk; [lia|]. simpl. specialize (Hall k ltac:(lia)). lia.
      * exists (S j). repeat split; try (simpl; lia);
          intros [|k] Hk; simpl; try lia; first [apply Hb | apply Ha]; lia.
    + destruct (IH bi best (S i)) as [[Hm Hall]|[j (Hj & Hm & Hlt & Hb & Ha)]].
      * left. split; [exact Hm|]. intros [|k] Hk; simpl; [lia|]. apply Hall. lia.
      * right. exists (S j). repeat split; try (simpl; lia);
          intros [|k] Hk; simpl; try lia; first [apply Hb | apply Ha]; lia.
Qed.

Lemma argmin_spec l : l <> [] ->
  let m := argmin l in
  (m < length l)%nat /\
  (forall k, (k < m)%nat -> nth k l 0 > nth m l 0) /\
  (forall k, (m < k < length l)%nat -> nth k l 0 >= nth m l 0).
Proof.
  destruct l as [|s r]; [congruence|]. intros _. unfold argmin.
  destruct (argmin_from_spec r 0%nat s 1%nat) as [[Hm Hall]|[j (Hj & Hm & Hlt & Hb & Ha)]]; rewrite Hm.
  - simpl. repeat split; try lia. intros [|k] Hk; [lia|]. simpl. apply Hall. simpl in Hk. lia.
  - replace (1 + j)%nat with (S j) by lia. simpl. repeat split; try lia.
    + intros [|k] Hk; simpl; [lia|]. apply Hb. lia.
    + intros [|k] Hk; simpl; [lia|]. apply Ha. lia.
Qed.

(* --- removing the picked operator from the inversion count --- *)
Lemma sum_filter_remove fss c s0 : forall (sr : list Z) (cr : list (list Z)) m, length sr = length cr -> (m < length sr)%nat ->
  sumZ (map (fun p => if fst p <? s0 then dotsel fss c (snd p) else 0) (combine sr cr))
  = (if nth m sr 0 <? s0 then dotsel fss c (nth m cr []) else 0)
    + sumZ (map (fun p => if fst p <? s0 then dotsel fss c (snd p) else 0) (combine (remove_nth m sr) (remove_nth m cr))).
Proof.
  induction sr as [|s sr IH]; intros [|c1 cr] m Hl Hm; simpl in *; try lia.
  destruct m as [|m]; simpl; [lia|]. rewrite (IH cr m) by lia. lia.
Qed.

Lemma remove_nth_length {A} (l : list A) m : (m < length l)%nat -> length (remove_nth m l) = (length l - 1)%nat.
Proof. revert m; induction l as [|x l IH]; intros [|m] H; simpl in *; try lia. rewrite IH by lia. lia. Qed.

Lemma inv_remove fss : forall (sites : list Z) (charges : list (list Z)) m, length sites = length charges -> (m < length sites)%nat ->
  (forall k, (k < m)%nat -> nth k sites 0 > nth m sites 0) ->
  (forall k, (m < k < length sites)%nat -> nth k sites 0 >= nth m sites 0) ->
  inv_exp fss sites charges
  = sumZ (map (fun c0 => dotsel fss c0 (nth m charges [])) (firstn m charges))
    + inv_exp fss (remove_nth m sites) (remove_nth m charges).
Proof.
  induction sites as [|s sr IH]; intros [|c cr] m Hl Hm Hb Ha; simpl in *; try lia.
  destruct m as [|m]; simpl.
  - (* the head is the minimum: nothing after it is smaller *)
    rewrite sumZ_all_zero; [lia|].
    intros x Hx. apply in_map_iff in Hx as [[s' c'] [<- Hin]]. simpl.
    apply In_nth with (d := (0, [])) in Hin as [k [Hk Hnth]]. rewrite combine_length in Hk.
    rewrite combine_nth in Hnth by lia. inversion Hnth; subst.
    specialize (Ha (S k) ltac:(lia)). simpl in Ha. destruct (nth k sr 0 <? s) eqn:E; [lia|reflexivity].
  - assert (Hb' : forall k, (k < m)%nat -> nth k sr 0 > nth m sr 0) by (intros k Hk; apply (Hb (S k)); lia).
    assert (Ha' : forall k, (m < k < length sr)%nat -> nth k sr 0 >= nth m sr 0) by (intros k Hk; apply (Ha (S k)); lia).
    rewrite (IH cr m ltac:(lia) ltac:(lia) Hb' Ha').
    rewrite (sum_filter_remove fss c s sr cr m) by lia.
    assert (Hlt : nth m sr 0 <? s = true) by (specialize (Hb 0%nat ltac:(lia)); simpl in Hb; lia).
    rewrite Hlt. lia.
Qed.

(* the loop of sign_canonical_order accumulates exactly the inversion exponent *)
Theorem canon_exponent_is_inversions fss : forall fuel sites charges,
  length sites = length charges -> (length sites <= fuel)%nat ->
  canon_exponent fuel fss sites charges = inv_exp fss sites charges.
Proof.
  induction fuel as [|f IH]; intros sites charges Hl Hf.
  - destruct sites; simpl in *; [reflexivity|lia].
  - destruct sites as [|s sr]; [reflexivity|].
    assert (Hne : s :: sr <> []) by discriminate.
    destruct (argmin_spec (s :: sr) Hne) as (Hm & Hb & Ha).
    rewrite (inv_remove fss (s :: sr) charges (argmin (s :: sr)) Hl Hm Hb Ha).
    change (canon_exponent (S f) fss (s :: sr) charges)
      with (sumZ (map (fun c0 => dotsel fss c0 (nth (argmin (s :: sr)) charges [])) (firstn (argmin (s :: sr)) charges))
            + canon_exponent f fss (remove_nth (argmin (s :: sr)) (s :: sr)) (remove_nth (argmin (s :: sr)) charges)).
    rewrite IH; [reflexivity | | ].
    + rewrite !remove_nth_length by lia. lia.
    + rewrite remove_nth_length by lia. simpl in *. lia.
Qed.

Theorem sign_canonical_order_is_inversion_parity fss sites charges : length sites = length charges ->
  sign_canonical_order fss sites charges = sign_of (inv_exp fss sites charges mod 2).
Proof. intro H. unfold sign_canonical_order. rewrite canon_exponent_is_inversions; auto. Qed.

(* consequences: already-ordered site lists (also with repeated sites) give +1 *)
Lemma inv_exp_sorted fss : forall sites charges, length sites = length charges ->
  (forall i j, (i < j < length sites)%nat -> nth i sites 0 <= nth j sites 0) -> inv_exp fss sites charges = 0.
Proof.
  induction sites as [|s sr IH]; intros [|c cr] Hl Hs; simpl in *; try lia.
  rewrite IH; [|lia|intros i j Hij; apply (Hs (S i) (S j)); lia].
  rewrite sumZ_all_zero; [lia|].
  intros x Hx. apply in_map_iff in Hx as [[s' c'] [<- Hin]]. simpl.
  apply In_nth with (d := (0, [])) in Hin as [k [Hk Hnth]]. rewrite combine_length in Hk.
  rewrite combine_nth in Hnth by lia. inversion Hnth; subst.
  specialize (Hs 0%nat (S k) ltac:(lia)). simpl in Hs. destruct (nth k sr 0 <? s) eqn:E; [lia|reflexivity].
Qed.
