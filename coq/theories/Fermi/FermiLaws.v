(* FermiLaws.v -- laws of the swap-gate sign. *)
From Coq Require Import List ZArith Bool Arith Lia.
From Yv Require Import Fermi.Fermi.
Import ListNotations.
Open Scope Z_scope.
Ltac Zify.zify_post_hook ::= Z.to_euclidean_division_equations.

Lemma sign_of_sq p : (p = 0 \/ p = 1) -> sign_of p * sign_of p = 1.
Proof. unfold sign_of. intros [->| ->]; reflexivity. Qed.

Lemma mod2_cases x : x mod 2 = 0 \/ x mod 2 = 1.
Proof. lia. Qed.

(* swap_gate is its own inverse: every block is multiplied by (+-1)^2 = 1 *)
Theorem swap_involutive nsym fss key pairs :
  sign_of (swap_parity nsym fss key pairs) * sign_of (swap_parity nsym fss key pairs) = 1.
Proof. apply sign_of_sq. unfold swap_parity. apply mod2_cases. Qed.

Lemma dotsel_all_false fss a b : forallb negb fss = true -> dotsel fss a b = 0.
Proof.
  revert a b; induction fss as [|f fr IH]; intros a b H; simpl; auto.
  destruct a as [|x ar]; destruct b as [|y br]; auto. simpl in H. apply andb_true_iff in H as [Hf Hr].
  destruct f; [discriminate|]. rewrite IH by exact Hr. reflexivity.
Qed.

Lemma sumZ_all_zero l : (forall x, In x l -> x = 0) -> sumZ l = 0.
Proof. induction l as [|x l IH]; intro H; simpl; auto. rewrite (H x (or_introl eq_refl)), IH; auto. intros y Hy. apply H. right; exact Hy. Qed.

(* bosonic statistics: no block is ever negated *)
Theorem swap_bosonic nsym fss key pairs : forallb negb fss = true -> swap_parity nsym fss key pairs = 0.
Proof.
  intro H. unfold swap_parity. rewrite sumZ_all_zero; [reflexivity|].
  intros x Hx. apply in_map_iff in Hx as [p [<- _]]. apply dotsel_all_false. exact H.
Qed.

Lemma dotsel_comm fss a b : dotsel fss a b = dotsel fss b a.
Proof. revert a b; induction fss as [|f fr IH]; intros [|x ar] [|y br]; simpl; auto. rewrite IH. destruct f; lia. Qed.

(* the sign does not depend on which group of a pair is named first *)
Theorem swap_symmetric nsym fss key pairs :
  swap_parity nsym fss key (map (fun p => (snd p, fst p)) pairs) = swap_parity nsym fss key pairs.
Proof.
  unfold swap_parity. rewrite map_map. f_equal. f_equal. apply map_ext. intro p. simpl. apply dotsel_comm.
Qed.

(* only the parities of the DECLARED components matter *)
Lemma dotsel_ext fss a b a' b' :
  (forall c, nth c fss false = true -> nth c a 0 = nth c a' 0 /\ nth c b 0 = nth c b' 0) ->
  length a = length a' -> length b = length b' -> length a = length b ->
  dotsel fss a b = dotsel fss a' b'.
Proof.
  revert a b a' b'; induction fss as [|f fr IH]; intros a b a' b' H La Lb Lab; simpl; auto.
  destruct a as [|x ar]; destruct a' as [|x' ar']; simpl in *; try discriminate; auto;
  destruct b as [|y br]; destruct b' as [|y' br']; simpl in *; try discriminate; auto.
  rewrite (IH ar br ar' br'); try lia.
  - destruct f; auto. destruct (H 0%nat eq_refl) as [-> ->]. reflexivity.
  - intros c Hc. apply (H (S c)). exact Hc.
Qed.

Theorem swap_only_declared_components nsym fss key key' pairs :
  (forall g c, nth c fss false = true -> nth c (group_par nsym key g) 0 = nth c (group_par nsym key' g) 0) ->
  swap_parity nsym fss key pairs = swap_parity nsym fss key' pairs.
Proof.
  intro H. unfold swap_parity. f_equal. f_equal. apply map_ext. intros [g1 g2]. simpl.
  apply dotsel_ext; try (unfold group_par; rewrite !map_length; reflexivity).
  intros c Hc. split; apply H; exact Hc.
Qed.

(* the exponent is additive over the list of swapped pairs: a swap of several pairs is the product of the single swaps *)
Lemma sumZ_app a b : sumZ (a ++ b) = sumZ a + sumZ b.
Proof. induction a as [|x a IH]; simpl; lia. Qed.

Theorem swap_pairs_multiplicative nsym fss key p1 p2 :
  swap_parity nsym fss key (p1 ++ p2) = (swap_parity nsym fss key p1 + swap_parity nsym fss key p2) mod 2.
Proof. unfold swap_parity. rewrite map_app, sumZ_app. lia. Qed.

Theorem swap_sign_multiplicative nsym fss key p1 p2 :
  sign_of (swap_parity nsym fss key (p1 ++ p2)) = sign_of (swap_parity nsym fss key p1) * sign_of (swap_parity nsym fss key p2).
Proof.
  rewrite swap_pairs_multiplicative. unfold sign_of.
  destruct (mod2_cases (sumZ (map (fun p => dotsel fss (group_par nsym key (fst p)) (group_par nsym key (snd p))) p1))) as [H1|H1];
  destruct (mod2_cases (sumZ (map (fun p => dotsel fss (group_par nsym key (fst p)) (group_par nsym key (snd p))) p2))) as [H2|H2];
  unfold swap_parity; rewrite H1, H2; reflexivity.
Qed.
