(* Fermi.v -- fermionic signs: the block parity computed by _meta_swap_gate / _meta_swap_gate_charge,
   swap_charges, and the selection loop of sign_canonical_order (yastn/tensor/_auxiliary.py).  Model only. *)
From Coq Require Import List ZArith Bool Arith.
Import ListNotations.
Open Scope Z_scope.

Definition sumZ (l : list Z) : Z := fold_right Z.add 0 l.

(* fss: which charge components are fermionic (True -> all true, False -> all false) *)
(* parity vector of a group of legs of one block: per component, (sum over the group's legs) mod 2 *)
Definition group_par (nsym : nat) (key : list (list Z)) (g : list nat) : list Z :=
  map (fun c => sumZ (map (fun ax => nth c (nth ax key []) 0) g) mod 2) (seq 0 nsym).

(* sum over the SELECTED components of the product *)
Fixpoint dotsel (fss : list bool) (a b : list Z) : Z :=
  match fss, a, b with
  | f :: fr, x :: ar, y :: br => (if f then x * y else 0) + dotsel fr ar br
  | _, _, _ => 0
  end.

(* _meta_swap_gate: consecutive pairs of groups; 1 = negate the block *)
Definition swap_parity (nsym : nat) (fss : list bool) (key : list (list Z)) (pairs : list (list nat * list nat)) : Z :=
  sumZ (map (fun p => dotsel fss (group_par nsym key (fst p)) (group_par nsym key (snd p))) pairs) mod 2.

(* _meta_swap_gate_charge: legs [axes] each swapped with a virtual leg of the given charge *)
Definition swap_charge_parity (nsym : nat) (fss : list bool) (key : list (list Z)) (axes : list nat) (charges : list (list Z)) : Z :=
  sumZ (map (fun p => dotsel fss (nth (fst p) key []) (map (fun x => x mod 2) (snd p))) (combine axes charges)) mod 2.

Definition sign_of (p : Z) : Z := 1 - 2 * p.

(* swap_charges(charges_0, charges_1, fss): sign of swapping paired lists of charges *)
Definition swap_charges (fss : list bool) (c0 c1 : list (list Z)) : Z :=
  sign_of (sumZ (map (fun p => dotsel fss (fst p) (snd p)) (combine c0 c1)) mod 2).

(* --- sign_canonical_order: the selection loop as written --- *)
(* index of the first strictly-smallest site (first occurrence of the minimum) *)
Fixpoint argmin_from (best_i : nat) (best : Z) (i : nat) (l : list Z) : nat :=
  match l with
  | [] => best_i
  | s :: r => if s <? best then argmin_from i s (S i) r else argmin_from best_i best (S i) r
  end.
Definition argmin (l : list Z) : nat := match l with [] => O | s :: r => argmin_from O s 1 r end.

Fixpoint remove_nth {A} (n : nat) (l : list A) : list A :=
  match l, n with [] , _ => [] | _ :: r, O => r | x :: r, S n' => x :: remove_nth n' r end.

(* accumulated exponent: sum over selected pairs (c0 before the picked operator, c1 = picked) of <c0, c1>_fss *)
Fixpoint canon_exponent (fuel : nat) (fss : list bool) (sites : list Z) (charges : list (list Z)) : Z :=
  match fuel with
  | O => 0
  | S f =>
    match sites with
    | [] => 0
    | _ =>
      let m := argmin sites in
      let c1 := nth m charges [] in
      sumZ (map (fun c0 => dotsel fss c0 c1) (firstn m charges))
      + canon_exponent f fss (remove_nth m sites) (remove_nth m charges)
    end
  end.
Definition sign_canonical_order (fss : list bool) (sites : list Z) (charges : list (list Z)) : Z :=
  sign_of (canon_exponent (length sites) fss sites charges mod 2).
