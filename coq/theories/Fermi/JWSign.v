(* JWSign.v -- consequences of the inversion-parity theorem used by generate_mpo and the measurement routines:
   exchanging two neighbouring operators on different sites changes the ordering exponent by exactly <c_a, c_b> (the fermionic
   exchange sign), operators on the same site commute through for free, and for a pair (O_i, P_j) the sign is the swap sign iff i > j. *)
From Coq Require Import List ZArith Bool Arith Lia.
From Yv Require Import Fermi.Fermi Fermi.FermiLaws Fermi.CanonOrder.
Import ListNotations.
Open Scope Z_scope.

Definition later_sum (fss : list bool) (s : Z) (c : list Z) (sr : list Z) (cr : list (list Z)) : Z :=
  sumZ (map (fun p => if fst p <? s then dotsel fss c (snd p) else 0) (combine sr cr)).

Lemma inv_exp_cons fss s c sr cr : inv_exp fss (s :: sr) (c :: cr) = later_sum fss s c sr cr + inv_exp fss sr cr.
Proof. reflexivity. Qed.

(* exchanging two neighbours in the tail does not change what an earlier operator sees *)
Lemma later_sum_swap fss s c sa sb ca cb : forall s1 c1 s2 c2, length s1 = length c1 ->
  later_sum fss s c (s1 ++ sa :: sb :: s2) (c1 ++ ca :: cb :: c2) = later_sum fss s c (s1 ++ sb :: sa :: s2) (c1 ++ cb :: ca :: c2).
Proof.
  unfold later_sum. induction s1 as [|x s1 IH]; intros [|y c1] s2 c2 Hl; simpl in *; try discriminate.
  - lia.
  - rewrite (IH c1 s2 c2) by lia. reflexivity.
Qed.

Theorem inv_exp_adjacent_swap fss sa sb ca cb : forall s1 c1 s2 c2, length s1 = length c1 ->
  inv_exp fss (s1 ++ sa :: sb :: s2) (c1 ++ ca :: cb :: c2) - inv_exp fss (s1 ++ sb :: sa :: s2) (c1 ++ cb :: ca :: c2)
  = (if sb <? sa then dotsel fss ca cb else 0) - (if sa <? sb then dotsel fss cb ca else 0).
Proof.
  induction s1 as [|x s1 IH]; intros [|y c1] s2 c2 Hl; simpl app in *; try discriminate.
  - rewrite !inv_exp_cons. unfold later_sum. simpl. lia.
  - rewrite !inv_exp_cons. rewrite (later_sum_swap fss x y sa sb ca cb s1 c1 s2 c2) by (simpl in Hl; lia).
    specialize (IH c1 s2 c2 ltac:(simpl in Hl; lia)). lia.
Qed.

(* different sites: the exponent changes parity exactly by <c_a, c_b>; same site: it does not change *)
Corollary exchange_sign fss sa sb ca cb s1 c1 s2 c2 : length s1 = length c1 -> sa <> sb ->
  (inv_exp fss (s1 ++ sa :: sb :: s2) (c1 ++ ca :: cb :: c2)) mod 2
  = (inv_exp fss (s1 ++ sb :: sa :: s2) (c1 ++ cb :: ca :: c2) + dotsel fss ca cb) mod 2.
Proof.
  intros Hl Hne. pose proof (inv_exp_adjacent_swap fss sa sb ca cb s1 c1 s2 c2 Hl) as H.
  rewrite (dotsel_comm fss cb ca) in H.
  destruct (sb <? sa) eqn:E1; destruct (sa <? sb) eqn:E2; lia.
Qed.

Corollary same_site_no_sign fss s ca cb s1 c1 s2 c2 : length s1 = length c1 ->
  inv_exp fss (s1 ++ s :: s :: s2) (c1 ++ ca :: cb :: c2) = inv_exp fss (s1 ++ s :: s :: s2) (c1 ++ cb :: ca :: c2).
Proof.
  intro Hl. pose proof (inv_exp_adjacent_swap fss s s ca cb s1 c1 s2 c2 Hl) as H.
  rewrite Z.ltb_irrefl in H. lia.
Qed.

(* measure_2site: for operators O at i and P at j, the ordering sign is the swap sign of their charges iff i > j *)
Theorem pair_sign fss i j nO nP :
  sign_canonical_order fss [i; j] [nO; nP] = if j <? i then sign_of (dotsel fss nO nP mod 2) else 1.
Proof.
  rewrite sign_canonical_order_is_inversion_parity by reflexivity. simpl.
  destruct (j <? i); simpl; [f_equal; f_equal; lia | reflexivity].
Qed.

(* bosonic configurations: no strings, no signs *)
Theorem bosonic_no_sign fss sites charges : forallb negb fss = true -> length sites = length charges ->
  sign_canonical_order fss sites charges = 1.
Proof.
  intros Hb Hl. rewrite sign_canonical_order_is_inversion_parity by exact Hl.
  assert (H0 : inv_exp fss sites charges = 0).
  { revert charges Hl; induction sites as [|s sr IH]; intros [|c cr] Hl; simpl in *; try discriminate; auto.
    rewrite IH by lia. rewrite sumZ_all_zero; [lia|]. intros x Hx. apply in_map_iff in Hx as [p [<- _]].
    destruct (fst p <? s); auto. apply dotsel_all_false. exact Hb. }
  rewrite H0. reflexivity.
Qed.
