(* Listify.v -- what transport through NumPy save/load, HDF5 or JSON does to the nested tuples of a serialised tensor (tuples become lists)
   and _convert_lists_to_tuples (yastn/tensor/__init__.py:364), which from_dict applies to struct/slices/hfs/mfs.
   Values: atoms, tuples, lists, dictionaries.  Law: convert(listify x) = x for every tuple-only value x (which is what to_dict emits). *)
From Coq Require Import List ZArith Bool.
Import ListNotations.

Inductive pv :=
| PAtom (id : Z)
| PTuple (l : pvs)
| PList (l : pvs)
| PDict (d : pvd)
with pvs := SNil | SCons (x : pv) (r : pvs)
with pvd := KNil | KCons (k : Z) (x : pv) (r : pvd).

(* transport: every tuple becomes a list *)
Fixpoint listify (x : pv) : pv :=
  match x with
  | PAtom id => PAtom id
  | PTuple l => PList (listify_s l)
  | PList l => PList (listify_s l)
  | PDict d => PDict (listify_d d)
  end
with listify_s (l : pvs) : pvs := match l with SNil => SNil | SCons x r => SCons (listify x) (listify_s r) end
with listify_d (d : pvd) : pvd := match d with KNil => KNil | KCons k x r => KCons k (listify x) (listify_d r) end.

(* _convert_lists_to_tuples *)
Fixpoint convert (x : pv) : pv :=
  match x with
  | PAtom id => PAtom id
  | PTuple l => PTuple (convert_s l)
  | PList l => PTuple (convert_s l)
  | PDict d => PDict (convert_d d)
  end
with convert_s (l : pvs) : pvs := match l with SNil => SNil | SCons x r => SCons (convert x) (convert_s r) end
with convert_d (d : pvd) : pvd := match d with KNil => KNil | KCons k x r => KCons k (convert x) (convert_d r) end.

(* values without lists (what to_dict produces for struct, slices, hfs, mfs) *)
Fixpoint list_free (x : pv) : Prop :=
  match x with
  | PAtom _ => True
  | PTuple l => list_free_s l
  | PList _ => False
  | PDict d => list_free_d d
  end
with list_free_s (l : pvs) : Prop := match l with SNil => True | SCons x r => list_free x /\ list_free_s r end
with list_free_d (d : pvd) : Prop := match d with KNil => True | KCons _ x r => list_free x /\ list_free_d r end.

Scheme pv_mut := Induction for pv Sort Prop
with pvs_mut := Induction for pvs Sort Prop
with pvd_mut := Induction for pvd Sort Prop.

Theorem convert_listify : forall x, list_free x -> convert (listify x) = x.
Proof.
  apply (pv_mut (fun x => list_free x -> convert (listify x) = x)
                (fun l => list_free_s l -> convert_s (listify_s l) = l)
                (fun d => list_free_d d -> convert_d (listify_d d) = d)); simpl; intros; try tauto; try reflexivity.
  - f_equal. auto.
  - f_equal. auto.
  - destruct H1. f_equal; auto.
  - destruct H1. f_equal; auto.
Qed.

(* without transport nothing changes either *)
Theorem convert_id : forall x, list_free x -> convert x = x.
Proof.
  apply (pv_mut (fun x => list_free x -> convert x = x)
                (fun l => list_free_s l -> convert_s l = l)
                (fun d => list_free_d d -> convert_d d = d)); simpl; intros; try tauto; try reflexivity.
  - f_equal. auto.
  - f_equal. auto.
  - destruct H1. f_equal; auto.
  - destruct H1. f_equal; auto.
Qed.

(* the converted value never contains lists: the NamedTuple constructors of from_dict receive hashable tuples *)
Theorem convert_list_free : forall x, list_free (convert x).
Proof.
  apply (pv_mut (fun x => list_free (convert x)) (fun l => list_free_s (convert_s l)) (fun d => list_free_d (convert_d d))); simpl; intros; auto.
Qed.
