(* SplitCombine.v -- yastn/_split_combine_dict.py: split_data_and_meta / combine_data_and_meta over dictionary trees.
   A dictionary is a key-ordered association list (the code iterates `for k in sorted(d)`); the value under the distinguished
   key "data" is moved to the data tuple and replaced by its position; dictionary values are traversed recursively; everything
   else is copied.  Model + round-trip law. *)
From Coq Require Import List ZArith Bool Arith Lia.
Import ListNotations.
Open Scope Z_scope.

Definition data_key : Z := 0.           (* code of the key "data" *)

Inductive val :=
| VOpaque (id : Z)                       (* any non-dictionary value (ints, tuples, arrays ...), by identity *)
| VDict (d : dict)
with dict :=
| DNil
| DCons (k : Z) (v : val) (r : dict).

Inductive mval :=
| MOpaque (id : Z)
| MIdx (n : nat)                         (* position in the data tuple *)
| MDict (d : mdict)
with mdict :=
| MNil
| MCons (k : Z) (v : mval) (r : mdict).

(* _split_data_and_meta(d, data): data is extended in traversal order *)
Fixpoint split_dict (d : dict) (acc : list val) : mdict * list val :=
  match d with
  | DNil => (MNil, acc)
  | DCons k v r =>
    if k =? data_key then
      let '(mr, acc') := split_dict r (acc ++ [v]) in (MCons k (MIdx (length acc)) mr, acc')
    else
      match v with
      | VDict sub =>
        let '(ms, acc1) := split_dict sub acc in
        let '(mr, acc2) := split_dict r acc1 in (MCons k (MDict ms) mr, acc2)
      | VOpaque id =>
        let '(mr, acc') := split_dict r acc in (MCons k (MOpaque id) mr, acc')
      end
  end.

(* combine_data_and_meta(data, meta) *)
Fixpoint combine_dict (data : list val) (m : mdict) : dict :=
  match m with
  | MNil => DNil
  | MCons k v r =>
    let v' := if k =? data_key then match v with MIdx n => nth n data (VOpaque (-1)) | MOpaque id => VOpaque id | MDict s => VDict (combine_dict data s) end
              else match v with MDict s => VDict (combine_dict data s) | MOpaque id => VOpaque id | MIdx n => VOpaque (Z.of_nat n) end in
    DCons k v' (combine_dict data r)
  end.

(* all data positions mentioned in a meta tree are below n *)
Fixpoint idx_below (n : nat) (m : mdict) : Prop :=
  match m with
  | MNil => True
  | MCons k v r =>
    (match v with MIdx i => (i < n)%nat | MDict s => idx_below n s | MOpaque _ => True end) /\ idx_below n r
  end.
