From Coq Require Import List ZArith Bool Arith Lia.
From Yv Require Import Serial.SplitCombine.
Import ListNotations.
Open Scope Z_scope.

Scheme val_mut := Induction for val Sort Prop
with dict_mut := Induction for dict Sort Prop.

Scheme mval_mut := Induction for mval Sort Prop
with mdict_mut := Induction for mdict Sort Prop.

Lemma idx_below_mono : forall m n n', (n <= n')%nat -> idx_below n m -> idx_below n' m.
Proof.
  apply (mdict_mut (fun v => forall n n', (n <= n')%nat ->
                      match v with MIdx i => (i < n)%nat | MDict s => idx_below n s | MOpaque _ => True end ->
                      match v with MIdx i => (i < n')%nat | MDict s => idx_below n' s | MOpaque _ => True end)
                   (fun m => forall n n', (n <= n')%nat -> idx_below n m -> idx_below n' m)); simpl; intros; auto; try lia.
  - eauto.
  - destruct H2 as [Hv Hr]. split; [eapply H; eauto | eapply H0; eauto].
Qed.

(* extending the data tuple does not disturb what combine reads *)
Lemma combine_extend : forall m data more, idx_below (length data) m -> combine_dict (data ++ more) m = combine_dict data m.
Proof.
  apply (mdict_mut (fun v => forall data more,
                      match v with MIdx i => (i < length data)%nat | MDict s => idx_below (length data) s | MOpaque _ => True end ->
                      match v with MIdx n => nth n (data ++ more) (VOpaque (-1)) = nth n data (VOpaque (-1))
                                 | MDict s => combine_dict (data ++ more) s = combine_dict data s | MOpaque _ => True end)
                   (fun m => forall data more, idx_below (length data) m -> combine_dict (data ++ more) m = combine_dict data m));
    simpl; intros; auto.
  - apply app_nth1. exact H.
  - destruct H1 as [Hv Hr]. rewrite (H0 data more Hr). specialize (H data more Hv).
    destruct v; simpl in *; try rewrite H; reflexivity.
Qed.

(* the round trip, with the invariants the induction needs: the data tuple only grows, positions stay in range *)
Lemma split_combine_gen : forall d acc,
  let '(m, acc') := split_dict d acc in
  (exists ext, acc' = acc ++ ext) /\ idx_below (length acc') m /\ combine_dict acc' m = d.
Proof.
  apply (dict_mut (fun v => forall acc, match v with
                      | VDict sub => let '(m, acc') := split_dict sub acc in
                                     (exists ext, acc' = acc ++ ext) /\ idx_below (length acc') m /\ combine_dict acc' m = sub
                      | VOpaque _ => True end)
                  (fun d => forall acc, let '(m, acc') := split_dict d acc in
                                        (exists ext, acc' = acc ++ ext) /\ idx_below (length acc') m /\ combine_dict acc' m = d));
    simpl; intros; auto.
  - apply H.
  - split; [exists []; rewrite app_nil_r; reflexivity | split; [exact I | reflexivity]].
  - destruct (k =? data_key) eqn:Ek.
    + specialize (H0 (acc ++ [v])). destruct (split_dict r (acc ++ [v])) as [mr acc'] eqn:Er.
      destruct H0 as ([ext Hext] & Hidx & Hcomb). simpl. rewrite Ek.
      split; [exists ([v] ++ ext); rewrite Hext, <- app_assoc; reflexivity|].
      split.
      * split; [|exact Hidx]. rewrite Hext, !app_length. simpl. lia.
      * f_equal; [|exact Hcomb]. rewrite Hext, <- app_assoc. rewrite app_nth2 by lia. rewrite Nat.sub_diag. reflexivity.
    + destruct v as [id|sub].
      * specialize (H0 acc). destruct (split_dict r acc) as [mr acc'] eqn:Er.
        destruct H0 as (Hext & Hidx & Hcomb). simpl. rewrite Ek. repeat split; auto. rewrite Hcomb. reflexivity.
      * specialize (H acc). simpl in H. destruct (split_dict sub acc) as [ms acc1] eqn:Es.
        destruct H as ([e1 He1] & Hi1 & Hc1).
        specialize (H0 acc1). destruct (split_dict r acc1) as [mr acc2] eqn:Er.
        destruct H0 as ([e2 He2] & Hi2 & Hc2). simpl. rewrite Ek.
        split; [exists (e1 ++ e2); rewrite He2, He1, <- app_assoc; reflexivity|].
        split.
        -- split; [|exact Hi2]. eapply idx_below_mono; [|exact Hi1]. rewrite He2, app_length. lia.
        -- f_equal; [|exact Hc2]. f_equal. rewrite He2. rewrite combine_extend by exact Hi1. exact Hc1.
Qed.

(* combine_data_and_meta applied to the output of split_data_and_meta gives back d, for every dictionary tree *)
Theorem combine_split d : let '(m, data) := split_dict d [] in combine_dict data m = d.
Proof. pose proof (split_combine_gen d []) as H. destruct (split_dict d []) as [m data]. tauto. Qed.
