(* WindowModel.v -- the pending charge swaps and the operator slot of ONE double-layer tensor of a transfer matrix while the fermionic string of a
   first operator passes it during a 2-site measurement in a window (yastn/tn/fpeps/envs/_env_window.py).  The loop bodies are translated into
   programs over this state (Gen/WindowGen.v); [listed] says whether the pair (first site, this site) is among the requested pairs.
   A swap entry counts how many times the charge of the first operator has been added on a leg (DoublePepsTensor.add_charge_swaps_ accumulates:
   Peps/Swaps.v); restore_old_tensor_ removes the operator of a double-layer tensor and leaves its swaps. *)
From Coq Require Import List ZArith Bool.
Import ListNotations.
Open Scope Z_scope.

Inductive axis := Xb0 | Xb1 | Xb2 | Xb3 | Xb4 | Xk0 | Xk1 | Xk2 | Xk3 | Xk4.
Definition axis_index (a : axis) : nat :=
  match a with Xb0 => 0 | Xb1 => 1 | Xb2 => 2 | Xb3 => 3 | Xb4 => 4 | Xk0 => 5 | Xk1 => 6 | Xk2 => 7 | Xk3 => 8 | Xk4 => 9 end%nat.

Inductive stmt :=
| SSave | SAdd (l : list axis) | SSetOp | SMeasure | SRestore | SClear
| SIfListed (b : list stmt).

Record tstate := { sw : list Z; has_op : bool; saved : bool; log : list (list Z * bool); ok : bool }.
Definition init : tstate := {| sw := repeat 0 10; has_op := false; saved := false; log := []; ok := true |}.

Fixpoint bump (n : nat) (l : list Z) : list Z :=
  match n, l with
  | O, x :: r => (x + 1) :: r
  | S k, x :: r => x :: bump k r
  | _, [] => []
  end.
Definition add_axes (l : list axis) (s : list Z) : list Z := fold_left (fun acc a => bump (axis_index a) acc) l s.

Fixpoint exec (fuel : nat) (listed : bool) (p : list stmt) (s : tstate) : tstate :=
  match fuel with
  | O => {| sw := sw s; has_op := has_op s; saved := saved s; log := log s; ok := false |}
  | S f =>
    match p with
    | [] => s
    | c :: r =>
      let s' :=
        match c with
        | SSave => {| sw := sw s; has_op := has_op s; saved := true; log := log s; ok := ok s |}
        | SAdd l => {| sw := add_axes l (sw s); has_op := has_op s; saved := saved s; log := log s; ok := ok s |}
        | SSetOp => {| sw := sw s; has_op := true; saved := saved s; log := log s; ok := ok s |}
        | SMeasure => {| sw := sw s; has_op := has_op s; saved := saved s; log := log s ++ [(sw s, has_op s)]; ok := ok s |}
        | SRestore => {| sw := sw s; has_op := false; saved := saved s; log := log s; ok := ok s && saved s |}
        | SClear => {| sw := repeat 0 10; has_op := has_op s; saved := saved s; log := log s; ok := ok s |}
        | SIfListed b => if listed then exec f listed b s else s
        end in
      exec f listed r s'
    end
  end.
Definition run (listed : bool) (p : list stmt) : tstate := exec 64 listed p init.

(* what a program must satisfy *)
Definition string_independent_of_listing (p : list stmt) : Prop :=
  sw (run true p) = sw (run false p) /\ has_op (run true p) = false /\ has_op (run false p) = false /\ ok (run true p) = true /\ ok (run false p) = true.
Definition measures_once_with_operator (p : list stmt) : Prop :=
  exists swm, log (run true p) = [(swm, true)] /\ log (run false p) = [].
