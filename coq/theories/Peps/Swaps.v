(* Swaps.v -- the bookkeeping of pending charge swaps of a two-layer PEPS tensor (DoublePepsTensor.add_charge_swaps_, yastn/tn/fpeps/
   _doublePepsTensor.py): operators inserted elsewhere leave, on each of the ten legs (bra 0..4, ket 0..4), a charge that has to be swapped
   through the leg when the tensor is contracted.  The dictionary {leg: non-zero charge} is modelled as a list of ten charges (zero = no
   entry).  Hand-written; tied to the code by exact correspondence (opcode 160). *)
From Coq Require Import List ZArith Lia.
From Yv Require Import Sym.Descr Sym.SymLaws.
Import ListNotations.
Open Scope Z_scope.

Fixpoint upd_nth {A} (n : nat) (x : A) (l : list A) : list A :=
  match n, l with
  | O, _ :: r => x :: r
  | S k, y :: r => y :: upd_nth k x r
  | _, [] => []
  end.
Definition add_swap (d : list (option Z)) (c : list Z) (s : list (list Z)) (ax : nat) : list (list Z) :=
  upd_nth ax (gadd d (nth ax s (gzero d)) c) s.
Definition add_charge_swaps (d : list (option Z)) (c : list Z) (axes : list nat) (s : list (list Z)) : list (list Z) :=
  fold_left (add_swap d c) axes s.
Definition no_swaps (d : list (option Z)) : list (list Z) := repeat (gzero d) 10.
(* a whole history of insertions *)
Definition run_swaps (d : list (option Z)) (ops : list (list Z * list nat)) (s : list (list Z)) : list (list Z) :=
  fold_left (fun s o => add_charge_swaps d (fst o) (snd o) s) ops s.

Lemma upd_nth_length {A} n (x : A) l : length (upd_nth n x l) = length l.
Proof. revert n; induction l as [|y l IH]; intros [|n]; simpl; auto. Qed.
Lemma nth_upd_nth {A} n m (x : A) l dflt : (n < length l)%nat -> nth m (upd_nth n x l) dflt = if Nat.eqb m n then x else nth m l dflt.
Proof.
  revert n m; induction l as [|y l IH]; intros [|n] [|m] H; simpl in *; try lia; auto.
  rewrite IH by lia. reflexivity.
Qed.

Fixpoint iter_add (d : list (option Z)) (k : nat) (c t : list Z) : list Z := match k with O => t | S k' => gadd d (iter_add d k' c t) c end.

Section Laws.
Variable d : list (option Z).
Hypothesis Hd : okdescr d.

Lemma add_charge_swaps_length c axes s : length (add_charge_swaps d c axes s) = length s.
Proof. revert s; induction axes as [|a r IH]; intro s; cbn [add_charge_swaps fold_left]; auto. unfold add_charge_swaps in IH. rewrite IH. apply upd_nth_length. Qed.

Lemma iter_add_shift k c t : iter_add d k c (gadd d t c) = gadd d (iter_add d k c t) c.
Proof. induction k as [|k IH]; cbn [iter_add]; [reflexivity|]. rewrite IH. reflexivity. Qed.

(* every occurrence of a leg in the list adds the charge once more; other legs are untouched *)
Theorem add_charge_swaps_nth c axes : forall s ax, Forall (fun a => (a < length s)%nat) axes -> (ax < length s)%nat ->
  nth ax (add_charge_swaps d c axes s) (gzero d) = iter_add d (count_occ Nat.eq_dec axes ax) c (nth ax s (gzero d)).
Proof.
  induction axes as [|a r IH]; intros s ax Hall Hax; [reflexivity|].
  inversion Hall as [|? ? Ha Hr]; subst.
  change (add_charge_swaps d c (a :: r) s) with (add_charge_swaps d c r (add_swap d c s a)).
  rewrite IH; [| unfold add_swap; rewrite upd_nth_length; exact Hr | unfold add_swap; rewrite upd_nth_length; exact Hax].
  unfold add_swap. rewrite nth_upd_nth by exact Ha. cbn [count_occ].
  destruct (Nat.eq_dec a ax) as [->|Hne].
  - rewrite Nat.eqb_refl. cbn [iter_add]. apply iter_add_shift.
  - replace (Nat.eqb ax a) with false by (symmetry; apply Nat.eqb_neq; congruence). reflexivity.
Qed.

Lemma iter_add_comm k1 k2 c1 c2 t : iter_add d k1 c1 (iter_add d k2 c2 t) = iter_add d k2 c2 (iter_add d k1 c1 t).
Proof.
  induction k1 as [|k1 IH]; cbn [iter_add]; [reflexivity|].
  rewrite IH. clear IH. induction k2 as [|k2 IH2]; cbn [iter_add]; [reflexivity|].
  rewrite <- IH2. rewrite !(gadd_assoc d Hd). f_equal. apply (gadd_comm d Hd).
Qed.

(* the order in which operators are inserted does not matter: two insertions commute on every leg *)
Theorem add_charge_swaps_commute c1 ax1 c2 ax2 s ax : Forall (fun a => (a < length s)%nat) ax1 -> Forall (fun a => (a < length s)%nat) ax2 -> (ax < length s)%nat ->
  nth ax (add_charge_swaps d c1 ax1 (add_charge_swaps d c2 ax2 s)) (gzero d) = nth ax (add_charge_swaps d c2 ax2 (add_charge_swaps d c1 ax1 s)) (gzero d).
Proof.
  intros H1 H2 Hax.
  rewrite !add_charge_swaps_nth; rewrite ?add_charge_swaps_length; auto.
  apply iter_add_comm.
Qed.

(* a second insertion on the same leg ADDS its charge to the pending one (it does not replace it) *)
Theorem second_swap_adds c1 c2 s ax : (ax < length s)%nat ->
  nth ax (add_charge_swaps d c2 [ax] (add_charge_swaps d c1 [ax] s)) (gzero d) = gadd d (gadd d (nth ax s (gzero d)) c1) c2.
Proof.
  intro Hax. rewrite !add_charge_swaps_nth; rewrite ?add_charge_swaps_length; auto.
  cbn [count_occ]. destruct (Nat.eq_dec ax ax) as [_|C]; [|congruence]. reflexivity.
Qed.

(* inserting a charge and then its inverse leaves no pending swap on a leg that had none *)
Theorem swap_and_inverse_cancel c s ax : (ax < length s)%nat -> nth ax s (gzero d) = gzero d -> in_range d c ->
  nth ax (add_charge_swaps d (gneg d c) [ax] (add_charge_swaps d c [ax] s)) (gzero d) = gzero d.
Proof.
  intros Hax Hz Hc. rewrite second_swap_adds by exact Hax. rewrite Hz.
  destruct (gadd_identity d Hd c Hc) as [E _]. rewrite E. apply (gadd_gneg d Hd).
Qed.
End Laws.
