(* Fusion.v -- structure of a hard-fused leg (_leg_structure_combine_charges_prod / _leg_structure_merge / _meta_fuse_hard):
   all combinations of the sectors the group's legs have in the tensor, restricted to those whose fused charge is realised by some
   stored block, are sorted by (fused charge, constituent charges); product sectors with the same fused charge are laid side by side
   (Dprod = product of the constituent dimensions) and form one sector of the fused leg.  Product sectors whose fused charge is not
   realised are dropped, so the fused dimension can be smaller than the product of the dimensions.  Model + laws. *)
From Coq Require Import List ZArith Bool Arith Lia Permutation.
From Yv Require Import Base.LexOrder Fusion.Index.
Import ListNotations.

Definition combo := (list (list Z) * list nat)%type.        (* charges of the group's legs, their dimensions *)

Section Fuse.
  Variable fuse : list (list Z) -> list Z -> Z -> list Z.
  Variables (ss : list Z) (snew : Z).

  Definition entry_of (c : combo) : list Z * (list Z * nat) :=
    let te := fuse (fst c) ss snew in (te ++ concat (fst c), (te, prod_list (snd c))).
  Definition sorted_entries (combos : list combo) : list (list Z * nat) := map snd (sort_kv (map entry_of combos)).

  (* merge neighbours with equal fused charge, adding dimensions *)
  Fixpoint group_sum (l : list (list Z * nat)) : list (list Z * nat) :=
    match l with
    | [] => []
    | (t, d) :: r =>
      match group_sum r with
      | (t', d') :: r' => if lex_eqb t t' then (t, (d + d')%nat) :: r' else (t, d) :: (t', d') :: r'
      | [] => [(t, d)]
      end
    end.
  Definition fused_leg (combos : list combo) : list (list Z * nat) := group_sum (sorted_entries combos).

  (* position (Dslc) of each product sector inside its fused sector: running offset among entries with the same fused charge *)
  Fixpoint offsets_in_group (prev : option (list Z)) (acc : nat) (l : list (list Z * nat)) : list (nat * nat) :=
    match l with
    | [] => []
    | (t, d) :: r =>
      let start := match prev with Some t' => if lex_eqb t t' then acc else 0%nat | None => 0%nat end in
      (start, (start + d)%nat) :: offsets_in_group (Some t) (start + d)%nat r
    end.
  Definition fused_slices (combos : list combo) : list (nat * nat) := offsets_in_group None 0%nat (sorted_entries combos).

  (* which product sectors enter: the Cartesian product of the sectors each leg of the group has in the tensor, restricted to those
     whose fused charge is realised by some stored block (t_out) -- _leg_structure_combine_charges_prod *)
  Fixpoint all_combos (legs : list (list (list Z * nat))) : list combo :=
    match legs with
    | [] => [([], [])]
    | l :: r => flat_map (fun td => map (fun c => (fst td :: fst c, snd td :: snd c)) (all_combos r)) l
    end.
  Definition occurring (legs : list (list (list Z * nat))) (t_out : list (list Z)) : list combo :=
    filter (fun c => existsb (lex_eqb (fuse (fst c) ss snew)) t_out) (all_combos legs).
  Definition fused_leg_of (legs : list (list (list Z * nat))) (t_out : list (list Z)) : list (list Z * nat) :=
    fused_leg (occurring legs t_out).
End Fuse.

(* no dimension is lost or invented: the fused leg is exactly as large as all occurring product sectors together *)
Lemma group_sum_total l : sum_list (map snd (group_sum l)) = sum_list (map snd l).
Proof.
  induction l as [|[t d] r IH]; simpl; auto.
  destruct (group_sum r) as [|[t' d'] r'] eqn:E; simpl in *.
  - rewrite <- IH. lia.
  - destruct (lex_eqb t t'); simpl; rewrite <- IH; lia.
Qed.

Lemma sum_map_perm (l l' : list (list Z * nat)) : Permutation l l' -> sum_list (map snd l) = sum_list (map snd l').
Proof. induction 1 as [| [t d] l l' _ IH | [t d] [t' d'] l | l l' l'' _ IH1 _ IH2]; simpl; lia. Qed.

Theorem fused_leg_total_dimension fuse ss snew (combos : list combo) :
  sum_list (map snd (fused_leg fuse ss snew combos)) = sum_list (map (fun c => prod_list (snd c)) combos).
Proof.
  unfold fused_leg, sorted_entries. rewrite group_sum_total.
  rewrite (sum_map_perm _ (map snd (map (entry_of fuse ss snew) combos))).
  - rewrite !map_map. reflexivity.
  - apply Permutation_map. apply Permutation_sym. apply sort_kv_perm.
Qed.
