(* Index.v -- the two index bijections every fusion / blocking / dense embedding rests on:
   (1) direct-sum offsets: a list of segment lengths Ps partitions [0, sum Ps) -- (segment j, offset o < P_j) <-> lo_j + o;
       this is how sectors are laid out along a dense leg, how product sectors are laid out inside a fused sector (Dslc) and how
       block() lays out its operands;
   (2) row-major product index: (o_1..o_k), o_i < D_i  <->  ravel < prod D -- how the legs of one product sector are merged.
   Model + laws (stdlib only). *)
From Coq Require Import List Arith Lia.
Import ListNotations.

Fixpoint sum_list (l : list nat) : nat := match l with [] => 0 | x :: r => x + sum_list r end.
Fixpoint prod_list (l : list nat) : nat := match l with [] => 1 | x :: r => x * prod_list r end.

(* start offset of segment j *)
Definition seg_lo (Ps : list nat) (j : nat) : nat := sum_list (firstn j Ps).

(* locate a flat position: (segment, offset) *)
Fixpoint locate (Ps : list nat) (x : nat) : option (nat * nat) :=
  match Ps with
  | [] => None
  | p :: r => if x <? p then Some (0, x) else match locate r (x - p) with Some (j, o) => Some (S j, o) | None => None end
  end.

Theorem locate_sound Ps : forall x j o, locate Ps x = Some (j, o) -> j < length Ps /\ o < nth j Ps 0 /\ x = seg_lo Ps j + o.
Proof.
  induction Ps as [|p r IH]; intros x j o H; simpl in H; [discriminate|].
  destruct (x <? p) eqn:E.
  - inversion H; subst. apply Nat.ltb_lt in E. simpl. unfold seg_lo. simpl. lia.
  - apply Nat.ltb_ge in E. destruct (locate r (x - p)) as [[j' o']|] eqn:L; [|discriminate]. inversion H; subst.
    destruct (IH _ _ _ L) as (Hj & Ho & Hx). unfold seg_lo in *. simpl. lia.
Qed.

Theorem locate_complete Ps : forall j o, j < length Ps -> o < nth j Ps 0 -> locate Ps (seg_lo Ps j + o) = Some (j, o).
Proof.
  induction Ps as [|p r IH]; intros j o Hj Ho; simpl in *; [lia|].
  destruct j as [|j]; unfold seg_lo; simpl.
  - replace (o <? p) with true by (symmetry; apply Nat.ltb_lt; exact Ho). reflexivity.
  - replace (p + sum_list (firstn j r) + o <? p) with false by (symmetry; apply Nat.ltb_ge; lia).
    replace (p + sum_list (firstn j r) + o - p) with (seg_lo r j + o) by (unfold seg_lo; lia).
    rewrite (IH j o ltac:(lia) Ho). reflexivity.
Qed.

Theorem locate_total Ps x : x < sum_list Ps -> exists j o, locate Ps x = Some (j, o).
Proof.
  revert x; induction Ps as [|p r IH]; intros x H; simpl in *; [lia|].
  destruct (x <? p) eqn:E; [eauto|]. apply Nat.ltb_ge in E.
  destruct (IH (x - p) ltac:(lia)) as [j [o L]]. rewrite L. eauto.
Qed.

Theorem seg_in_range Ps j o : j < length Ps -> o < nth j Ps 0 -> seg_lo Ps j + o < sum_list Ps.
Proof.
  revert j; induction Ps as [|p r IH]; intros j Hj Ho; simpl in *; [lia|].
  destruct j as [|j]; unfold seg_lo in *; simpl; [lia|]. specialize (IH j ltac:(lia) Ho). lia.
Qed.

(* hence: distinct (segment, offset) pairs never collide -- no element is lost or overwritten *)
Theorem seg_injective Ps j o j' o' : j < length Ps -> o < nth j Ps 0 -> j' < length Ps -> o' < nth j' Ps 0 ->
  seg_lo Ps j + o = seg_lo Ps j' + o' -> j = j' /\ o = o'.
Proof.
  intros Hj Ho Hj' Ho' E.
  pose proof (locate_complete Ps j o Hj Ho) as L1. pose proof (locate_complete Ps j' o' Hj' Ho') as L2.
  rewrite E in L1. rewrite L1 in L2. inversion L2. auto.
Qed.

(* ---- row-major product index ---- *)
Fixpoint ravel (Ds os : list nat) : nat :=
  match Ds, os with
  | d :: Dr, o :: or_ => o * prod_list Dr + ravel Dr or_
  | _, _ => 0
  end.
Fixpoint unravel (Ds : list nat) (x : nat) : list nat :=
  match Ds with
  | [] => []
  | d :: Dr => (x / prod_list Dr) :: unravel Dr (x mod prod_list Dr)
  end.
Fixpoint in_box (Ds os : list nat) : Prop :=
  match Ds, os with
  | [], [] => True
  | d :: Dr, o :: or_ => o < d /\ in_box Dr or_
  | _, _ => False
  end.

Theorem ravel_lt Ds : forall os, in_box Ds os -> ravel Ds os < prod_list Ds.
Proof.
  induction Ds as [|d Dr IH]; intros [|o or_] H; simpl in *; try tauto; try lia.
  destruct H as [Ho Hr]. specialize (IH _ Hr). nia.
Qed.

Theorem unravel_ravel Ds : forall os, in_box Ds os -> unravel Ds (ravel Ds os) = os.
Proof.
  induction Ds as [|d Dr IH]; intros [|o or_] H; simpl in *; try tauto.
  destruct H as [Ho Hr]. pose proof (ravel_lt Dr or_ Hr) as Hlt.
  assert (Hp : prod_list Dr <> 0) by lia.
  f_equal.
  - rewrite Nat.div_add_l by exact Hp. rewrite Nat.div_small by exact Hlt. lia.
  - rewrite Nat.add_comm, Nat.mod_add by exact Hp. rewrite Nat.mod_small by exact Hlt. apply IH. exact Hr.
Qed.

Theorem ravel_unravel Ds : forall x, x < prod_list Ds -> in_box Ds (unravel Ds x) /\ ravel Ds (unravel Ds x) = x.
Proof.
  induction Ds as [|d Dr IH]; intros x H; simpl in *.
  - split; [exact I | lia].
  - destruct (Nat.eq_dec (prod_list Dr) 0) as [E|E]; [rewrite E in H; lia|].
    assert (Hm : x mod prod_list Dr < prod_list Dr) by (apply Nat.mod_upper_bound; exact E).
    destruct (IH _ Hm) as [Hb Hr]. split.
    + split; [apply Nat.div_lt_upper_bound; [exact E | lia] | exact Hb].
    + rewrite Hr. rewrite (Nat.div_mod x (prod_list Dr) E) at 3. lia.
Qed.
