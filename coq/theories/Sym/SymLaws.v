(* SymLaws.v -- abelian-group laws of the generic rule, for every descriptor
   with positive moduli and all integer charges (no box). *)
From Coq Require Import List ZArith Bool Lia Permutation.
From Yv Require Import Base.LexOrder Sym.Descr.
Import ListNotations.
Open Scope Z_scope.
Local Arguments Z.mul : simpl never.
Local Arguments Z.add : simpl never.
Local Arguments Z.modulo : simpl never.

(* ---------- component view ---------- *)

Definition comp (m : option Z) (sigs col : list Z) (snew : Z) : Z := norm1 m (snew * wsum sigs col).

Lemma vnorm_scale_matvec_from d charges sigs snew s0 :
  vnorm d (vscale snew (map (fun c => wsum sigs (column c charges)) (seq s0 (length d))))
  = map (fun '(m, c) => comp m sigs (column c charges) snew) (combine d (seq s0 (length d))).
Proof.
  revert s0; induction d as [|m d IH]; intro s0; simpl; auto.
  f_equal. apply IH.
Qed.

Lemma gfuse_comp d charges sigs snew :
  gfuse d charges sigs snew
  = map (fun '(m, c) => comp m sigs (column c charges) snew) (combine d (seq 0 (length d))).
Proof. unfold gfuse, matvec. apply vnorm_scale_matvec_from. Qed.

Lemma gfuse_length d charges sigs snew : length (gfuse d charges sigs snew) = length d.
Proof. rewrite gfuse_comp, map_length, combine_length, seq_length. lia. Qed.

Lemma nth_gfuse d charges sigs snew c : (c < length d)%nat ->
  nth c (gfuse d charges sigs snew) 0 = comp (nth c d None) sigs (column c charges) snew.
Proof.
  intro H. rewrite gfuse_comp.
  set (f := fun '(m, c) => comp m sigs (column c charges) snew).
  change 0 with (let x := 0 in x). 
  rewrite (nth_indep _ 0 (f (None, 0%nat))) by (rewrite map_length, combine_length, seq_length; lia).
  rewrite map_nth, combine_nth by (rewrite seq_length; reflexivity).
  rewrite seq_nth by lia. reflexivity.
Qed.

(* two charge vectors of the descriptor's length are equal iff all components are *)
Lemma list_eq_nth (a b : list Z) : length a = length b ->
  (forall c, (c < length a)%nat -> nth c a 0 = nth c b 0) -> a = b.
Proof.
  revert b; induction a as [|x a IH]; intros [|y b] Hl Hc; simpl in *; try discriminate; auto.
  f_equal.
  - apply (Hc 0%nat); lia.
  - apply IH; [lia|]. intros c Hlt. apply (Hc (S c)); lia.
Qed.

Lemma gfuse_ext d ch1 s1 n1 ch2 s2 n2 :
  (forall c, (c < length d)%nat ->
     comp (nth c d None) s1 (column c ch1) n1 = comp (nth c d None) s2 (column c ch2) n2) ->
  gfuse d ch1 s1 n1 = gfuse d ch2 s2 n2.
Proof.
  intro H. apply list_eq_nth.
  - rewrite !gfuse_length; reflexivity.
  - intros c Hc. rewrite gfuse_length in Hc. rewrite !nth_gfuse by exact Hc. apply H; exact Hc.
Qed.

Lemma okdescr_nth d c : okdescr d -> okmod (nth c d None).
Proof.
  intro H. destruct (Nat.lt_ge_cases c (length d)) as [Hlt|Hge].
  - unfold okdescr in H. rewrite Forall_forall in H. apply H. apply nth_In; exact Hlt.
  - rewrite nth_overflow by exact Hge. exact I.
Qed.

(* ---------- wsum algebra ---------- *)

Lemma wsum_app ss1 ss2 ts1 ts2 : length ss1 = length ts1 ->
  wsum (ss1 ++ ss2) (ts1 ++ ts2) = wsum ss1 ts1 + wsum ss2 ts2.
Proof.
  revert ts1; induction ss1 as [|s ss1 IH]; intros [|t ts1] Hl; simpl in *; try discriminate; auto.
  rewrite IH by lia. ring.
Qed.

Lemma wsum_nil_r ss : wsum ss [] = 0.
Proof. destruct ss; reflexivity. Qed.

Lemma column_app c a b : column c (a ++ b) = column c a ++ column c b.
Proof. unfold column. apply map_app. Qed.

Lemma column_length c a : length (column c a) = length a.
Proof. unfold column. apply map_length. Qed.

(* permuting (signature, charge) pairs together does not change the sum *)
Lemma wsum_combine_perm (p q : list (Z * Z)) : Permutation p q ->
  wsum (map fst p) (map snd p) = wsum (map fst q) (map snd q).
Proof. induction 1 as [| [s t] p q _ IH | [s t] [s' t'] p | p q r _ IH1 _ IH2]; simpl; lia. Qed.

(* ---------- norm1 algebra ---------- *)

Lemma norm1_idem m x : okmod m -> norm1 m (norm1 m x) = norm1 m x.
Proof. destruct m as [k|]; simpl; auto. intro Hk. apply Z.mod_mod. lia. Qed.

Lemma norm1_add m x y : okmod m -> norm1 m (norm1 m x + norm1 m y) = norm1 m (x + y).
Proof. destruct m as [k|]; simpl; auto. intro Hk. symmetry. apply Z.add_mod. lia. Qed.

Lemma norm1_add_l m x y : okmod m -> norm1 m (norm1 m x + y) = norm1 m (x + y).
Proof. destruct m as [k|]; simpl; auto. intro Hk. apply Z.add_mod_idemp_l. lia. Qed.

Lemma norm1_add_r m x y : okmod m -> norm1 m (x + norm1 m y) = norm1 m (x + y).
Proof. destruct m as [k|]; simpl; auto. intro Hk. apply Z.add_mod_idemp_r. lia. Qed.

Lemma norm1_mul_r m a x : okmod m -> norm1 m (a * norm1 m x) = norm1 m (a * x).
Proof. destruct m as [k|]; simpl; auto. intro Hk. apply Z.mul_mod_idemp_r. lia. Qed.

Lemma norm1_range m x : okmod m -> in_range1 m (norm1 m x).
Proof. destruct m as [k|]; simpl; auto. intro Hk. apply Z.mod_pos_bound. exact Hk. Qed.

Lemma norm1_fix m x : okmod m -> in_range1 m x -> norm1 m x = x.
Proof. destruct m as [k|]; simpl; auto. intros Hk Hr. apply Z.mod_small. exact Hr. Qed.

Lemma norm1_0 m : okmod m -> norm1 m 0 = 0.
Proof. destruct m as [k|]; simpl; auto. Qed.

Lemma canon_fix_gen d : okdescr d -> forall a, in_range d a -> vnorm d a = a.
Proof.
  induction 1 as [|m d' Hm Hd' IH]; intros [|x a]; simpl; try tauto.
  intros [Hr Hr']. rewrite norm1_fix by assumption. f_equal. apply IH. exact Hr'.
Qed.

Lemma vnorm_in_range_gen d : okdescr d -> forall v, length v = length d -> in_range d (vnorm d v).
Proof.
  induction 1 as [|m d' Hm Hd' IH]; intros [|x v] Hl; simpl in *; try discriminate; auto.
  split; [apply norm1_range; exact Hm | apply IH; lia].
Qed.

Lemma in_range_length d : forall a, in_range d a -> length a = length d.
Proof. induction d as [|m d' IH]; intros [|x a]; simpl; try tauto. intros [_ H]. f_equal. auto. Qed.

Lemma nth_gzero d c : nth c (gzero d) 0 = 0.
Proof. unfold gzero. revert c; induction d as [|m d' IH]; intros [|c]; simpl; auto. Qed.

Lemma vnorm_length d : forall a, length a = length d -> length (vnorm d a) = length d.
Proof. induction d as [|m d' IH]; intros [|x a] Hl; simpl in *; try discriminate; auto. Qed.

Lemma nth_vnorm d : forall a c, length a = length d -> (c < length d)%nat ->
  nth c (vnorm d a) 0 = norm1 (nth c d None) (nth c a 0).
Proof.
  induction d as [|m d' IH]; intros [|x a] [|c] Hl Hc; simpl in *; try discriminate; try lia; auto.
  apply IH; lia.
Qed.

(* ---------- group laws ---------- *)

Section Laws.
  Variable d : descr.
  Hypothesis Hd : okdescr d.

  Local Ltac comp_goal c Hc :=
    apply gfuse_ext; intros c Hc; pose proof (okdescr_nth d c Hd) as Hok; unfold comp.

  Theorem gadd_comm a b : gadd d a b = gadd d b a.
  Proof.
    unfold gadd. comp_goal c Hc. simpl. f_equal.
 ring.
  Qed.

  Theorem gadd_assoc a b c0 : gadd d (gadd d a b) c0 = gadd d a (gadd d b c0).
  Proof.
    unfold gadd at 1 3. comp_goal c Hc. simpl.
    unfold gadd. rewrite !nth_gfuse by exact Hc. unfold comp. simpl.
    rewrite !Z.mul_1_l, !Z.add_0_r.
    rewrite norm1_add_l, norm1_add_r by exact Hok. f_equal. ring.
  Qed.

  Theorem gadd_zero_l a : length a = length d -> gadd d (gzero d) a = canon d a.
  Proof.
    intro Hl. apply list_eq_nth.
    - unfold gadd. rewrite gfuse_length. unfold canon. rewrite vnorm_length; auto.
    - intros c Hc. unfold gadd in *. rewrite gfuse_length in Hc. rewrite nth_gfuse by exact Hc.
      unfold comp. simpl. rewrite nth_gzero. unfold canon. rewrite nth_vnorm by assumption.
      f_equal. ring.
  Qed.

  Theorem canon_fix a : in_range d a -> canon d a = a.
  Proof. apply canon_fix_gen. exact Hd. Qed.

  Theorem gadd_identity a : in_range d a -> gadd d (gzero d) a = a /\ gadd d a (gzero d) = a.
  Proof.
    intro Hr. pose proof (in_range_length d a Hr) as Hl.
    split; [|rewrite gadd_comm]; rewrite gadd_zero_l by exact Hl; apply canon_fix; exact Hr.
  Qed.

  (* flipping a signature yields the inverse *)
  Theorem gfuse_flip_inverse a : gfuse d [a; a] [1; -1] 1 = gzero d.
  Proof.
    apply list_eq_nth.
    - rewrite gfuse_length. unfold gzero. rewrite map_length. reflexivity.
    - intros c Hc. rewrite gfuse_length in Hc. rewrite nth_gfuse by exact Hc.
      pose proof (okdescr_nth d c Hd) as Hok. unfold comp. simpl.
      replace (1 * (1 * nth c a 0 + (-1 * nth c a 0 + 0))) with 0 by ring.
      rewrite norm1_0 by exact Hok. rewrite nth_gzero. reflexivity.
  Qed.

  Theorem gadd_gneg a : gadd d a (gneg d a) = gzero d.
  Proof.
    rewrite <- (gfuse_flip_inverse a). unfold gadd, gneg.
    comp_goal c Hc. simpl. rewrite nth_gfuse by exact Hc. unfold comp. simpl.
    rewrite !Z.mul_1_l, !Z.add_0_r. rewrite norm1_add_r by exact Hok. reflexivity.
  Qed.

  Theorem gfuse_in_range charges sigs snew : in_range d (gfuse d charges sigs snew).
  Proof.
    unfold gfuse. apply vnorm_in_range_gen; [exact Hd|].
    unfold vscale, matvec. rewrite !map_length, seq_length. reflexivity.
  Qed.

  Theorem gfuse_canonical_idem charges sigs snew :
    canon d (gfuse d charges sigs snew) = gfuse d charges sigs snew.
  Proof. apply canon_fix. apply gfuse_in_range. Qed.

  (* simultaneous permutation of (charge, signature) pairs *)
  Theorem gfuse_perm (p q : list (Z * charge)) snew : Permutation p q ->
    gfuse d (map snd p) (map fst p) snew = gfuse d (map snd q) (map fst q) snew.
  Proof.
    intro HP. comp_goal c Hc. f_equal. f_equal.
    assert (HP' : Permutation (map (fun st => (fst st, nth c (snd st) 0)) p)
                              (map (fun st => (fst st, nth c (snd st) 0)) q))
      by (apply Permutation_map; exact HP).
    apply wsum_combine_perm in HP'.
    unfold column. rewrite !map_map in *. simpl in HP'. exact HP'.
  Qed.

  (* grouping: fusing groups first (each to a new leg of signature sg) then the
     group results with signatures sg equals fusing everything at once *)
  Definition group := (list charge * list Z * Z)%type.   (* charges, signatures, signature of the fused leg *)
  Definition g_ok (g : group) : Prop :=
    let '(cs, ss, sg) := g in length cs = length ss /\ sgn_ok sg.

  Lemma comp_grouping m ss1 ts1 ss2 ts2 sg snew :
    okmod m -> length ss1 = length ts1 -> sgn_ok sg ->
    norm1 m (snew * (sg * norm1 m (sg * wsum ss1 ts1) + wsum ss2 ts2))
    = norm1 m (snew * wsum (ss1 ++ ss2) (ts1 ++ ts2)).
  Proof.
    intros Hm Hl Hs. rewrite wsum_app by exact Hl.
    replace (snew * (sg * norm1 m (sg * wsum ss1 ts1) + wsum ss2 ts2))
      with ((snew * sg) * norm1 m (sg * wsum ss1 ts1) + snew * wsum ss2 ts2) by ring.
    destruct m as [k|]; simpl in *.
    - rewrite <- Z.add_mod_idemp_l by lia. rewrite Z.mul_mod_idemp_r by lia.
      rewrite Z.add_mod_idemp_l by lia. f_equal.
      destruct Hs; subst; ring.
    - destruct Hs; subst; ring.
  Qed.

  Theorem gfuse_grouping (gs : list group) snew :
    Forall g_ok gs ->
    gfuse d (map (fun g => let '(cs, ss, sg) := g in gfuse d cs ss sg) gs)
            (map (fun g => let '(_, _, sg) := g in sg) gs) snew
    = gfuse d (concat (map (fun g => let '(cs, _, _) := g in cs) gs))
              (concat (map (fun g => let '(_, ss, _) := g in ss) gs)) snew.
  Proof.
    intro Hg. comp_goal c Hc.
    induction Hg as [|[[cs ss] sg] gs [Hl Hs] Hg IH]; simpl; auto.
    rewrite nth_gfuse by exact Hc. unfold comp.
    rewrite column_app.
    (* peel the first group using the component lemma, then the tail by IH *)
    set (W1 := wsum (map (fun g => let '(_, _, sg0) := g in sg0) gs)
                    (column c (map (fun g => let '(cs0, ss0, sg0) := g in gfuse d cs0 ss0 sg0) gs))) in *.
    set (W2 := wsum (concat (map (fun g => let '(_, ss0, _) := g in ss0) gs))
                    (column c (concat (map (fun g => let '(cs0, _, _) := g in cs0) gs)))) in *.
    rewrite wsum_app by (rewrite column_length; symmetry; exact Hl).
    transitivity (norm1 (nth c d None) (snew * (wsum ss (column c cs) + W1))).
    - replace (snew * (sg * norm1 (nth c d None) (sg * wsum ss (column c cs)) + W1))
        with ((snew * sg) * norm1 (nth c d None) (sg * wsum ss (column c cs)) + snew * W1) by ring.
      rewrite <- norm1_add_l by exact Hok. rewrite norm1_mul_r by exact Hok.
      rewrite norm1_add_l by exact Hok. f_equal. destruct Hs; subst; ring.
    - replace (snew * (wsum ss (column c cs) + W1)) with (snew * wsum ss (column c cs) + snew * W1) by ring.
      rewrite <- norm1_add_r by exact Hok. rewrite IH. rewrite norm1_add_r by exact Hok.
      f_equal. subst W2. ring.
  Qed.
End Laws.

(* add_charges wrapper *)
Theorem add_charges_empty d sigs snew : add_charges d [] sigs snew = gzero d.
Proof. reflexivity. Qed.

Theorem add_charges_default d c cs snew :
  add_charges d (c :: cs) None snew = gfuse d (c :: cs) (map (fun _ => 1) (c :: cs)) snew.
Proof. reflexivity. Qed.

Theorem add_charges_two d a b : add_charges d [a; b] None 1 = gadd d a b.
Proof. reflexivity. Qed.
