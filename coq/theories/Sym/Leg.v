(* Leg.v -- model of yastn.Leg.__post_init__ (yastn/tensor/_legs.py:75-106), conj, tD.
   The constructor arguments are taken after _flatten: D and t are flat lists of
   numbers; a number that is not integer-valued is [None] (the harness maps
   2.0 / True to their integer value exactly as `int(x) == x` does). *)
From Coq Require Import List ZArith Bool.
From Yv Require Import Base.LexOrder Sym.Descr.
Import ListNotations.
Open Scope Z_scope.

Inductive leg_err := LE_signature | LE_D | LE_t | LE_count | LE_range | LE_repeat.
Inductive lres (T : Type) := LOk (x : T) | LErr (e : leg_err).
Arguments LOk {T}. Arguments LErr {T}.

Record leg := { lg_s : Z; lg_t : list charge; lg_D : list Z }.

Fixpoint chunks (n : nat) (k : nat) (l : list Z) : list (list Z) :=   (* k chunks of length n *)
  match k with
  | O => []
  | S k' => firstn n l :: chunks n k' (skipn n l)
  end.

Fixpoint all_some (l : list (option Z)) : option (list Z) :=
  match l with
  | [] => Some []
  | None :: _ => None
  | Some x :: r => match all_some r with Some r' => Some (x :: r') | None => None end
  end.

Section WithFuse.
  Variable nsym : nat.
  Variable fuse : list charge -> list Z -> Z -> charge.

  Definition leg_make (s : option Z) (t D : list (option Z)) : lres leg :=
    match s with
    | None => LErr LE_signature
    | Some s =>
      if negb ((s =? 1) || (s =? -1)) then LErr LE_signature else
      match all_some D with
      | None => LErr LE_D
      | Some Dz =>
        if negb (forallb (fun x => 0 <? x) Dz) then LErr LE_D else
        match all_some t with
        | None => LErr LE_t
        | Some tz =>
          let lD := length Dz in
          if negb (Nat.eqb (lD * nsym) (length tz)) || (Nat.eqb nsym 0 && Nat.ltb 1 lD) then LErr LE_count else
          let oldt := chunks nsym lD tz in
          let newt := map (fun c => fuse [c] [s] s) oldt in
          if negb (forallb (fun p => lex_eqb (fst p) (snd p)) (combine oldt newt)) then LErr LE_range else
          if has_dup newt then LErr LE_repeat else
          let tD := sort_kv (combine newt Dz) in
          LOk {| lg_s := s; lg_t := map fst tD; lg_D := map snd tD |}
        end
      end
    end.

  Definition leg_conj (l : leg) : leg := {| lg_s := - lg_s l; lg_t := lg_t l; lg_D := lg_D l |}.
  Definition leg_tD (l : leg) : list (charge * Z) := combine (lg_t l) (lg_D l).
End WithFuse.
