(* LegLaws.v -- what Leg's constructor accepts, and what it stores. *)
From Coq Require Import List ZArith Bool Lia Sorted Permutation.
From Yv Require Import Base.LexOrder Sym.Descr Sym.SymLaws Sym.Leg.
Import ListNotations.
Open Scope Z_scope.

Lemma all_some_spec l r : all_some l = Some r <-> l = map Some r.
Proof.
  revert r; induction l as [|[x|] l IH]; intros r; simpl.
  - split; intro H; [inversion H; reflexivity | destruct r; [reflexivity|discriminate]].
  - destruct (all_some l) as [r'|] eqn:E.
    + split; intro H.
      * inversion H; subst. simpl. f_equal. apply IH. reflexivity.
      * destruct r as [|y r]; [discriminate|]. simpl in H. inversion H; subst.
        f_equal. f_equal. assert (Some r' = Some r) by (apply IH; reflexivity). congruence.
    + split; intro H; [discriminate|].
      destruct r as [|y r]; [discriminate|]. simpl in H. inversion H; subst.
      assert (None = Some r) by (apply IH; reflexivity). discriminate.
  - split; intro H; [discriminate|]. destruct r; discriminate.
Qed.

Lemma chunks_length n k l : length (chunks n k l) = k.
Proof. revert l; induction k as [|k IH]; intro l; simpl; auto. Qed.

Lemma chunks_each n k : forall l, length l = (k * n)%nat -> Forall (fun c => length c = n) (chunks n k l).
Proof.
  induction k as [|k IH]; intros l Hl; simpl; constructor.
  - rewrite firstn_length. simpl in Hl. lia.
  - apply IH. rewrite skipn_length. simpl in Hl. lia.
Qed.

Lemma chunks_concat n k : forall l, length l = (k * n)%nat -> concat (chunks n k l) = l.
Proof.
  induction k as [|k IH]; intros l Hl; simpl.
  - destruct l; [reflexivity|discriminate].
  - rewrite IH by (rewrite skipn_length; simpl in Hl; lia). apply firstn_skipn.
Qed.

Lemma map_fst_combine' {X Y} (a : list X) (b : list Y) : length a = length b -> map fst (combine a b) = a.
Proof. revert b; induction a as [|x a IH]; intros [|y b] H; simpl in *; try discriminate; auto. f_equal. apply IH. lia. Qed.

Section Laws.
  Variable d : descr.
  Hypothesis Hd : okdescr d.
  Local Notation nsym := (length d).
  Local Notation fuse := (gfuse d).

  (* fuse(t, (s,), s) = t  <->  t is in the canonical range *)
  Lemma self_fuse_is_canon c s : sgn_ok s -> length c = length d -> gfuse d [c] [s] s = canon d c.
  Proof.
    intros Hs Hl. apply list_eq_nth.
    - rewrite gfuse_length. unfold canon. rewrite vnorm_length; auto.
    - intros k Hk. rewrite gfuse_length in Hk. rewrite nth_gfuse by exact Hk.
      unfold canon. rewrite nth_vnorm by assumption. unfold comp. simpl. f_equal.
      destruct Hs; subst; ring.
  Qed.

  Lemma canon_eq_iff_in_range c : length c = length d -> (canon d c = c <-> in_range d c).
  Proof.
    intro Hl. split.
    - intro H. rewrite <- H. apply vnorm_in_range_gen; assumption.
    - apply canon_fix. exact Hd.
  Qed.

  (* --- acceptance: exact characterisation --- *)
  Definition leg_valid (s : option Z) (t D : list (option Z)) : Prop :=
    exists s' tz Dz,
      s = Some s' /\ sgn_ok s' /\ D = map Some Dz /\ t = map Some tz /\
      Forall (fun x => 0 < x) Dz /\
      length tz = (length Dz * nsym)%nat /\ (nsym = 0%nat -> (length Dz <= 1)%nat) /\
      Forall (in_range d) (chunks nsym (length Dz) tz) /\
      NoDup (chunks nsym (length Dz) tz).

  Lemma forallb_lex_combine_map (f : charge -> charge) (l : list charge) :
    forallb (fun p => lex_eqb (fst p) (snd p)) (combine l (map f l)) = true <-> Forall (fun c => f c = c) l.
  Proof.
    induction l as [|c l IH]; simpl.
    - split; auto.
    - rewrite andb_true_iff, IH, lex_eqb_eq. split.
      + intros [H1 H2]. constructor; auto.
      + intro H; inversion H; subst; auto.
  Qed.

  Lemma map_fix_eq (f : charge -> charge) l : Forall (fun c => f c = c) l -> map f l = l.
  Proof. induction 1; simpl; congruence. Qed.

  Theorem leg_accepts_iff s t D :
    (exists l, leg_make nsym fuse s t D = LOk l) <-> leg_valid s t D.
  Proof.
    unfold leg_make, leg_valid. split.
    - intros [l H].
      destruct s as [s'|]; [|discriminate].
      destruct (negb ((s' =? 1) || (s' =? -1))) eqn:Es; [discriminate|].
      destruct (all_some D) as [Dz|] eqn:ED; [|discriminate].
      destruct (negb (forallb (fun x => 0 <? x) Dz)) eqn:EDp; [discriminate|].
      destruct (all_some t) as [tz|] eqn:Et; [|discriminate].
      destruct (negb (Nat.eqb (length Dz * nsym) (length tz)) || (Nat.eqb nsym 0 && Nat.ltb 1 (length Dz))) eqn:Ec; [discriminate|].
      destruct (negb (forallb _ _)) eqn:Er in H; [discriminate|].
      destruct (has_dup _) eqn:Edup in H; [discriminate|].
      apply negb_false_iff in Es, EDp, Er. apply orb_false_iff in Ec as [Ec1 Ec2].
      apply negb_false_iff, Nat.eqb_eq in Ec1.
      assert (Hs : sgn_ok s') by (unfold sgn_ok; lia).
      exists s', tz, Dz. apply all_some_spec in ED, Et.
      assert (Hlen : Forall (fun c => length c = nsym) (chunks nsym (length Dz) tz))
        by (apply chunks_each; lia).
      apply forallb_lex_combine_map in Er.
      assert (Hrange : Forall (in_range d) (chunks nsym (length Dz) tz)).
      { rewrite Forall_forall in *. intros c Hc. apply canon_eq_iff_in_range; [apply Hlen; exact Hc|].
        rewrite <- (self_fuse_is_canon c s' Hs (Hlen c Hc)). apply Er; exact Hc. }
      repeat split; auto.
      + apply Forall_forall. intros x Hx. rewrite forallb_forall in EDp. specialize (EDp x Hx). lia.
      + intro H0. apply andb_false_iff in Ec2 as [Ec2|Ec2].
        * apply Nat.eqb_neq in Ec2. contradiction.
        * apply Nat.ltb_ge in Ec2. exact Ec2.
      + apply has_dup_false_NoDup. rewrite (map_fix_eq _ _ Er) in Edup. exact Edup.
    - intros (s' & tz & Dz & -> & Hs & -> & -> & HD & Hlt & H0 & Hr & Hnd).
      assert (Es : negb ((s' =? 1) || (s' =? -1)) = false) by (destruct Hs; subst; reflexivity).
      rewrite Es.
      assert (ED : all_some (map Some Dz) = Some Dz) by (apply all_some_spec; reflexivity).
      assert (Et : all_some (map Some tz) = Some tz) by (apply all_some_spec; reflexivity).
      rewrite ED.
      assert (EDp : forallb (fun x => 0 <? x) Dz = true).
      { apply forallb_forall. intros x Hx. rewrite Forall_forall in HD. specialize (HD x Hx). lia. }
      rewrite EDp. simpl negb. cbv iota. rewrite Et.
      assert (Ec : negb (Nat.eqb (length Dz * nsym) (length tz)) || (Nat.eqb nsym 0 && Nat.ltb 1 (length Dz)) = false).
      { apply orb_false_iff. split.
        - apply negb_false_iff, Nat.eqb_eq. lia.
        - destruct (Nat.eqb nsym 0) eqn:E0; [|reflexivity]. apply Nat.eqb_eq in E0. specialize (H0 E0).
          simpl. apply Nat.ltb_ge. exact H0. }
      rewrite Ec.
      assert (Hlen : Forall (fun c => length c = nsym) (chunks nsym (length Dz) tz))
        by (apply chunks_each; lia).
      assert (Er : Forall (fun c => fuse [c] [s'] s' = c) (chunks nsym (length Dz) tz)).
      { rewrite Forall_forall in *. intros c Hc. cbv beta.
        etransitivity; [apply self_fuse_is_canon; [exact Hs | apply Hlen; exact Hc]|]. apply canon_fix; auto. }
      pose proof (proj2 (forallb_lex_combine_map (fun c => fuse [c] [s'] s') _) Er) as Er'.
      rewrite Er'. simpl negb. cbv iota.
      rewrite (map_fix_eq _ _ Er). rewrite (NoDup_has_dup_false _ Hnd).
      eexists; reflexivity.
  Qed.

  (* --- what is stored --- *)
  Theorem leg_stored s t D l :
    leg_make nsym fuse s t D = LOk l ->
    exists s' tz Dz, s = Some s' /\ t = map Some tz /\ D = map Some Dz /\ lg_s l = s' /\
      (* strictly increasing charges, hence no repeats *)
      StronglySorted lex_lt (lg_t l) /\
      (* same (charge, dimension) pairs as supplied *)
      Permutation (combine (chunks nsym (length Dz) tz) Dz) (combine (lg_t l) (lg_D l)) /\
      length (lg_t l) = length (lg_D l).
  Proof.
    intro H.
    assert (Hv : leg_valid s t D) by (apply leg_accepts_iff; eauto).
    destruct Hv as (s' & tz & Dz & -> & Hs & -> & -> & HD & Hlt & H0 & Hr & Hnd).
    unfold leg_make in H.
    assert (Es : negb ((s' =? 1) || (s' =? -1)) = false) by (destruct Hs; subst; reflexivity).
    rewrite Es in H.
    rewrite (proj2 (all_some_spec (map Some Dz) Dz) eq_refl) in H.
    destruct (negb (forallb (fun x => 0 <? x) Dz)); [discriminate|].
    rewrite (proj2 (all_some_spec (map Some tz) tz) eq_refl) in H.
    destruct (negb (Nat.eqb (length Dz * nsym) (length tz)) || _); [discriminate|].
    destruct (negb (forallb _ _)) eqn:Er in H; [discriminate|].
    destruct (has_dup _) in H; [discriminate|].
    apply negb_false_iff, forallb_lex_combine_map in Er. rewrite (map_fix_eq _ _ Er) in H.
    inversion H; subst; clear H. simpl.
    exists s', tz, Dz. repeat split; auto.
    - set (kv := combine (chunks nsym (length Dz) tz) Dz).
      assert (Hsorted : StronglySorted kv_lt (sort_kv kv)).
      { apply (sort_kv_sorted nsym).
        - intros p Hp. unfold kv in Hp. destruct p as [k v]. apply in_combine_l in Hp.
          pose proof (chunks_each nsym (length Dz) tz ltac:(lia)) as Hl.
          rewrite Forall_forall in Hl. simpl. apply Hl; exact Hp.
        - unfold kv. rewrite map_fst_combine'; [exact Hnd|]. rewrite chunks_length. reflexivity. }
      clear -Hsorted. induction Hsorted as [|p l Hs IH Hall]; simpl; constructor; auto.
      apply Forall_forall. intros k Hk. apply in_map_iff in Hk as [q [<- Hq]].
      rewrite Forall_forall in Hall. apply Hall; exact Hq.
    - set (kv := combine (chunks nsym (length Dz) tz) Dz).
      replace (combine (map fst (sort_kv kv)) (map snd (sort_kv kv))) with (sort_kv kv).
      + apply sort_kv_perm.
      + generalize (sort_kv kv). clear. induction l as [|[a b] l IH]; simpl; congruence.
    - rewrite !map_length. reflexivity.
  Qed.

  Theorem leg_conj_involutive l : leg_conj (leg_conj l) = l.
  Proof. destruct l as [s t D]. unfold leg_conj; simpl. f_equal. lia. Qed.

  Theorem leg_conj_dual l :
    lg_s (leg_conj l) = - lg_s l /\ leg_tD (leg_conj l) = leg_tD l.
  Proof. split; reflexivity. Qed.
End Laws.
