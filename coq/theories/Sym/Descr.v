(* Descr.v -- generic abelian symmetry descriptor (a product of Z and Z_k
   factors) and the vector primitives the generated [SymGen.v] is written in.
   Model only; laws are in SymLaws.v. *)
From Coq Require Import List ZArith Bool.
Import ListNotations.
Open Scope Z_scope.

Notation charge := (list Z) (only parsing).
Notation descr := (list (option Z)) (only parsing).       (* None = Z factor, Some k = Z_k factor *)

(* --- primitives mirroring the NumPy expressions used in yastn/sym/sym_*.py --- *)

(* Σ_j sigs[j] * col[j] *)
Fixpoint wsum (sigs ts : list Z) : Z :=
  match sigs, ts with
  | s :: ss, t :: ts' => s * t + wsum ss ts'
  | _, _ => 0
  end.

(* charges.swapaxes(1,2) @ signatures, for one row of [charges] (m charge vectors of length nsym) *)
Definition column (c : nat) (charges : list charge) : list Z := map (fun t => nth c t 0) charges.
Definition matvec (nsym : nat) (charges : list charge) (sigs : list Z) : list Z :=
  map (fun c => wsum sigs (column c charges)) (seq 0 nsym).
(* new_signature * e *)
Definition vscale (k : Z) (v : list Z) : list Z := map (Z.mul k) v.
(* np.mod(e, k) on the whole vector *)
Definition vmod (k : Z) (v : list Z) : list Z := map (fun x => x mod k) v.
(* teff[:, i] = np.mod(teff[:, i], k) *)
Fixpoint vmod_at (i : nat) (k : Z) (v : list Z) : list Z :=
  match v, i with
  | [], _ => []
  | x :: r, O => (x mod k) :: r
  | x :: r, S i' => x :: vmod_at i' k r
  end.

(* --- the generic rule --- *)
Definition norm1 (m : option Z) (x : Z) : Z := match m with None => x | Some k => x mod k end.
Fixpoint vnorm (d : descr) (v : list Z) : list Z :=
  match d, v with
  | m :: d', x :: v' => norm1 m x :: vnorm d' v'
  | _, _ => []
  end.
Definition gfuse (d : descr) (charges : list charge) (sigs : list Z) (snew : Z) : charge :=
  vnorm d (vscale snew (matvec (length d) charges sigs)).

Definition gzero (d : descr) : charge := map (fun _ => 0) d.
Definition gadd (d : descr) (a b : charge) : charge := gfuse d [a; b] [1; 1] 1.
Definition gneg (d : descr) (a : charge) : charge := gfuse d [a] [1] (-1).
Definition canon (d : descr) (a : charge) : charge := vnorm d a.

Definition okmod (m : option Z) : Prop := match m with None => True | Some k => 0 < k end.
Definition okdescr (d : descr) : Prop := Forall okmod d.
Definition okmodb (m : option Z) : bool := match m with None => true | Some k => 0 <? k end.

Definition in_range1 (m : option Z) (x : Z) : Prop :=
  match m with None => True | Some k => 0 <= x < k end.
Fixpoint in_range (d : descr) (v : charge) : Prop :=
  match d, v with
  | [], [] => True
  | m :: d', x :: v' => in_range1 m x /\ in_range d' v'
  | _, _ => False
  end.

(* the add_charges wrapper of sym_abelian (varargs charges, signatures=None, new_signature=1) *)
Definition add_charges (d : descr) (charges : list charge) (sigs : option (list Z)) (snew : Z) : charge :=
  match charges with
  | [] => gzero d
  | _ => gfuse d charges (match sigs with Some s => s | None => map (fun _ => 1) charges end) snew
  end.

(* parity used by fermionic swap gates: charge components selected by fss *)
Definition sgn_ok (s : Z) : Prop := s = 1 \/ s = -1.
