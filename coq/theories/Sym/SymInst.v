(* SymInst.v -- ties the GENERATED fuse_<ID> (SymGen.v, regenerated from
   yastn/sym/*.py on every run) to the generic rule of Descr.v with the group
   each name is supposed to denote.  If the source changes the group law under a
   name, or ships a new symmetry, a lemma here stops checking. *)
From Coq Require Import List ZArith String Lia.
From Yv Require Import Sym.Descr Sym.SymLaws Gen.SymGen.
Import ListNotations.
Open Scope Z_scope.

(* the groups the shipped names denote (fixed here, NOT generated) *)
Definition descr_dense    : descr := [].
Definition descr_Z2       : descr := [Some 2].
Definition descr_Z3       : descr := [Some 3].
Definition descr_U1       : descr := [None].
Definition descr_U1xU1    : descr := [None; None].
Definition descr_Z2xU1    : descr := [Some 2; None].
Definition descr_U1xU1xZ2 : descr := [None; None; Some 2].

Definition fuse_fn := list charge -> list Z -> Z -> charge.

Definition shipped : list (string * (descr * fuse_fn)) :=
  [ ("U1",       (descr_U1,       fuse_U1));
    ("U1xU1",    (descr_U1xU1,    fuse_U1xU1));
    ("U1xU1xZ2", (descr_U1xU1xZ2, fuse_U1xU1xZ2));
    ("Z2",       (descr_Z2,       fuse_Z2));
    ("Z2xU1",    (descr_Z2xU1,    fuse_Z2xU1));
    ("Z3",       (descr_Z3,       fuse_Z3));
    ("dense",    (descr_dense,    fuse_dense)) ]%string.

(* every symmetry class found in yastn/sym is in the table, and vice versa *)
Lemma shipped_is_what_the_source_ships : map fst shipped = shipped_ids.
Proof. reflexivity. Qed.

Lemma shipped_nsym_ok : map (fun e => List.length (fst (snd e))) shipped = shipped_nsym.
Proof. reflexivity. Qed.

Lemma fuse_U1_is_generic c s n : fuse_U1 c s n = gfuse descr_U1 c s n.             Proof. reflexivity. Qed.
Lemma fuse_U1xU1_is_generic c s n : fuse_U1xU1 c s n = gfuse descr_U1xU1 c s n.    Proof. reflexivity. Qed.
Lemma fuse_U1xU1xZ2_is_generic c s n : fuse_U1xU1xZ2 c s n = gfuse descr_U1xU1xZ2 c s n. Proof. reflexivity. Qed.
Lemma fuse_Z2_is_generic c s n : fuse_Z2 c s n = gfuse descr_Z2 c s n.             Proof. reflexivity. Qed.
Lemma fuse_Z2xU1_is_generic c s n : fuse_Z2xU1 c s n = gfuse descr_Z2xU1 c s n.    Proof. reflexivity. Qed.
Lemma fuse_Z3_is_generic c s n : fuse_Z3 c s n = gfuse descr_Z3 c s n.             Proof. reflexivity. Qed.
Lemma fuse_dense_is_generic c s n : fuse_dense c s n = gfuse descr_dense c s n.    Proof. reflexivity. Qed.

Definition entry_ok (e : string * (descr * fuse_fn)) : Prop :=
  okdescr (fst (snd e)) /\ forall c s n, snd (snd e) c s n = gfuse (fst (snd e)) c s n.

Lemma shipped_ok : Forall entry_ok shipped.
Proof.
  unfold shipped, entry_ok, okdescr. repeat constructor; simpl; try lia;
    first [ apply fuse_U1_is_generic | apply fuse_U1xU1_is_generic | apply fuse_U1xU1xZ2_is_generic
          | apply fuse_Z2_is_generic | apply fuse_Z2xU1_is_generic | apply fuse_Z3_is_generic
          | apply fuse_dense_is_generic ].
Qed.

Lemma shipped_entry name d f : In (name, (d, f)) shipped ->
  okdescr d /\ forall c s n, f c s n = gfuse d c s n.
Proof. intro H. pose proof shipped_ok as S. rewrite Forall_forall in S. apply (S _ H). Qed.

Lemma grouping_for_fn d (f : fuse_fn) (Hd : okdescr d) (Hf : forall c s n, f c s n = gfuse d c s n)
  (gs : list group) snew : Forall g_ok gs ->
    f (map (fun g => let '(cs, ss, sg) := g in f cs ss sg) gs)
      (map (fun g => let '(_, _, sg) := g in sg) gs) snew
    = f (List.concat (map (fun g => let '(cs, _, _) := g in cs) gs))
        (List.concat (map (fun g => let '(_, ss, _) := g in ss) gs)) snew.
Proof.
  intro H. rewrite !Hf.
  rewrite (map_ext (fun g : group => let '(cs, ss, sg) := g in f cs ss sg)
                   (fun g : group => let '(cs, ss, sg) := g in gfuse d cs ss sg)).
  - exact (gfuse_grouping d Hd gs snew H).
  - intros [[cs ss] sg]. apply Hf.
Qed.
