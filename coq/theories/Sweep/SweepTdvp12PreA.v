(* one block of the mixed TDVP sweep with precompute (split over files so that they compile in parallel) *)
From Coq Require Import List ZArith Bool Lia ZifyBool.
From Yv Require Import Sweep.Sweep Gen.SweepGen Sweep.SweepBase Sweep.SweepTdvp12.
Import ListNotations.
Open Scope Z_scope.

Lemma two_A_last_pre N n s : 1 <= n <= N - 2 -> PC N (n - 1) (n - 1) (n - 1) (n - 1) s ->
  PC N n n n n (run_ops true N (tdvp_12site_two N n 1 ToLast ++ tdvp_12site_two_A N n 1 ToLast) s).
Proof. intros Hn ((Hok & Hpc & HL & HR & HLs & HRs) & HCL & HCR). unfold tdvp_12site_two, tdvp_12site_two_A; cbn [app]. seq_PC Hok Hpc HCL HCR. Qed.
