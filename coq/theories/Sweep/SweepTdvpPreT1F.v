(* SweepTdvpPreT1F.v -- one loop iteration of the TDVP sweeps, precompute variant (cached products) *)
From Coq Require Import List ZArith Bool Lia ZifyBool.
From Yv Require Import Sweep.Sweep Gen.SweepGen Sweep.SweepBase.
Import ListNotations.
Open Scope Z_scope.

Lemma tdvp1_first_pre N n s : 0 <= n < N -> PC N n n n n s -> PC N (n - 1) (Z.max (n - 1) 0) (n - 1) (n - 1) (run_ops true N (tdvp_1site_body N n 0 ToFirst) s).
Proof.
  intros Hn ((Hok & Hpc & HL & HR & HLs & HRs) & HCL & HCR).
  destruct (Z.eq_dec n 0) as [En|En]; [subst n|]; body_PC tdvp_1site_body Hok Hpc HCL HCR.
Qed.
