(* SweepTdvp12Pre.v -- the mixed TDVP sweep with precompute (cached products of environments and MPO tensors) *)
From Coq Require Import List ZArith Bool Lia ZifyBool.
From Yv Require Import Sweep.Sweep Gen.SweepGen Sweep.SweepBase Sweep.SweepTdvpBody Sweep.SweepTdvpPreT1L Sweep.SweepTdvpPreT1F Sweep.SweepTdvp12 Sweep.SweepTdvp12PreA Sweep.SweepTdvp12PreB Sweep.SweepTdvp12PreC Sweep.SweepTdvp12PreD.
Import ListNotations.
Open Scope Z_scope.

Definition InvLp (N : Z) (flag : bool) (n : Z) (s : st) : Prop :=
  if flag then 1 <= n <= N - 1 /\ PC N (n - 1) (n - 1) (n - 1) (n - 1) s else PC N (Z.min n (N - 1)) n n n s.
Definition InvFp (N : Z) (flag : bool) (n : Z) (s : st) : Prop :=
  if flag then 0 <= n <= N - 2 /\ PC N (n + 1) (n + 1) (n + 1) (n + 1) s else PC N n (Z.max n 0) n n s.

Lemma pass12_last_pre N orc : forall fuel n flag s, 1 <= N -> 0 <= n -> n + Z.of_nat fuel = N -> InvLp N flag n s ->
  PC N (N - 1) N N N (pass12 true N ToLast 1 fuel n orc flag s).
Proof.
  induction fuel as [|f IH]; intros n flag s HN Hn Hf Hinv.
  - cbn [pass12]. unfold InvLp in Hinv. destruct flag.
    + destruct Hinv as [Hr _]. lia.
    + replace n with N in * by lia. replace (Z.min N (N - 1)) with (N - 1) in Hinv by lia. exact Hinv.
  - cbn [pass12 nxt]. unfold InvLp in Hinv. destruct flag; cbn [negb].
    + destruct Hinv as [Hr Hp]. unfold enl.
      destruct ((n - 1 + 1 <? 0) || (N <=? n + 1)) eqn:Eo.
      * apply IH; try lia. unfold InvLp. rewrite <- run_ops_app. apply two_C_last_pre; [lia|exact Hp].
      * destruct (snd (orc n)).
        -- apply IH; try lia. unfold InvLp. split; [lia|]. rewrite <- run_ops_app. replace (n + 1 - 1) with n by lia. apply two_A_last_pre; [lia|exact Hp].
        -- apply IH; try lia. unfold InvLp. rewrite <- run_ops_app. apply two_C_last_pre; [lia|exact Hp].
    + unfold enl. replace (Z.min n (N - 1)) with n in Hinv by lia. destruct ((n - 1 + 1 <? 0) || (N <=? n + 1)) eqn:Eo.
      * apply IH; try lia. unfold InvLp. rewrite one_is_1site. apply tdvp1_last_pre; [lia|exact Hinv].
      * destruct (fst (orc n)).
        -- apply IH; try lia. unfold InvLp. split; [lia|]. replace (n + 1 - 1) with n by lia. exact Hinv.
        -- apply IH; try lia. unfold InvLp. rewrite one_is_1site. apply tdvp1_last_pre; [lia|exact Hinv].
Qed.

Lemma pass12_first_pre N orc : forall fuel n flag s, 1 <= N -> n <= N - 1 -> Z.of_nat fuel = n + 1 -> InvFp N flag n s ->
  PC N (-1) 0 (-1) (-1) (pass12 true N ToFirst 0 fuel n orc flag s).
Proof.
  induction fuel as [|f IH]; intros n flag s HN Hn Hf Hinv.
  - cbn [pass12]. unfold InvFp in Hinv. destruct flag.
    + destruct Hinv as [Hr _]. lia.
    + replace n with (-1) in * by lia. exact Hinv.
  - cbn [pass12 nxt]. unfold InvFp in Hinv. destruct flag; cbn [negb].
    + destruct Hinv as [Hr Hp]. unfold enl. replace (n - 1 + 0) with (n - 1) by lia. replace (n + 0) with n by lia.
      destruct ((n - 1 <? 0) || (N <=? n)) eqn:Eo.
      * apply IH; try lia. unfold InvFp. rewrite <- run_ops_app. apply two_C_first_pre; [lia|exact Hp].
      * destruct (snd (orc n)).
        -- apply IH; try lia. unfold InvFp. split; [lia|]. rewrite <- run_ops_app. replace (n - 1 + 1) with n by lia. apply two_A_first_pre; [lia|exact Hp].
        -- apply IH; try lia. unfold InvFp. rewrite <- run_ops_app. apply two_C_first_pre; [lia|exact Hp].
    + unfold enl. replace (n - 1 + 0) with (n - 1) by lia. replace (n + 0) with n by lia.
      assert (Hn0 : 0 <= n) by lia. replace (Z.max n 0) with n in Hinv by lia.
      destruct ((n - 1 <? 0) || (N <=? n)) eqn:Eo.
      * apply IH; try lia. unfold InvFp. rewrite one_is_1site. apply tdvp1_first_pre; [lia|exact Hinv].
      * destruct (fst (orc n)).
        -- apply IH; try lia. unfold InvFp. split; [lia|]. replace (n - 1 + 1) with n by lia. exact Hinv.
        -- apply IH; try lia. unfold InvFp. rewrite one_is_1site. apply tdvp1_first_pre; [lia|exact Hinv].
Qed.

Theorem tdvp_12site_sweep_pre N orcL orcF s : 1 <= N -> PC N 0 0 0 0 s -> PC N (-1) (-1) (-1) (-1) (sweep12 true N orcL orcF s).
Proof.
  intros HN H0. unfold sweep12.
  assert (H1 : PC N (N - 1) N N N (pass12 true N ToLast 1 (Z.to_nat N) 0 orcL false s)).
  { apply pass12_last_pre; try lia. unfold InvLp. replace (Z.min 0 (N - 1)) with 0 by lia. exact H0. }
  match type of H1 with PC _ _ _ _ _ ?t => assert (H2 : PC N (-1) 0 (-1) (-1) (pass12 true N ToFirst 0 (Z.to_nat N) (N - 1) orcF false t)) end.
  { apply pass12_first_pre; try lia. unfold InvFp. replace (Z.max (N - 1) 0) with (N - 1) by lia. eapply PC_weaken; [exact H1|lia|lia|lia|lia]. }
  destruct H2 as ((Hok & Hpc & HL & HR & HLs & HRs) & HCL & HCR).
  match goal with |- PC _ _ _ _ _ (run_ops true N _ ?t) => set (t0 := t) in * end.
  unfold tdvp_12site_final. seq_PC Hok Hpc HCL HCR.
Qed.
