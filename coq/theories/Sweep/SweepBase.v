(* SweepLaws.v -- for every chain length, every effective-Hamiltonian application of the generated sweep programs reads environments that
   are present and up to date, the gauge moves are never refused, and a sweep returns the bookkeeping to the state it started from. *)
From Coq Require Import List ZArith Bool Lia ZifyBool.
From Yv Require Import Sweep.Sweep Gen.SweepGen.
Import ListNotations.
Open Scope Z_scope.

(* head-of-site invariant: no pending central block; left environments of all sites before a, right environments of all sites after b *)
Definition P (N a b : Z) (s : st) : Prop :=
  ok s = true /\ pc s = None /\ L s (-1) = Fresh /\ R s N = Fresh /\
  (forall k, -1 <= k < a -> L s k = Fresh) /\ (forall k, b < k <= N -> R s k = Fresh).

Ltac zcases :=
  repeat match goal with
  | |- context [if ?c then _ else _] => lazymatch c with context [if _ then _ else _] => fail | _ => destruct c eqn:? end
  | |- context [stale_if ?c _] => lazymatch c with true => fail | false => fail | context [if _ then _ else _] => fail | _ => destruct c eqn:? end
  end; cbn [stale_if].

Lemma upto_snoc k : upto (S k) = upto k ++ [Z.of_nat k]. Proof. reflexivity. Qed.
Lemma fold_upto_last {A} (f : A -> Z -> A) (Q : Z -> A -> Prop) (m : nat) :
  (forall k s, 0 <= k < Z.of_nat m -> Q k s -> Q (k + 1) (f s k)) -> forall s, Q 0 s -> Q (Z.of_nat m) (fold_left f (upto m) s).
Proof.
  induction m as [|m IH]; intros Hstep s H0; [exact H0|].
  rewrite upto_snoc, fold_left_app. cbn [fold_left]. replace (Z.of_nat (S m)) with (Z.of_nat m + 1) by lia.
  apply Hstep; [lia|]. apply IH; auto. intros k s' Hk. apply Hstep. lia.
Qed.
Lemma fold_upto_first {A} (f : A -> Z -> A) (Q : Z -> A -> Prop) (m : nat) :
  (forall k s, 0 <= k < Z.of_nat m -> Q (k + 1) s -> Q k (f s k)) -> forall s, Q (Z.of_nat m) s -> Q 0 (fold_left f (rev (upto m)) s).
Proof.
  induction m as [|m IH]; intros Hstep s H0; [exact H0|].
  rewrite upto_snoc, rev_app_distr. cbn [rev app fold_left]. apply IH.
  - intros k s' Hk. apply Hstep. lia.
  - apply Hstep; [lia|]. replace (Z.of_nat m + 1) with (Z.of_nat (S m)) by lia. exact H0.
Qed.

Ltac use_inv :=
  first [ assumption | reflexivity
        | match goal with H : forall k, _ -> L _ k = Fresh |- L _ _ = Fresh => apply H; lia end
        | match goal with H : forall k, _ -> R _ k = Fresh |- R _ _ = Fresh => apply H; lia end ].
Ltac solve_status := cbn [L R CL CR pc ok]; unfold upd; zcases; try lia; cbn [stale_if stale_of]; use_inv.
(* every read of the operation that has just been executed found a fresh entry *)
Ltac fresh_reads :=
  repeat match goal with
  | |- context [is_fresh ?t] => let H := fresh "Er" in assert (H : t = Fresh) by solve_status; rewrite H; clear H; cbn [is_fresh andb]
  end.
Ltac run_body body :=
  unfold body, run_ops; cbn [fold_left step step1 write set_ok set_pc pc ok L R CL CR andb orb negb is_present].
Ltac close_P Hok :=
  unfold P; cbn [ok pc L R CL CR write set_ok set_pc andb]; fresh_reads; cbn [write set_pc set_ok ok pc L R CL CR andb]; rewrite ?Hok;
  (split; [first [reflexivity|assumption]|]); (split; [first [reflexivity|assumption]|]); (split; [solve_status|]); (split; [solve_status|]);
  (split; intros k Hk; solve_status).

Lemma P_weaken N a b a' b' s : P N a b s -> (a' <= a \/ a' <= 0) -> (b <= b' \/ (b' = N - 1 /\ b = N)) -> P N a' b' s.
Proof.
  intros (Hok & Hpc & HL & HR & HLs & HRs) Ha Hb. repeat split; auto.
  - intros k Hk. destruct (Z.eq_dec k (-1)) as [->|]; [exact HL|]. apply HLs. lia.
  - intros k Hk. destruct (Z.eq_dec k N) as [->|]; [exact HR|]. apply HRs. lia.
Qed.
Lemma measure_ok N s : P N (-1) (-1) s -> 0 <= N -> ok (step false N OMeasure s) = true /\ ok (step true N OMeasure s) = true.
Proof.
  intros (Hok & Hpc & HL & HR & HLs & HRs) HN. cbn [step step1 set_ok ok]. rewrite HL, (HRs 0) by lia. cbn. rewrite Hok. split; reflexivity.
Qed.

Lemma pass_last pre (body : Z -> Z -> Z -> dirn -> list op) N dn (m : nat) s :
  (forall n s, 0 <= n < Z.of_nat m -> P N n n s -> P N (n + 1) (n + 1) (run_ops pre N (body N n dn ToLast) s)) ->
  P N 0 0 s -> P N (Z.of_nat m) (Z.of_nat m) (fold_left (fun s n => run_ops pre N (body N n dn ToLast) s) (upto m) s).
Proof. intros Hstep H0. apply (fold_upto_last _ (fun k s => P N k k s)); [|exact H0]. intros k s0 Hk. apply Hstep. lia. Qed.
Lemma pass_first pre (body : Z -> Z -> Z -> dirn -> list op) N dn (m : nat) s :
  (forall n s, 0 <= n < Z.of_nat m -> P N n n s -> P N (n - 1) (n - 1) (run_ops pre N (body N n dn ToFirst) s)) ->
  P N (Z.of_nat m - 1) (Z.of_nat m - 1) s -> P N (-1) (-1) (fold_left (fun s n => run_ops pre N (body N n dn ToFirst) s) (rev (upto m)) s).
Proof.
  intros Hstep H0. apply (fold_upto_first _ (fun k s => P N (k - 1) (k - 1) s)); [|exact H0].
  intros k s0 Hk Hs. replace (k + 1 - 1) with k in Hs by lia. apply Hstep; [lia|exact Hs].
Qed.

(* ------------------------------------------------------------------ the precompute variant: cached products must not be stale when read *)
Definition PC (N a b ca cb : Z) (s : st) : Prop :=
  P N a b s /\ (forall j, j <= ca \/ j <= 0 -> CL s j <> Stale) /\ (forall j, cb <= j \/ N - 1 <= j -> CR s j <> Stale).

Ltac decide_ifs :=
  repeat (match goal with
          | |- context [if ?c then _ else _] => first [ replace c with true by lia | replace c with false by lia ]
          | |- context [stale_if ?c _] => lazymatch c with true => fail | false => fail | _ => first [ replace c with true by lia | replace c with false by lia ] end
          | |- context [orb ?c _] => lazymatch c with true => fail | false => fail | _ => first [ replace c with true by lia | replace c with false by lia ] end
          end; cbn [stale_if stale_of is_present is_fresh andb orb negb]).
Ltac use_inv2 :=
  first [ assumption | reflexivity | discriminate | congruence
        | match goal with H : forall k, _ -> L _ k = Fresh |- L _ _ = Fresh => apply H; lia end
        | match goal with H : forall k, _ -> R _ k = Fresh |- R _ _ = Fresh => apply H; lia end
        | match goal with H : forall j, _ -> CL _ j <> Stale |- CL _ _ <> Stale => apply H; lia end
        | match goal with H : forall j, _ -> CR _ j <> Stale |- CR _ _ <> Stale => apply H; lia end ].
Ltac solve_status2 := cbn [L R CL CR pc ok]; unfold upd; zcases; try lia; cbn [stale_if stale_of]; use_inv2.
Ltac close_PC Hok :=
  unfold PC, P; cbn [write set_pc set_ok ok pc L R CL CR andb]; rewrite ?Hok;
  (split; [ (split; [first [reflexivity|assumption]|]); (split; [first [reflexivity|assumption]|]); (split; [solve_status2|]); (split; [solve_status2|]); (split; intros k Hk; solve_status2)
          | split; intros j Hj; solve_status2 ]).
(* case analysis on the cache entries that are inspected, excluding Stale through the invariant where it applies *)
Ltac dc s x HC i := is_var s; destruct x eqn:?; [ | | try (exfalso; eapply (HC i); [lia|eassumption]) ].
Ltac simp := unfold upd, edge; cbn beta; decide_ifs; cbn [stale_if stale_of is_present is_fresh andb orb negb].
Ltac dcache HCL HCR :=
  repeat (simp;
          match goal with
          | |- context [is_present (CL ?s ?i)] => dc s (CL s i) HCL i
          | |- context [is_present (CR ?s ?i)] => dc s (CR s i) HCR i
          | |- context [is_present (stale_of (CL ?s ?i))] => dc s (CL s i) HCL i
          | |- context [is_present (stale_of (CR ?s ?i))] => dc s (CR s i) HCR i
          | |- context [stale_of (CL ?s ?i)] => dc s (CL s i) HCL i
          | |- context [stale_of (CR ?s ?i)] => dc s (CR s i) HCR i
          | |- context [match CL ?s ?i with Absent => _ | Fresh => _ | Stale => _ end] => dc s (CL s i) HCL i
          | |- context [match CR ?s ?i with Absent => _ | Fresh => _ | Stale => _ end] => dc s (CR s i) HCR i
          | |- context [match stale_of (CL ?s ?i) with Absent => _ | Fresh => _ | Stale => _ end] => dc s (CL s i) HCL i
          | |- context [match stale_of (CR ?s ?i) with Absent => _ | Fresh => _ | Stale => _ end] => dc s (CR s i) HCR i
          end).
Ltac read_LR :=
  repeat match goal with
  | |- context [L ?s ?i] => is_var s; lazymatch goal with H : L s i = Fresh |- _ => fail | _ => idtac end;
      let H := fresh "El" in assert (H : L s i = Fresh) by use_inv2; rewrite ?H
  | |- context [R ?s ?i] => is_var s; lazymatch goal with H : R s i = Fresh |- _ => fail | _ => idtac end;
      let H := fresh "Er" in assert (H : R s i = Fresh) by use_inv2; rewrite ?H
  end.
Ltac exec_body body :=
  unfold body, run_ops; cbn [fold_left step step1]; unfold get_FL, get_FR;
  cbn [fold_left step step1 write set_ok set_pc pc ok L R CL CR andb orb negb is_present is_fresh].
Ltac pc_none Hpc := rewrite ?Hpc; cbn [fold_left step step1 write set_ok set_pc pc ok L R CL CR andb orb negb is_present is_fresh].

(* ------------------------------------------------------------------ generic symbolic execution of a body on a state satisfying P / PC *)
Lemma run_ops_cons pre N o r s : run_ops pre N (o :: r) s = run_ops pre N r (step pre N o s).
Proof. reflexivity. Qed.
Lemma run_ops_nil pre N s : run_ops pre N [] s = s.
Proof. reflexivity. Qed.
(* operations are executed one at a time and the state is normalised after each: evaluating a long list in one go re-evaluates the nested
   states exponentially often *)
Ltac exec_seq Hpc :=
  repeat (rewrite run_ops_cons;
          match goal with
          | |- context [run_ops ?p ?N ?r (step ?p ?N ?o ?s)] =>
            let x := fresh "st" in let Ex := fresh "Ex" in
            remember (step p N o s) as x eqn:Ex;
            cbn [step step1 write set_ok set_pc pc ok L R CL CR andb orb negb is_present is_fresh get_FL get_FR] in Ex;
            rewrite ?Hpc in Ex;
            cbn [step step1 write set_ok set_pc pc ok L R CL CR andb orb negb is_present is_fresh get_FL get_FR] in Ex;
            subst x
          end);
  rewrite run_ops_nil.
Ltac seq_P Hok Hpc := exec_seq Hpc; repeat (simp; pc_none Hpc); simp; read_LR; simp; close_P Hok.
Ltac exec_seq_pc Hpc HCL HCR :=
  repeat (rewrite run_ops_cons;
          match goal with
          | |- context [run_ops ?p ?N ?r (step ?p ?N ?o ?s)] =>
            let x := fresh "st" in let Ex := fresh "Ex" in
            remember (step p N o s) as x eqn:Ex;
            cbn [step step1 write set_ok set_pc pc ok L R CL CR andb orb negb is_present is_fresh] in Ex; unfold get_FL, get_FR in Ex;
            cbn [step step1 write set_ok set_pc pc ok L R CL CR andb orb negb is_present is_fresh] in Ex;
            rewrite ?Hpc in Ex;
            cbn [step step1 write set_ok set_pc pc ok L R CL CR andb orb negb is_present is_fresh] in Ex;
            subst x
          end;
          dcache HCL HCR; pc_none Hpc);
  rewrite run_ops_nil.
Ltac seq_PC Hok Hpc HCL HCR := exec_seq_pc Hpc HCL HCR; dcache HCL HCR; simp; read_LR; simp; close_PC Hok.
Ltac body_P body Hok Hpc := unfold body; seq_P Hok Hpc.
Ltac body_PC body Hok Hpc HCL HCR := unfold body; seq_PC Hok Hpc HCL HCR.

Lemma PC_weaken N a b ca cb a' b' ca' cb' s : PC N a b ca cb s -> (a' <= a \/ a' <= 0) -> (b <= b' \/ (b' = N - 1 /\ b = N)) -> (ca' <= ca \/ ca' <= 0) -> (cb <= cb' \/ N - 1 <= cb') -> PC N a' b' ca' cb' s.
Proof.
  intros (HP & HCL & HCR) Ha Hb Hca Hcb. split; [eapply P_weaken; eauto|]. split.
  - intros j Hj. apply HCL. lia.
  - intros j Hj. apply HCR. lia.
Qed.
Lemma measure_ok_PC N a b s : PC N (-1) (-1) a b s -> 0 <= N -> ok (step true N OMeasure s) = true.
Proof. intros (HP & _) HN. apply (measure_ok N s HP HN). Qed.
