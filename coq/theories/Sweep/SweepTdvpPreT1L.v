(* SweepTdvpPreT1L.v -- one loop iteration of the TDVP sweeps, precompute variant (cached products) *)
From Coq Require Import List ZArith Bool Lia ZifyBool.
From Yv Require Import Sweep.Sweep Gen.SweepGen Sweep.SweepBase.
Import ListNotations.
Open Scope Z_scope.

Lemma tdvp1_last_pre N n s : 0 <= n < N -> PC N n n n n s -> PC N (Z.min (n + 1) (N - 1)) (n + 1) (n + 1) (n + 1) (run_ops true N (tdvp_1site_body N n 0 ToLast) s).
Proof.
  intros Hn ((Hok & Hpc & HL & HR & HLs & HRs) & HCL & HCR).
  destruct (Z.eq_dec n (N - 1)) as [En|En]; [subst n|]; body_PC tdvp_1site_body Hok Hpc HCL HCR.
Qed.
