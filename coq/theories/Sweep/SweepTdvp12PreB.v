(* one block of the mixed TDVP sweep with precompute (split over files so that they compile in parallel) *)
From Coq Require Import List ZArith Bool Lia ZifyBool.
From Yv Require Import Sweep.Sweep Gen.SweepGen Sweep.SweepBase Sweep.SweepTdvp12.
Import ListNotations.
Open Scope Z_scope.

Lemma two_C_last_pre N n s : 1 <= n <= N - 1 -> PC N (n - 1) (n - 1) (n - 1) (n - 1) s ->
  PC N (Z.min (n + 1) (N - 1)) (n + 1) (n + 1) (n + 1) (run_ops true N (tdvp_12site_two N n 1 ToLast ++ tdvp_12site_two_C N n 1 ToLast) s).
Proof.
  intros Hn ((Hok & Hpc & HL & HR & HLs & HRs) & HCL & HCR). unfold tdvp_12site_two, tdvp_12site_two_C; cbn [app].
  destruct (Z.eq_dec n (N - 1)) as [En|En]; [subst n|]; seq_PC Hok Hpc HCL HCR.
Qed.
