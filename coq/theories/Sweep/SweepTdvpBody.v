(* SweepTdvpBody.v -- one loop iteration of the TDVP sweeps (programs generated from yastn/tn/mps/_tdvp.py) *)
From Coq Require Import List ZArith Bool Lia ZifyBool.
From Yv Require Import Sweep.Sweep Gen.SweepGen Sweep.SweepBase.
Import ListNotations.
Open Scope Z_scope.

(* one site *)
Lemma tdvp1_last N n s : 0 <= n < N -> P N n n s -> P N (Z.min (n + 1) (N - 1)) (n + 1) (run_ops false N (tdvp_1site_body N n 0 ToLast) s).
Proof.
  intros Hn (Hok & Hpc & HL & HR & HLs & HRs).
  destruct (Z.eq_dec n (N - 1)) as [En|En]; [subst n|]; body_P tdvp_1site_body Hok Hpc.
Qed.
Lemma tdvp1_first N n s : 0 <= n < N -> P N n n s -> P N (n - 1) (Z.max (n - 1) 0) (run_ops false N (tdvp_1site_body N n 0 ToFirst) s).
Proof.
  intros Hn (Hok & Hpc & HL & HR & HLs & HRs).
  destruct (Z.eq_dec n 0) as [En|En]; [subst n|]; body_P tdvp_1site_body Hok Hpc.
Qed.
(* two sites: head of bond (n, n+1) *)
Lemma tdvp2_last N n s : 0 <= n < N - 1 -> P N n (n + 1) s -> P N (n + 1) (n + 1) (run_ops false N (tdvp_2site_body N n 1 ToLast) s).
Proof.
  intros Hn (Hok & Hpc & HL & HR & HLs & HRs).
  destruct (Z.eq_dec (n + 1) (N - 1)) as [En|En]; body_P tdvp_2site_body Hok Hpc.
Qed.
Lemma tdvp2_first N n s : 0 <= n < N - 1 -> P N n (n + 1) s -> P N n n (run_ops false N (tdvp_2site_body N n 0 ToFirst) s).
Proof.
  intros Hn (Hok & Hpc & HL & HR & HLs & HRs).
  destruct (Z.eq_dec n 0) as [En|En]; [subst n|]; body_P tdvp_2site_body Hok Hpc.
Qed.
