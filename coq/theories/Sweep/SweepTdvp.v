(* SweepTdvp.v -- TDVP sweeps (programs generated from yastn/tn/mps/_tdvp.py): every environment read is fresh, for every chain length,
   with and without precompute, and a sweep leaves the environment ready for the next one (time-independent generators re-use it) *)
From Coq Require Import List ZArith Bool Lia ZifyBool.
From Yv Require Import Sweep.Sweep Gen.SweepGen Sweep.SweepBase Sweep.SweepTdvpBody Sweep.SweepTdvpPreT1L Sweep.SweepTdvpPreT1F Sweep.SweepTdvpPreT2L Sweep.SweepTdvpPreT2F.
Import ListNotations.
Open Scope Z_scope.

Theorem tdvp_1site_sweep N s : 1 <= N -> P N 0 0 s -> P N (-1) (-1) (run_sweep false N tdvp_1site_passes tdvp_1site_body tdvp_1site_final s).
Proof.
  intros HN H0. unfold run_sweep, tdvp_1site_passes, tdvp_1site_final. cbn [fold_left run_pass sites].
  replace (N - 0) with N by lia.
  assert (H1 : P N (N - 1) N (fold_left (fun s n => run_ops false N (tdvp_1site_body N n 0 ToLast) s) (upto (Z.to_nat N)) s)).
  { pose proof (fold_upto_last (fun s n => run_ops false N (tdvp_1site_body N n 0 ToLast) s) (fun k s => P N (Z.min k (N - 1)) k s) (Z.to_nat N)) as F.
    rewrite Z2Nat.id in F by lia. replace (Z.min N (N - 1)) with (N - 1) in F by lia. apply F.
    - intros k s0 Hk Hs. replace (Z.min k (N - 1)) with k in Hs by lia. apply tdvp1_last; [lia|exact Hs].
    - replace (Z.min 0 (N - 1)) with 0 by lia. exact H0. }
  apply (P_weaken N (N - 1) N (N - 1) (N - 1)) in H1; [|lia|lia].
  match type of H1 with P _ _ _ ?t =>
    pose proof (fold_upto_first (fun s n => run_ops false N (tdvp_1site_body N n 0 ToFirst) s) (fun k s => P N (k - 1) (Z.max (k - 1) 0) s) (Z.to_nat N)) as F;
    rewrite Z2Nat.id in F by lia;
    specialize (F ltac:(intros k s0 Hk Hs; replace (k + 1 - 1) with k in Hs by lia; replace (Z.max k 0) with k in Hs by lia; apply tdvp1_first; [lia|exact Hs]) t);
    replace (Z.max (N - 1) 0) with (N - 1) in F by lia; specialize (F H1) end.
  replace (Z.max (0 - 1) 0) with 0 in F by lia.
  destruct F as (Hok & Hpc & HL & HR & HLs & HRs).
  match goal with |- P _ _ _ (run_ops false N [OUpdate 0 ToFirst] ?t) => set (t0 := t) in * end.
  exec_body run_ops. simp. read_LR. simp. close_P Hok.
Qed.

Theorem tdvp_1site_sweep_pre N s : 1 <= N -> PC N 0 0 0 0 s -> PC N (-1) (-1) (-1) (-1) (run_sweep true N tdvp_1site_passes tdvp_1site_body tdvp_1site_final s).
Proof.
  intros HN H0. unfold run_sweep, tdvp_1site_passes, tdvp_1site_final. cbn [fold_left run_pass sites].
  replace (N - 0) with N by lia.
  assert (H1 : PC N (N - 1) N N N (fold_left (fun s n => run_ops true N (tdvp_1site_body N n 0 ToLast) s) (upto (Z.to_nat N)) s)).
  { pose proof (fold_upto_last (fun s n => run_ops true N (tdvp_1site_body N n 0 ToLast) s) (fun k s => PC N (Z.min k (N - 1)) k k k s) (Z.to_nat N)) as F.
    rewrite Z2Nat.id in F by lia. replace (Z.min N (N - 1)) with (N - 1) in F by lia. apply F.
    - intros k s0 Hk Hs. replace (Z.min k (N - 1)) with k in Hs by lia. apply tdvp1_last_pre; [lia|exact Hs].
    - replace (Z.min 0 (N - 1)) with 0 by lia. exact H0. }
  apply (PC_weaken N (N - 1) N N N (N - 1) (N - 1) (N - 1) (N - 1)) in H1; [|lia|lia|lia|lia].
  match type of H1 with PC _ _ _ _ _ ?t =>
    pose proof (fold_upto_first (fun s n => run_ops true N (tdvp_1site_body N n 0 ToFirst) s) (fun k s => PC N (k - 1) (Z.max (k - 1) 0) (k - 1) (k - 1) s) (Z.to_nat N)) as F;
    rewrite Z2Nat.id in F by lia;
    specialize (F ltac:(intros k s0 Hk Hs; replace (k + 1 - 1) with k in Hs by lia; replace (Z.max k 0) with k in Hs by lia; apply tdvp1_first_pre; [lia|exact Hs]) t);
    replace (Z.max (N - 1) 0) with (N - 1) in F by lia; specialize (F H1) end.
  replace (Z.max (0 - 1) 0) with 0 in F by lia.
  destruct F as ((Hok & Hpc & HL & HR & HLs & HRs) & HCL & HCR).
  match goal with |- PC _ _ _ _ _ (run_ops true N [OUpdate 0 ToFirst] ?t) => set (t0 := t) in * end.
  exec_body run_ops. dcache HCL HCR; simp; read_LR; simp; close_PC Hok.
Qed.

Theorem tdvp_2site_sweep N s : 2 <= N -> P N 0 1 s -> P N (-1) (-1) (run_sweep false N tdvp_2site_passes tdvp_2site_body tdvp_2site_final s).
Proof.
  intros HN H0. unfold run_sweep, tdvp_2site_passes, tdvp_2site_final. cbn [fold_left run_pass sites].
  assert (H1 : P N (N - 1) N (fold_left (fun s n => run_ops false N (tdvp_2site_body N n 1 ToLast) s) (upto (Z.to_nat (N - 1))) s)).
  { pose proof (fold_upto_last (fun s n => run_ops false N (tdvp_2site_body N n 1 ToLast) s) (fun k s => P N k (k + 1) s) (Z.to_nat (N - 1))) as F.
    rewrite Z2Nat.id in F by lia. replace (N - 1 + 1) with N in F by lia. apply F; [|exact H0].
    intros k s0 Hk Hs. apply (P_weaken N (k + 1) (k + 1)); [apply tdvp2_last; [lia|exact Hs]|lia|lia]. }
  apply (P_weaken N (N - 1) N (N - 2) (N - 1)) in H1; [|lia|lia].
  match type of H1 with P _ _ _ ?t =>
    pose proof (fold_upto_first (fun s n => run_ops false N (tdvp_2site_body N n 0 ToFirst) s) (fun k s => P N (k - 1) k s) (Z.to_nat (N - 1))) as F;
    rewrite Z2Nat.id in F by lia;
    specialize (F ltac:(intros k s0 Hk Hs; replace (k + 1 - 1) with k in Hs by lia; apply (P_weaken N k k); [apply tdvp2_first; [lia|exact Hs]|lia|lia]) t);
    replace (N - 1 - 1) with (N - 2) in F by lia; specialize (F H1) end.
  destruct F as (Hok & Hpc & HL & HR & HLs & HRs).
  match goal with |- P _ _ _ (run_ops false N [OClear 0; OUpdate 0 ToFirst] ?t) => set (t0 := t) in * end.
  exec_body run_ops. simp. read_LR. simp. close_P Hok.
Qed.

Theorem tdvp_2site_sweep_pre N s : 2 <= N -> PC N 0 1 0 1 s -> PC N (-1) (-1) (-1) 0 (run_sweep true N tdvp_2site_passes tdvp_2site_body tdvp_2site_final s).
Proof.
  intros HN H0. unfold run_sweep, tdvp_2site_passes, tdvp_2site_final. cbn [fold_left run_pass sites].
  assert (H1 : PC N (N - 1) N (N - 1) N (fold_left (fun s n => run_ops true N (tdvp_2site_body N n 1 ToLast) s) (upto (Z.to_nat (N - 1))) s)).
  { pose proof (fold_upto_last (fun s n => run_ops true N (tdvp_2site_body N n 1 ToLast) s) (fun k s => PC N k (k + 1) k (k + 1) s) (Z.to_nat (N - 1))) as F.
    rewrite Z2Nat.id in F by lia. replace (N - 1 + 1) with N in F by lia. apply F; [|exact H0].
    intros k s0 Hk Hs. apply (PC_weaken N (k + 1) (k + 1) (k + 1) k); [apply tdvp2_last_pre; [lia|exact Hs]|lia|lia|lia|lia]. }
  apply (PC_weaken N (N - 1) N (N - 1) N (N - 2) (N - 1) (N - 2) (N - 1)) in H1; [|lia|lia|lia|lia].
  match type of H1 with PC _ _ _ _ _ ?t =>
    pose proof (fold_upto_first (fun s n => run_ops true N (tdvp_2site_body N n 0 ToFirst) s) (fun k s => PC N (k - 1) k (k - 1) k s) (Z.to_nat (N - 1))) as F;
    rewrite Z2Nat.id in F by lia;
    specialize (F ltac:(intros k s0 Hk Hs; replace (k + 1 - 1) with k in Hs by lia;
                        apply (PC_weaken N k k (k + 2) (k - 1)); [apply tdvp2_first_pre; [lia|exact Hs]|lia|lia|lia|lia]) t);
    replace (N - 1 - 1) with (N - 2) in F by lia; specialize (F H1) end.
  destruct F as ((Hok & Hpc & HL & HR & HLs & HRs) & HCL & HCR).
  match goal with |- PC _ _ _ _ _ (run_ops true N [OClear 0; OUpdate 0 ToFirst] ?t) => set (t0 := t) in * end.
  exec_body run_ops. dcache HCL HCR; simp; read_LR; simp; close_PC Hok.
Qed.

(* any number of TDVP sweeps of either kind on one environment *)
Inductive tmethod := T1 | T2.
Definition tdvp_sweep (pre : bool) (N : Z) (m : tmethod) (s : st) : st :=
  match m with
  | T1 => run_sweep pre N tdvp_1site_passes tdvp_1site_body tdvp_1site_final s
  | T2 => run_sweep pre N tdvp_2site_passes tdvp_2site_body tdvp_2site_final s
  end.
Definition ready_state_tdvp := ready_state.

Theorem tdvp_all_reads_fresh N ms : 2 <= N ->
  ok (fold_left (fun s m => tdvp_sweep false N m s) ms (ready_state N)) = true /\ ok (fold_left (fun s m => tdvp_sweep true N m s) ms (ready_state N)) = true.
Proof.
  intro HN.
  assert (R0 : P N (-1) (-1) (ready_state N)).
  { unfold P, ready_state. cbn [ok pc L R]. repeat split; try reflexivity.
    - replace ((0 <=? N) && (N <=? N)) with true by lia. reflexivity.
    - intros k Hk. lia.
    - intros k Hk. replace ((0 <=? k) && (k <=? N)) with true by lia. reflexivity. }
  assert (R1 : PC N (-1) (-1) (-1) 0 (ready_state N)).
  { split; [exact R0|]. split; intros j Hj; cbn; discriminate. }
  split.
  - assert (G : forall ms s, P N (-1) (-1) s -> P N (-1) (-1) (fold_left (fun s m => tdvp_sweep false N m s) ms s)).
    { induction ms0 as [|m r IH]; intros s Hs; cbn [fold_left]; [exact Hs|]. apply IH. destruct m; cbn [tdvp_sweep].
      - apply tdvp_1site_sweep; [lia|]. eapply P_weaken; [exact Hs|lia|lia].
      - apply tdvp_2site_sweep; [lia|]. eapply P_weaken; [exact Hs|lia|lia]. }
    destruct (G ms _ R0) as (Hok & _). exact Hok.
  - assert (G : forall ms s, PC N (-1) (-1) (-1) 0 s -> PC N (-1) (-1) (-1) 0 (fold_left (fun s m => tdvp_sweep true N m s) ms s)).
    { induction ms0 as [|m r IH]; intros s Hs; cbn [fold_left]; [exact Hs|]. apply IH. destruct m; cbn [tdvp_sweep].
      - eapply PC_weaken; [apply tdvp_1site_sweep_pre; [lia|]; eapply PC_weaken; [exact Hs|lia|lia|lia|lia] |lia|lia|lia|lia].
      - apply tdvp_2site_sweep_pre; [lia|]. eapply PC_weaken; [exact Hs|lia|lia|lia|lia]. }
    destruct (G ms _ R1) as ((Hok & _) & _). exact Hok.
Qed.
