(* one block of the mixed TDVP sweep with precompute (split over files so that they compile in parallel) *)
From Coq Require Import List ZArith Bool Lia ZifyBool.
From Yv Require Import Sweep.Sweep Gen.SweepGen Sweep.SweepBase Sweep.SweepTdvp12.
Import ListNotations.
Open Scope Z_scope.

Lemma two_C_first_pre N n s : 0 <= n <= N - 2 -> PC N (n + 1) (n + 1) (n + 1) (n + 1) s ->
  PC N (n - 1) (Z.max (n - 1) 0) (n - 1) (n - 1) (run_ops true N (tdvp_12site_two N n 0 ToFirst ++ tdvp_12site_two_C N n 0 ToFirst) s).
Proof.
  intros Hn ((Hok & Hpc & HL & HR & HLs & HRs) & HCL & HCR). unfold tdvp_12site_two, tdvp_12site_two_C; cbn [app].
  destruct (Z.eq_dec n 0) as [En|En]; [subst n|]; seq_PC Hok Hpc HCL HCR.
Qed.

