(* SweepTdvpPreT2L.v -- one loop iteration of the TDVP sweeps, precompute variant (cached products) *)
From Coq Require Import List ZArith Bool Lia ZifyBool.
From Yv Require Import Sweep.Sweep Gen.SweepGen Sweep.SweepBase.
Import ListNotations.
Open Scope Z_scope.

Lemma tdvp2_last_pre N n s : 0 <= n < N - 1 -> PC N n (n + 1) n (n + 1) s -> PC N (n + 1) (n + 1) (n + 1) n (run_ops true N (tdvp_2site_body N n 1 ToLast) s).
Proof.
  intros Hn ((Hok & Hpc & HL & HR & HLs & HRs) & HCL & HCR).
  destruct (Z.eq_dec (n + 1) (N - 1)) as [En|En]; body_PC tdvp_2site_body Hok Hpc HCL HCR.
Qed.
