(* SweepTdvp12.v -- the mixed 1-site / 2-site TDVP sweep ('12site'): which update is used at a site depends on the data (env.enlarge_bond).
   The four blocks of operations are GENERATED from _tdvp_sweep_12site_ (Gen/SweepGen.v); the control skeleton below is hand-written (the
   translator checks the shape of the source literally; real runs are compared with it given the recorded decisions).  The decisions are an
   arbitrary oracle, except that no bond is enlarged across the ends of the chain.  Proved for every chain length and EVERY oracle: all
   environment reads are fresh and the sweep hands the environment over ready. *)
From Coq Require Import List ZArith Bool Lia ZifyBool.
From Yv Require Import Sweep.Sweep Gen.SweepGen Sweep.SweepBase Sweep.SweepTdvpBody.
Import ListNotations.
Open Scope Z_scope.

Definition enl (N : Z) (o : bool) (b0 b1 : Z) : bool := if (b0 <? 0) || (N <=? b1) then false else o.
Definition nxt (to : dirn) (n : Z) : Z := match to with ToLast => n + 1 | ToFirst => n - 1 end.

Fixpoint pass12 (pre : bool) (N : Z) (to : dirn) (dn : Z) (fuel : nat) (n : Z) (orc : Z -> bool * bool) (flag : bool) (s : st) : st :=
  match fuel with
  | O => s
  | S f =>
    if negb flag then
      if enl N (fst (orc n)) (n - 1 + dn) (n + dn) then pass12 pre N to dn f (nxt to n) orc true s
      else pass12 pre N to dn f (nxt to n) orc false (run_ops pre N (tdvp_12site_one N n dn to) s)
    else
      let s1 := run_ops pre N (tdvp_12site_two N n dn to) s in
      if enl N (snd (orc n)) (n - 1 + dn) (n + dn) then pass12 pre N to dn f (nxt to n) orc true (run_ops pre N (tdvp_12site_two_A N n dn to) s1)
      else pass12 pre N to dn f (nxt to n) orc false (run_ops pre N (tdvp_12site_two_C N n dn to) s1)
  end.
Definition sweep12 (pre : bool) (N : Z) (orcL orcF : Z -> bool * bool) (s : st) : st :=
  run_ops pre N (tdvp_12site_final N)
    (pass12 pre N ToFirst 0 (Z.to_nat N) (N - 1) orcF false (pass12 pre N ToLast 1 (Z.to_nat N) 0 orcL false s)).

Lemma run_ops_app pre N a b s : run_ops pre N (a ++ b) s = run_ops pre N b (run_ops pre N a s).
Proof. unfold run_ops. apply fold_left_app. Qed.
(* the 1-site block is the body of the 1-site sweep *)
Lemma one_is_1site N n dn to : tdvp_12site_one N n dn to = tdvp_1site_body N n 0 to.
Proof. reflexivity. Qed.

(* merged update of sites (n-1, n) going to the last site, then backward update of site n (the next bond will be merged as well) *)
Lemma two_A_last N n s : 1 <= n <= N - 2 -> P N (n - 1) (n - 1) s ->
  P N n n (run_ops false N (tdvp_12site_two N n 1 ToLast ++ tdvp_12site_two_A N n 1 ToLast) s).
Proof. intros Hn (Hok & Hpc & HL & HR & HLs & HRs). unfold tdvp_12site_two, tdvp_12site_two_A; cbn [app]. seq_P Hok Hpc. Qed.
(* ... or orthogonalisation of site n and backward update of the centre *)
Lemma two_C_last N n s : 1 <= n <= N - 1 -> P N (n - 1) (n - 1) s ->
  P N (Z.min (n + 1) (N - 1)) (n + 1) (run_ops false N (tdvp_12site_two N n 1 ToLast ++ tdvp_12site_two_C N n 1 ToLast) s).
Proof.
  intros Hn (Hok & Hpc & HL & HR & HLs & HRs). unfold tdvp_12site_two, tdvp_12site_two_C; cbn [app].
  destruct (Z.eq_dec n (N - 1)) as [En|En]; [subst n|]; seq_P Hok Hpc.
Qed.
Lemma two_A_first N n s : 1 <= n <= N - 2 -> P N (n + 1) (n + 1) s ->
  P N n n (run_ops false N (tdvp_12site_two N n 0 ToFirst ++ tdvp_12site_two_A N n 0 ToFirst) s).
Proof. intros Hn (Hok & Hpc & HL & HR & HLs & HRs). unfold tdvp_12site_two, tdvp_12site_two_A; cbn [app]. seq_P Hok Hpc. Qed.
Lemma two_C_first N n s : 0 <= n <= N - 2 -> P N (n + 1) (n + 1) s ->
  P N (n - 1) (Z.max (n - 1) 0) (run_ops false N (tdvp_12site_two N n 0 ToFirst ++ tdvp_12site_two_C N n 0 ToFirst) s).
Proof.
  intros Hn (Hok & Hpc & HL & HR & HLs & HRs). unfold tdvp_12site_two, tdvp_12site_two_C; cbn [app].
  destruct (Z.eq_dec n 0) as [En|En]; [subst n|]; seq_P Hok Hpc.
Qed.

(* ---- the passes, for every oracle *)
Definition InvL (N : Z) (flag : bool) (n : Z) (s : st) : Prop :=
  if flag then 1 <= n <= N - 1 /\ P N (n - 1) (n - 1) s else P N (Z.min n (N - 1)) n s.
Definition InvF (N : Z) (flag : bool) (n : Z) (s : st) : Prop :=
  if flag then 0 <= n <= N - 2 /\ P N (n + 1) (n + 1) s else P N n (Z.max n 0) s.

Lemma pass12_last N orc : forall fuel n flag s, 1 <= N -> 0 <= n -> n + Z.of_nat fuel = N -> InvL N flag n s ->
  P N (N - 1) N (pass12 false N ToLast 1 fuel n orc flag s).
Proof.
  induction fuel as [|f IH]; intros n flag s HN Hn Hf Hinv.
  - cbn [pass12]. unfold InvL in Hinv. destruct flag.
    + destruct Hinv as [Hr _]. lia.
    + replace n with N in * by lia. replace (Z.min N (N - 1)) with (N - 1) in Hinv by lia. exact Hinv.
  - cbn [pass12 nxt]. unfold InvL in Hinv. destruct flag; cbn [negb].
    + destruct Hinv as [Hr Hp]. unfold enl.
      destruct ((n - 1 + 1 <? 0) || (N <=? n + 1)) eqn:Eo.
      * (* the next bond would leave the chain: centre branch *)
        apply IH; try lia. unfold InvL. rewrite <- run_ops_app. apply two_C_last; [lia|exact Hp].
      * destruct (snd (orc n)).
        -- apply IH; try lia. unfold InvL. split; [lia|]. rewrite <- run_ops_app. replace (n + 1 - 1) with n by lia. apply two_A_last; [lia|exact Hp].
        -- apply IH; try lia. unfold InvL. rewrite <- run_ops_app. apply two_C_last; [lia|exact Hp].
    + unfold enl. destruct ((n - 1 + 1 <? 0) || (N <=? n + 1)) eqn:Eo.
      * apply IH; try lia. unfold InvL. rewrite one_is_1site. replace (Z.min n (N - 1)) with n in Hinv by lia. apply tdvp1_last; [lia|exact Hinv].
      * destruct (fst (orc n)).
        -- apply IH; try lia. unfold InvL. split; [lia|]. replace (n + 1 - 1) with n by lia. replace (Z.min n (N - 1)) with n in Hinv by lia. exact Hinv.
        -- apply IH; try lia. unfold InvL. rewrite one_is_1site. replace (Z.min n (N - 1)) with n in Hinv by lia. apply tdvp1_last; [lia|exact Hinv].
Qed.

Lemma pass12_first N orc : forall fuel n flag s, 1 <= N -> n <= N - 1 -> Z.of_nat fuel = n + 1 -> InvF N flag n s ->
  P N (-1) 0 (pass12 false N ToFirst 0 fuel n orc flag s).
Proof.
  induction fuel as [|f IH]; intros n flag s HN Hn Hf Hinv.
  - cbn [pass12]. unfold InvF in Hinv. destruct flag.
    + destruct Hinv as [Hr _]. lia.
    + replace n with (-1) in * by lia. exact Hinv.
  - cbn [pass12 nxt]. unfold InvF in Hinv. destruct flag; cbn [negb].
    + destruct Hinv as [Hr Hp]. unfold enl. replace (n - 1 + 0) with (n - 1) by lia. replace (n + 0) with n by lia.
      destruct ((n - 1 <? 0) || (N <=? n)) eqn:Eo.
      * apply IH; try lia. unfold InvF. rewrite <- run_ops_app. replace (Z.max (n - 1) 0) with (Z.max (n - 1) 0) by reflexivity. apply two_C_first; [lia|exact Hp].
      * destruct (snd (orc n)).
        -- apply IH; try lia. unfold InvF. split; [lia|]. rewrite <- run_ops_app. replace (n - 1 + 1) with n by lia. apply two_A_first; [lia|exact Hp].
        -- apply IH; try lia. unfold InvF. rewrite <- run_ops_app. apply two_C_first; [lia|exact Hp].
    + unfold enl. replace (n - 1 + 0) with (n - 1) by lia. replace (n + 0) with n by lia.
      assert (Hn0 : 0 <= n) by lia. replace (Z.max n 0) with n in Hinv by lia.
      destruct ((n - 1 <? 0) || (N <=? n)) eqn:Eo.
      * apply IH; try lia. unfold InvF. rewrite one_is_1site. apply tdvp1_first; [lia|exact Hinv].
      * destruct (fst (orc n)).
        -- apply IH; try lia. unfold InvF. split; [lia|]. replace (n - 1 + 1) with n by lia. exact Hinv.
        -- apply IH; try lia. unfold InvF. rewrite one_is_1site. apply tdvp1_first; [lia|exact Hinv].
Qed.

(* the whole mixed sweep, for every chain length and every sequence of decisions *)
Theorem tdvp_12site_sweep N orcL orcF s : 1 <= N -> P N 0 0 s -> P N (-1) (-1) (sweep12 false N orcL orcF s).
Proof.
  intros HN H0. unfold sweep12.
  assert (H1 : P N (N - 1) N (pass12 false N ToLast 1 (Z.to_nat N) 0 orcL false s)).
  { apply pass12_last; try lia. unfold InvL. replace (Z.min 0 (N - 1)) with 0 by lia. exact H0. }
  match type of H1 with P _ _ _ ?t => assert (H2 : P N (-1) 0 (pass12 false N ToFirst 0 (Z.to_nat N) (N - 1) orcF false t)) end.
  { apply pass12_first; try lia. unfold InvF. replace (Z.max (N - 1) 0) with (N - 1) by lia. eapply P_weaken; [exact H1|lia|lia]. }
  destruct H2 as (Hok & Hpc & HL & HR & HLs & HRs).
  match goal with |- P _ _ _ (run_ops false N _ ?t) => set (t0 := t) in * end.
  unfold tdvp_12site_final. seq_P Hok Hpc.
Qed.

(* the same skeleton producing the list of operations (used to compare real runs, given their recorded decisions, with the model) *)
Fixpoint pass12_ops (N : Z) (to : dirn) (dn : Z) (fuel : nat) (n : Z) (orc : Z -> bool * bool) (flag : bool) : list op :=
  match fuel with
  | O => []
  | S f =>
    if negb flag then
      if enl N (fst (orc n)) (n - 1 + dn) (n + dn) then pass12_ops N to dn f (nxt to n) orc true
      else tdvp_12site_one N n dn to ++ pass12_ops N to dn f (nxt to n) orc false
    else
      if enl N (snd (orc n)) (n - 1 + dn) (n + dn) then tdvp_12site_two N n dn to ++ tdvp_12site_two_A N n dn to ++ pass12_ops N to dn f (nxt to n) orc true
      else tdvp_12site_two N n dn to ++ tdvp_12site_two_C N n dn to ++ pass12_ops N to dn f (nxt to n) orc false
  end.
Lemma pass12_is_run_ops pre N to dn orc : forall fuel n flag s, pass12 pre N to dn fuel n orc flag s = run_ops pre N (pass12_ops N to dn fuel n orc flag) s.
Proof.
  induction fuel as [|f IH]; intros n flag s; cbn [pass12 pass12_ops]; [reflexivity|].
  destruct (negb flag).
  - destruct (enl N (fst (orc n)) (n - 1 + dn) (n + dn)); [apply IH|]. rewrite run_ops_app. apply IH.
  - destruct (enl N (snd (orc n)) (n - 1 + dn) (n + dn)); rewrite !run_ops_app; apply IH.
Qed.
Definition sweep12_ops (N : Z) (orcL orcF : Z -> bool * bool) : list op :=
  pass12_ops N ToLast 1 (Z.to_nat N) 0 orcL false ++ pass12_ops N ToFirst 0 (Z.to_nat N) (N - 1) orcF false ++ tdvp_12site_final N.
Lemma sweep12_is_run_ops pre N orcL orcF s : sweep12 pre N orcL orcF s = run_ops pre N (sweep12_ops N orcL orcF) s.
Proof. unfold sweep12, sweep12_ops. rewrite !run_ops_app, !pass12_is_run_ops. reflexivity. Qed.
