(* SweepDmrgBody.v -- one loop iteration of the DMRG sweeps (programs generated from yastn/tn/mps/_dmrg.py): every environment read is fresh, for every chain length *)
From Coq Require Import List ZArith Bool Lia ZifyBool.
From Yv Require Import Sweep.Sweep Gen.SweepGen Sweep.SweepBase.
Import ListNotations.
Open Scope Z_scope.

(* ------------------------------------------------------------------ DMRG, one site *)
Lemma dmrg1_last N n s : 0 <= n < N -> P N n n s -> P N (n + 1) (n + 1) (run_ops false N (dmrg_1site_body N n 0 ToLast) s).
Proof.
  intros Hn (Hok & Hpc & HL & HR & HLs & HRs).
  assert (E2 : R s (n + 1) = Fresh) by (destruct (Z.eq_dec (n + 1) N) as [->|]; [exact HR|apply HRs; lia]).
  run_body dmrg_1site_body. fresh_reads. rewrite Hpc. cbn [write set_ok set_pc pc ok L R CL CR andb orb].
  close_P Hok.
Qed.
Lemma dmrg1_first N n s : 0 <= n < N -> P N n n s -> P N (n - 1) (n - 1) (run_ops false N (dmrg_1site_body N n 0 ToFirst) s).
Proof.
  intros Hn (Hok & Hpc & HL & HR & HLs & HRs).
  assert (E2 : R s (n + 1) = Fresh) by (destruct (Z.eq_dec (n + 1) N) as [->|]; [exact HR|apply HRs; lia]).
  run_body dmrg_1site_body. fresh_reads. rewrite Hpc. cbn [write set_ok set_pc pc ok L R CL CR andb orb].
  close_P Hok.
Qed.

Lemma dmrg1_last_pre N n s : 0 <= n < N -> PC N n n n n s -> PC N (n + 1) (n + 1) (n + 1) (n + 1) (run_ops true N (dmrg_1site_body N n 0 ToLast) s).
Proof.
  intros Hn ((Hok & Hpc & HL & HR & HLs & HRs) & HCL & HCR).
  exec_body dmrg_1site_body. repeat (dcache HCL HCR; pc_none Hpc).
  all: destruct (Z.eq_dec n (N - 1)) as [En|En]; [subst n|]; dcache HCL HCR; simp; read_LR; simp.
  all: close_PC Hok.
Qed.
Lemma dmrg1_first_pre N n s : 0 <= n < N -> PC N n n n n s -> PC N (n - 1) (n - 1) (n - 1) (n - 1) (run_ops true N (dmrg_1site_body N n 0 ToFirst) s).
Proof.
  intros Hn ((Hok & Hpc & HL & HR & HLs & HRs) & HCL & HCR).
  exec_body dmrg_1site_body. repeat (dcache HCL HCR; pc_none Hpc).
  all: destruct (Z.eq_dec n 0) as [En|En]; [subst n|]; dcache HCL HCR; simp; read_LR; simp.
  all: close_PC Hok.
Qed.

(* ------------------------------------------------------------------ DMRG, two sites: head of bond (n, n+1) *)
Lemma dmrg2_last N n s : 0 <= n < N - 1 -> P N n (n + 1) s -> P N (n + 1) (n + 1) (run_ops false N (dmrg_2site_body N n 0 ToLast) s).
Proof. intros Hn (Hok & Hpc & HL & HR & HLs & HRs). body_P dmrg_2site_body Hok Hpc. Qed.
Lemma dmrg2_first N n s : 0 <= n < N - 1 -> P N n (n + 1) s -> P N n n (run_ops false N (dmrg_2site_body N n 1 ToFirst) s).
Proof. intros Hn (Hok & Hpc & HL & HR & HLs & HRs). body_P dmrg_2site_body Hok Hpc. Qed.
Lemma dmrg2_last_pre N n s : 0 <= n < N - 1 -> PC N n (n + 1) n (n + 1) s -> PC N (n + 1) (n + 1) (n + 1) n (run_ops true N (dmrg_2site_body N n 0 ToLast) s).
Proof. intros Hn ((Hok & Hpc & HL & HR & HLs & HRs) & HCL & HCR). body_PC dmrg_2site_body Hok Hpc HCL HCR. Qed.
Lemma dmrg2_first_pre N n s : 0 <= n < N - 1 -> PC N n (n + 1) n (n + 1) s -> PC N n n (n + 2) (n - 1) (run_ops true N (dmrg_2site_body N n 1 ToFirst) s).
Proof. intros Hn ((Hok & Hpc & HL & HR & HLs & HRs) & HCL & HCR). body_PC dmrg_2site_body Hok Hpc HCL HCR. Qed.

