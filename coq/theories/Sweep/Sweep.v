(* Sweep.v -- environment bookkeeping of the MPS sweep algorithms (DMRG, TDVP) as a state machine.
   An environment tensor is tracked only through its STATUS: absent from the dictionary env.F, present and computed from the current site
   tensors (Fresh), or present but computed from a site tensor that has been overwritten since (Stale).
     L k  = env.F[(k, k+1)]   left  environment, covers sites 0..k      (k = -1 .. N-1; L (-1) is the boundary)
     R k  = env.F[(k, k-1)]   right environment, covers sites k..N-1    (k = 0 .. N;    R N    is the boundary)
     CL j = env.F[(j-1, j, j)] cached product of L (j-1) with the MPO tensor of site j   (precompute variant only)
     CR j = env.F[(j+1, j, j)] cached product of R (j+1) with the MPO tensor of site j   (precompute variant only)
   Every read of an entry must find it Fresh; a read of an Absent entry is the KeyError of the code, a read of a Stale entry is a silently
   wrong effective Hamiltonian.  The semantics of the operations below is hand-written from yastn/tn/mps/_env.py and _mps_obc.py and tied
   to the code by the footprint correspondence of C09/C10 (opcode 130); the PROGRAMS (order of operations in each sweep) are generated from
   _dmrg.py / _tdvp.py into Gen/SweepGen.v. *)
From Coq Require Import List ZArith Bool.
Import ListNotations.
Open Scope Z_scope.

Inductive status := Absent | Fresh | Stale.
Inductive dirn := ToFirst | ToLast.

Record st := { L : Z -> status; R : Z -> status; CL : Z -> status; CR : Z -> status;
               pc : option (Z * Z);        (* position of the central block *)
               ok : bool }.                (* false once any read saw a missing / stale entry or a gauge move was refused *)

Definition stale_of (x : status) : status := match x with Absent => Absent | _ => Stale end.
Definition stale_if (b : bool) (x : status) : status := if b then stale_of x else x.
Definition upd (f : Z -> status) (k : Z) (v : status) : Z -> status := fun j => if j =? k then v else f j.
Definition is_fresh (x : status) : bool := match x with Fresh => true | _ => false end.
Definition is_present (x : status) : bool := match x with Absent => false | _ => true end.

(* site n gets a new tensor: everything computed from it goes stale *)
Definition write (n : Z) (s : st) : st :=
  {| L := fun k => stale_if (n <=? k) (L s k);
     R := fun k => stale_if (k <=? n) (R s k);
     CL := fun j => stale_if (n <=? j - 1) (CL s j);
     CR := fun j => stale_if (j + 1 <=? n) (CR s j);
     pc := pc s; ok := ok s |}.

Definition set_ok (b : bool) (s : st) : st := {| L := L s; R := R s; CL := CL s; CR := CR s; pc := pc s; ok := ok s && b |}.
Definition set_pc (p : option (Z * Z)) (s : st) : st := {| L := L s; R := R s; CL := CL s; CR := CR s; pc := p; ok := ok s |}.

(* get_FL / get_FR of the precompute variant: fill the cache from the environment if it is not there, then read it *)
Definition get_FL (n : Z) (s : st) : st :=
  match CL s n with
  | Absent => set_ok (is_fresh (L s (n - 1))) {| L := L s; R := R s; CL := upd (CL s) n (match L s (n - 1) with Fresh => Fresh | _ => Stale end); CR := CR s; pc := pc s; ok := ok s |}
  | x => set_ok (is_fresh x) s
  end.
Definition get_FR (n : Z) (s : st) : st :=
  match CR s n with
  | Absent => set_ok (is_fresh (R s (n + 1))) {| L := L s; R := R s; CL := CL s; CR := upd (CR s) n (match R s (n + 1) with Fresh => Fresh | _ => Stale end); pc := pc s; ok := ok s |}
  | x => set_ok (is_fresh x) s
  end.

Inductive op :=
| OHeff0                         (* effective Hamiltonian on the central block (skipped outside the chain, as _update_C does) *)
| OHeff1 (n : Z)
| OHeff2 (n : Z)                 (* on the bond (n, n+1) *)
| OWrite1 (n : Z)                (* post_1site_ *)
| OWrite2 (n : Z)                (* post_2site_: sites n, n+1 and a central block between them *)
| OWriteC                        (* the central block is replaced (no environment depends on it) *)
| OOrth (n : Z) (to : dirn)      (* orthogonalize_site_ *)
| OAbsorb (to : dirn)            (* absorb_central_ *)
| OClear (n : Z)                 (* env.clear_site_(n) *)
| OUpdate (n : Z) (to : dirn)    (* env.update_env_(n, to) *)
| OMeasure                       (* env.measure() at the default bond (-1, 0) *)
| OIf (c : bool) (body : list op).

Definition step1 (pre : bool) (N : Z) (o : op) (s : st) : st :=
  match o with
  | OHeff0 =>
    (* outside the chain nothing is read (and nothing updated); written without duplicating the state term *)
    set_ok (match pc s with
            | Some (n1, n2) => ((n1 =? -1) || (n2 =? N)) || (is_fresh (L s n1) && is_fresh (R s n2))
            | None => false
            end) s
  | OHeff1 n => if pre then set_ok (is_fresh (L s (n - 1))) (get_FR n s) else set_ok (is_fresh (L s (n - 1)) && is_fresh (R s (n + 1))) s
  | OHeff2 n => if pre then get_FR (n + 1) (get_FL n s) else set_ok (is_fresh (L s (n - 1)) && is_fresh (R s (n + 2))) s
  | OWrite1 n => write n s
  | OWrite2 n => set_pc (Some (n, n + 1)) (write (n + 1) (write n s))
  | OWriteC => set_ok (match pc s with Some _ => true | None => false end) s
  | OOrth n to =>
    match pc s with
    | Some _ => set_ok false s
    | None => set_pc (Some (match to with ToLast => (n, n + 1) | ToFirst => (n - 1, n) end)) (write n s)
    end
  | OAbsorb to =>
    match pc s with
    | None => s
    | Some (n1, n2) =>
      let into := if ((match to with ToFirst => true | ToLast => false end) && (0 <=? n1)) || (N - 1 <? n2) then n1 else n2 in
      set_pc None (write into s)
    end
  | OClear n =>
    {| L := upd (L s) n Absent; R := upd (R s) n Absent;
       CL := if pre then upd (CL s) (n + 1) Absent else CL s;
       CR := if pre then upd (CR s) (n - 1) Absent else CR s; pc := pc s; ok := ok s |}
  | OUpdate n ToLast =>
    let src := if pre && is_present (CL s n) then CL s n else L s (n - 1) in
    set_ok (is_fresh src) {| L := upd (L s) n (match src with Fresh => Fresh | _ => Stale end); R := R s; CL := CL s; CR := CR s; pc := pc s; ok := ok s |}
  | OUpdate n ToFirst =>
    let src := if pre && is_present (CR s n) then CR s n else R s (n + 1) in
    set_ok (is_fresh src) {| L := L s; R := upd (R s) n (match src with Fresh => Fresh | _ => Stale end); CL := CL s; CR := CR s; pc := pc s; ok := ok s |}
  | OMeasure => set_ok (is_fresh (L s (-1)) && is_fresh (R s 0)) s
  | OIf _ _ => s
  end.

Fixpoint step (pre : bool) (N : Z) (o : op) (s : st) {struct o} : st :=
  match o with
  | OIf c body => if c then (fix go (l : list op) (s : st) : st := match l with [] => s | x :: r => go r (step pre N x s) end) body s else s
  | _ => step1 pre N o s
  end.
Definition run_ops (pre : bool) (N : Z) (l : list op) (s : st) : st := fold_left (fun s o => step pre N o s) l s.

(* the sites visited by psi.sweep(to, dl=dl) *)
Fixpoint upto (n : nat) : list Z := match n with O => [] | S k => upto k ++ [Z.of_nat k] end.
Definition sites (N : Z) (to : dirn) (dl : Z) : list Z :=
  match to with
  | ToLast => upto (Z.to_nat (N - dl))
  | ToFirst => rev (upto (Z.to_nat (N - dl)))
  end.
Definition edge (N : Z) (to : dirn) : Z := match to with ToLast => N - 1 | ToFirst => 0 end.

(* a sweep: for (to, dn, dl) in passes: for n in sweep(to, dl): body; then final *)
Definition run_pass (pre : bool) (N : Z) (body : Z -> Z -> Z -> dirn -> list op) (p : dirn * Z * Z) (s : st) : st :=
  let '(to, dn, dl) := p in fold_left (fun s n => run_ops pre N (body N n dn to) s) (sites N to dl) s.
Definition run_sweep (pre : bool) (N : Z) (passes : list (dirn * Z * Z)) (body : Z -> Z -> Z -> dirn -> list op) (final : Z -> list op) (s : st) : st :=
  run_ops pre N (final N) (fold_left (fun s p => run_pass pre N body p s) passes s).

(* the state Env(...).setup_(to='first') leaves behind for a state without central block *)
Definition ready_state (N : Z) : st :=
  {| L := fun k => if k =? -1 then Fresh else Absent;
     R := fun k => if (0 <=? k) && (k <=? N) then Fresh else Absent;
     CL := fun _ => Absent; CR := fun _ => Absent; pc := None; ok := true |}.
