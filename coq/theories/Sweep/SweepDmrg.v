(* SweepDmrg.v -- DMRG sweeps (programs generated from yastn/tn/mps/_dmrg.py): every environment read is fresh, for every chain length *)
From Coq Require Import List ZArith Bool Lia ZifyBool.
From Yv Require Import Sweep.Sweep Gen.SweepGen Sweep.SweepBase Sweep.SweepDmrgBody.
Import ListNotations.
Open Scope Z_scope.

Theorem dmrg_1site_sweep N s : 1 <= N -> P N 0 0 s ->
  let s' := run_sweep false N dmrg_1site_passes dmrg_1site_body dmrg_1site_final s in P N (-1) (-1) s' /\ ok (step false N OMeasure s') = true.
Proof.
  intros HN H0. unfold run_sweep, dmrg_1site_passes, dmrg_1site_final. cbn [fold_left run_pass sites run_ops].
  replace (N - 0) with N by lia.
  pose proof (pass_last false dmrg_1site_body N 0 (Z.to_nat N) s) as H1. rewrite Z2Nat.id in H1 by lia.
  specialize (H1 (fun n s Hn => dmrg1_last N n s Hn) H0).
  apply (P_weaken N N N (N - 1) (N - 1)) in H1; [|lia|lia].
  match type of H1 with P _ _ _ ?t => pose proof (pass_first false dmrg_1site_body N 0 (Z.to_nat N) t) as H2 end. rewrite Z2Nat.id in H2 by lia.
  specialize (H2 (fun n s Hn => dmrg1_first N n s Hn) H1). cbv zeta. split; [exact H2|]. apply (measure_ok N); [exact H2|lia].
Qed.

(* ------------------------------------------------------------------ whole sweeps *)
Theorem dmrg_1site_sweep_pre N s : 1 <= N -> PC N 0 0 0 0 s ->
  let s' := run_sweep true N dmrg_1site_passes dmrg_1site_body dmrg_1site_final s in PC N (-1) (-1) (-1) (-1) s' /\ ok (step true N OMeasure s') = true.
Proof.
  intros HN H0. unfold run_sweep, dmrg_1site_passes, dmrg_1site_final. cbn [fold_left run_pass sites run_ops].
  replace (N - 0) with N by lia.
  assert (H1 : PC N N N N N (fold_left (fun s n => run_ops true N (dmrg_1site_body N n 0 ToLast) s) (upto (Z.to_nat N)) s)).
  { pose proof (fold_upto_last (fun s n => run_ops true N (dmrg_1site_body N n 0 ToLast) s) (fun k s => PC N k k k k s) (Z.to_nat N)) as F.
    rewrite Z2Nat.id in F by lia. apply F; [|exact H0]. intros k s0 Hk. apply dmrg1_last_pre. lia. }
  apply (PC_weaken N N N N N (N - 1) (N - 1) (N - 1) (N - 1)) in H1; [|lia|lia|lia|lia].
  match type of H1 with PC _ _ _ _ _ ?t =>
    pose proof (fold_upto_first (fun s n => run_ops true N (dmrg_1site_body N n 0 ToFirst) s) (fun k s => PC N (k - 1) (k - 1) (k - 1) (k - 1) s) (Z.to_nat N)) as F end.
  rewrite Z2Nat.id in F by lia.
  match type of H1 with PC _ _ _ _ _ ?t => specialize (F ltac:(intros k s0 Hk Hs; replace (k + 1 - 1) with k in Hs by lia; apply dmrg1_first_pre; [lia|exact Hs]) t H1) end.
  cbv zeta. split; [exact F|]. apply (measure_ok_PC N (-1) (-1)); [exact F|lia].
Qed.

Theorem dmrg_2site_sweep N s : 2 <= N -> P N 0 1 s ->
  let s' := run_sweep false N dmrg_2site_passes dmrg_2site_body dmrg_2site_final s in P N (-1) (-1) s' /\ ok (step false N OMeasure s') = true.
Proof.
  intros HN H0. unfold run_sweep, dmrg_2site_passes, dmrg_2site_final. cbn [fold_left run_pass sites].
  assert (H1 : P N (N - 1) N (fold_left (fun s n => run_ops false N (dmrg_2site_body N n 0 ToLast) s) (upto (Z.to_nat (N - 1))) s)).
  { pose proof (fold_upto_last (fun s n => run_ops false N (dmrg_2site_body N n 0 ToLast) s) (fun k s => P N k (k + 1) s) (Z.to_nat (N - 1))) as F.
    rewrite Z2Nat.id in F by lia. replace (N - 1 + 1) with N in F by lia. apply F; [|exact H0].
    intros k s0 Hk Hs. apply (P_weaken N (k + 1) (k + 1)); [apply dmrg2_last; [lia|exact Hs]|lia|lia]. }
  apply (P_weaken N (N - 1) N (N - 2) (N - 1)) in H1; [|lia|lia].
  match type of H1 with P _ _ _ ?t =>
    pose proof (fold_upto_first (fun s n => run_ops false N (dmrg_2site_body N n 1 ToFirst) s) (fun k s => P N (k - 1) k s) (Z.to_nat (N - 1))) as F;
    rewrite Z2Nat.id in F by lia;
    specialize (F ltac:(intros k s0 Hk Hs; replace (k + 1 - 1) with k in Hs by lia; apply (P_weaken N k k); [apply dmrg2_first; [lia|exact Hs]|lia|lia]) t);
    replace (N - 1 - 1) with (N - 2) in F by lia; specialize (F H1) end.
  (* the final update of the right environment of the first site *)
  destruct F as (Hok & Hpc & HL & HR & HLs & HRs).
  match goal with |- P _ _ _ (run_ops false N [OUpdate 0 ToFirst] ?t) /\ _ => set (t0 := t) in * end.
  assert (Hf : P N (-1) (-1) (run_ops false N [OUpdate 0 ToFirst] t0)).
  { exec_body run_ops. simp. read_LR. simp. close_P Hok. }
  split; [exact Hf|]. apply (measure_ok N); [exact Hf|lia].
Qed.

Theorem dmrg_2site_sweep_pre N s : 2 <= N -> PC N 0 1 0 1 s ->
  let s' := run_sweep true N dmrg_2site_passes dmrg_2site_body dmrg_2site_final s in PC N (-1) (-1) (-1) 0 s' /\ ok (step true N OMeasure s') = true.
Proof.
  intros HN H0. unfold run_sweep, dmrg_2site_passes, dmrg_2site_final. cbn [fold_left run_pass sites].
  assert (H1 : PC N (N - 1) N (N - 1) N (fold_left (fun s n => run_ops true N (dmrg_2site_body N n 0 ToLast) s) (upto (Z.to_nat (N - 1))) s)).
  { pose proof (fold_upto_last (fun s n => run_ops true N (dmrg_2site_body N n 0 ToLast) s) (fun k s => PC N k (k + 1) k (k + 1) s) (Z.to_nat (N - 1))) as F.
    rewrite Z2Nat.id in F by lia. replace (N - 1 + 1) with N in F by lia. apply F; [|exact H0].
    intros k s0 Hk Hs. apply (PC_weaken N (k + 1) (k + 1) (k + 1) k); [apply dmrg2_last_pre; [lia|exact Hs]|lia|lia|lia|lia]. }
  apply (PC_weaken N (N - 1) N (N - 1) N (N - 2) (N - 1) (N - 2) (N - 1)) in H1; [|lia|lia|lia|lia].
  match type of H1 with PC _ _ _ _ _ ?t =>
    pose proof (fold_upto_first (fun s n => run_ops true N (dmrg_2site_body N n 1 ToFirst) s) (fun k s => PC N (k - 1) k (k - 1) k s) (Z.to_nat (N - 1))) as F;
    rewrite Z2Nat.id in F by lia;
    specialize (F ltac:(intros k s0 Hk Hs; replace (k + 1 - 1) with k in Hs by lia;
                        apply (PC_weaken N k k (k + 2) (k - 1)); [apply dmrg2_first_pre; [lia|exact Hs]|lia|lia|lia|lia]) t);
    replace (N - 1 - 1) with (N - 2) in F by lia; specialize (F H1) end.
  destruct F as ((Hok & Hpc & HL & HR & HLs & HRs) & HCL & HCR).
  match goal with |- PC _ _ _ _ _ (run_ops true N [OUpdate 0 ToFirst] ?t) /\ _ => set (t0 := t) in * end.
  assert (Hf : PC N (-1) (-1) (-1) 0 (run_ops true N [OUpdate 0 ToFirst] t0)).
  { exec_body run_ops. dcache HCL HCR; simp; read_LR; simp; close_PC Hok. }
  split; [exact Hf|]. apply (measure_ok_PC N (-1) 0); [exact Hf|lia].
Qed.

(* ------------------------------------------------------------------ any number of sweeps, switching between the methods at will *)
Inductive method := M1 | M2.
Definition dmrg_sweep (pre : bool) (N : Z) (m : method) (s : st) : st :=
  match m with
  | M1 => run_sweep pre N dmrg_1site_passes dmrg_1site_body dmrg_1site_final s
  | M2 => run_sweep pre N dmrg_2site_passes dmrg_2site_body dmrg_2site_final s
  end.
(* dmrg_: energy measured on the set-up environment, then after every sweep *)
Definition dmrg_run (pre : bool) (N : Z) (ms : list method) (s : st) : st :=
  fold_left (fun s m => step pre N OMeasure (dmrg_sweep pre N m s)) ms (step pre N OMeasure s).

Lemma ready_P N : 0 <= N -> P N (-1) (-1) (ready_state N).
Proof.
  intro HN. unfold P, ready_state. cbn [ok pc L R]. repeat split; try reflexivity.
  - replace ((0 <=? N) && (N <=? N)) with true by lia. reflexivity.
  - intros k Hk. lia.
  - intros k Hk. replace ((0 <=? k) && (k <=? N)) with true by lia. reflexivity.
Qed.
Lemma ready_PC N : 0 <= N -> PC N (-1) (-1) (-1) 0 (ready_state N).
Proof. intro HN. split; [apply ready_P; exact HN|]. split; intros j Hj; cbn; discriminate. Qed.
Lemma measure_keeps pre N s : ok (step pre N OMeasure s) = true -> step pre N OMeasure s = s.
Proof.
  cbn [step step1]. unfold set_ok. cbn [ok]. intro H. apply andb_true_iff in H. destruct H as [H1 H2]. rewrite H2, andb_true_r. destruct s; reflexivity.
Qed.

Theorem dmrg_all_reads_fresh N ms : 2 <= N -> ok (dmrg_run false N ms (ready_state N)) = true /\ ok (dmrg_run true N ms (ready_state N)) = true.
Proof.
  intro HN. split.
  - unfold dmrg_run.
    assert (G : forall ms s, P N (-1) (-1) s -> P N (-1) (-1) (fold_left (fun s m => step false N OMeasure (dmrg_sweep false N m s)) ms s)).
    { induction ms0 as [|m r IH]; intros s Hs; cbn [fold_left]; [exact Hs|]. apply IH.
      destruct m; cbn [dmrg_sweep].
      - destruct (dmrg_1site_sweep N s ltac:(lia) (P_weaken N (-1) (-1) 0 0 s Hs ltac:(lia) ltac:(lia))) as [A B]. rewrite (measure_keeps _ _ _ B). exact A.
      - destruct (dmrg_2site_sweep N s ltac:(lia) (P_weaken N (-1) (-1) 0 1 s Hs ltac:(lia) ltac:(lia))) as [A B]. rewrite (measure_keeps _ _ _ B). exact A. }
    pose proof (ready_P N ltac:(lia)) as R0. destruct (measure_ok N _ R0 ltac:(lia)) as [B _].
    rewrite (measure_keeps _ _ _ B). destruct (G ms _ R0) as (Hok & _). exact Hok.
  - unfold dmrg_run.
    assert (G : forall ms s, PC N (-1) (-1) (-1) 0 s -> PC N (-1) (-1) (-1) 0 (fold_left (fun s m => step true N OMeasure (dmrg_sweep true N m s)) ms s)).
    { induction ms0 as [|m r IH]; intros s Hs; cbn [fold_left]; [exact Hs|]. apply IH.
      destruct m; cbn [dmrg_sweep].
      - destruct (dmrg_1site_sweep_pre N s ltac:(lia) (PC_weaken N (-1) (-1) (-1) 0 0 0 0 0 s Hs ltac:(lia) ltac:(lia) ltac:(lia) ltac:(lia))) as [A B].
        rewrite (measure_keeps _ _ _ B). eapply PC_weaken; [exact A|lia|lia|lia|lia].
      - destruct (dmrg_2site_sweep_pre N s ltac:(lia) (PC_weaken N (-1) (-1) (-1) 0 0 1 0 1 s Hs ltac:(lia) ltac:(lia) ltac:(lia) ltac:(lia))) as [A B].
        rewrite (measure_keeps _ _ _ B). exact A. }
    pose proof (ready_PC N ltac:(lia)) as R0. pose proof (measure_ok_PC N (-1) 0 _ R0 ltac:(lia)) as B.
    rewrite (measure_keeps _ _ _ B). destruct (G ms _ R0) as ((Hok & _) & _). exact Hok.
Qed.
