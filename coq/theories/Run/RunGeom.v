(* RunGeom.v -- wire entry points for the geometry model. *)
From Coq Require Import List ZArith Bool.
From Yv Require Import Base.Sx Base.LexOrder Geom.Lattice.
Import ListNotations.
Open Scope Z_scope.

Definition dBc (s : sx) : bc := match dZ s with 0 => Inf | 1 => Obc | _ => Cyl end.
Definition dSite (s : sx) : site := (dZ (dNth s 0), dZ (dNth s 1)).
Definition sSite (s : site) : sx := L [A (fst s); A (snd s)].
Definition sOSite := sOpt sSite.
Definition sBond (b : site * site) : sx := L [sSite (fst b); sSite (snd b)].
Definition sDirn (d : option dirn) : sx :=
  match d with None => A 0 | Some LR => A 1 | Some TB => A 2 | Some RL => A 3 | Some BT => A 4 end.

(* arg: (bc Nx Ny) -> (sites bonds_h bonds_v) *)
Definition run_sq_lists (a : sx) : sx :=
  let b := dBc (dNth a 0) in let Nx := dZ (dNth a 1) in let Ny := dZ (dNth a 2) in
  L [sList sSite (sq_sites Nx Ny); sList sBond (sq_bonds_h b Nx Ny); sList sBond (sq_bonds_v b Nx Ny)].

(* arg: (bc Nx Ny (sites...) (shifts...)) -> per site: (site2index, (nn_site per shift ...)) ; per pair of sites: f_ordered, nn_bond_dirn *)
Definition run_sq_pointwise (a : sx) : sx :=
  let b := dBc (dNth a 0) in let Nx := dZ (dNth a 1) in let Ny := dZ (dNth a 2) in
  let ss := dList dSite (dNth a 3) in let ds := dList dSite (dNth a 4) in
  L [ sList (fun s => L [sSite (site2index b Nx Ny s); sList (fun d => sOSite (nn_site b Nx Ny s d)) ds]) ss;
      sList (fun s0 => sList (fun s1 => L [sB (f_ordered s0 s1); sDirn (nn_bond_dirn b Nx Ny s0 s1)]) ss) ss ].

(* arg: pattern -> (0 sites bh bv (index per window site)) | (-1 code) ; window given as list of sites *)
Definition run_ruc (a : sx) : sx :=
  let p := dZss (dNth a 0) in
  match ruc_make p with
  | RucErrShape => sErr 1
  | RucErrEnv => sErr 2
  | RucOk ss bh bv => sOk (L [sList sSite ss; sList sBond bh; sList sBond bv;
                              sList (fun s => A (pat_get p s)) (dList dSite (dNth a 1))])
  end.

(* arg: (kind Nx Ny bc (sites...)) kind 0 = checkerboard, 1 = triangular 3-site, 2 = triangular full *)
Definition run_special (a : sx) : sx :=
  let ss := dList dSite (dNth a 4) in
  match dZ (dNth a 0) with
  | 0 => L [sList sSite cb_sites; sList sBond cb_bonds_h; sList sBond cb_bonds_v; L []; sList (fun s => A (cb_site2index s)) ss]
  | 1 => L [sList sSite tri3_sites; sList sBond tri3_bonds_h; sList sBond tri3_bonds_v; sList sBond tri3_bonds_d;
            sList (fun s => A (tri3_site2index s)) ss]
  | _ => let Nx := dZ (dNth a 1) in let Ny := dZ (dNth a 2) in let b := dBc (dNth a 3) in
         L [sList sSite (sq_sites Nx Ny); sList sBond (sq_bonds_h b Nx Ny); sList sBond (sq_bonds_v b Nx Ny);
            sList (fun p => L [sOSite (Some (fst p)); sOSite (Some (snd p))]) (trifull_bonds_d b Nx Ny);
            sList (fun s => A (trifull_site2index Nx Ny s)) ss]
  end.

(* container: arg (bc Nx Ny (ops...)), op = (0 site) get | (1 site v) set | (2 site) move_to_patch | (3) apply_patch
   result: list of observations of get ops: () KeyError, (()) None, ((v)) value *)
Definition pair_eqb (a b : site) := site_eqb a b.
Fixpoint run_lat_ops (s2i : site -> site) (l : lat site Z) (ops : list sx) : list sx :=
  match ops with
  | [] => []
  | o :: r =>
    match dZ (dNth o 0) with
    | 0 => sOpt (sOpt sZ) (lat_get site pair_eqb s2i Z l (dSite (dNth o 1))) :: run_lat_ops s2i l r
    | 1 => run_lat_ops s2i (lat_set site pair_eqb s2i Z l (dSite (dNth o 1)) (dZ (dNth o 2))) r
    | 2 => run_lat_ops s2i (lat_move_to_patch site pair_eqb s2i Z l (dSite (dNth o 1))) r
    | _ => run_lat_ops s2i (lat_apply_patch site pair_eqb s2i Z l) r
    end
  end.
Definition run_lattice (a : sx) : sx :=
  let b := dBc (dNth a 0) in let Nx := dZ (dNth a 1) in let Ny := dZ (dNth a 2) in
  let s2i := site2index b Nx Ny in
  L (run_lat_ops s2i (lat_init site pair_eqb s2i Z (sq_sites Nx Ny)) (dList (fun x => x) (dNth a 3))).
