From Coq Require Import List ZArith Bool.
From Yv Require Import Base.Sx Fusion.Fusion Gen.SymGen.
Import ListNotations.
Open Scope Z_scope.
(* arg: (symidx ss snew ((charges dims) ...)) -> (fused leg ((t D) ...)) (slices ((lo hi) ...)) *)
Definition run_fused_leg (a : sx) : sx :=
  let f := fuse_by_index (dZ (dNth a 0)) in
  let combos := dList (fun c => (dZss (dNth c 0), dList dN (dNth c 1))) (dNth a 3) in
  L [sList (fun e => L [sZs (fst e); sN (snd e)]) (fused_leg f (dZs (dNth a 1)) (dZ (dNth a 2)) combos);
     sList (fun e => L [sN (fst e); sN (snd e)]) (fused_slices f (dZs (dNth a 1)) (dZ (dNth a 2)) combos)].

(* arg: (symidx ss snew legs t_out) with legs = (((t D) ...) ...) -> fused leg, slices *)
Definition run_fused_leg_of (a : sx) : sx :=
  let f := fuse_by_index (dZ (dNth a 0)) in
  let legs := dList (dList (fun e => (dZs (dNth e 0), dN (dNth e 1)))) (dNth a 3) in
  let combos := occurring f (dZs (dNth a 1)) (dZ (dNth a 2)) legs (dZss (dNth a 4)) in
  L [sList (fun e => L [sZs (fst e); sN (snd e)]) (fused_leg f (dZs (dNth a 1)) (dZ (dNth a 2)) combos);
     sList (fun e => L [sN (fst e); sN (snd e)]) (fused_slices f (dZs (dNth a 1)) (dZ (dNth a 2)) combos)].
