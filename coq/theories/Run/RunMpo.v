From Coq Require Import List ZArith Bool.
From Yv Require Import Base.Sx Mps.MpoApply.
Import ListNotations.
Open Scope Z_scope.
(* 101: amplitude of the product MPO.MPS built by the model from exported site matrices.
   arg: (d sites sigmas) with sites = ((dw da W A) ...), W = ((mat ...) ...) indexed [sigma][sigma'], A = (mat ...) indexed [sigma'];
   -> per sigma (amplitude of the product chain, operator applied to the state as nested sums) *)
Definition zget2 (M : list (list Z)) (i j : nat) : Z := nth j (nth i M []) 0.
Definition dSite (e : sx) : psite Z :=
  let W := dList (dList dZss) (dNth e 2) in
  let Am_ := dList dZss (dNth e 3) in
  {| dw := dN (dNth e 0); da := dN (dNth e 1);
     Wm := fun s s' => zget2 (nth s' (nth s W []) []);
     Am := fun s' => zget2 (nth s' Am_ []) |}.
Definition one_vec : nat -> Z := fun k => if Nat.eqb k 0 then 1 else 0.
Definition run_mpo_apply (a : sx) : sx :=
  let d := dN (dNth a 0) in
  let c := dList dSite (dNth a 1) in
  sList (fun sg => let s := dList dN sg in
           L [A (propP Z 0 Z.add Z.mul d 1 1 (kronv Z Z.mul 1 one_vec one_vec) c s 0%nat);
              A (applied Z 0 Z.add Z.mul d 1 1 one_vec one_vec c s 0%nat)])
        (dList (fun x => x) (dNth a 2)).

(* 102: entry of the product MPO.MPO. arg: (d sites pairs) with sites = ((dw1 dw2 W1 W2) ...), W1 = [s][t] matrices, W2 = [t][s'] matrices,
   pairs = ((sigma sigma') ...) -> per pair (entry of the product chain built by the model, nested-sum form of operator times operator) *)
Definition dSite2 (e : sx) : osite2 Z :=
  let W1 := dList (dList dZss) (dNth e 2) in
  let W2 := dList (dList dZss) (dNth e 3) in
  {| dw1 := dN (dNth e 0); dw2 := dN (dNth e 1);
     W1m := fun s t => zget2 (nth t (nth s W1 []) []);
     W2m := fun t s' => zget2 (nth s' (nth t W2 []) []) |}.
Definition run_mpo_mpo (a : sx) : sx :=
  let d := dN (dNth a 0) in
  let c := dList dSite2 (dNth a 1) in
  sList (fun pr => let s := dList dN (dNth pr 0) in let s' := dList dN (dNth pr 1) in
           let z := zip_sites Z c s' in
           L [A (propP Z 0 Z.add Z.mul d 1 1 (kronv Z Z.mul 1 one_vec one_vec) z s 0%nat);
              A (applied Z 0 Z.add Z.mul d 1 1 one_vec one_vec z s 0%nat)])
        (dList (fun x => x) (dNth a 2)).
