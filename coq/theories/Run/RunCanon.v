From Coq Require Import List ZArith Bool.
From Yv Require Import Base.Sx Mps.Canon.
Import ListNotations.
Open Scope Z_scope.
Definition sFlag (f : flag) : sx := match f with FLeft => A 1 | FRight => A 2 | FNone => A 0 end.
Definition sState (st : gstate) : sx :=
  L [match pC st with None => L [] | Some (a, b) => L [A a; A b] end; sList sFlag (flags st)].
Definition dDir (s : sx) : dirn := if dZ s =? 0 then ToFirst else ToLast.
(* ops: (0 to) canonize | (1 n to) orthogonalize_site_ | (2 to) absorb_central_ ; result: per op the state, or (-1) when refused *)
Fixpoint run_ops (st : gstate) (ops : list sx) : list sx :=
  match ops with
  | [] => []
  | o :: r =>
    match dZ (dNth o 0) with
    | 0 => match canonize st (dDir (dNth o 1)) with Some st' => sState st' :: run_ops st' r | None => [A (-1)] end
    | 1 => match orth st (dZ (dNth o 1)) (dDir (dNth o 2)) with Some st' => sState st' :: run_ops st' r | None => A (-1) :: run_ops st r end
    | _ => let st' := absorb st (dDir (dNth o 1)) in sState st' :: run_ops st' r
    end
  end.
(* arg: (N ops) *)
Definition run_canon (a : sx) : sx :=
  let n := dZ (dNth a 0) in
  L (run_ops {| N := n; pC := None; flags := repeat FNone (Z.to_nat n) |} (dList (fun x => x) (dNth a 1))).
