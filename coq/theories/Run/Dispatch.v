(* Dispatch.v -- single entry point of the executable model: opcode * argument -> result.
   Used identically by the extracted OCaml driver and by in-Coq vm_compute samples. *)
From Coq Require Import List ZArith.
From Yv Require Import Base.Sx Run.RunSym Run.RunGeom Run.RunCache Run.RunTrunc Run.RunStruct Run.RunBlock Run.RunFermi Run.RunFusion Run.RunSerial Run.RunLinalg Run.RunMps Run.RunMpo Run.RunGauge Run.RunCanon Run.RunKrylov Run.RunSweep Run.RunStep Run.RunGates Run.RunSwaps.
Import ListNotations.
Open Scope Z_scope.

Definition run (op : Z) (arg : sx) : sx :=
  match op with
  | 1 => run_fuse arg
  | 2 => run_leg_make arg
  | 10 => run_sq_lists arg
  | 11 => run_sq_pointwise arg
  | 12 => run_ruc arg
  | 13 => run_special arg
  | 14 => run_lattice arg
  | 20 => run_lru arg
  | 30 => run_mask_block arg
  | 31 => run_mask_global arg
  | 32 => run_mask_blocks arg
  | 40 => run_wf_struct arg
  | 50 => run_blin arg
  | 60 => run_swap_parity arg
  | 61 => run_swap_charge_parity arg
  | 62 => run_sign_canonical arg
  | 70 => run_fused_leg arg
  | 71 => run_fused_leg_of arg
  | 80 => run_split_combine arg
  | 90 => run_t_con arg
  | 91 => run_t_con_qr arg
  | 100 => run_add2 arg
  | 101 => run_mpo_apply arg
  | 102 => run_mpo_mpo arg
  | 82 => run_gauge arg
  | 110 => run_canon arg
  | 120 => run_expand arg
  | 121 => run_expmv_pass arg
  | 122 => run_expmv_init arg
  | 123 => run_expmv_ncv arg
  | 124 => run_krylov_dims arg
  | 130 => run_sweep_trace arg
  | 131 => run_prog_ops arg
  | 132 => run_prog12_ops arg
  | 140 => run_tdvp_steps arg
  | 141 => run_tdvp_order arg
  | 142 => run_tdvp_half arg
  | 150 => run_gate_mats arg
  | 151 => run_gate_form arg
  | 160 => run_swaps_op arg
  | _ => sErr 999
  end.

Definition run_case (c : sx) : sx := run (dZ (dNth c 0)) (dNth c 1).
