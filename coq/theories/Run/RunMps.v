From Coq Require Import List ZArith Bool.
From Yv Require Import Base.Sx Mps.Vec Mps.MpsDense.
Import ListNotations.
Open Scope Z_scope.
(* chain: ((wr (mat ...)) ...) with mat = (row ...) *)
Definition dChain (s : sx) : chain := dList (fun e => {| wr := dN (dNth e 0); mats := dList dZss (dNth e 1) |}) s.
(* arg: (x y chainA chainB (sigma ...)) -> (amp(add2) amp(a) amp(b)) per sigma *)
Definition run_add2 (a : sx) : sx :=
  let x := dZ (dNth a 0) in let y := dZ (dNth a 1) in
  let ca := dChain (dNth a 2) in let cb := dChain (dNth a 3) in
  sList (fun sg => let s := dList dN sg in L [A (amplitude (add2 x y ca cb) s); A (amplitude ca s); A (amplitude cb s)]) (dList (fun x => x) (dNth a 4)).
