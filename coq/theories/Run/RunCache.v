(* RunCache.v -- wire entry point: run the LRU model on a history over integer keys. *)
From Coq Require Import List ZArith Bool.
From Yv Require Import Base.Sx Cache.Lru.
Import ListNotations.
Open Scope Z_scope.

Definition dMax (s : sx) : option nat := dOpt dN s.
(* event: (0 i k) call | (1 i) clear | (2) clear all | (3 i (m)) rewrap *)
Definition dEvent (s : sx) : event Z :=
  match dZ (dNth s 0) with
  | 0 => ECall Z (dN (dNth s 1)) (dZ (dNth s 2))
  | 1 => EClear Z (dN (dNth s 1))
  | 2 => EClearAll Z
  | _ => ERewrap Z (dN (dNth s 1)) (dMax (dNth s 2))
  end.
(* arg: ((maxsize per cache ...) (events ...)) ; f i k := 1000 * i + k ; result: per call (value hit) *)
Definition run_lru (a : sx) : sx :=
  let ms := dList dMax (dNth a 0) in
  let evs := dList dEvent (dNth a 1) in
  let '(_, outs) := run Z Z Z.eqb (fun i k => 1000 * Z.of_nat i + k) (map (fresh Z Z) ms) evs in
  sList (fun o => let '(i, k, v, h) := o in L [A v; sB h]) outs.
