From Coq Require Import List ZArith Bool.
From Yv Require Import Base.Sx Mps.MpoApply Mps.Gauge.
Import ListNotations.
Open Scope Z_scope.
(* 82: a chain with a central block C on the bond behind site k, three ways.
   arg: (sites C dc k dirn sigmas) with sites = ((dr (mat ...)) ...) [mat per physical index, rows = left bond], C = mat (rows: right bond of site k),
        dc = number of columns of C (= left bond of site k+1), dirn 1 = absorb into the next site ('last'), 0 = into site k ('first')
   -> per sigma (amplitude with C as an explicit site, amplitude after the model's absorb_right / absorb_left) *)
Definition zget2g (M : list (list Z)) (i j : nat) : Z := nth j (nth i M []) 0.
Definition dMsite (e : sx) : msite Z :=
  let Ms := dList dZss (dNth e 1) in
  {| dr := dN (dNth e 0); Mt := fun s => zget2g (nth s Ms []) |}.
Definition one_vec_g : nat -> Z := fun k => if Nat.eqb k 0 then 1 else 0.
Definition propZ := prop Z 0 Z.add Z.mul.
Definition run_gauge (a : sx) : sx :=
  let c := dList dMsite (dNth a 0) in
  let C := zget2g (dZss (dNth a 1)) in
  let dc := dN (dNth a 2) in
  let k := dN (dNth a 3) in
  let to_last := negb (Z.eqb (dZ (dNth a 4)) 0) in
  let pre := firstn k c in
  let sA := nth k c {| dr := 0; Mt := fun _ _ _ => 0 |} in
  let sB := nth (S k) c {| dr := 0; Mt := fun _ _ _ => 0 |} in
  let post := skipn (S (S k)) c in
  let csite := {| dr := dc; Mt := fun _ => C |} in
  let explicit := pre ++ [sA; csite; sB] ++ post in
  let absorbed := if to_last then pre ++ [sA; absorb_right Z 0 Z.add Z.mul sB C dc] ++ post
                  else pre ++ [absorb_left Z 0 Z.add Z.mul sA C dc; sB] ++ post in
  sList (fun sg => let s := dList dN sg in
           let s' := firstn (S k) s ++ [0%nat] ++ skipn (S k) s in
           L [A (propZ 1 one_vec_g explicit s' 0%nat); A (propZ 1 one_vec_g absorbed s 0%nat)])
        (dList (fun x => x) (dNth a 5)).
