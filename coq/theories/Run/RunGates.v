From Coq Require Import List ZArith Bool String.
From Yv Require Import Base.Sx Gates.JW2 Gates.GateLang Gen.GatesGen Gates.GateSpec.
Import ListNotations.
Open Scope Z_scope.
Definition sMat (M : list (list Z)) : sx := sList (sList sZ) M.
(* 150: the generator matrices the gate theorems are about. arg ignored -> (hop_K hop_P ising_K X n P_d P_u P_ud) *)
Definition run_gate_mats (a : sx) : sx := Sx.L [sMat hop_K; sMat hop_P; sMat ising_K; sMat m_X; sMat m_n; sMat P_d; sMat P_u; sMat P_ud].
(* 151: denotation of a generated form. arg: (which) 0 hopping 1 ising 2 coulomb 3 occupation 4 field -> list of matrices *)
Definition run_gate_form (a : sx) : sx :=
  let f := match dZ (dNth a 0) with
           | 0 => denote_form 0 gate_nn_hopping_form | 1 => denote_form 1 gate_nn_Ising_form | 2 => denote_form 2 gate_local_Coulomb_form
           | 3 => denote_form 0 gate_local_occupation_form | _ => denote_form 1 gate_local_field_form end in
  sList (fun p => sMat (snd p)) f.
