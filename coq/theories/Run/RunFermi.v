(* RunFermi.v -- wire entry points for the fermionic-sign models. *)
From Coq Require Import List ZArith Bool.
From Yv Require Import Base.Sx Fermi.Fermi.
Import ListNotations.
Open Scope Z_scope.

Definition dBools (s : sx) : list bool := dList dB s.
Definition dNats (s : sx) : list nat := dList dN s.
(* arg: (nsym fss (keys: per block list of charges) (pairs: ((g1 g2) ...))) -> parity per block *)
Definition run_swap_parity (a : sx) : sx :=
  let nsym := dN (dNth a 0) in let fss := dBools (dNth a 1) in
  let pairs := dList (fun p => (dNats (dNth p 0), dNats (dNth p 1))) (dNth a 3) in
  sList (fun key => A (swap_parity nsym fss (dZss key) pairs)) (dList (fun x => x) (dNth a 2)).
(* arg: (nsym fss keys axes charges) *)
Definition run_swap_charge_parity (a : sx) : sx :=
  let nsym := dN (dNth a 0) in let fss := dBools (dNth a 1) in
  sList (fun key => A (swap_charge_parity nsym fss (dZss key) (dNats (dNth a 3)) (dZss (dNth a 4)))) (dList (fun x => x) (dNth a 2)).
(* arg: (fss sites charges) *)
Definition run_sign_canonical (a : sx) : sx :=
  A (sign_canonical_order (dBools (dNth a 0)) (dZs (dNth a 1)) (dZss (dNth a 2))).
