(* RunSym.v -- wire-level entry points (sx -> sx) for the symmetry and Leg models. *)
From Coq Require Import List ZArith Bool.
From Yv Require Import Base.Sx Base.LexOrder Sym.Descr Sym.Leg Gen.SymGen.
Import ListNotations.
Open Scope Z_scope.

(* arg: (symidx charges sigs snew) *)
Definition run_fuse (a : sx) : sx :=
  sZs (fuse_by_index (dZ (dNth a 0)) (dZss (dNth a 1)) (dZs (dNth a 2)) (dZ (dNth a 3))).

Definition leg_err_code (e : leg_err) : Z :=
  match e with
  | LE_signature => 1 | LE_D => 2 | LE_t => 3 | LE_count => 4 | LE_range => 5 | LE_repeat => 6
  end.

(* arg: (symidx s t D) with s : option Z, t, D : list (option Z) *)
Definition run_leg_make (a : sx) : sx :=
  let i := dZ (dNth a 0) in
  match leg_make (nsym_by_index i) (fuse_by_index i) (dOpt dZ (dNth a 1))
                 (dList (dOpt dZ) (dNth a 2)) (dList (dOpt dZ) (dNth a 3)) with
  | LOk l => sOk (L [sZ (lg_s l); sZss (lg_t l); sZs (lg_D l)])
  | LErr e => sErr (leg_err_code e)
  end.
