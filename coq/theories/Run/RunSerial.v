(* RunSerial.v -- wire entry points: split/combine on encoded dictionary trees.
   encoding of val: (0 id) opaque | (1 dict) ; dict = ((key val) ...) ; mval: (0 id) | (1 n) | (2 mdict) *)
From Coq Require Import List ZArith Bool.
From Yv Require Import Base.Sx Serial.SplitCombine.
Import ListNotations.
Open Scope Z_scope.

Fixpoint dVal (fuel : nat) (s : sx) : val :=
  match fuel with
  | O => VOpaque 0
  | S f => match dZ (dNth s 0) with
           | 0 => VOpaque (dZ (dNth s 1))
           | _ => VDict (fold_right (fun e acc => DCons (dZ (dNth e 0)) (dVal f (dNth e 1)) acc) DNil (dList (fun x => x) (dNth s 1)))
           end
  end.
Fixpoint sVal (v : val) : sx :=
  match v with VOpaque id => L [A 0; A id] | VDict d => L [A 1; L (sDict d)] end
with sDict (d : dict) : list sx :=
  match d with DNil => [] | DCons k v r => L [A k; sVal v] :: sDict r end.
Fixpoint sMval (v : mval) : sx :=
  match v with MOpaque id => L [A 0; A id] | MIdx n => L [A 1; sN n] | MDict d => L [A 2; L (sMdict d)] end
with sMdict (d : mdict) : list sx :=
  match d with MNil => [] | MCons k v r => L [A k; sMval v] :: sMdict r end.
(* arg: dict value -> (meta data-list combined) *)
Definition run_split_combine (a : sx) : sx :=
  match dVal 40 a with
  | VDict d => let '(m, data) := split_dict d [] in
               L [L (sMdict m); sList sVal data; L (sDict (combine_dict data m))]
  | _ => sErr 1
  end.
