(* RunTrunc.v -- wire entry points for the truncation_mask model. *)
From Coq Require Import List ZArith Bool.
From Yv Require Import Base.Sx Linalg.Trunc.
Import ListNotations.
Open Scope Z_scope.

Definition sBools (l : list bool) : sx := sList sB l.
(* arg: (p q (Dblock) vals inds) *)
Definition run_mask_block (a : sx) : sx :=
  sBools (mask_block (dZ (dNth a 0)) (dZ (dNth a 1)) (dOpt dN (dNth a 2)) (dZs (dNth a 3)) (dList dN (dNth a 4))).
(* arg: (p q (Dtotal) S m1 inds) *)
Definition run_mask_global (a : sx) : sx :=
  sBools (mask_global (dZ (dNth a 0)) (dZ (dNth a 1)) (dOpt dN (dNth a 2)) (dZs (dNth a 3)) (dList dB (dNth a 4)) (dList dN (dNth a 5))).

(* tolspec: (0 p q) | (1 ((t (p q)) ...)) ; dspec: (0 (D)) | (1 ((t (D)) ...)) *)
Definition dTol (s : sx) : tolspec :=
  match dZ (dNth s 0) with
  | 0 => TolS (dZ (dNth s 1)) (dZ (dNth s 2))
  | _ => TolD (dList (fun e => (dZs (dNth e 0), (dZ (dNth (dNth e 1) 0), dZ (dNth (dNth e 1) 1)))) (dNth s 1))
  end.
Definition dD (s : sx) : dspec :=
  match dZ (dNth s 0) with
  | 0 => DS (dOpt dN (dNth s 1))
  | _ => DD (dList (fun e => (dZs (dNth e 0), dOpt dN (dNth e 1))) (dNth s 1))
  end.
(* arg: (tolspec dspec ((t vals inds) ...)) *)
Definition run_mask_blocks (a : sx) : sx :=
  sBools (mask_blocks (dTol (dNth a 0)) (dD (dNth a 1))
            (dList (fun b => (dZs (dNth b 0), (dZs (dNth b 1), dList dN (dNth b 2)))) (dNth a 2))).
