(* RunBlock.v -- wire entry points for the L-block linear operations. *)
From Coq Require Import List ZArith Bool.
From Yv Require Import Base.Sx Block.Block.
Import ListNotations.
Open Scope Z_scope.

Definition dBten (s : sx) : bten := dList (fun e => (dZs (dNth e 0), (dZs (dNth e 1), dZs (dNth e 2)))) s.
Definition sBten (a : bten) : sx := sList (fun e => L [sZs (fst e); sZs (fst (snd e)); sZs (snd (snd e))]) a.
(* arg: (opcode x y a b): 0 add, 1 sub, 2 x*a + y*b ; result (ok? blocks) ok = operands sorted and compatible *)
Definition run_blin (s : sx) : sx :=
  let a := dBten (dNth s 3) in let b := dBten (dNth s 4) in
  let x := dZ (dNth s 1) in let y := dZ (dNth s 2) in
  L [sB (keys_sorted a && keys_sorted b && compatible a b);
     sBten (match dZ (dNth s 0) with 0 => badd a b | 1 => bsub a b | _ => blin x y a b end)].
