From Coq Require Import List ZArith Bool QArith Qreduction.
From Yv Require Import Base.Sx Gen.KrylovGen Krylov.ExpmvCtl Krylov.Arnoldi.
Import ListNotations.
Open Scope Z_scope.
(* rationals on the wire: (num den), reduced *)
Definition dQ (s : sx) : Q := Qmake (dZ (dNth s 0)) (Z.to_pos (dZ (dNth s 1))).
Definition sQ (q : Q) : sx := let r := Qred q in L [A (Qnum r); A (Zpos (Qden r))].
Definition dKey (s : sx) : Z * Z := (dZ (dNth s 0), dZ (dNth s 1)).
Definition sKey (k : Z * Z) : sx := L [A (fst k); A (snd k)].

(* 120: expand_krylov_space bookkeeping. arg: (ncv hermitian brk_at lenV0 keys0); brk_at = -1: the residual never drops below tol *)
Definition run_expand (a : sx) : sx :=
  let r := expand_krylov (dZ (dNth a 0)) (dB (dNth a 1)) (fun j => j =? dZ (dNth a 2)) (dZ (dNth a 3)) (dList dKey (dNth a 4)) in
  L [A (lenV r); sList sKey (keys r); sB (happyR r); sB (missing r)].

(* 121: one pass of the expmv controller. arg: (t_out t_now tau happy omega tau_new) -> (t_now' tau' accepted? m-rule) *)
Definition run_expmv_pass (a : sx) : sx :=
  let t_out := dQ (dNth a 0) in
  let s := {| t_now := dQ (dNth a 1); tau := dQ (dNth a 2); accepted := [] |} in
  let d := {| happy := dB (dNth a 3); omega := dQ (dNth a 4); tau_new := dQ (dNth a 5) |} in
  let s' := pass t_out s d in
  L [sQ (t_now s'); sQ (tau s'); sB (match accepted s' with [] => false | _ => true end); sB (expmv_continue (t_now s') t_out)].

(* 122: initial state and derived constants. arg: (t ncv vsize) -> (t_out sgn tau0 ncv0 ncv_max) *)
Definition run_expmv_init (a : sx) : sx :=
  let t := dQ (dNth a 0) in
  L [sQ (expmv_t_out0 t); sQ (expmv_sgn t (expmv_t_out0 t)); sQ (expmv_tau0 (expmv_t_out0 t)); sQ (expmv_ncv0 (dQ (dNth a 1))); sQ (expmv_ncv_max (expmv_ncv0 (dQ (dNth a 1))) (dQ (dNth a 2)))].

(* 123: next Krylov size. arg: (ncv_max m ncv_new) *)
Definition run_expmv_ncv (a : sx) : sx := sQ (expmv_ncv_next (dQ (dNth a 0)) (dQ (dNth a 1)) (dQ (dNth a 2))).

(* 124: dimensions used by eigs / lin_solver. arg: (happy lenV supp) *)
Definition run_krylov_dims (a : sx) : sx :=
  let h := dB (dNth a 0) in let n := inject_Z (dZ (dNth a 1)) in let sp := inject_Z (dZ (dNth a 2)) in
  let me := eigs_m_cap (eigs_m h n) sp in let ml := lin_solver_m_cap (lin_solver_m h n) sp in
  L [sQ (eigs_kept me); sQ (eigs_T_dim me); sQ (lin_solver_kept ml); sQ (lin_solver_T_rows ml); sQ (lin_solver_T_cols ml)].
