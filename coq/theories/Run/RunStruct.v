(* RunStruct.v -- wire entry point: wf_struct on an exported tensor structure. *)
From Coq Require Import List ZArith Bool.
From Yv Require Import Base.Sx Block.Struct Gen.SymGen.
Import ListNotations.
Open Scope Z_scope.

(* arg: (symidx (nsym s n diag keys shapes slices size datalen mfs hfs trans)) with hfs = ((tree op s) ...) *)
Definition dStruct (a : sx) : tstruct :=
  {| ts_nsym := dN (dNth a 0); ts_s := dZs (dNth a 1); ts_n := dZs (dNth a 2); ts_diag := dB (dNth a 3);
     ts_keys := dZss (dNth a 4); ts_shapes := dZss (dNth a 5);
     ts_slices := dList (fun e => (dZ (dNth e 0), dZ (dNth e 1), dZ (dNth e 2))) (dNth a 6);
     ts_size := dZ (dNth a 7); ts_datalen := dZ (dNth a 8);
     ts_mfs := dZss (dNth a 9);
     ts_hfs_heads := dList (fun h => dZ (dNth (dNth h 2) 0)) (dNth a 10);
     ts_trans := dZs (dNth a 11) |}.
Definition run_wf_struct (a : sx) : sx :=
  sB (wf_struct (fuse_by_index (dZ (dNth a 0))) (dStruct (dNth a 1))).
