From Coq Require Import List ZArith Bool.
From Yv Require Import Base.Sx Sweep.Sweep Gen.SweepGen Sweep.SweepBase Sweep.SweepTdvpBody Sweep.SweepTdvp12.
Import ListNotations.
Open Scope Z_scope.

Definition sStatus (x : status) : sx := A (match x with Absent => 0 | Fresh => 1 | Stale => 2 end).
Definition dDirn (s : sx) : dirn := if dZ s =? 0 then ToFirst else ToLast.
Definition sDirn (d : dirn) : sx := A (match d with ToFirst => 0 | ToLast => 1 end).
Definition zrange (lo : Z) (n : nat) : list Z := map (fun k => lo + k) (upto n).

(* status of every tracked entry: L (-1..N-1), R (0..N), CL (0..N), CR (-1..N-1), central block, ok *)
Definition snapshot (N : Z) (s : st) : sx :=
  let n1 := Z.to_nat (N + 1) in
  Sx.L [ sList sStatus (map (Sweep.L s) (zrange (-1) n1)); sList sStatus (map (R s) (zrange 0 n1));
      sList sStatus (map (CL s) (zrange 0 n1)); sList sStatus (map (CR s) (zrange (-1) n1));
      match pc s with None => Sx.L [] | Some (a, b) => Sx.L [A a; A b] end; sB (ok s) ].

(* ops on the wire: (0) Heff0 | (1 n) Heff1 | (2 n) Heff2 | (3 n) Write1 | (4 n) Write2 | (5) WriteC | (6 n to) Orth | (7 to) Absorb | (8 n) Clear | (9 n to) Update | (10) Measure *)
Definition dOp (s : sx) : op :=
  match dZ (dNth s 0) with
  | 0 => OHeff0 | 1 => OHeff1 (dZ (dNth s 1)) | 2 => OHeff2 (dZ (dNth s 1)) | 3 => OWrite1 (dZ (dNth s 1)) | 4 => OWrite2 (dZ (dNth s 1))
  | 5 => OWriteC | 6 => OOrth (dZ (dNth s 1)) (dDirn (dNth s 2)) | 7 => OAbsorb (dDirn (dNth s 1)) | 8 => OClear (dZ (dNth s 1))
  | 9 => OUpdate (dZ (dNth s 1)) (dDirn (dNth s 2)) | _ => OMeasure
  end.
Fixpoint sOp (o : op) : sx :=
  match o with
  | OHeff0 => Sx.L [A 0] | OHeff1 n => Sx.L [A 1; A n] | OHeff2 n => Sx.L [A 2; A n] | OWrite1 n => Sx.L [A 3; A n] | OWrite2 n => Sx.L [A 4; A n]
  | OWriteC => Sx.L [A 5] | OOrth n to => Sx.L [A 6; A n; sDirn to] | OAbsorb to => Sx.L [A 7; sDirn to] | OClear n => Sx.L [A 8; A n]
  | OUpdate n to => Sx.L [A 9; A n; sDirn to] | OMeasure => Sx.L [A 10] | OIf _ _ => Sx.L [A 11]
  end.

(* 130: run a list of primitive operations from the ready state, snapshot after each. arg: (pre N ops) *)
Fixpoint run_trace (pre : bool) (N : Z) (ops : list op) (s : st) : list sx :=
  match ops with [] => [] | o :: r => let s' := step pre N o s in snapshot N s' :: run_trace pre N r s' end.
Definition run_sweep_trace (a : sx) : sx :=
  let pre := dB (dNth a 0) in let N := dZ (dNth a 1) in
  Sx.L (run_trace pre N (dList dOp (dNth a 2)) (ready_state N)).

(* 131: the primitive operations of one generated sweep, in execution order (conditionals resolved; an update of the central block outside the
   chain is reported as skipped = (12) / (13)). arg: (prog pre N) with prog 0 dmrg_1site, 1 dmrg_2site, 2 tdvp_1site, 3 tdvp_2site *)
Fixpoint flat (l : list op) : list op :=
  match l with
  | [] => []
  | OIf c b :: r => (if c then b else []) ++ flat r
  | o :: r => o :: flat r
  end.
Definition prog_ops (p : Z) (N : Z) : list op :=
  let '(passes, body, final) :=
    match p with
    | 0 => (dmrg_1site_passes, dmrg_1site_body, dmrg_1site_final)
    | 1 => (dmrg_2site_passes, dmrg_2site_body, dmrg_2site_final)
    | 2 => (tdvp_1site_passes, tdvp_1site_body, tdvp_1site_final)
    | _ => (tdvp_2site_passes, tdvp_2site_body, tdvp_2site_final)
    end in
  flat (concat (map (fun p => let '(to, dn, dl) := p in concat (map (fun n => body N n dn to) (sites N to dl))) passes) ++ final N).
Fixpoint label_ops (pre : bool) (N : Z) (ops : list op) (s : st) : list sx :=
  match ops with
  | [] => []
  | o :: r =>
    let skipped := match o, pc s with
                   | OHeff0, Some (n1, n2) | OWriteC, Some (n1, n2) => (n1 =? -1) || (n2 =? N)
                   | _, _ => false end in
    (if skipped then Sx.L [A (match o with OHeff0 => 12 | _ => 13 end)] else sOp o) :: label_ops pre N r (step pre N o s)
  end.
Definition run_prog_ops (a : sx) : sx :=
  let p := dZ (dNth a 0) in let pre := dB (dNth a 1) in let N := dZ (dNth a 2) in
  Sx.L (label_ops pre N (prog_ops p N) (ready_state N)).

(* 132: the operations of one mixed (12site) sweep given the recorded decisions of env.enlarge_bond. arg: (pre N decisionsL decisionsF), one decision per
   visited site in visiting order *)
Definition run_prog12_ops (a : sx) : sx :=
  let pre := dB (dNth a 0) in let N := dZ (dNth a 1) in
  let dl := dList dB (dNth a 2) in let df := dList dB (dNth a 3) in
  let orcL := fun n => let b := nth (Z.to_nat n) dl false in (b, b) in
  let orcF := fun n => let b := nth (Z.to_nat (N - 1 - n)) df false in (b, b) in
  Sx.L (label_ops pre N (flat (sweep12_ops N orcL orcF)) (ready_state N)).
