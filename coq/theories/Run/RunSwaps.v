From Coq Require Import List ZArith Bool.
From Yv Require Import Base.Sx Sym.Descr Peps.Swaps.
Import ListNotations.
Open Scope Z_scope.
(* 160: pending charge swaps after a history of insertions. arg: (descr ops) with descr a list of moduli (0 = Z) and ops = ((charge axes) ...),
   axes 0..4 = bra legs, 5..9 = ket legs -> the ten pending charges *)
Definition dDescr (s : sx) : list (option Z) := map (fun m => if m =? 0 then None else Some m) (dZs s).
Definition run_swaps_op (a : sx) : sx :=
  let d := dDescr (dNth a 0) in
  let ops := dList (fun o => (dZs (dNth o 0), map Z.to_nat (dZs (dNth o 1)))) (dNth a 1) in
  sList (sList sZ) (run_swaps d ops (no_swaps d)).
