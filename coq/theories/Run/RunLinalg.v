From Coq Require Import List ZArith Bool.
From Yv Require Import Base.Sx Sym.Descr Linalg.MetaSvd Sym.SymInst.
Import ListNotations.
Open Scope Z_scope.
(* descriptor by name index, in the order of SymGen.shipped_ids: U1, U1xU1, U1xU1xZ2, Z2, Z2xU1, Z3, dense *)
Definition descr_by_index (i : Z) : descr :=
  match i with 0 => descr_U1 | 1 => descr_U1xU1 | 2 => descr_U1xU1xZ2 | 3 => descr_Z2 | 4 => descr_Z2xU1 | 5 => descr_Z3 | _ => descr_dense end.
(* arg: (symidx nU sU s0 s1 ((tl tr) ...)) -> list of t_con ; arg for qr: same with nU ignored (opcode 91) *)
Definition run_t_con (a : sx) : sx :=
  let d := descr_by_index (dZ (dNth a 0)) in
  sList (fun p => sZs (t_con d (dB (dNth a 1)) (dZ (dNth a 2)) (dZ (dNth a 3)) (dZ (dNth a 4)) (dZs (dNth p 0)) (dZs (dNth p 1)))) (dList (fun x => x) (dNth a 5)).
Definition run_t_con_qr (a : sx) : sx :=
  let d := descr_by_index (dZ (dNth a 0)) in
  sList (fun p => sZs (t_con_qr d (dZ (dNth a 2)) (dZ (dNth a 4)) (dZs (dNth p 1)))) (dList (fun x => x) (dNth a 5)).
