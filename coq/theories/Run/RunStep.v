From Coq Require Import List ZArith Bool QArith Qreduction.
From Yv Require Import Base.Sx Gen.StepGen.
Import ListNotations.
Open Scope Z_scope.
Definition dQs (s : sx) : Q := Qmake (dZ (dNth s 0)) (Z.to_pos (dZ (dNth s 1))).
Definition sQs (q : Q) : sx := let r := Qred q in L [A (Qnum r); A (Zpos (Qden r))].
(* 140: (t0 t1 dt) -> (steps ds) *)
Definition run_tdvp_steps (a : sx) : sx :=
  let t0 := dQs (dNth a 0) in let t1 := dQs (dNth a 1) in let dt := dQs (dNth a 2) in
  let n := tdvp_steps t0 t1 dt in L [sQs n; sQs (tdvp_ds t0 t1 n)].
(* 141: (order t ds) -> list of (time, length); order 2 or 4 *)
Definition run_tdvp_order (a : sx) : sx :=
  let t := dQs (dNth a 1) in let ds := dQs (dNth a 2) in
  sList (fun p => L [sQs (fst p); sQs (snd p)]) (if dZ (dNth a 0) =? 2 then tdvp_order2 t ds else tdvp_order4 t ds tdvp_s2).
(* 142: (u dt) -> (forward1 backward1 forward2 backward2) for real u *)
Definition run_tdvp_half (a : sx) : sx :=
  let u := dQs (dNth a 0) in let dt := dQs (dNth a 1) in
  L [sQs (tdvp1_forward u dt); sQs (tdvp1_backward u dt); sQs (tdvp2_forward u dt); sQs (tdvp2_backward u dt)].
