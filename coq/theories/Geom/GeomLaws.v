(* GeomLaws.v -- laws of the lattice model, for ALL unit-cell dimensions Nx, Ny >= 1. *)
From Coq Require Import List ZArith Bool Lia ZifyBool Permutation.
From Yv Require Import Base.LexOrder Geom.Lattice.
Import ListNotations.
Open Scope Z_scope.
Ltac Zify.zify_post_hook ::= Z.to_euclidean_division_equations.

(* ---------- modular helper ---------- *)
Lemma mod_shift_iff n x a : 0 < n -> ((x + a) mod n = x mod n <-> a mod n = 0).
Proof.
  intro Hn. split; intro H.
  - assert (E : a = (x + a) - x) by ring.
    rewrite E. rewrite Zminus_mod, H, Z.sub_diag. apply Z.mod_0_l. lia.
  - rewrite Z.add_mod by lia. rewrite H, Z.add_0_r. apply Z.mod_mod. lia.
Qed.

(* ---------- f_ordered is a total order ---------- *)
Theorem f_ordered_refl s : f_ordered s s = true.
Proof. unfold f_ordered. lia. Qed.
Theorem f_ordered_antisym s t : f_ordered s t = true -> f_ordered t s = true -> s = t.
Proof. destruct s, t; unfold f_ordered; simpl. intros. f_equal; lia. Qed.
Theorem f_ordered_trans s t u : f_ordered s t = true -> f_ordered t u = true -> f_ordered s u = true.
Proof. unfold f_ordered. lia. Qed.
Theorem f_ordered_total s t : f_ordered s t = true \/ f_ordered t s = true.
Proof. unfold f_ordered. lia. Qed.

(* ---------- sites ---------- *)
Lemma in_zrange n x : In x (zrange n) <-> 0 <= x < n.
Proof.
  unfold zrange. rewrite in_map_iff. split.
  - intros [k [<- Hk]]. apply in_seq in Hk. lia.
  - intros H. exists (Z.to_nat x). split; [lia|]. apply in_seq. lia.
Qed.

Lemma NoDup_zrange n : NoDup (zrange n).
Proof.
  unfold zrange. apply FinFun.Injective_map_NoDup; [|apply seq_NoDup].
  intros a b H. lia.
Qed.

Definition in_cell (Nx Ny : Z) (s : site) : Prop := 0 <= fst s < Nx /\ 0 <= snd s < Ny.

Theorem in_sq_sites Nx Ny s : In s (sq_sites Nx Ny) <-> in_cell Nx Ny s.
Proof.
  unfold sq_sites, in_cell. rewrite in_flat_map. split.
  - intros [ny [Hy Hin]]. apply in_map_iff in Hin as [nx [<- Hx]].
    apply in_zrange in Hy, Hx. simpl. lia.
  - intros [Hx Hy]. exists (snd s). split; [apply in_zrange; lia|].
    apply in_map_iff. exists (fst s). split; [destruct s; reflexivity | apply in_zrange; lia].
Qed.

Lemma NoDup_app_intro {B} (l1 l2 : list B) :
  NoDup l1 -> NoDup l2 -> (forall b, In b l1 -> In b l2 -> False) -> NoDup (l1 ++ l2).
Proof.
  induction l1 as [|x l1 IH]; simpl; intros H1 H2 Hd; auto.
  inversion H1 as [|? ? Hnin H1']; subst. constructor.
  - rewrite in_app_iff. intros [H|H]; [contradiction|]. apply (Hd x); auto.
  - apply IH; auto. intros b Hb Hb'. apply (Hd b); auto.
Qed.

Lemma NoDup_flat_map_disjoint {A B} (f : A -> list B) l :
  NoDup l -> (forall a, In a l -> NoDup (f a)) ->
  (forall a a' b, In a l -> In a' l -> In b (f a) -> In b (f a') -> a = a') ->
  NoDup (flat_map f l).
Proof.
  induction l as [|a l IH]; intros Hnd Hf Hdisj; simpl; [constructor|].
  inversion Hnd as [|? ? Hnin Hnd']; subst.
  apply NoDup_app_intro.
  - apply Hf. left; reflexivity.
  - apply IH; auto.
    + intros a0 H0. apply Hf. right; exact H0.
    + intros a0 a' b H0 H1. apply Hdisj; right; assumption.
  - intros b Hb Hb'. apply in_flat_map in Hb' as [a' [Ha' Hb']].
    assert (a = a') by (apply (Hdisj a a' b); auto; [left; reflexivity | right; exact Ha']).
    subst. contradiction.
Qed.

Theorem NoDup_sq_sites Nx Ny : NoDup (sq_sites Nx Ny).
Proof.
  unfold sq_sites. apply NoDup_flat_map_disjoint.
  - apply NoDup_zrange.
  - intros ny _. apply FinFun.Injective_map_NoDup; [|apply NoDup_zrange].
    intros a b H. inversion H. reflexivity.
  - intros a a' b _ _ Ha Ha'. apply in_map_iff in Ha as [x [<- _]]. apply in_map_iff in Ha' as [x' [E _]].
    inversion E. reflexivity.
Qed.

(* ---------- neighbour lookup is mutually inverse wherever defined ---------- *)
Definition on_lattice (b : bc) (Nx Ny : Z) (s : site) : Prop :=
  match b with
  | Inf => True
  | Obc => in_cell Nx Ny s
  | Cyl => in_cell Nx Ny s
  end.

Theorem nn_site_inverse b Nx Ny s d s' : 0 < Nx -> 0 < Ny -> on_lattice b Nx Ny s ->
  nn_site b Nx Ny s d = Some s' -> nn_site b Nx Ny s' (- fst d, - snd d) = Some s.
Proof.
  intros HNx HNy Hon H. destruct s as [x y], d as [dx dy], s' as [x' y'].
  unfold nn_site, out_of, on_lattice, in_cell in *; destruct b; simpl in *.
  - inversion H; subst. f_equal. f_equal; lia.
  - destruct ((x + dx <? 0) || (x + dx >=? Nx)) eqn:E1; [discriminate|].
    destruct ((y + dy <? 0) || (y + dy >=? Ny)) eqn:E2; [discriminate|].
    inversion H; subst.
    replace ((x + dx + - dx <? 0) || (x + dx + - dx >=? Nx)) with false by lia.
    replace ((y + dy + - dy <? 0) || (y + dy + - dy >=? Ny)) with false by lia.
    f_equal. f_equal; lia.
  - destruct ((y + dy <? 0) || (y + dy >=? Ny)) eqn:E2; [discriminate|].
    inversion H; subst; clear H.
    replace ((y + dy + - dy <? 0) || (y + dy + - dy >=? Ny)) with false by lia.
    f_equal.
    destruct ((x + dx <? 0) || (x + dx >=? Nx)) eqn:E1.
    + set (x1 := (x + dx) mod Nx).
      assert (Hx1 : 0 <= x1 < Nx) by (apply Z.mod_pos_bound; lia).
      assert (Hc : (x1 + - dx) mod Nx = x).
      { unfold x1. rewrite Zplus_mod_idemp_l. replace (x + dx + - dx) with x by ring. apply Z.mod_small. lia. }
      destruct ((x1 + - dx <? 0) || (x1 + - dx >=? Nx)) eqn:E3.
      * f_equal; [exact Hc | lia].
      * f_equal; [|lia]. rewrite Z.mod_small in Hc by lia. exact Hc.
    + destruct ((x + dx + - dx <? 0) || (x + dx + - dx >=? Nx)) eqn:E3; [lia|]. f_equal; lia.
Qed.

(* ---------- bonds ---------- *)
Theorem in_bonds_dir b Nx Ny d ss s s' :
  In (s, s') (bonds_dir b Nx Ny d ss) <-> In s ss /\ nn_site b Nx Ny s d = Some s'.
Proof.
  unfold bonds_dir. rewrite in_flat_map. split.
  - intros [s0 [Hs0 Hin]]. destruct (nn_site b Nx Ny s0 d) as [t|] eqn:E; simpl in Hin; [|contradiction].
    destruct Hin as [Hin|[]]. inversion Hin; subst. auto.
  - intros [Hs Hnn]. exists s. split; auto. rewrite Hnn. left; reflexivity.
Qed.

Theorem NoDup_bonds_dir b Nx Ny d ss : NoDup ss -> NoDup (bonds_dir b Nx Ny d ss).
Proof.
  intro Hnd. unfold bonds_dir. apply NoDup_flat_map_disjoint; auto.
  - intros s _. destruct (nn_site b Nx Ny s d); repeat constructor; auto.
  - intros s s0 p _ _ H1 H2.
    destruct (nn_site b Nx Ny s d); simpl in H1; [|contradiction].
    destruct (nn_site b Nx Ny s0 d); simpl in H2; [|contradiction].
    destruct H1 as [<-|[]]. destruct H2 as [E|[]]. inversion E. reflexivity.
Qed.

Lemma site_eqb_eq a b : site_eqb a b = true <-> a = b.
Proof. destruct a, b; unfold site_eqb; simpl. split; intro H; [f_equal; lia | inversion H; lia]. Qed.

Lemma osite_is_true o s : osite_is o s = true <-> o = Some s.
Proof.
  destruct o as [t|]; simpl; [rewrite site_eqb_eq|]; split; intro H; try congruence; try discriminate.
Qed.

Theorem bonds_h_are_lr b Nx Ny s s' : 0 < Nx -> 0 < Ny ->
  In (s, s') (sq_bonds_h b Nx Ny) -> nn_bond_dirn b Nx Ny s s' = Some LR /\ f_ordered s s' = true.
Proof.
  intros HNx HNy Hin. apply in_bonds_dir in Hin as [Hs Hnn]. apply in_sq_sites in Hs.
  assert (Hon : on_lattice b Nx Ny s) by (destruct b; simpl; auto).
  pose proof (nn_site_inverse b Nx Ny s dir_r s' HNx HNy Hon Hnn) as Hback. simpl in Hback.
  split.
  - unfold nn_bond_dirn. change dir_l with (0, -1). rewrite Hnn, Hback.
    rewrite (proj2 (osite_is_true _ _) eq_refl). rewrite (proj2 (osite_is_true _ _) eq_refl). reflexivity.
  - destruct s as [x y], s' as [x' y']. unfold in_cell in Hs. simpl in Hs.
    unfold nn_site, out_of, dir_r in Hnn; simpl in Hnn.
    destruct b; simpl in Hnn.
    + inversion Hnn; subst. unfold f_ordered; simpl. lia.
    + replace ((x + 0 <? 0) || (x + 0 >=? Nx)) with false in Hnn by lia. simpl in Hnn.
      destruct ((y + 1 <? 0) || (y + 1 >=? Ny)); [discriminate|]. inversion Hnn; subst. unfold f_ordered; simpl. lia.
    + destruct ((y + 1 <? 0) || (y + 1 >=? Ny)); [discriminate|].
      replace ((x + 0 <? 0) || (x + 0 >=? Nx)) with false in Hnn by lia.
      inversion Hnn; subst. unfold f_ordered; simpl. lia.
Qed.

(* vertical bonds: always 'tb'; fermionically ordered EXACTLY when not a boundary-crossing bond of a cylinder *)
Theorem bonds_v_are_tb b Nx Ny s s' : 0 < Nx -> 0 < Ny ->
  In (s, s') (sq_bonds_v b Nx Ny) ->
  nn_bond_dirn b Nx Ny s s' = Some TB /\
  (f_ordered s s' = false <-> (b = Cyl /\ 2 <= Nx /\ fst s = Nx - 1 /\ fst s' = 0)).
Proof.
  intros HNx HNy Hin. apply in_bonds_dir in Hin as [Hs Hnn]. apply in_sq_sites in Hs.
  assert (Hon : on_lattice b Nx Ny s) by (destruct b; simpl; auto).
  pose proof (nn_site_inverse b Nx Ny s dir_b s' HNx HNy Hon Hnn) as Hback. simpl in Hback.
  destruct s as [x y], s' as [x' y']. unfold in_cell in Hs. simpl in Hs.
  assert (Hy : y' = y).
  { unfold nn_site, dir_b in Hnn; simpl in Hnn.
    destruct (is_o (per0 b) && out_of Nx (x + 1)); [discriminate|].
    destruct (is_o (per1 b) && out_of Ny (y + 0)); [discriminate|]. inversion Hnn; lia. }
  subst y'.
  split.
  - unfold nn_bond_dirn. change dir_t with (-1, 0). rewrite Hnn, Hback.
    assert (Hr : osite_is (nn_site b Nx Ny (x, y) dir_r) (x', y) = false).
    { destruct (osite_is (nn_site b Nx Ny (x, y) dir_r) (x', y)) eqn:E; auto.
      apply osite_is_true in E. unfold nn_site, dir_r in E; simpl in E.
      destruct (is_o (per0 b) && out_of Nx (x + 0)); [discriminate|].
      destruct (is_o (per1 b) && out_of Ny (y + 1)); [discriminate|]. inversion E; lia. }
    rewrite Hr, andb_false_l. rewrite (proj2 (osite_is_true _ _) eq_refl). rewrite (proj2 (osite_is_true _ _) eq_refl). reflexivity.
  - unfold nn_site, out_of, dir_b in Hnn; simpl in Hnn. unfold f_ordered; simpl.
    destruct b; simpl in Hnn.
    + inversion Hnn; subst. split; [lia|]. intros [H _]; discriminate.
    + destruct ((x + 1 <? 0) || (x + 1 >=? Nx)); [discriminate|]. simpl in Hnn.
      destruct ((y + 0 <? 0) || (y + 0 >=? Ny)); [discriminate|]. inversion Hnn; subst.
      split; [lia|]. intros [H _]; discriminate.
    + destruct ((y + 0 <? 0) || (y + 0 >=? Ny)); [discriminate|].
      destruct ((x + 1 <? 0) || (x + 1 >=? Nx)) eqn:E1; inversion Hnn; subst; clear Hnn.
      * clear Hback Hon. assert (x + 1 = Nx) by lia. replace ((x + 1) mod Nx) with 0 by (subst Nx; rewrite Z.mod_same; lia).
        split; [intro; split; [reflexivity|lia] | intros (_ & ? & ? & _); lia].
      * split; [lia|]. intros (_ & _ & Ha & Hb). lia.
Qed.

(* the literal C20 text fails on the cylinder wrap bonds: explicit witness *)
Theorem cylinder_wrap_refuted :
  exists Nx Ny s s', In (s, s') (sq_bonds_v Cyl Nx Ny) /\ nn_bond_dirn Cyl Nx Ny s s' = Some TB /\ f_ordered s s' = false.
Proof. exists 2, 1, (1, 0), (0, 0). vm_compute. repeat split; auto. Qed.

(* ---------- site2index: invariant under the lattice periods and only those ---------- *)
Definition is_period (b : bc) (Nx Ny a c : Z) : Prop :=
  match b with
  | Inf => a mod Nx = 0 /\ c mod Ny = 0
  | Obc => a = 0 /\ c = 0
  | Cyl => a mod Nx = 0 /\ c = 0
  end.

Theorem site2index_period_iff b Nx Ny x y a c : 0 < Nx -> 0 < Ny ->
  (site2index b Nx Ny (x + a, y + c) = site2index b Nx Ny (x, y) <-> is_period b Nx Ny a c).
Proof.
  intros HNx HNy. unfold site2index, is_period; destruct b; simpl.
  - rewrite <- (mod_shift_iff Nx x a HNx), <- (mod_shift_iff Ny y c HNy). split.
    + intro H; inversion H; auto.
    + intros [-> ->]; reflexivity.
  - split; [intro H; inversion H; lia | intros [-> ->]; f_equal; lia].
  - rewrite <- (mod_shift_iff Nx x a HNx). split.
    + intro H; inversion H; split; [auto|lia].
    + intros [-> ->]. f_equal; lia.
Qed.

Theorem site2index_in_cell b Nx Ny s : 0 < Nx -> 0 < Ny -> in_cell Nx Ny s -> site2index b Nx Ny s = s.
Proof.
  intros HNx HNy [Hx Hy]. destruct s as [x y]. simpl in *. unfold site2index; destruct b; simpl; f_equal;
    try apply Z.mod_small; lia.
Qed.

(* nn_site lands on a site whose index is a unit-cell site (finite directions stay inside) *)
Theorem nn_site_index_in_cell b Nx Ny s d s' : 0 < Nx -> 0 < Ny ->
  nn_site b Nx Ny s d = Some s' -> in_cell Nx Ny (site2index b Nx Ny s') \/ b = Cyl \/ b = Obc \/ b = Inf.
Proof. destruct b; auto. Qed.

(* fermionic order is compatible with the order in which sites() lists the unit cell *)
Theorem f_ordered_lists_columns_first (x y x' y' : Z) :
  f_ordered (x, y) (x', y') = true <-> (y < y' \/ (y = y' /\ x <= x')).
Proof. unfold f_ordered; simpl. lia. Qed.

(* ---------- Checkerboard and 3-site triangular tables (finite: vm_compute) ---------- *)
Theorem cb_tables_ok :
  forallb (fun b => match nn_bond_dirn Inf 2 2 (fst b) (snd b) with Some LR => f_ordered (fst b) (snd b) | _ => false end) cb_bonds_h
  && forallb (fun b => match nn_bond_dirn Inf 2 2 (fst b) (snd b) with Some TB => f_ordered (fst b) (snd b) | _ => false end) cb_bonds_v
  && (cb_site2index (0, 0) =? 0) && (cb_site2index (0, 1) =? 1) = true.
Proof. vm_compute. reflexivity. Qed.

Theorem cb_period_iff x y a c : cb_site2index (x + a, y + c) = cb_site2index (x, y) <-> (a + c) mod 2 = 0.
Proof. unfold cb_site2index; simpl. lia. Qed.

Theorem tri3_tables_ok :
  forallb (fun b => match nn_bond_dirn Inf 3 3 (fst b) (snd b) with Some LR => f_ordered (fst b) (snd b) | _ => false end) tri3_bonds_h
  && forallb (fun b => match nn_bond_dirn Inf 3 3 (fst b) (snd b) with Some TB => f_ordered (fst b) (snd b) | _ => false end) tri3_bonds_v
  && forallb (fun b => f_ordered (fst b) (snd b)) tri3_bonds_d
  && forallb (fun s => osite_is (nn_site Inf 3 3 s dir_b) (fst (nth 0 (filter (fun b => site_eqb (snd b) (fst s, snd s + 1)) tri3_bonds_d) ((0,0),(0,0))))) tri3_sites
  = true.
Proof. vm_compute. reflexivity. Qed.

Theorem tri3_period_iff x y a c : tri3_site2index (x + a, y + c) = tri3_site2index (x, y) <-> (c - a) mod 3 = 0.
Proof. unfold tri3_site2index; simpl. lia. Qed.

Theorem trifull_period_if Nx Ny x y a c : 0 < Nx -> 0 < Ny -> a mod Nx = 0 -> c mod Ny = 0 ->
  trifull_site2index Nx Ny (x + a, y + c) = trifull_site2index Nx Ny (x, y).
Proof.
  intros HNx HNy Ha Hc. unfold trifull_site2index; simpl.
  rewrite (proj2 (mod_shift_iff Nx x a HNx) Ha), (proj2 (mod_shift_iff Ny y c HNy) Hc). reflexivity.
Qed.

Theorem trifull_injective_on_cell Nx Ny s t : 0 < Nx -> 0 < Ny -> in_cell Nx Ny s -> in_cell Nx Ny t ->
  trifull_site2index Nx Ny s = trifull_site2index Nx Ny t -> s = t.
Proof.
  intros HNx HNy [Hsx Hsy] [Htx Hty] H. destruct s as [x y], t as [x' y']. simpl in *.
  unfold trifull_site2index in H; simpl in H.
  rewrite !Z.mod_small in H by lia.
  assert (x = x') by nia. subst. f_equal. lia.
Qed.

Theorem trifull_diag_bonds b Nx Ny sb sr : 0 < Nx -> 0 < Ny ->
  In (sb, sr) (trifull_bonds_d b Nx Ny) ->
  exists s, in_cell Nx Ny s /\ nn_site b Nx Ny s dir_b = Some sb /\ nn_site b Nx Ny s dir_r = Some sr.
Proof.
  intros HNx HNy Hin. unfold trifull_bonds_d in Hin. apply in_flat_map in Hin as [s [Hs Hin]].
  apply in_sq_sites in Hs. exists s. split; auto.
  destruct (nn_site b Nx Ny s dir_b) as [u|]; [|contradiction].
  destruct (nn_site b Nx Ny s dir_r) as [v|]; [|contradiction].
  destruct Hin as [E|[]]. inversion E; subst. auto.
Qed.

(* ---------- RectangularUnitcell ---------- *)
Definition one_neighbourhood_per_label (p : pat) : Prop :=
  forall s s', In s (pat_cells p) -> In s' (pat_cells p) -> pat_get p s = pat_get p s' -> pat_env p s = pat_env p s'.

Lemma pat_envs_ok_iff p : pat_envs_ok p = true <-> one_neighbourhood_per_label p.
Proof.
  unfold pat_envs_ok, one_neighbourhood_per_label. rewrite forallb_forall. split.
  - intros H s s' Hs Hs' Heq. specialize (H s Hs). rewrite forallb_forall in H. specialize (H s' Hs').
    apply orb_true_iff in H as [H|H].
    + apply negb_true_iff in H. lia.
    + apply lex_eqb_eq in H. exact H.
  - intros H s Hs. apply forallb_forall. intros s' Hs'.
    destruct (pat_get p s =? pat_get p s') eqn:E; cbn [negb orb]; auto.
    apply lex_eqb_eq. apply H; auto. lia.
Qed.

Theorem ruc_accepts_iff p : pat_rect p = true ->
  ((exists ss bh bv, ruc_make p = RucOk ss bh bv) <-> one_neighbourhood_per_label p).
Proof.
  intro Hr. unfold ruc_make. rewrite Hr. simpl. rewrite <- pat_envs_ok_iff.
  destruct (pat_envs_ok p); simpl; split; intro H; try discriminate; eauto.
  destruct H as (? & ? & ? & H); discriminate.
Qed.

Theorem ruc_rejects_shape p : pat_rect p = false -> ruc_make p = RucErrShape.
Proof. intro H. unfold ruc_make. rewrite H. reflexivity. Qed.

Lemma site_ltb_trichotomy a b : site_ltb a b = true \/ a = b \/ site_ltb b a = true.
Proof.
  destruct a as [x y], b as [x' y']. unfold site_ltb; simpl.
  destruct (lex_trichotomy [x; y] [x'; y'] eq_refl) as [H|[H|H]]; auto.
  right; left. inversion H; reflexivity.
Qed.

Theorem ruc_unique_sites_distinct_labels p u u' :
  In u (pat_unique_sites p) -> In u' (pat_unique_sites p) -> pat_get p u = pat_get p u' -> u = u'.
Proof.
  unfold pat_unique_sites. rewrite !filter_In. intros [Hu Fu] [Hu' Fu'] Heq.
  apply negb_true_iff in Fu, Fu'.
  destruct (site_ltb_trichotomy u u') as [H|[H|H]]; auto.
  - assert (existsb (fun s' => site_ltb s' u' && (pat_get p s' =? pat_get p u')) (pat_cells p) = true).
    { apply existsb_exists. exists u. split; auto. rewrite H. simpl. lia. }
    congruence.
  - assert (existsb (fun s' => site_ltb s' u && (pat_get p s' =? pat_get p u)) (pat_cells p) = true).
    { apply existsb_exists. exists u'. split; auto. rewrite H. simpl. lia. }
    congruence.
Qed.

Theorem pat_get_periodic p x y a c : 0 < pat_Nx p -> 0 < pat_Ny p -> a mod pat_Nx p = 0 -> c mod pat_Ny p = 0 ->
  pat_get p (x + a, y + c) = pat_get p (x, y).
Proof.
  intros HNx HNy Ha Hc. unfold pat_get; simpl.
  rewrite (proj2 (mod_shift_iff _ x a HNx) Ha), (proj2 (mod_shift_iff _ y c HNy) Hc). reflexivity.
Qed.

(* ---------- Lattice container ---------- *)
Section ContainerLaws.
  Variable K : Type.
  Variable keqb : K -> K -> bool.
  Hypothesis keqb_eq : forall a b, keqb a b = true <-> a = b.
  Variable s2i : site -> K.
  Variable V : Type.

  Lemma assoc_get_set_same {A B} (eqb : A -> A -> bool) (Heq : forall a b, eqb a b = true <-> a = b) k (v : B) l :
    assoc_get eqb k (assoc_set eqb k v l) = Some v.
  Proof.
    induction l as [|[k' v'] r IH]; simpl.
    - rewrite (proj2 (Heq k k) eq_refl). reflexivity.
    - destruct (eqb k k') eqn:E; simpl.
      + rewrite (proj2 (Heq k k) eq_refl). reflexivity.
      + rewrite E. exact IH.
  Qed.

  Lemma assoc_get_set_other {A B} (eqb : A -> A -> bool) (Heq : forall a b, eqb a b = true <-> a = b) k k0 (v : B) l :
    k0 <> k -> assoc_get eqb k0 (assoc_set eqb k v l) = assoc_get eqb k0 l.
  Proof.
    intro Hne. induction l as [|[k' v'] r IH]; simpl.
    - destruct (eqb k0 k) eqn:E; auto. apply Heq in E. contradiction.
    - destruct (eqb k k') eqn:E; simpl.
      + apply Heq in E. subst k'. destruct (eqb k0 k) eqn:E2; auto. apply Heq in E2. contradiction.
      + destruct (eqb k0 k'); auto.
  Qed.

  Notation lget := (lat_get K keqb s2i V).
  Notation lset := (lat_set K keqb s2i V).

  (* without a patch entry: set; get returns the object for EVERY site with the same index, and nothing else changes *)
  Theorem lat_get_set_same l s v s' :
    assoc_get site_eqb s (patch K V l) = None -> assoc_get site_eqb s' (patch K V l) = None ->
    s2i s' = s2i s -> lget (lset l s v) s' = Some (Some v).
  Proof.
    intros Hs Hs' Hi. unfold lat_get, lat_set. rewrite Hs. simpl. rewrite Hs', Hi.
    apply assoc_get_set_same. exact keqb_eq.
  Qed.

  Theorem lat_get_set_other l s v s' :
    assoc_get site_eqb s (patch K V l) = None -> s2i s' <> s2i s -> lget (lset l s v) s' = lget l s'.
  Proof.
    intros Hs Hi. unfold lat_get, lat_set. rewrite Hs. simpl.
    destruct (assoc_get site_eqb s' (patch K V l)); auto.
    apply assoc_get_set_other; auto.
  Qed.

  (* a patch entry shadows the unique-site data: writes go to the patch only, for that very site only *)
  Theorem lat_patch_shadows l s w v :
    assoc_get site_eqb s (patch K V l) = Some w ->
    lget (lset l s v) s = Some (Some v) /\ site_data K V (lset l s v) = site_data K V l /\
    forall s', s' <> s -> lget (lset l s v) s' = lget l s'.
  Proof.
    intro Hs. unfold lat_get, lat_set. rewrite Hs. simpl. split; [|split]; auto.
    - rewrite (assoc_get_set_same site_eqb site_eqb_eq). reflexivity.
    - intros s' Hne. rewrite (assoc_get_set_other site_eqb site_eqb_eq) by exact Hne. reflexivity.
  Qed.

  Theorem lat_move_to_patch_keeps l s v :
    lget l s = Some (Some v) -> lget (lat_move_to_patch K keqb s2i V l s) s = Some (Some v).
  Proof.
    intro H. unfold lat_move_to_patch. rewrite H. unfold lat_get. simpl.
    rewrite (assoc_get_set_same site_eqb site_eqb_eq). reflexivity.
  Qed.

  (* apply_patch commits a single patch entry to every site of the same index and empties the patch *)
  Theorem lat_apply_patch_commits l s v s' :
    patch K V l = [(s, v)] -> s2i s' = s2i s ->
    lget (lat_apply_patch K keqb s2i V l) s' = Some (Some v) /\ patch K V (lat_apply_patch K keqb s2i V l) = [].
  Proof.
    intros Hp Hi. unfold lat_apply_patch, lat_get. simpl. rewrite Hp. simpl. split; auto.
    rewrite Hi. apply assoc_get_set_same. exact keqb_eq.
  Qed.
End ContainerLaws.
