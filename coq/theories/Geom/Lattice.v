(* Lattice.v -- hand-written model of yastn/tn/fpeps/_geometry.py:
   SquareLattice (nn_site, nn_bond_dirn, f_ordered, site2index, sites, bonds),
   CheckerboardLattice, RectangularUnitcell (validation, site2index, unique sites/bonds),
   TriangularLattice (both variants), and the Lattice container (item access, patches).
   Tied to the source by exhaustive correspondence over the property's box (tools/checks/C20.py).
   Model only; laws are in GeomLaws.v. *)
From Coq Require Import List ZArith Bool.
From Yv Require Import Base.LexOrder.
Import ListNotations.
Open Scope Z_scope.

Notation site := (Z * Z)%type (only parsing).
Inductive bc := Inf | Obc | Cyl.          (* _periodic_dict: 'ii' | 'oo' | 'po' *)
Inductive pchar := Pi | Po | Pp.
Definition per0 (b : bc) : pchar := match b with Inf => Pi | Obc => Po | Cyl => Pp end.
Definition per1 (b : bc) : pchar := match b with Inf => Pi | Obc => Po | Cyl => Po end.
Definition is_o (p : pchar) := match p with Po => true | _ => false end.
Definition is_p (p : pchar) := match p with Pp => true | _ => false end.
Definition is_i (p : pchar) := match p with Pi => true | _ => false end.

Definition out_of (n x : Z) : bool := (x <? 0) || (x >=? n).

(* SquareLattice.nn_site for a non-None site and a shift vector (the _dir table maps names to vectors) *)
Definition nn_site (b : bc) (Nx Ny : Z) (s d : site) : option site :=
  let x := fst s + fst d in
  let y := snd s + snd d in
  if is_o (per0 b) && out_of Nx x then None else
  if is_o (per1 b) && out_of Ny y then None else
  Some (if is_p (per0 b) && out_of Nx x then x mod Nx else x, y).

Definition nn_site_opt b Nx Ny (s : option site) d : option site :=
  match s with None => None | Some s => nn_site b Nx Ny s d end.

Definition dir_t : site := (-1, 0).  Definition dir_b : site := (1, 0).
Definition dir_l : site := (0, -1).  Definition dir_r : site := (0, 1).
Definition dir_tl : site := (-1, -1). Definition dir_tr : site := (-1, 1).
Definition dir_bl : site := (1, -1).  Definition dir_br : site := (1, 1).
Definition all_dirs : list site := [dir_tl; dir_t; dir_tr; dir_l; dir_r; dir_bl; dir_b; dir_br].

Definition site_eqb (a b : site) : bool := (fst a =? fst b) && (snd a =? snd b).
Definition osite_is (o : option site) (s : site) : bool :=
  match o with Some t => site_eqb t s | None => false end.

Inductive dirn := LR | TB | RL | BT.
Definition nn_bond_dirn b Nx Ny (s0 s1 : site) : option dirn :=
  if osite_is (nn_site b Nx Ny s0 dir_r) s1 && osite_is (nn_site b Nx Ny s1 dir_l) s0 then Some LR else
  if osite_is (nn_site b Nx Ny s0 dir_b) s1 && osite_is (nn_site b Nx Ny s1 dir_t) s0 then Some TB else
  if osite_is (nn_site b Nx Ny s0 dir_l) s1 && osite_is (nn_site b Nx Ny s1 dir_r) s0 then Some RL else
  if osite_is (nn_site b Nx Ny s0 dir_t) s1 && osite_is (nn_site b Nx Ny s1 dir_b) s0 then Some BT else
  None.   (* raise YastnError *)

Definition f_ordered (s0 s1 : site) : bool :=
  (snd s0 <? snd s1) || ((snd s0 =? snd s1) && (fst s0 <=? fst s1)).

Definition site2index (b : bc) (Nx Ny : Z) (s : site) : site :=
  (if is_i (per0 b) || is_p (per0 b) then fst s mod Nx else fst s,
   if is_i (per1 b) then snd s mod Ny else snd s).

Definition zrange (n : Z) : list Z := map Z.of_nat (seq 0 (Z.to_nat n)).

(* tuple(Site(nx, ny) for ny in range(Ny) for nx in range(Nx)) *)
Definition sq_sites (Nx Ny : Z) : list site :=
  flat_map (fun ny => map (fun nx => (nx, ny)) (zrange Nx)) (zrange Ny).

Definition bonds_dir b Nx Ny (d : site) (sites : list site) : list (site * site) :=
  flat_map (fun s => match nn_site b Nx Ny s d with Some s' => [(s, s')] | None => [] end) sites.
Definition sq_bonds_h b Nx Ny := bonds_dir b Nx Ny dir_r (sq_sites Nx Ny).
Definition sq_bonds_v b Nx Ny := bonds_dir b Nx Ny dir_b (sq_sites Nx Ny).

(* ---- CheckerboardLattice ---- *)
Definition cb_sites : list site := [(0, 0); (0, 1)].
Definition cb_bonds_h : list (site * site) := [((0, 0), (0, 1)); ((0, 1), (0, 2))].
Definition cb_bonds_v : list (site * site) := [((0, 0), (1, 0)); ((0, 1), (1, 1))].
Definition cb_site2index (s : site) : Z := (fst s + snd s) mod 2.

(* ---- TriangularLattice ---- *)
Definition tri3_sites : list site := [(0, 0); (0, 1); (0, 2)].
Definition tri3_bonds_h : list (site * site) := [((0,0),(0,1)); ((0,1),(0,2)); ((0,2),(0,3))].
Definition tri3_bonds_v : list (site * site) := [((0,0),(1,0)); ((0,1),(1,1)); ((0,2),(1,2))].
Definition tri3_bonds_d : list (site * site) := [((1,0),(0,1)); ((1,1),(0,2)); ((1,2),(0,3))].
Definition tri3_site2index (s : site) : Z := (snd s - fst s) mod 3.
Definition trifull_site2index (Nx Ny : Z) (s : site) : Z := (fst s mod Nx) * Ny + snd s mod Ny.
(* full_patch=True: Bond(nn_site(s,'b'), nn_site(s,'r')) for every site where both ends exist *)
Definition trifull_bonds_d b Nx Ny : list (site * site) :=
  flat_map (fun s => match nn_site b Nx Ny s dir_b, nn_site b Nx Ny s dir_r with
                     | Some sb, Some sr => [(sb, sr)] | _, _ => [] end) (sq_sites Nx Ny).

(* ---- RectangularUnitcell ---- *)
Definition pat := list (list Z).
Definition pat_Nx (p : pat) : Z := Z.of_nat (length p).
Definition pat_Ny (p : pat) : Z := Z.of_nat (length (hd [] p)).
Definition pat_rect (p : pat) : bool :=
  negb (Nat.eqb (length p) 0) && negb (Nat.eqb (length (hd [] p)) 0) &&
  forallb (fun row => Nat.eqb (length row) (length (hd [] p))) p.
Definition pat_get (p : pat) (s : site) : Z :=
  nth (Z.to_nat (snd s mod pat_Ny p)) (nth (Z.to_nat (fst s mod pat_Nx p)) p []) (-1).
Definition pat_env (p : pat) (s : site) : list Z :=
  [pat_get p (fst s - 1, snd s); pat_get p (fst s, snd s - 1); pat_get p (fst s + 1, snd s); pat_get p (fst s, snd s + 1)].
(* sites in the constructor's visiting order: for nx: for ny *)
Definition pat_cells (p : pat) : list site :=
  flat_map (fun nx => map (fun ny => (nx, ny)) (zrange (pat_Ny p))) (zrange (pat_Nx p)).
Definition pat_envs_ok (p : pat) : bool :=
  forallb (fun s => forallb (fun s' => negb (pat_get p s =? pat_get p s') || lex_eqb (pat_env p s) (pat_env p s'))
                            (pat_cells p)) (pat_cells p).
Inductive ruc_res := RucOk (sites : list site) (bh bv : list (site * site)) | RucErrShape | RucErrEnv.
Definition site_ltb (a b : site) : bool := lex_ltb [fst a; snd a] [fst b; snd b].
(* first cell (in lexicographic (nx,ny) order = visiting order) carrying each label; sorted = visiting order filtered *)
Definition pat_unique_sites (p : pat) : list site :=
  filter (fun s => negb (existsb (fun s' => site_ltb s' s && (pat_get p s' =? pat_get p s)) (pat_cells p))) (pat_cells p).
Definition ruc_make (p : pat) : ruc_res :=
  if negb (pat_rect p) then RucErrShape else
  if negb (pat_envs_ok p) then RucErrEnv else
  let ss := pat_unique_sites p in
  RucOk ss (map (fun s => (s, (fst s, snd s + 1))) ss) (map (fun s => (s, (fst s + 1, snd s))) ss).

(* ---- Lattice container: _site_data keyed by site2index, _patch keyed by site ---- *)
Section Container.
  Variable K : Type.                 (* type of site2index results *)
  Variable keqb : K -> K -> bool.
  Variable s2i : site -> K.
  Variable V : Type.
  Record lat := { site_data : list (K * option V); patch : list (site * V) }.

  Fixpoint assoc_get {A B} (eqb : A -> A -> bool) (k : A) (l : list (A * B)) : option B :=
    match l with [] => None | (k', v) :: r => if eqb k k' then Some v else assoc_get eqb k r end.
  Fixpoint assoc_set {A B} (eqb : A -> A -> bool) (k : A) (v : B) (l : list (A * B)) : list (A * B) :=
    match l with
    | [] => [(k, v)]
    | (k', v') :: r => if eqb k k' then (k, v) :: r else (k', v') :: assoc_set eqb k v r
    end.
  Fixpoint assoc_del {A B} (eqb : A -> A -> bool) (k : A) (l : list (A * B)) : list (A * B) :=
    match l with [] => [] | (k', v') :: r => if eqb k k' then r else (k', v') :: assoc_del eqb k r end.

  (* __getitem__: KeyError (None at the outer level) when the index is not a unique-site index *)
  Definition lat_get (l : lat) (s : site) : option (option V) :=
    match assoc_get site_eqb s (patch l) with
    | Some v => Some (Some v)
    | None => assoc_get keqb (s2i s) (site_data l)
    end.
  Definition lat_set (l : lat) (s : site) (v : V) : lat :=
    match assoc_get site_eqb s (patch l) with
    | Some _ => {| site_data := site_data l; patch := assoc_set site_eqb s v (patch l) |}
    | None => {| site_data := assoc_set keqb (s2i s) (Some v) (site_data l); patch := patch l |}
    end.
  (* move_to_patch of one site (the shallow copy is the caller's concern: V is a value here) *)
  Definition lat_move_to_patch (l : lat) (s : site) : lat :=
    match lat_get l s with
    | Some (Some v) => {| site_data := site_data l; patch := assoc_set site_eqb s v (patch l) |}
    | _ => l
    end.
  (* apply_patch: pops patch entries in insertion order, writing each into site_data *)
  Fixpoint apply_entries (sd : list (K * option V)) (p : list (site * V)) : list (K * option V) :=
    match p with [] => sd | (s, v) :: r => apply_entries (assoc_set keqb (s2i s) (Some v) sd) r end.
  Definition lat_apply_patch (l : lat) : lat :=
    {| site_data := apply_entries (site_data l) (patch l); patch := [] |}.
  Definition lat_init (sites : list site) : lat :=
    {| site_data := fold_left (fun sd s => assoc_set keqb (s2i s) None sd) sites []; patch := [] |}.
End Container.
