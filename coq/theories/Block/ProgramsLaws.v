(* ProgramsLaws.v -- every program over well-formed leaves evaluates to a well-formed charge structure. *)
From Coq Require Import List ZArith Bool Lia Permutation.
From Yv Require Import Base.LexOrder Sym.Descr Sym.SymLaws Block.Charge Block.Programs.
Import ListNotations.
Open Scope Z_scope.
Local Arguments Z.mul : simpl never.
Local Arguments Z.add : simpl never.

Section Laws.
  Variable d : descr.
  Hypothesis Hd : okdescr d.

  Lemma sel_of_wsum_eq k s k' s' n :
    (forall c, wsum s' (column c k') = wsum s (column c k)) -> sel d k s n -> sel d k' s' n.
  Proof.
    intros H Hs. unfold sel in *. rewrite <- Hs. apply gfuse_ext. intros c _. unfold comp. rewrite H. reflexivity.
  Qed.

  Lemma sel_swap2 k s n : length k = length s -> sel d k s n -> sel d (swap2 k) (swap2 s) n.
  Proof.
    intros Hl. apply sel_of_wsum_eq. intro c.
    destruct k as [|a [|b k]]; destruct s as [|x [|y s]]; simpl in *; try discriminate; auto. ring.
  Qed.

  Lemma sel_rot k s n : length k = length s -> sel d k s n -> sel d (rot k) (rot s) n.
  Proof.
    intros Hl. apply sel_of_wsum_eq. intro c.
    destruct k as [|a k]; destruct s as [|x s]; simpl in *; try discriminate; auto.
    rewrite column_app, wsum_app by (rewrite column_length; lia). simpl. ring.
  Qed.

  Lemma swap2_length {A} (l : list A) : length (swap2 l) = length l.
  Proof. destruct l as [|a [|b l]]; reflexivity. Qed.
  Lemma rot_length {A} (l : list A) : length (rot l) = length l.
  Proof. destruct l; simpl; auto. rewrite app_length. simpl. lia. Qed.

  Lemma cwf_conj c : cwf d c -> cwf d (c_conj d c).
  Proof.
    unfold cwf, c_conj; simpl. intro H. eapply Forall_impl; [|exact H]. intros k [Hl Hs].
    split; [rewrite map_length; exact Hl | apply sel_conj; assumption].
  Qed.

  Lemma cwf_swap c : cwf d c -> cwf d (c_map (@swap2) c).
  Proof.
    unfold cwf, c_map; simpl. intro H. apply Forall_forall. intros k Hk. apply in_map_iff in Hk as [k0 [<- Hk0]].
    rewrite Forall_forall in H. destruct (H k0 Hk0) as [Hl Hs]. split; [rewrite !swap2_length; exact Hl | apply sel_swap2; assumption].
  Qed.

  Lemma cwf_rot c : cwf d c -> cwf d (c_map (@rot) c).
  Proof.
    unfold cwf, c_map; simpl. intro H. apply Forall_forall. intros k Hk. apply in_map_iff in Hk as [k0 [<- Hk0]].
    rewrite Forall_forall in H. destruct (H k0 Hk0) as [Hl Hs]. split; [rewrite !rot_length; exact Hl | apply sel_rot; assumption].
  Qed.

  Lemma cwf_add_leg t x c : cwf d c -> cwf d (c_add_leg d t x c).
  Proof.
    unfold cwf, c_add_leg; simpl. intro H. apply Forall_forall. intros k Hk. apply in_map_iff in Hk as [k0 [<- Hk0]].
    rewrite Forall_forall in H. destruct (H k0 Hk0) as [Hl Hs]. split; [rewrite !app_length; simpl; lia | apply sel_add_leg; assumption].
  Qed.

  Lemma lastn_2_cases {A} (l : list A) x y : lastn 2 l = [x; y] -> l = butlastn 2 l ++ [x; y].
  Proof. intro H. rewrite <- H. symmetry. apply butlast_last. Qed.

  Lemma cwf_trace c c' : cwf d c -> c_trace c = Some c' -> cwf d c'.
  Proof.
    unfold cwf, c_trace. intros H Ht.
    destruct (lastn 2 (cs_s c)) as [|x [|y [|z r]]] eqn:Es; try discriminate.
    destruct (y =? - x) eqn:Ey; [|discriminate]. apply Z.eqb_eq in Ey. subst y.
    inversion Ht; subst; clear Ht. simpl.
    apply Forall_forall. intros k Hk. apply in_map_iff in Hk as [k0 [<- Hk0]]. apply filter_In in Hk0 as [Hin Hf].
    rewrite Forall_forall in H. destruct (H k0 Hin) as [Hl Hs].
    destruct (lastn 2 k0) as [|t [|u [|w r]]] eqn:Ek; try discriminate. apply lex_eqb_eq in Hf. subst u.
    pose proof (lastn_2_cases _ _ _ Es) as Es'. pose proof (lastn_2_cases _ _ _ Ek) as Ek'.
    assert (Hlen : length (butlastn 2 k0) = length (butlastn 2 (cs_s c))).
    { rewrite Es' in Hl at 1. rewrite Ek' in Hl at 1. rewrite !app_length in Hl. simpl in Hl. lia. }
    split; [exact Hlen|]. apply (sel_trace d (butlastn 2 k0) (butlastn 2 (cs_s c)) t x); [exact Hlen|].
    rewrite <- Ek', <- Es'. exact Hs.
  Qed.

  Lemma cwf_dot nc a b c : cwf d a -> cwf d b -> c_dot d nc a b = Some c -> cwf d c.
  Proof.
    unfold cwf, c_dot. intros Ha Hb H.
    destruct (lex_eqb _ _ && _ && _) eqn:E; [|discriminate].
    apply andb_true_iff in E as [E E3]. apply andb_true_iff in E as [E1 E2].
    apply lex_eqb_eq in E1. apply Nat.leb_le in E2, E3.
    inversion H; subst; clear H. simpl.
    apply Forall_forall. intros k Hk. apply in_flat_map in Hk as [ka [Hka Hk]]. apply in_flat_map in Hk as [kb [Hkb Hk]].
    destruct (keys_eqb (lastn nc ka) (firstn nc kb)) eqn:Ek; [|contradiction]. destruct Hk as [<-|[]].
    apply keys_eqb_eq in Ek.
    rewrite Forall_forall in Ha, Hb. destruct (Ha ka Hka) as [Hla Hsa]. destruct (Hb kb Hkb) as [Hlb Hsb].
    assert (L1 : length (butlastn nc ka) = length (butlastn nc (cs_s a))) by (unfold butlastn; rewrite !firstn_length; lia).
    assert (L2 : length (lastn nc ka) = length (lastn nc (cs_s a))) by (unfold lastn; rewrite !skipn_length; lia).
    split; [rewrite !app_length, !skipn_length; lia|].
    apply (sel_tensordot d Hd (butlastn nc ka) (lastn nc ka) (skipn nc kb) (butlastn nc (cs_s a)) (lastn nc (cs_s a)) (skipn nc (cs_s b))); auto.
    - rewrite !butlast_last. exact Hsa.
    - rewrite E1, map_map. rewrite (map_ext (fun x => - - x) (fun x => x)) by (intro; lia). rewrite map_id.
      rewrite Ek, !firstn_skipn. exact Hsb.
  Qed.

  (* for all programs (finite trees of operations): well-formed leaves give a well-formed result *)
  Theorem programs_conserve_charge (e : cexpr) : forall c, leaves_wf d e -> ceval d e = Some c -> cwf d c.
  Proof.
    induction e as [c0|e IH|e IH|e IH|e IH|t x e IH|nc e1 IH1 e2 IH2]; intros c Hl Hev; simpl in *.
    - inversion Hev; subst; exact Hl.
    - destruct (ceval d e) as [c1|]; [|discriminate]. inversion Hev; subst. apply cwf_conj. apply IH; [exact Hl | reflexivity].
    - destruct (ceval d e) as [c1|]; [|discriminate]. inversion Hev; subst. apply cwf_swap. apply IH; [exact Hl | reflexivity].
    - destruct (ceval d e) as [c1|]; [|discriminate]. inversion Hev; subst. apply cwf_rot. apply IH; [exact Hl | reflexivity].
    - destruct (ceval d e) as [c1|]; [|discriminate]. eapply cwf_trace; [apply IH; [exact Hl | reflexivity] | exact Hev].
    - destruct (ceval d e) as [c1|]; [|discriminate]. inversion Hev; subst. apply cwf_add_leg. apply IH; [exact Hl | reflexivity].
    - destruct Hl as [Hl1 Hl2]. destruct (ceval d e1) as [c1|]; [|discriminate]. destruct (ceval d e2) as [c2|]; [|discriminate].
      eapply cwf_dot; [apply IH1; [exact Hl1 | reflexivity] | apply IH2; [exact Hl2 | reflexivity] | exact Hev].
  Qed.
End Laws.
