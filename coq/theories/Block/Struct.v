(* Struct.v -- executable well-formedness predicate for the exported structure of a yastn tensor
   (struct, slices, data length, mfs, hfs heads, trans), parameterised by the symmetry's fusion rule.
   Stronger than (implies every assertion of) Tensor.is_consistent's structural part.  Model only. *)
From Coq Require Import List ZArith Bool Arith.
From Yv Require Import Base.LexOrder Sym.Descr Sym.Leg.
Import ListNotations.
Open Scope Z_scope.

Record tstruct := {
  ts_nsym : nat; ts_s : list Z; ts_n : list Z; ts_diag : bool;
  ts_keys : list (list Z);          (* per block: the charges of all legs, concatenated *)
  ts_shapes : list (list Z);        (* per block: one dimension per leg *)
  ts_slices : list (Z * Z * Z);     (* per block: start, stop, Dp *)
  ts_size : Z; ts_datalen : Z;
  ts_mfs : list (list Z);           (* meta-fusion trees (first entry = number of native legs below) *)
  ts_hfs_heads : list Z;            (* head signature of each native leg's hard-fusion history *)
  ts_trans : list Z }.

Fixpoint strictly_sorted (l : list (list Z)) : bool :=
  match l with
  | a :: ((b :: _) as r) => lex_ltb a b && strictly_sorted r
  | _ => true
  end.

Definition prodZ (l : list Z) : Z := fold_right Z.mul 1 l.

Fixpoint slices_contiguous (start : Z) (l : list (Z * Z * Z)) : option Z :=
  match l with
  | [] => Some start
  | (a, b, dp) :: r => if (a =? start) && (b =? a + dp) && (0 <? dp) then slices_contiguous b r else None
  end.

(* per-leg consistency: the same charge on the same leg always has the same dimension *)
Definition leg_dims_consistent (nsym nlegs : nat) (keys shapes : list (list Z)) : bool :=
  forallb (fun i =>
    let entries := map (fun ks => (firstn nsym (skipn (i * nsym) (fst ks)), nth i (snd ks) 0)) (combine keys shapes) in
    forallb (fun e => forallb (fun e' => negb (lex_eqb (fst e) (fst e')) || (snd e =? snd e')) entries) entries)
  (seq 0 nlegs).

Definition is_perm_of_range (n : nat) (l : list Z) : bool :=
  Nat.eqb (length l) n && forallb (fun i => existsb (Z.eqb (Z.of_nat i)) l) (seq 0 n).

Section WF.
  Variable fuse : list (list Z) -> list Z -> Z -> list Z.

  Definition wf_struct (t : tstruct) : bool :=
    let nsym := ts_nsym t in
    let nlegs := length (ts_s t) in
    let nb := length (ts_keys t) in
    Nat.eqb (length (ts_shapes t)) nb && Nat.eqb (length (ts_slices t)) nb &&
    forallb (fun s => (s =? 1) || (s =? -1)) (ts_s t) &&
    Nat.eqb (length (ts_n t)) nsym &&
    strictly_sorted (ts_keys t) &&
    forallb (fun k => Nat.eqb (length k) (nlegs * nsym)) (ts_keys t) &&
    forallb (fun sh => Nat.eqb (length sh) nlegs && forallb (fun x => 0 <? x) sh) (ts_shapes t) &&
    (* selection rule *)
    forallb (fun k => lex_eqb (fuse (chunks nsym nlegs k) (ts_s t) 1) (ts_n t)) (ts_keys t) &&
    leg_dims_consistent nsym nlegs (ts_keys t) (ts_shapes t) &&
    (* storage *)
    forallb (fun p => let '(sh, (_, _, dp)) := p in
                      if ts_diag t then dp =? nth 0 sh 0 else dp =? prodZ sh) (combine (ts_shapes t) (ts_slices t)) &&
    (match slices_contiguous 0 (ts_slices t) with Some e => (e =? ts_size t) && (ts_size t =? ts_datalen t) | None => false end) &&
    (* diagonal tensors *)
    (if ts_diag t then
       Nat.eqb nlegs 2 && (fold_right Z.add 0 (ts_s t) =? 0) && forallb (Z.eqb 0) (ts_n t) &&
       forallb (fun sh => nth 0 sh 0 =? nth 1 sh 0) (ts_shapes t) &&
       forallb (fun k => lex_eqb (firstn nsym k) (skipn nsym k)) (ts_keys t)
     else true) &&
    (* fusion bookkeeping and lazy permutation *)
    (fold_right Z.add 0 (map (fun m => nth 0 m 0) (ts_mfs t)) =? Z.of_nat nlegs) &&
    lex_eqb (ts_hfs_heads t) (ts_s t) &&
    is_perm_of_range nlegs (ts_trans t).
End WF.
