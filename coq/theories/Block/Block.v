(* Block.v -- L-block: a symmetric tensor as a finite map from block keys (one charge per leg, flattened)
   to dense blocks (shape, row-major data), with the linear operations defined the way yastn defines them
   (_meta_addition: union of the two block sets, common blocks added element-wise).  Model only. *)
From Coq Require Import List ZArith Bool Arith.
From Yv Require Import Base.LexOrder.
Import ListNotations.
Open Scope Z_scope.

Definition block := (list Z * list Z)%type.            (* shape, row-major data *)
Definition bten := list (list Z * block).               (* key -> block, keys strictly sorted *)

Fixpoint bfind (k : list Z) (a : bten) : option block :=
  match a with [] => None | (k', b) :: r => if lex_eqb k k' then Some b else bfind k r end.

(* value of the tensor at block key k, flat position i inside the block; zero where no block is stored *)
Definition sget (a : bten) (k : list Z) (i : nat) : Z :=
  match bfind k a with Some (_, d) => nth i d 0 | None => 0 end.

Definition bmap (f : Z -> Z) (a : bten) : bten := map (fun kb => (fst kb, (fst (snd kb), map f (snd (snd kb))))) a.
Definition bscal (c : Z) : bten -> bten := bmap (Z.mul c).
Definition bneg : bten -> bten := bmap Z.opp.

Fixpoint zip_add (x y : list Z) : list Z :=
  match x, y with
  | a :: x', b :: y' => (a + b) :: zip_add x' y'
  | _, _ => []
  end.

(* merge of two key-sorted block lists (the order _meta_addition produces) *)
Fixpoint badd_fuel (fuel : nat) (a b : bten) : bten :=
  match fuel with
  | O => []
  | S f =>
    match a, b with
    | [], _ => b
    | _, [] => a
    | (ka, (sa, da)) :: ra, (kb, (sb, db)) :: rb =>
      if lex_eqb ka kb then (ka, (sa, zip_add da db)) :: badd_fuel f ra rb
      else if lex_ltb ka kb then (ka, (sa, da)) :: badd_fuel f ra b
      else (kb, (sb, db)) :: badd_fuel f a rb
    end
  end.
Definition badd (a b : bten) : bten := badd_fuel (length a + length b) a b.
Definition bsub (a b : bten) : bten := badd a (bneg b).
Definition blin (x y : Z) (a b : bten) : bten := badd (bscal x a) (bscal y b).

Fixpoint keys_sorted (a : bten) : bool :=
  match a with
  | (k, _) :: (((k', _) :: _) as r) => lex_ltb k k' && keys_sorted r
  | _ => true
  end.
(* operands of an addition must agree on the shape of every common block *)
Definition compatible (a b : bten) : bool :=
  forallb (fun kb => match bfind (fst kb) b with
                     | Some (s, d) => lex_eqb s (fst (snd kb)) && Nat.eqb (length d) (length (snd (snd kb)))
                     | None => true end) a.
