(* Programs.v -- charge structures (signature, total charge, block keys) and a small language of tensor programs over
   them; every program built from well-formed leaves yields a well-formed result (selection rule = charge conservation),
   by induction over the program -- i.e. for all finite sequences/trees of operations. *)
From Coq Require Import List ZArith Bool Lia Permutation.
From Yv Require Import Base.LexOrder Sym.Descr Sym.SymLaws Block.Charge.
Import ListNotations.
Open Scope Z_scope.

Record cstruct := { cs_s : list Z; cs_n : list Z; cs_keys : list (list (list Z)) }.

Definition cwf (d : descr) (c : cstruct) : Prop :=
  Forall (fun k => length k = length (cs_s c) /\ sel d k (cs_s c) (cs_n c)) (cs_keys c).

Fixpoint keys_eqb (a b : list (list Z)) : bool :=
  match a, b with [], [] => true | x :: a', y :: b' => lex_eqb x y && keys_eqb a' b' | _, _ => false end.
Lemma keys_eqb_eq a b : keys_eqb a b = true -> a = b.
Proof.
  revert b; induction a as [|x a IH]; intros [|y b]; simpl; try discriminate; auto.
  intro H. apply andb_true_iff in H as [H1 H2]. apply lex_eqb_eq in H1. subst. f_equal. auto.
Qed.

Definition lastn {A} (n : nat) (l : list A) : list A := skipn (length l - n) l.
Definition butlastn {A} (n : nat) (l : list A) : list A := firstn (length l - n) l.
Lemma butlast_last {A} n (l : list A) : butlastn n l ++ lastn n l = l.
Proof. apply firstn_skipn. Qed.

Inductive cexpr :=
| CLeaf (c : cstruct)
| CConj (e : cexpr)                       (* conj / flip_signature *)
| CSwapFirst (e : cexpr)                  (* transposition generator: exchange legs 0 and 1 *)
| CRotate (e : cexpr)                     (* transposition generator: move leg 0 to the end *)
| CTraceLast (e : cexpr)                  (* trace over the last two legs *)
| CAddLeg (t : list Z) (x : Z) (e : cexpr)
| CDot (nc : nat) (e1 e2 : cexpr).        (* contract the last nc legs of e1 with the first nc legs of e2 *)

Section Eval.
  Variable d : descr.

  Definition c_conj (c : cstruct) : cstruct :=
    {| cs_s := map Z.opp (cs_s c); cs_n := gneg d (cs_n c); cs_keys := cs_keys c |}.
  Definition swap2 {A} (l : list A) : list A := match l with a :: b :: r => b :: a :: r | _ => l end.
  Definition rot {A} (l : list A) : list A := match l with a :: r => r ++ [a] | [] => [] end.
  Definition c_map (f : forall A, list A -> list A) (c : cstruct) : cstruct :=
    {| cs_s := f _ (cs_s c); cs_n := cs_n c; cs_keys := map (f _) (cs_keys c) |}.
  Definition c_trace (c : cstruct) : option cstruct :=
    match lastn 2 (cs_s c) with
    | [x; y] => if y =? - x then
        Some {| cs_s := butlastn 2 (cs_s c); cs_n := cs_n c;
                cs_keys := map (butlastn 2) (filter (fun k => match lastn 2 k with [t; u] => lex_eqb t u | _ => false end) (cs_keys c)) |}
      else None
    | _ => None
    end.
  Definition c_add_leg (t : list Z) (x : Z) (c : cstruct) : cstruct :=
    {| cs_s := cs_s c ++ [x]; cs_n := gfuse d [cs_n c; t] [1; x] 1; cs_keys := map (fun k => k ++ [t]) (cs_keys c) |}.
  Definition c_dot (nc : nat) (a b : cstruct) : option cstruct :=
    if lex_eqb (lastn nc (cs_s a)) (map Z.opp (firstn nc (cs_s b))) && Nat.leb nc (length (cs_s a)) && Nat.leb nc (length (cs_s b)) then
      Some {| cs_s := butlastn nc (cs_s a) ++ skipn nc (cs_s b);
              cs_n := gadd d (cs_n a) (cs_n b);
              cs_keys := flat_map (fun ka => flat_map (fun kb =>
                            if keys_eqb (lastn nc ka) (firstn nc kb) then [butlastn nc ka ++ skipn nc kb] else [])
                            (cs_keys b)) (cs_keys a) |}
    else None.

  Fixpoint ceval (e : cexpr) : option cstruct :=
    match e with
    | CLeaf c => Some c
    | CConj e => option_map c_conj (ceval e)
    | CSwapFirst e => option_map (c_map (@swap2)) (ceval e)
    | CRotate e => option_map (c_map (@rot)) (ceval e)
    | CTraceLast e => match ceval e with Some c => c_trace c | None => None end
    | CAddLeg t x e => option_map (c_add_leg t x) (ceval e)
    | CDot nc e1 e2 => match ceval e1, ceval e2 with Some a, Some b => c_dot nc a b | _, _ => None end
    end.

  Fixpoint leaves_wf (e : cexpr) : Prop :=
    match e with
    | CLeaf c => cwf d c
    | CConj e | CSwapFirst e | CRotate e | CTraceLast e | CAddLeg _ _ e => leaves_wf e
    | CDot _ e1 e2 => leaves_wf e1 /\ leaves_wf e2
    end.
End Eval.
