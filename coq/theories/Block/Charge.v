(* Charge.v -- the selection rule and how total charges combine under the tensor operations,
   for every symmetry descriptor with positive moduli (built on Sym/SymLaws.v). *)
From Coq Require Import List ZArith Bool Lia Permutation.
From Yv Require Import Sym.Descr Sym.SymLaws.
Import ListNotations.
Open Scope Z_scope.
Local Arguments Z.mul : simpl never.
Local Arguments Z.add : simpl never.
Local Arguments Z.modulo : simpl never.

(* a block with one charge per leg [key] satisfies the selection rule of a tensor with signature s and charge n *)
Definition sel (d : descr) (key : list charge) (s : list Z) (n : charge) : Prop := gfuse d key s 1 = n.

Lemma wsum_map_opp ss ts : wsum (map Z.opp ss) ts = - wsum ss ts.
Proof. revert ts; induction ss as [|s ss IH]; intros [|t ts]; simpl; auto. rewrite IH. ring. Qed.

Lemma nth_sel d key s n c : sel d key s n -> (c < length d)%nat -> nth c n 0 = norm1 (nth c d None) (wsum s (column c key)).
Proof. intros H Hc. rewrite <- H. rewrite nth_gfuse by exact Hc. unfold comp. f_equal. ring. Qed.

Section Algebra.
  Variable d : descr.
  Hypothesis Hd : okdescr d.

  Ltac comp c Hc Hok := apply list_eq_nth; [rewrite ?gfuse_length; auto | intros c Hc; rewrite gfuse_length in Hc; pose proof (okdescr_nth d c Hd) as Hok].

  (* tensordot: contracted legs carry equal charges and opposite signatures *)
  Theorem sel_tensordot ka_out kc kb_out sa_out sc sb_out na nb :
    length ka_out = length sa_out -> length kc = length sc ->
    sel d (ka_out ++ kc) (sa_out ++ sc) na ->
    sel d (kc ++ kb_out) (map Z.opp sc ++ sb_out) nb ->
    sel d (ka_out ++ kb_out) (sa_out ++ sb_out) (gadd d na nb).
  Proof.
    intros Ha Hc Hsa Hsb. unfold sel, gadd.
    apply list_eq_nth; [rewrite !gfuse_length; reflexivity|].
    intros c Hlt. rewrite gfuse_length in Hlt. pose proof (okdescr_nth d c Hd) as Hok.
    rewrite !nth_gfuse by exact Hlt. unfold comp. simpl.
    rewrite (nth_sel d _ _ _ c Hsa Hlt), (nth_sel d _ _ _ c Hsb Hlt).
    rewrite !column_app. rewrite !wsum_app by (rewrite ?column_length, ?map_length; congruence).
    rewrite wsum_map_opp.
    rewrite !Z.mul_1_l, Z.add_0_r. rewrite norm1_add by exact Hok. f_equal. ring.
  Qed.

  (* conjugation / flip_signature: all signatures flip, the charge is negated *)
  Theorem sel_conj key s n : sel d key s n -> sel d key (map Z.opp s) (gneg d n).
  Proof.
    intro H. unfold sel, gneg.
    apply list_eq_nth; [rewrite !gfuse_length; reflexivity|].
    intros c Hlt. rewrite gfuse_length in Hlt. pose proof (okdescr_nth d c Hd) as Hok.
    rewrite !nth_gfuse by exact Hlt. unfold comp. simpl.
    rewrite (nth_sel d _ _ _ c H Hlt). rewrite wsum_map_opp.
    rewrite Z.add_0_r, !Z.mul_1_l. rewrite norm1_mul_r by exact Hok. f_equal; ring.
  Qed.

  (* transposition: legs (charge, signature) permuted together; charge unchanged *)
  Theorem sel_transpose (p q : list (Z * charge)) n : Permutation p q ->
    sel d (map snd p) (map fst p) n -> sel d (map snd q) (map fst q) n.
  Proof. intros HP H. unfold sel in *. rewrite <- (gfuse_perm d Hd p q 1 HP). exact H. Qed.

  (* trace over a pair of legs with equal charge and opposite signature *)
  Theorem sel_trace k_out s_out t x n : length k_out = length s_out ->
    sel d (k_out ++ [t; t]) (s_out ++ [x; - x]) n -> sel d k_out s_out n.
  Proof.
    intros Hl H. unfold sel in *. rewrite <- H.
    apply gfuse_ext. intros c Hlt. unfold comp. f_equal. f_equal.
    rewrite column_app, wsum_app by (rewrite column_length; congruence). simpl. ring.
  Qed.

  (* hard fusion of groups of legs: the fused tensor satisfies the selection rule with the group charges *)
  Theorem sel_fuse (gs : list group) n : Forall g_ok gs ->
    sel d (concat (map (fun g => let '(cs, _, _) := g in cs) gs)) (concat (map (fun g => let '(_, ss, _) := g in ss) gs)) n ->
    sel d (map (fun g => let '(cs, ss, sg) := g in gfuse d cs ss sg) gs) (map (fun g => let '(_, _, sg) := g in sg) gs) n.
  Proof. intros Hg H. unfold sel in *. rewrite (gfuse_grouping d Hd gs 1 Hg). exact H. Qed.

  (* add_leg with charge t and signature x: n' = n + x t *)
  Theorem sel_add_leg key s n t x : length key = length s ->
    sel d key s n -> sel d (key ++ [t]) (s ++ [x]) (gfuse d [n; t] [1; x] 1).
  Proof.
    intros Hl H. unfold sel in *.
    apply list_eq_nth; [rewrite !gfuse_length; reflexivity|].
    intros c Hlt. rewrite gfuse_length in Hlt. pose proof (okdescr_nth d c Hd) as Hok.
    rewrite !nth_gfuse by exact Hlt. unfold comp. simpl.
    rewrite (nth_sel d _ _ _ c H Hlt).
    rewrite column_app, wsum_app by (rewrite column_length; congruence). simpl.
    rewrite !Z.mul_1_l, !Z.add_0_r. rewrite norm1_add_l by exact Hok. reflexivity.
  Qed.

  (* element-wise operations, scalar multiples and sums keep key, signature and charge: nothing to prove beyond identity;
     addition requires equal charges -- recorded for completeness *)
  Theorem sel_add key s n : sel d key s n -> sel d key s n -> sel d key s n.
  Proof. auto. Qed.
End Algebra.
