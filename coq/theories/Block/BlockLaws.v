(* BlockLaws.v -- the linear operations commute with the dense (sector, position) semantics [sget]. *)
From Coq Require Import List ZArith Bool Arith Lia.
From Yv Require Import Base.LexOrder Block.Block.
Import ListNotations.
Open Scope Z_scope.

Lemma bfind_bmap f a k : bfind k (bmap f a) = option_map (fun b => (fst b, map f (snd b))) (bfind k a).
Proof. induction a as [|[k' [s d]] r IH]; simpl; auto. destruct (lex_eqb k k'); simpl; auto. Qed.

Theorem sget_bmap f a k i : f 0 = 0 -> sget (bmap f a) k i = f (sget a k i).
Proof.
  intro H0. unfold sget. rewrite bfind_bmap. destruct (bfind k a) as [[s d]|]; simpl; auto.
  rewrite <- H0 at 1. apply map_nth.
Qed.

Theorem sget_bscal c a k i : sget (bscal c a) k i = c * sget a k i.
Proof. unfold bscal. apply sget_bmap. lia. Qed.

Theorem sget_bneg a k i : sget (bneg a) k i = - sget a k i.
Proof. unfold bneg. apply sget_bmap. lia. Qed.

Lemma nth_zip_add x y i : length x = length y -> nth i (zip_add x y) 0 = nth i x 0 + nth i y 0.
Proof.
  revert y i; induction x as [|a x IH]; intros [|b y] i Hl; simpl in *; try discriminate.
  - destruct i; reflexivity.
  - destruct i; [reflexivity|]. apply IH. lia.
Qed.

(* all keys of a sorted list are above its head *)
Lemma keys_sorted_tail k b r : keys_sorted ((k, b) :: r) = true -> keys_sorted r = true.
Proof. destruct r as [|[k' b'] r]; simpl; auto. intro H. apply andb_true_iff in H. tauto. Qed.

Lemma keys_sorted_above k b r k0 : keys_sorted ((k, b) :: r) = true -> bfind k0 r <> None -> lex_ltb k k0 = true.
Proof.
  revert k b; induction r as [|[k' b'] r IH]; intros k b Hs Hf; simpl in *; [congruence|].
  apply andb_true_iff in Hs as [Hlt Hs].
  destruct (lex_eqb k0 k') eqn:E.
  - apply lex_eqb_eq in E. subst. exact Hlt.
  - eapply lex_ltb_trans; [exact Hlt|]. apply (IH k' b' Hs Hf).
Qed.

Lemma bfind_none_below k0 k b r : keys_sorted ((k, b) :: r) = true -> lex_ltb k0 k = true -> bfind k0 ((k, b) :: r) = None.
Proof.
  intros Hs Hlt. destruct (bfind k0 ((k, b) :: r)) eqn:E; auto. exfalso.
  simpl in E. destruct (lex_eqb k0 k) eqn:E1.
  - apply lex_eqb_eq in E1. subst. rewrite lex_ltb_irrefl in Hlt. discriminate.
  - assert (Hf : bfind k0 r <> None) by congruence.
    pose proof (keys_sorted_above k b r k0 Hs Hf) as H2.
    pose proof (lex_ltb_trans _ _ _ Hlt H2) as H3. rewrite lex_ltb_irrefl in H3. discriminate.
Qed.

Lemma in_bfind_some (x : list Z * block) l : In x l -> bfind (fst x) l <> None.
Proof.
  induction l as [|[k' b'] r IH]; [contradiction|]. simpl. intros [<-|Hx]; [simpl; rewrite lex_eqb_refl; discriminate|].
  destruct (lex_eqb (fst x) k'); [discriminate|auto].
Qed.

Definition oval (o : option block) (i : nat) : Z := match o with Some (_, d) => nth i d 0 | None => 0 end.

Lemma lex_eqb_sym a b : lex_eqb a b = lex_eqb b a.
Proof.
  destruct (lex_eqb a b) eqn:E; destruct (lex_eqb b a) eqn:E'; auto.
  - apply lex_eqb_eq in E. subst. rewrite lex_eqb_refl in E'. discriminate.
  - apply lex_eqb_eq in E'. subst. rewrite lex_eqb_refl in E. discriminate.
Qed.

Lemma badd_fuel_spec fuel : forall a b k i, (length a + length b <= fuel)%nat ->
  keys_sorted a = true -> keys_sorted b = true -> compatible a b = true ->
  (forall kb, In kb a -> length (fst kb) = length k) -> (forall kb, In kb b -> length (fst kb) = length k) ->
  oval (bfind k (badd_fuel fuel a b)) i = oval (bfind k a) i + oval (bfind k b) i.
Proof.
  induction fuel as [|f IH]; intros a b k i Hf Sa Sb Hc La Lb.
  - destruct a; destruct b; simpl in *; try lia; try reflexivity.
  - destruct a as [|[ka [sa da]] ra]; [simpl; lia|].
    destruct b as [|[kb [sb db]] rb]; [simpl; destruct (bfind k ((ka, (sa, da)) :: ra)) as [[? ?]|]; simpl; lia|].
    cbn [badd_fuel].
    assert (Lka : length ka = length k) by (apply (La (ka, (sa, da))); left; reflexivity).
    assert (Lkb : length kb = length k) by (apply (Lb (kb, (sb, db))); left; reflexivity).
    destruct (lex_eqb ka kb) eqn:Eab.
    + (* common block *)
      apply lex_eqb_eq in Eab. subst kb.
      assert (Hlen : length da = length db).
      { simpl in Hc. rewrite lex_eqb_refl in Hc. apply andb_true_iff in Hc as [Hc _]. apply andb_true_iff in Hc as [_ Hc].
        apply Nat.eqb_eq in Hc. lia. }
      cbn [bfind]. destruct (lex_eqb k ka) eqn:Ek.
      * simpl. apply nth_zip_add. exact Hlen.
      * apply IH; [simpl in *; lia | eapply keys_sorted_tail; exact Sa | eapply keys_sorted_tail; exact Sb | | | ].
        -- simpl in Hc. rewrite lex_eqb_refl in Hc. apply andb_true_iff in Hc as [_ Hc].
           unfold compatible in *. rewrite forallb_forall in *. intros x Hx. specialize (Hc x Hx).
           simpl in Hc. destruct (lex_eqb (fst x) ka) eqn:Ex; [|exact Hc].
           apply lex_eqb_eq in Ex. exfalso.
           assert (Hne : bfind (fst x) ra <> None) by (apply in_bfind_some; exact Hx).
           pose proof (keys_sorted_above ka (sa, da) ra (fst x) Sa Hne) as Hlt. rewrite Ex, lex_ltb_irrefl in Hlt. discriminate.
        -- intros x Hx. apply La. right; exact Hx.
        -- intros x Hx. apply Lb. right; exact Hx.
    + destruct (lex_ltb ka kb) eqn:Lab.
      * (* a's head goes first; it is not in b *)
        cbn [bfind]. destruct (lex_eqb k ka) eqn:Ek.
        -- apply lex_eqb_eq in Ek. subst k.
           pose proof (bfind_none_below ka kb (sb, db) rb Sb Lab) as Hn. cbn [bfind] in Hn. rewrite Hn. simpl. lia.
        -- apply IH; [simpl in *; lia | eapply keys_sorted_tail; exact Sa | exact Sb | | | exact Lb].
           ++ simpl in Hc. apply andb_true_iff in Hc as [_ Hc]. exact Hc.
           ++ intros x Hx. apply La. right; exact Hx.
      * (* b's head goes first; it is not in a *)
        assert (Lba : lex_ltb kb ka = true).
        { destruct (lex_trichotomy ka kb ltac:(lia)) as [H|[H|H]]; auto; [congruence | subst; rewrite lex_eqb_refl in Eab; discriminate]. }
        cbn [bfind]. destruct (lex_eqb k kb) eqn:Ek.
        -- apply lex_eqb_eq in Ek. subst k.
           pose proof (bfind_none_below kb ka (sa, da) ra Sa Lba) as Hn. cbn [bfind] in Hn. rewrite Hn. simpl. lia.
        -- replace (bfind k ((kb, (sb, db)) :: rb)) with (bfind k rb) by (simpl; rewrite Ek; reflexivity).
           apply IH; [simpl in *; lia | exact Sa | eapply keys_sorted_tail; exact Sb | | exact La | ].
           ++ unfold compatible in *. rewrite forallb_forall in *. intros x Hx. specialize (Hc x Hx).
              simpl in Hc. destruct (lex_eqb (fst x) kb) eqn:Ex; [|exact Hc].
              apply lex_eqb_eq in Ex. exfalso.
              assert (Hb : bfind (fst x) ((ka, (sa, da)) :: ra) = None) by (apply bfind_none_below; [exact Sa | rewrite Ex; exact Lba]).
              assert (Hne : bfind (fst x) ((ka, (sa, da)) :: ra) <> None) by (apply in_bfind_some; exact Hx).
              contradiction.
           ++ intros x Hx. apply Lb. right; exact Hx.
Qed.

(* a + b: every dense element (also in sectors present in only one operand) is the sum *)
Theorem sget_badd a b k i :
  keys_sorted a = true -> keys_sorted b = true -> compatible a b = true ->
  (forall kb, In kb a -> length (fst kb) = length k) -> (forall kb, In kb b -> length (fst kb) = length k) ->
  sget (badd a b) k i = sget a k i + sget b k i.
Proof. intros. unfold sget, badd. apply (badd_fuel_spec _ a b k i); auto. Qed.
