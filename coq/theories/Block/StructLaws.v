(* StructLaws.v -- what wf_struct = true guarantees. *)
From Coq Require Import List ZArith Bool Arith Lia.
From Yv Require Import Base.LexOrder Sym.Descr Sym.Leg Block.Struct.
Import ListNotations.
Open Scope Z_scope.

Lemma andb_split a b : a && b = true -> a = true /\ b = true.
Proof. apply andb_true_iff. Qed.

Section Laws.
  Variable fuse : list (list Z) -> list Z -> Z -> list Z.

  Ltac split_wf H :=
    repeat match type of H with _ && _ = true => let H2 := fresh "W" in apply andb_split in H as [H H2] end.

  (* every stored block obeys the selection rule of the configured symmetry *)
  Theorem wf_selection_rule t k : wf_struct fuse t = true -> In k (ts_keys t) ->
    fuse (chunks (ts_nsym t) (length (ts_s t)) k) (ts_s t) 1 = ts_n t.
  Proof.
    intros H Hk. unfold wf_struct in H. split_wf H.
    match goal with W : forallb (fun k => lex_eqb (fuse _ _ _) _) _ = true |- _ => rewrite forallb_forall in W; specialize (W k Hk); apply lex_eqb_eq in W; exact W end.
  Qed.

  Lemma strictly_sorted_lt l : strictly_sorted l = true -> forall i j, (i < j < length l)%nat -> lex_ltb (nth i l []) (nth j l []) = true.
  Proof.
    induction l as [|a l IH]; intros Hs i j Hij; simpl in *; [lia|].
    destruct l as [|b l]; [simpl in *; lia|].
    apply andb_true_iff in Hs as [Hab Hs].
    destruct i as [|i]; destruct j as [|j]; try lia.
    - destruct j as [|j]; [exact Hab|].
      eapply lex_ltb_trans; [exact Hab|]. apply (IH Hs 0%nat (S j)). simpl in *. lia.
    - apply (IH Hs i j). simpl in *. lia.
  Qed.

  (* blocks are unique (and ordered) *)
  Theorem wf_blocks_unique t : wf_struct fuse t = true -> NoDup (ts_keys t).
  Proof.
    intro H. unfold wf_struct in H. split_wf H.
    match goal with W : strictly_sorted _ = true |- _ => pose proof (strictly_sorted_lt _ W) as Hlt end.
    apply (NoDup_nth _ []). intros i j Hi Hj Heq.
    destruct (Nat.lt_trichotomy i j) as [L|[E|L]]; auto; exfalso.
    - specialize (Hlt i j ltac:(lia)). rewrite Heq, lex_ltb_irrefl in Hlt. discriminate.
    - specialize (Hlt j i ltac:(lia)). rewrite Heq, lex_ltb_irrefl in Hlt. discriminate.
  Qed.

  (* dense value at a sector tuple: the stored block's entry, or zero when no block is stored there *)
  Fixpoint find_block (k : list Z) (keys : list (list Z)) (sl : list (Z * Z * Z)) : option (Z * Z * Z) :=
    match keys, sl with
    | k' :: kr, s :: sr => if lex_eqb k k' then Some s else find_block k kr sr
    | _, _ => None
    end.
  Definition sector_value (t : tstruct) (data : list Z) (k : list Z) (off : Z) : Z :=
    match find_block k (ts_keys t) (ts_slices t) with
    | Some (a, _, _) => nth (Z.to_nat (a + off)) data 0
    | None => 0
    end.

  Lemma find_block_in k keys sl s : find_block k keys sl = Some s -> In k keys.
  Proof.
    revert sl; induction keys as [|k' kr IH]; intros [|s' sr] H; simpl in *; try discriminate.
    destruct (lex_eqb k k') eqn:E; [left; symmetry; apply lex_eqb_eq; exact E | right; eapply IH; eauto].
  Qed.

  (* every dense element outside the symmetry-allowed sectors is exactly zero *)
  Theorem wf_zero_outside t data k off : wf_struct fuse t = true ->
    fuse (chunks (ts_nsym t) (length (ts_s t)) k) (ts_s t) 1 <> ts_n t -> sector_value t data k off = 0.
  Proof.
    intros H Hne. unfold sector_value. destruct (find_block k (ts_keys t) (ts_slices t)) as [[[a b] dp]|] eqn:E; auto.
    exfalso. apply Hne. apply wf_selection_rule; auto. eapply find_block_in; eauto.
  Qed.

  (* storage size is consistent with the data *)
  Theorem wf_storage t : wf_struct fuse t = true -> slices_contiguous 0 (ts_slices t) = Some (ts_size t) /\ ts_size t = ts_datalen t.
  Proof.
    intro H. unfold wf_struct in H. split_wf H.
    destruct (slices_contiguous 0 (ts_slices t)) as [e|]; [|discriminate].
    match goal with W : (_ =? _) && (_ =? _) = true |- _ => apply andb_true_iff in W as [Wa Wb] end.
    split; [f_equal|]; lia.
  Qed.
End Laws.
