(* JW2.v -- the generators of the predefined two-site and one-site gates as explicit integer matrices (Jordan-Wigner convention of fkron),
   their algebra (K^3 = K, K^2 = I, K^2 = K) decided by computation, and the transfer of these facts to matrices over an arbitrary
   commutative ring through the canonical morphism Z -> R, so that the series theorems of Series.v apply for every parameter ring. *)
From Coq Require Import List ZArith Arith Ring Lia Bool InitialRing.
From Yv Require Import Gates.Series.
Import ListNotations.

Definition zget (M : list (list Z)) (i j : nat) : Z := nth j (nth i M []) 0%Z.
Notation Zmmul := (mmul Z 0%Z Z.add Z.mul).
Notation Zmeq := (meq Z).
Notation Zmone := (mone Z 0%Z 1%Z).

(* decide equality of two integer matrices on indices below d *)
Definition zeqb (d : nat) (A B : nat -> nat -> Z) : bool :=
  forallb (fun i => forallb (fun j => Z.eqb (A i j) (B i j)) (seq 0 d)) (seq 0 d).
Lemma zeqb_meq d A B : zeqb d A B = true -> Zmeq d A B.
Proof.
  unfold zeqb. intros H i j Hi Hj. rewrite forallb_forall in H. specialize (H i). rewrite forallb_forall in H.
  apply Z.eqb_eq. apply H; apply in_seq; lia.
Qed.

(* local operators of a spinless fermion in the basis (|0>, |1>), of a spin 1/2 in the basis of the dense / Z2 configurations *)
Definition m_c : list (list Z) := [[0; 1]; [0; 0]]%Z.
Definition m_cd : list (list Z) := [[0; 0]; [1; 0]]%Z.
Definition m_n : list (list Z) := [[0; 0]; [0; 1]]%Z.
Definition m_h : list (list Z) := [[1; 0]; [0; 0]]%Z.
Definition m_I : list (list Z) := [[1; 0]; [0; 1]]%Z.
Definition m_Zs : list (list Z) := [[1; 0]; [0; -1]]%Z.   (* parity string *)
Definition m_X : list (list Z) := [[0; 1]; [1; 0]]%Z.

Definition lmul (A B : list (list Z)) : list (list Z) :=
  map (fun i => map (fun j => fold_left Z.add (map (fun k => (zget A i k * zget B k j)%Z) (seq 0 (length B))) 0%Z) (seq 0 (length (hd [] B)))) (seq 0 (length A)).
Definition ladd (A B : list (list Z)) : list (list Z) := map (fun p => map (fun q => (fst q + snd q)%Z) (combine (fst p) (snd p))) (combine A B).
(* Kronecker product, row index (i0, i1) -> i0 * d1 + i1: the order of yastn's fused (site 0, site 1) legs *)
Definition lkron (A B : list (list Z)) : list (list Z) :=
  flat_map (fun ra => map (fun rb => flat_map (fun a => map (fun b => (a * b)%Z) rb) ra) B) A.

(* fkron(A, B, sites=(0, 1)) = A_0 B_1 = (A S) (x) B and fkron(A, B, sites=(1, 0)) = A_1 B_0 = (S B) (x) A for odd A, B *)
Definition hop_K : list (list Z) := ladd (lkron (lmul m_cd m_Zs) m_c) (lkron (lmul m_Zs m_c) m_cd).
Definition hop_P : list (list Z) := ladd (lkron m_n m_h) (lkron m_h m_n).
Definition ising_K : list (list Z) := lkron m_X m_X.

Definition fn (M : list (list Z)) : nat -> nat -> Z := zget M.

Lemma hop_K_sq : Zmeq 4 (Zmmul 4 (fn hop_K) (fn hop_K)) (fn hop_P).
Proof. apply zeqb_meq. vm_compute. reflexivity. Qed.
Lemma hop_K_cube : Zmeq 4 (Zmmul 4 (Zmmul 4 (fn hop_K) (fn hop_K)) (fn hop_K)) (fn hop_K).
Proof. apply zeqb_meq. vm_compute. reflexivity. Qed.
Lemma ising_K_sq : Zmeq 4 (Zmmul 4 (fn ising_K) (fn ising_K)) Zmone.
Proof. apply zeqb_meq. vm_compute. reflexivity. Qed.
Lemma field_X_sq : Zmeq 2 (Zmmul 2 (fn m_X) (fn m_X)) Zmone.
Proof. apply zeqb_meq. vm_compute. reflexivity. Qed.
Lemma occ_n_idem : Zmeq 2 (Zmmul 2 (fn m_n) (fn m_n)) (fn m_n).
Proof. apply zeqb_meq. vm_compute. reflexivity. Qed.

(* ---- transfer to an arbitrary commutative ring *)
Section Transfer.
Variable R : Type.
Variables (r0 r1 : R) (radd rmul rsub : R -> R -> R) (ropp : R -> R).
Hypothesis Rth : ring_theory r0 r1 radd rmul rsub ropp (@eq R).
Add Ring Rring3 : Rth.
Definition phi (z : Z) : R := gen_phiZ r0 r1 radd rmul ropp z.
Let M := gen_phiZ_morph (Eqsth R) (Eq_ext radd rmul ropp) Rth.
Lemma phi_add a b : phi (a + b) = radd (phi a) (phi b). Proof. apply (morph_add M). Qed.
Lemma phi_mul a b : phi (a * b) = rmul (phi a) (phi b). Proof. apply (morph_mul M). Qed.
Lemma phi_0 : phi 0 = r0. Proof. apply (morph0 M). Qed.
Lemma phi_1 : phi 1 = r1. Proof. apply (morph1 M). Qed.
Definition lift (A : nat -> nat -> Z) : nat -> nat -> R := fun i j => phi (A i j).

Lemma phi_rsum n f : phi (rsum Z 0%Z Z.add n f) = rsum R r0 radd n (fun k => phi (f k)).
Proof. induction n as [|n IH]; cbn [rsum]; [apply phi_0|]. rewrite phi_add, IH. reflexivity. Qed.
Lemma lift_mmul d A B : meq R d (lift (Zmmul d A B)) (mmul R r0 radd rmul d (lift A) (lift B)).
Proof.
  intros i j Hi Hj. unfold lift, mmul. rewrite phi_rsum. apply rsum_ext. intros k Hk. apply phi_mul.
Qed.
Lemma lift_mone d : meq R d (lift Zmone) (mone R r0 r1).
Proof. intros i j Hi Hj. unfold lift, mone. destruct (Nat.eqb i j); [apply phi_1|apply phi_0]. Qed.
Lemma lift_meq d A B : Zmeq d A B -> meq R d (lift A) (lift B).
Proof. intros H i j Hi Hj. unfold lift. rewrite (H i j Hi Hj). reflexivity. Qed.

Notation Rmmul := (mmul R r0 radd rmul).
Notation Rmeq := (meq R).
Lemma lift_cube d K : Zmeq d (Zmmul d (Zmmul d K K) K) K -> Rmeq d (Rmmul d (Rmmul d (lift K) (lift K)) (lift K)) (lift K).
Proof.
  intro H. eapply meq_trans; [|apply lift_meq; exact H].
  eapply meq_trans; [|apply meq_sym, lift_mmul]. apply mmul_meq_l. apply meq_sym, lift_mmul.
Qed.
Lemma lift_sq d K Q : Zmeq d (Zmmul d K K) Q -> Rmeq d (Rmmul d (lift K) (lift K)) (lift Q).
Proof. intro H. eapply meq_trans; [apply meq_sym, lift_mmul|]. apply lift_meq. exact H. Qed.

(* the gates, for every commutative ring R, every coefficient sequence a (a_k = x^k / k! for the exponential) and every truncation order n *)
Theorem hopping_series a n :
  Rmeq 4 (psum R r0 r1 radd rmul 4 a (lift (fn hop_K)) n)
         (madd R radd (madd R radd (mscale R rmul (a 0) (mone R r0 r1)) (mscale R rmul (csum R r0 radd Nat.odd a n) (lift (fn hop_K))))
               (mscale R rmul (csum R r0 radd (fun k => Nat.even k) a n) (lift (fn hop_P)))).
Proof.
  eapply meq_trans; [apply (series_cube R r0 r1 radd rmul rsub ropp Rth 4 a (lift (fn hop_K))); apply lift_cube, hop_K_cube|].
  intros i j Hi Hj. unfold lin3, madd, mscale. rewrite (lift_sq 4 _ _ hop_K_sq i j Hi Hj). reflexivity.
Qed.
Theorem ising_series a n :
  Rmeq 4 (psum R r0 r1 radd rmul 4 a (lift (fn ising_K)) n)
         (lin2 R r0 r1 radd rmul (radd (a 0) (csum R r0 radd (fun k => Nat.even k) a n)) (csum R r0 radd Nat.odd a n) (lift (fn ising_K))).
Proof.
  apply (series_involution R r0 r1 radd rmul rsub ropp Rth 4 a). eapply meq_trans; [apply lift_sq, ising_K_sq|apply lift_mone].
Qed.
Theorem field_series a n :
  Rmeq 2 (psum R r0 r1 radd rmul 2 a (lift (fn m_X)) n)
         (lin2 R r0 r1 radd rmul (radd (a 0) (csum R r0 radd (fun k => Nat.even k) a n)) (csum R r0 radd Nat.odd a n) (lift (fn m_X))).
Proof.
  apply (series_involution R r0 r1 radd rmul rsub ropp Rth 2 a). eapply meq_trans; [apply lift_sq, field_X_sq|apply lift_mone].
Qed.
Theorem occupation_series a n :
  Rmeq 2 (psum R r0 r1 radd rmul 2 a (lift (fn m_n)) n) (lin2 R r0 r1 radd rmul (a 0) (csum R r0 radd (fun _ => true) a n) (lift (fn m_n))).
Proof. apply (series_projector R r0 r1 radd rmul rsub ropp Rth 2 a). apply lift_sq, occ_n_idem. Qed.
End Transfer.
