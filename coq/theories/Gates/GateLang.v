(* GateLang.v -- the small languages the gate translator (tools/translate/tr_gates.py) emits: parameter expressions, coefficient kinds,
   operator expressions, and the denotation of operator expressions as integer matrices in the Jordan-Wigner convention of fkron. *)
From Coq Require Import List String ZArith Bool.
From Yv Require Import Gates.Series Gates.JW2.
Import ListNotations.
Open Scope string_scope.

Inductive ex := EVar (s : string) | ENum (z : Z) | EMul (a b : ex) | EAdd (a b : ex) | EDiv (a b : ex).
Inductive cf := CfOne | CfCoshM1 (x : ex) | CfSinh (x : ex) | CfCosh (x : ex) | CfNegSinh (x : ex) | CfExpM1 (x : ex).
Inductive opx := OpName (s : string) | OpMul (a b : opx) | OpAdd (a b : opx) | OpSub (a b : opx) | OpKron (a b : opx) (ordered : bool).

(* local operators by name: a spinless fermion / a spin 1/2 (2-dimensional), or the up/down occupations of a spinful site in the basis
   (|0>, |d>, |u>, |ud>); with their fermionic parity *)
Definition lneg (A : list (list Z)) : list (list Z) := map (map Z.opp) A.
Definition named (fam : nat) (s : string) : list (list Z) * bool :=
  if string_dec s "I" then ((if Nat.eqb fam 2 then [[1;0;0;0];[0;1;0;0];[0;0;1;0];[0;0;0;1]]%Z else m_I), false)
  else if string_dec s "c" then (m_c, true) else if string_dec s "cdag" then (m_cd, true)
  else if string_dec s "n" then (m_n, false) else if string_dec s "X" then (m_X, false)
  else if string_dec s "n_up" then ([[0;0;0;0];[0;0;0;0];[0;0;1;0];[0;0;0;1]]%Z, false)
  else if string_dec s "n_dn" then ([[0;0;0;0];[0;1;0;0];[0;0;0;0];[0;0;0;1]]%Z, false)
  else ([], false).
Definition m_S (odd : bool) (d : nat) : list (list Z) := if odd then m_Zs else m_I.
Fixpoint denote (fam : nat) (o : opx) : list (list Z) * bool :=
  match o with
  | OpName s => named fam s
  | OpMul a b => let (A, pa) := denote fam a in let (B, pb) := denote fam b in (lmul A B, xorb pa pb)
  | OpAdd a b => let (A, pa) := denote fam a in let (B, _) := denote fam b in (ladd A B, pa)
  | OpSub a b => let (A, pa) := denote fam a in let (B, _) := denote fam b in (ladd A (lneg B), pa)
  | OpKron a b ordered =>
    let (A, pa) := denote fam a in let (B, pb) := denote fam b in
    (* sites=(0,1): A_0 B_1 = (A S^pb) (x) B ; sites=(1,0): A_1 B_0 = (S^pa B) (x) A *)
    if ordered then (lkron (lmul A (m_S pb 2)) B, xorb pa pb) else (lkron (lmul (m_S pa 2) B) A, xorb pa pb)
  end.
Definition denote_form (fam : nat) (f : list (cf * opx)) : list (cf * list (list Z)) := map (fun p => (fst p, fst (denote fam (snd p)))) f.
