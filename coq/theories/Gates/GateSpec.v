(* GateSpec.v -- the closed forms read off yastn/tn/fpeps/gates.py (Gen/GatesGen.v) are the collapsed exponential series of Series.v:
   the operators of each form denote exactly the generator, its square / the identity, and the coefficient kinds are the parity classes of the
   series.  Hence for every parameter value, every commutative coefficient ring and every truncation order, the closed form agrees term by
   term with sum_k (x K)^k / k!. *)
From Coq Require Import List String ZArith Bool Ring.
From Yv Require Import Gates.Series Gates.JW2 Gates.GateLang Gen.GatesGen.
Import ListNotations.
Open Scope string_scope.

Definition x_ts := EMul (EVar "t") (EVar "step").
Definition x_Js := EMul (EVar "J") (EVar "step").
Definition x_hs := EMul (EVar "h") (EVar "step").
Definition x_ms := EMul (EVar "mu") (EVar "step").
Definition I4 : list (list Z) := [[1;0;0;0];[0;1;0;0];[0;0;1;0];[0;0;0;1]]%Z.

(* gate_nn_hopping: H = -t K with K = cdag_0 c_1 + cdag_1 c_0, G = exp(-step H) = exp(x K), x = t step:  I + (cosh x - 1) K^2 + sinh x K *)
Theorem hopping_form_denotes : denote_form 0 gate_nn_hopping_form = [(CfOne, I4); (CfCoshM1 x_ts, hop_P); (CfSinh x_ts, hop_K)].
Proof. vm_compute. reflexivity. Qed.
(* gate_nn_Ising: H = J X_0 X_1, G = exp(-x XX), x = J step:  cosh x I - sinh x XX *)
Theorem ising_form_denotes : denote_form 1 gate_nn_Ising_form = [(CfCosh x_Js, I4); (CfNegSinh x_Js, ising_K)].
Proof. vm_compute. reflexivity. Qed.
(* gate_local_field: H = -h X, G = exp(x X), x = h step *)
Theorem field_form_denotes : denote_form 1 gate_local_field_form = [(CfCosh x_hs, m_I); (CfSinh x_hs, m_X)].
Proof. vm_compute. reflexivity. Qed.
(* gate_local_occupation: H = -mu n, G = exp(x n), x = mu step:  I + (e^x - 1) n *)
Theorem occupation_form_denotes : denote_form 0 gate_local_occupation_form = [(CfOne, m_I); (CfExpM1 x_ms, m_n)].
Proof. vm_compute. reflexivity. Qed.

(* gate_local_Coulomb: three mutually orthogonal projectors (only down, only up, both) with the exponents of
   -step (H - U/4) = step ((mu_dn + U/2) P_d + (mu_up + U/2) P_u + (mu_up + mu_dn) P_ud) *)
Definition P_d : list (list Z) := [[0;0;0;0];[0;1;0;0];[0;0;0;0];[0;0;0;0]]%Z.
Definition P_u : list (list Z) := [[0;0;0;0];[0;0;0;0];[0;0;1;0];[0;0;0;0]]%Z.
Definition P_ud : list (list Z) := [[0;0;0;0];[0;0;0;0];[0;0;0;0];[0;0;0;1]]%Z.
Definition x_d := EMul (EVar "step") (EAdd (EVar "mu_dn") (EDiv (EVar "U") (ENum 2))).
Definition x_u := EMul (EVar "step") (EAdd (EVar "mu_up") (EDiv (EVar "U") (ENum 2))).
Definition x_ud := EMul (EVar "step") (EAdd (EVar "mu_up") (EVar "mu_dn")).
Theorem coulomb_form_denotes : denote_form 2 gate_local_Coulomb_form = [(CfOne, I4); (CfExpM1 x_d, P_d); (CfExpM1 x_u, P_u); (CfExpM1 x_ud, P_ud)].
Proof. vm_compute. reflexivity. Qed.
Theorem coulomb_projectors :
  lmul P_d P_d = P_d /\ lmul P_u P_u = P_u /\ lmul P_ud P_ud = P_ud /\
  lmul P_d P_u = lmul P_u P_d /\ lmul P_d P_ud = lmul P_ud P_d /\ lmul P_u P_ud = lmul P_ud P_u /\
  lmul P_d P_u = [[0;0;0;0];[0;0;0;0];[0;0;0;0];[0;0;0;0]]%Z /\ lmul P_d P_ud = lmul P_d P_u /\ lmul P_u P_ud = lmul P_d P_u /\
  (* the Hamiltonian U (n_up - 1/2)(n_dn - 1/2) - mu_up n_up - mu_dn n_dn is diagonal with n_up = P_u + P_ud, n_dn = P_d + P_ud *)
  fst (denote 2 (OpName "n_up")) = ladd P_u P_ud /\ fst (denote 2 (OpName "n_dn")) = ladd P_d P_ud.
Proof. vm_compute. repeat split; reflexivity. Qed.

(* which part of the series a coefficient kind stands for: with a_k = x^k / k! these are 1, cosh x - 1, sinh x, cosh x, -sinh x (for the
   series in -x) and e^x - 1 *)
Section Meaning.
Variable R : Type.
Variables (r0 r1 : R) (radd rmul rsub : R -> R -> R) (ropp : R -> R).
Hypothesis Rth : ring_theory r0 r1 radd rmul rsub ropp (@eq R).
Definition cf_sum (c : cf) (a : nat -> R) (n : nat) : R :=
  match c with
  | CfOne => a 0
  | CfCoshM1 _ => csum R r0 radd (fun k => Nat.even k) a n
  | CfSinh _ | CfNegSinh _ => csum R r0 radd Nat.odd a n
  | CfCosh _ => radd (a 0) (csum R r0 radd (fun k => Nat.even k) a n)
  | CfExpM1 _ => csum R r0 radd (fun _ => true) a n
  end.
Definition form_sum (d : nat) (f : list (cf * list (list Z))) (a : nat -> R) (n : nat) : nat -> nat -> R :=
  fold_right (fun p acc => madd R radd (mscale R rmul (cf_sum (fst p) a n) (lift R r0 r1 radd rmul ropp (fn (snd p)))) acc) (fun _ _ => r0) f.
Add Ring Rring4 : Rth.

Lemma lift_I4 : meq R 4 (lift R r0 r1 radd rmul ropp (fn I4)) (mone R r0 r1).
Proof.
  eapply meq_trans; [apply (lift_meq R r0 r1 radd rmul ropp 4 (fn I4) (mone Z 0%Z 1%Z)); apply zeqb_meq; vm_compute; reflexivity|].
  apply (lift_mone R r0 r1 radd rmul rsub ropp Rth).
Qed.
Theorem hopping_closed_form a n :
  meq R 4 (psum R r0 r1 radd rmul 4 a (lift R r0 r1 radd rmul ropp (fn hop_K)) n) (form_sum 4 (denote_form 0 gate_nn_hopping_form) a n).
Proof.
  rewrite hopping_form_denotes. eapply meq_trans; [apply (hopping_series R r0 r1 radd rmul rsub ropp Rth)|].
  intros i j Hi Hj. unfold form_sum, cf_sum, madd, mscale. cbn [fold_right fst snd]. rewrite (lift_I4 i j Hi Hj). ring.
Qed.
Theorem ising_closed_form a n :
  meq R 4 (psum R r0 r1 radd rmul 4 a (lift R r0 r1 radd rmul ropp (fn ising_K)) n) (form_sum 4 (denote_form 1 gate_nn_Ising_form) a n).
Proof.
  rewrite ising_form_denotes. eapply meq_trans; [apply (ising_series R r0 r1 radd rmul rsub ropp Rth)|].
  intros i j Hi Hj. unfold form_sum, cf_sum, lin2, madd, mscale. cbn [fold_right fst snd]. rewrite (lift_I4 i j Hi Hj). ring.
Qed.
Lemma lift_I2 : meq R 2 (lift R r0 r1 radd rmul ropp (fn m_I)) (mone R r0 r1).
Proof.
  eapply meq_trans; [apply (lift_meq R r0 r1 radd rmul ropp 2 (fn m_I) (mone Z 0%Z 1%Z)); apply zeqb_meq; vm_compute; reflexivity|].
  apply (lift_mone R r0 r1 radd rmul rsub ropp Rth).
Qed.
Theorem field_closed_form a n :
  meq R 2 (psum R r0 r1 radd rmul 2 a (lift R r0 r1 radd rmul ropp (fn m_X)) n) (form_sum 2 (denote_form 1 gate_local_field_form) a n).
Proof.
  rewrite field_form_denotes. eapply meq_trans; [apply (field_series R r0 r1 radd rmul rsub ropp Rth)|].
  intros i j Hi Hj. unfold form_sum, cf_sum, lin2, madd, mscale. cbn [fold_right fst snd]. rewrite (lift_I2 i j Hi Hj). ring.
Qed.
Theorem occupation_closed_form a n :
  meq R 2 (psum R r0 r1 radd rmul 2 a (lift R r0 r1 radd rmul ropp (fn m_n)) n) (form_sum 2 (denote_form 0 gate_local_occupation_form) a n).
Proof.
  rewrite occupation_form_denotes. eapply meq_trans; [apply (occupation_series R r0 r1 radd rmul rsub ropp Rth)|].
  intros i j Hi Hj. unfold form_sum, cf_sum, lin2, madd, mscale. cbn [fold_right fst snd]. rewrite (lift_I2 i j Hi Hj). ring.
Qed.
End Meaning.
