(* Series.v -- the algebra behind the closed-form PEPS gates.  For a d x d matrix K over an ARBITRARY commutative ring and an ARBITRARY
   coefficient sequence a_0, a_1, ... (for the exponential: a_k = x^k / k!), every partial sum  sum_{k <= n} a_k K^k  collapses:
     K^3 = K  :  a_0 I + (sum of odd a_k) K + (sum of even a_k, k >= 2) K^2        (hopping:  cosh x - 1 on K^2, sinh x on K)
     K^2 = I  :  (a_0 + sum of even a_k) I + (sum of odd a_k) K                   (Ising, field:  cosh x, sinh x)
     K^2 = K  :  a_0 I + (sum of a_k, k >= 1) K                                   (occupation:  e^x - 1)
   Matrices are functions nat -> nat -> R compared on indices below d, so no dimension side conditions arise. *)
From Coq Require Import List Arith Ring Lia Bool.
Import ListNotations.

Section OverRing.
Variable R : Type.
Variables (r0 r1 : R) (radd rmul rsub : R -> R -> R) (ropp : R -> R).
Hypothesis Rth : ring_theory r0 r1 radd rmul rsub ropp (@eq R).
Add Ring Rring2 : Rth.
Notation "a + b" := (radd a b).
Notation "a * b" := (rmul a b).
Variable d : nat.

Definition mat := nat -> nat -> R.
Definition meq (A B : mat) : Prop := forall i j, i < d -> j < d -> A i j = B i j.
Fixpoint rsum (n : nat) (f : nat -> R) : R := match n with O => r0 | S k => rsum k f + f k end.
Definition mmul (A B : mat) : mat := fun i j => rsum d (fun k => A i k * B k j).
Definition madd (A B : mat) : mat := fun i j => A i j + B i j.
Definition mscale (c : R) (A : mat) : mat := fun i j => c * A i j.
Definition mone : mat := fun i j => if Nat.eqb i j then r1 else r0.
Fixpoint mpow (K : mat) (n : nat) : mat := match n with O => mone | S k => mmul (mpow K k) K end.
(* sum_{k <= n} a_k K^k *)
Fixpoint psum (a : nat -> R) (K : mat) (n : nat) : mat :=
  match n with O => mscale (a 0) mone | S k => madd (psum a K k) (mscale (a (S k)) (mpow K (S k))) end.
(* sum of a_k over 1 <= k <= n with p k *)
Fixpoint csum (p : nat -> bool) (a : nat -> R) (n : nat) : R :=
  match n with O => r0 | S k => if p (S k) then csum p a k + a (S k) else csum p a k end.

Lemma meq_refl A : meq A A. Proof. intros i j _ _. reflexivity. Qed.
Lemma meq_sym A B : meq A B -> meq B A. Proof. intros H i j Hi Hj. symmetry. apply H; assumption. Qed.
Lemma meq_trans A B C : meq A B -> meq B C -> meq A C. Proof. intros H1 H2 i j Hi Hj. rewrite H1, H2; auto. Qed.

Lemma rsum_ext n f g : (forall k, k < n -> f k = g k) -> rsum n f = rsum n g.
Proof. induction n as [|n IH]; intro H; cbn [rsum]; [reflexivity|]. rewrite IH by (intros; apply H; lia). rewrite (H n) by lia. reflexivity. Qed.
Lemma mmul_meq_l A A' B : meq A A' -> meq (mmul A B) (mmul A' B).
Proof. intros H i j Hi Hj. unfold mmul. apply rsum_ext. intros k Hk. rewrite (H i k) by assumption. reflexivity. Qed.
Lemma mmul_meq_r A B B' : meq B B' -> meq (mmul A B) (mmul A B').
Proof. intros H i j Hi Hj. unfold mmul. apply rsum_ext. intros k Hk. rewrite (H k j) by assumption. reflexivity. Qed.

Lemma rsum_delta n i (f : nat -> R) : rsum n (fun k => (if Nat.eqb i k then r1 else r0) * f k) = if Nat.ltb i n then f i else r0.
Proof.
  induction n as [|n IH]; cbn [rsum]. - reflexivity.
  - rewrite IH. destruct (Nat.eqb_spec i n) as [->|Hn].
    + rewrite Nat.ltb_irrefl. replace (n <? S n) with true by (symmetry; apply Nat.ltb_lt; lia). ring.
    + destruct (Nat.ltb_spec i n); destruct (Nat.ltb_spec i (S n)); try lia; ring.
Qed.
Lemma mone_l K : meq (mmul mone K) K.
Proof. intros i j Hi Hj. unfold mmul, mone. rewrite rsum_delta. apply Nat.ltb_lt in Hi. rewrite Hi. reflexivity. Qed.

(* powers when K^3 = K *)
Lemma mpow_cube K : meq (mmul (mmul K K) K) K -> forall n, meq (mpow K (S (S (S n)))) (mpow K (S n)).
Proof.
  intros H3 n. induction n as [|n IH].
  - cbn [mpow]. eapply meq_trans; [apply mmul_meq_l, mmul_meq_l, mone_l|]. eapply meq_trans; [exact H3|]. apply meq_sym, mone_l.
  - change (mpow K (S (S (S (S n))))) with (mmul (mpow K (S (S (S n)))) K). change (mpow K (S (S n))) with (mmul (mpow K (S n)) K).
    apply mmul_meq_l. exact IH.
Qed.
Lemma mpow_cube_odd K : meq (mmul (mmul K K) K) K -> forall n, Nat.odd n = true -> meq (mpow K n) K.
Proof.
  intros H3 n. induction n as [n IH] using lt_wf_ind. intro Ho.
  destruct n as [|[|[|n]]]; try discriminate.
  - cbn [mpow]. apply mone_l.
  - eapply meq_trans; [apply mpow_cube; exact H3|]. apply IH; [lia|]. rewrite !Nat.odd_succ_succ in Ho || idtac. 
    change (Nat.odd (S (S (S n)))) with (Nat.odd (S n)) in Ho. exact Ho.
Qed.
Lemma mpow_cube_even K : meq (mmul (mmul K K) K) K -> forall n, Nat.even n = true -> 2 <= n -> meq (mpow K n) (mmul K K).
Proof.
  intros H3 n. induction n as [n IH] using lt_wf_ind. intros He Hn.
  destruct n as [|[|[|[|n]]]]; try lia; try discriminate.
  - cbn [mpow]. apply mmul_meq_l, mone_l.
  - eapply meq_trans; [apply mpow_cube; exact H3|]. apply IH; [lia| |lia].
    change (Nat.even (S (S (S (S n))))) with (Nat.even (S (S n))) in He. exact He.
Qed.

Definition lin3 (p q r : R) (K : mat) : mat := madd (madd (mscale p mone) (mscale q K)) (mscale r (mmul K K)).
Definition lin2 (p q : R) (K : mat) : mat := madd (mscale p mone) (mscale q K).

Theorem series_cube (a : nat -> R) (K : mat) : meq (mmul (mmul K K) K) K ->
  forall n, meq (psum a K n) (lin3 (a 0) (csum Nat.odd a n) (csum (fun k => Nat.even k) a n) K).
Proof.
  intros H3 n. induction n as [|n IH].
  - intros i j Hi Hj. unfold psum, lin3, madd, mscale. cbn [csum]. ring.
  - intros i j Hi Hj. cbn [psum csum]. unfold madd at 1. rewrite (IH i j Hi Hj).
    destruct (Nat.odd (S n)) eqn:Eo.
    + assert (Ee : Nat.even (S n) = false) by (rewrite <- Nat.negb_odd, Eo; reflexivity). rewrite Ee.
      unfold mscale at 1. rewrite (mpow_cube_odd K H3 (S n) Eo i j Hi Hj). unfold lin3, madd, mscale. ring.
    + assert (Ee : Nat.even (S n) = true) by (rewrite <- Nat.negb_odd, Eo; reflexivity). rewrite Ee.
      assert (Hn : 2 <= S n) by (destruct n as [|n']; [discriminate|lia]).
      unfold mscale at 1. rewrite (mpow_cube_even K H3 (S n) Ee Hn i j Hi Hj). unfold lin3, madd, mscale. ring.
Qed.

(* K^2 = I *)
Lemma mpow_sq_one K : meq (mmul K K) mone -> forall n, meq (mpow K (S (S n))) (mpow K n).
Proof.
  intros H2 n. induction n as [|n IH].
  - cbn [mpow]. eapply meq_trans; [|exact H2]. apply mmul_meq_l, mone_l.
  - change (mpow K (S (S (S n)))) with (mmul (mpow K (S (S n))) K). change (mpow K (S n)) with (mmul (mpow K n) K). apply mmul_meq_l. exact IH.
Qed.
Lemma mpow_sq_one_parity K : meq (mmul K K) mone -> forall n, meq (mpow K n) (if Nat.odd n then K else mone).
Proof.
  intros H2 n. induction n as [n IH] using lt_wf_ind. destruct n as [|[|n]].
  - apply meq_refl.
  - cbn [mpow Nat.odd Nat.even negb]. apply mone_l.
  - eapply meq_trans; [apply mpow_sq_one; exact H2|]. change (Nat.odd (S (S n))) with (Nat.odd n). apply IH. lia.
Qed.
Theorem series_involution (a : nat -> R) (K : mat) : meq (mmul K K) mone ->
  forall n, meq (psum a K n) (lin2 (a 0 + csum (fun k => Nat.even k) a n) (csum Nat.odd a n) K).
Proof.
  intros H2 n. induction n as [|n IH].
  - intros i j Hi Hj. unfold psum, lin2, madd, mscale. cbn [csum]. ring.
  - intros i j Hi Hj. cbn [psum csum]. unfold madd at 1. rewrite (IH i j Hi Hj).
    unfold mscale at 1. rewrite (mpow_sq_one_parity K H2 (S n) i j Hi Hj).
    destruct (Nat.odd (S n)) eqn:Eo.
    + assert (Ee : Nat.even (S n) = false) by (rewrite <- Nat.negb_odd, Eo; reflexivity). rewrite Ee. unfold lin2, madd, mscale. ring.
    + assert (Ee : Nat.even (S n) = true) by (rewrite <- Nat.negb_odd, Eo; reflexivity). rewrite Ee. unfold lin2, madd, mscale. ring.
Qed.

(* K^2 = K *)
Lemma mpow_idem K : meq (mmul K K) K -> forall n, meq (mpow K (S n)) K.
Proof.
  intros H2 n. induction n as [|n IH].
  - cbn [mpow]. apply mone_l.
  - change (mpow K (S (S n))) with (mmul (mpow K (S n)) K). eapply meq_trans; [apply mmul_meq_l; exact IH|exact H2].
Qed.
Theorem series_projector (a : nat -> R) (K : mat) : meq (mmul K K) K ->
  forall n, meq (psum a K n) (lin2 (a 0) (csum (fun _ => true) a n) K).
Proof.
  intros H2 n. induction n as [|n IH].
  - intros i j Hi Hj. unfold psum, lin2, madd, mscale. cbn [csum]. ring.
  - intros i j Hi Hj. cbn [psum csum]. unfold madd at 1. rewrite (IH i j Hi Hj).
    unfold mscale at 1. rewrite (mpow_idem K H2 n i j Hi Hj). unfold lin2, madd, mscale. ring.
Qed.
End OverRing.
