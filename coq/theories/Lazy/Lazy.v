(* Lazy.v -- the lazy-transposition mechanism (Tensor._trans): a tensor keeps its data in native leg order and a pending
   permutation [trans]; visible leg i is native leg trans[i].  Every operation first maps its visible axes to native
   axes through trans (_unpack_trans_test_axes_pair).  Model + laws. *)
From Coq Require Import List Arith Lia.
Import ListNotations.

Definition perm_apply {A} (d : A) (q : list nat) (l : list A) : list A := map (fun i => nth i l d) q.

(* lazy transpose: new visible leg i is old visible leg q[i], i.e. native leg trans[q[i]] *)
Definition lazy_transpose (trans q : list nat) : list nat := perm_apply 0 q trans.
(* visible axes -> native axes *)
Definition to_native (trans axes : list nat) : list nat := perm_apply 0 axes trans.

(* a native index assignment alpha : native leg -> index value; the visible multi-index it corresponds to *)
Definition visible_index (trans : list nat) (alpha : nat -> nat) : list nat := map alpha trans.

Lemma nth_map_in {A B} (f : A -> B) l i da db : i < length l -> nth i (map f l) db = f (nth i l da).
Proof. revert i; induction l as [|x l IH]; intros [|i] H; simpl in *; try lia; auto. apply IH. lia. Qed.

(* lazily transposing by q permutes the visible multi-index by q -- exactly what numpy.transpose(q) does to indices *)
Theorem lazy_transpose_visible trans q alpha : Forall (fun i => i < length trans) q ->
  visible_index (lazy_transpose trans q) alpha = perm_apply 0 q (visible_index trans alpha).
Proof.
  intro Hq. unfold visible_index, lazy_transpose, perm_apply. rewrite map_map.
  apply map_ext_in. intros i Hi. rewrite Forall_forall in Hq. symmetry. apply nth_map_in. apply Hq. exact Hi.
Qed.

(* two lazy transpositions compose like permutations: no materialisation is needed in between *)
Theorem lazy_transpose_compose trans q1 q2 : Forall (fun i => i < length q1) q2 ->
  lazy_transpose (lazy_transpose trans q1) q2 = lazy_transpose trans (perm_apply 0 q2 q1).
Proof.
  intro H. unfold lazy_transpose, perm_apply. rewrite map_map. apply map_ext_in. intros i Hi.
  rewrite Forall_forall in H. apply (nth_map_in (fun j => nth j trans 0) q1 i 0 0). apply H. exact Hi.
Qed.

(* the identity permutation leaves trans alone *)
Theorem lazy_transpose_id trans : lazy_transpose trans (seq 0 (length trans)) = trans.
Proof.
  unfold lazy_transpose, perm_apply. apply nth_ext with (d := 0) (d' := 0).
  - rewrite map_length, seq_length. reflexivity.
  - intros n Hn. rewrite map_length, seq_length in Hn.
    rewrite (nth_map_in (fun i => nth i trans 0) (seq 0 (length trans)) n 0 0) by (rewrite seq_length; exact Hn).
    rewrite seq_nth by exact Hn. reflexivity.
Qed.

(* an operation asked to act on visible axes acts on native axes to_native(trans, axes): the native legs selected are exactly
   those carrying the requested visible indices *)
Theorem to_native_selects trans axes alpha : Forall (fun i => i < length trans) axes ->
  map alpha (to_native trans axes) = perm_apply 0 axes (visible_index trans alpha).
Proof. exact (lazy_transpose_visible trans axes alpha). Qed.
