(* ExpmvCtl.v -- the step controller of yastn.expmv as a state machine over exact rationals.
   The arithmetic of every transition is GENERATED from yastn/krylov/_krylov.py (Gen/KrylovGen.v); this file only fixes the
   order in which the loop body applies it (checked by the translator's skeleton tests and by the trace correspondence).
   The numerics (Krylov expansion, matrix exponential, error estimate) enter as an arbitrary [verdict] per pass. *)
From Coq Require Import QArith Qround Qabs Qminmax Bool ZArith List.
From Yv Require Import Gen.KrylovGen.
Import ListNotations.
Open Scope Q_scope.

Record verdict := { happy : bool; omega : Q; tau_new : Q }.
Record cstate := { t_now : Q; tau : Q; accepted : list Q }.   (* accepted: ghost list of the step lengths that were applied *)

Definition pass (t_out : Q) (s : cstate) (d : verdict) : cstate :=
  let tau1 := if happy d then expmv_tau_happy t_out (t_now s) (tau s) else tau s in
  let om := if happy d then expmv_omega_happy else omega d in
  let tn := if happy d then expmv_tau_new_happy tau1 else tau_new d in
  let acc := expmv_accept om expmv_delta in
  let t1 := if acc then expmv_t_now_accept (t_now s) tau1 else t_now s in
  {| t_now := t1; tau := expmv_tau_next tau1 tn t_out t1; accepted := if acc then tau1 :: accepted s else accepted s |}.

Fixpoint run (t_out : Q) (s : cstate) (ds : list verdict) : cstate :=
  match ds with
  | [] => s
  | d :: r => if expmv_continue (t_now s) t_out then run t_out (pass t_out s d) r else s
  end.

Definition init (t : Q) : cstate := {| t_now := expmv_t_now0; tau := expmv_tau0 (expmv_t_out0 t); accepted := [] |}.
Definition finished (t_out : Q) (s : cstate) : bool := negb (expmv_continue (t_now s) t_out).
Fixpoint qsum (l : list Q) : Q := match l with [] => 0 | x :: r => x + qsum r end.

(* the Krylov dimension used by the three solvers *)
Definition krylov_m (happy : bool) (lenV : Q) : Q := if happy then lenV else lenV - 1.
