From Coq Require Import List ZArith Bool Lia.
From Yv Require Import Krylov.Arnoldi.
Import ListNotations.
Open Scope Z_scope.

Lemma eqk_spec a b : eqk a b = true <-> a = b.
Proof. destruct a, b. unfold eqk. cbn [fst snd]. rewrite andb_true_iff, !Z.eqb_eq. split; [intros [-> ->]; reflexivity|intro E; inversion E; auto]. Qed.
Lemma eqk_refl a : eqk a a = true. Proof. apply eqk_spec. reflexivity. Qed.
Lemma has_put k k' ks : has k (put k' ks) = eqk k k' || has k ks.
Proof.
  unfold put. destruct (has k' ks) eqn:E.
  - destruct (eqk k k') eqn:E2; auto. apply eqk_spec in E2. subst. rewrite E. reflexivity.
  - reflexivity.
Qed.
Lemma has_del k k' ks : has k (del k' ks) = negb (eqk k' k) && has k ks.
Proof.
  unfold del, has. induction ks as [|x ks IH]; cbn [filter existsb]. - rewrite andb_false_r. reflexivity.
  - destruct (eqk k' x) eqn:E; cbn [negb].
    + apply eqk_spec in E. subst x. rewrite IH. destruct (eqk k' k) eqn:E2; cbn [negb andb]; auto.
      replace (eqk k k') with false; auto. symmetry. destruct (eqk k k') eqn:E3; auto. apply eqk_spec in E3. subst. rewrite eqk_refl in E2. discriminate.
    + cbn [existsb]. rewrite IH. destruct (eqk k x) eqn:E2; cbn [orb].
      * apply eqk_spec in E2. subst x. rewrite E. reflexivity.
      * reflexivity.
Qed.

Lemma upto_in n z : In z (upto n) <-> 0 <= z < Z.of_nat n.
Proof.
  induction n as [|n IH]; cbn [upto]. - simpl. lia.
  - rewrite in_app_iff, IH. simpl. lia.
Qed.

Lemma has_fold_put j l : forall ks k, has k (fold_left (fun acc i => put (i, j) acc) l ks) = has k ks || existsb (fun i => eqk k (i, j)) l.
Proof.
  induction l as [|x l IH]; intros ks k; cbn [fold_left existsb]. - rewrite orb_false_r. reflexivity.
  - rewrite IH, has_put. destruct (eqk k (x, j)), (has k ks); reflexivity.
Qed.

Lemma existsb_col k j n : existsb (fun i => eqk k (i, j)) (upto n) = (snd k =? j) && (0 <=? fst k) && (fst k <? Z.of_nat n).
Proof.
  destruct k as [a b]. cbn [fst snd].
  destruct (existsb (fun i => eqk (a, b) (i, j)) (upto n)) eqn:E.
  - apply existsb_exists in E. destruct E as (i & Hi & He). apply upto_in in Hi. apply eqk_spec in He. inversion He; subst.
    symmetry. rewrite !andb_true_iff, Z.eqb_eq, Z.leb_le, Z.ltb_lt. lia.
  - symmetry. apply not_true_iff_false. intro C. rewrite !andb_true_iff, Z.eqb_eq, Z.leb_le, Z.ltb_lt in C.
    assert (X : existsb (fun i => eqk (a, b) (i, j)) (upto n) = true).
    { apply existsb_exists. exists a. split. apply upto_in. lia. apply eqk_spec. f_equal. lia. }
    congruence.
Qed.

(* one column: from the pattern of j columns to the pattern of j+1 columns without the sub-diagonal entry (j+1, j) *)
Lemma column_spec hermitian j ks : 0 <= j -> (forall k, has k ks = pattern hermitian j k) ->
  (forall k, has k (fst (column hermitian j ks)) = pattern hermitian (j + 1) k && negb (eqk k (j + 1, j))) /\ snd (column hermitian j ks) = false.
Proof.
  intros Hj Hp. unfold column. destruct hermitian.
  - destruct (j =? 0) eqn:E0; cbn [fst snd].
    + apply Z.eqb_eq in E0. subst j. split; [|reflexivity]. intros [a b]. rewrite has_put, Hp. unfold pattern, eqk. cbn [fst snd negb orb].
      destruct (a =? 0) eqn:A; destruct (b =? 0) eqn:B; destruct (a =? 1) eqn:A1; rewrite ?Z.eqb_eq, ?Z.eqb_neq in *; subst; cbn; try lia;
      repeat match goal with |- context [?x <=? ?y] => destruct (Z.leb_spec x y) | |- context [?x <? ?y] => destruct (Z.ltb_spec x y) end; cbn; try reflexivity; try lia.
    + apply Z.eqb_neq in E0. split.
      * intros [a b]. rewrite !has_put, Hp. unfold pattern, eqk. cbn [fst snd negb orb].
        repeat match goal with |- context [?x =? ?y] => destruct (Z.eqb_spec x y) end;
        repeat match goal with |- context [?x <=? ?y] => destruct (Z.leb_spec x y) | |- context [?x <? ?y] => destruct (Z.ltb_spec x y) end; cbn; try reflexivity; try lia.
      * rewrite Hp. unfold pattern. cbn [negb orb].
        repeat match goal with |- context [?x <=? ?y] => destruct (Z.leb_spec x y) | |- context [?x <? ?y] => destruct (Z.ltb_spec x y) end; cbn; try reflexivity; try lia.
  - cbn [fst snd]. split; [|reflexivity]. intros [a b]. rewrite has_fold_put, existsb_col, Hp. rewrite Z2Nat.id by lia. unfold pattern, eqk. cbn [fst snd negb orb].
    repeat match goal with |- context [?x =? ?y] => destruct (Z.eqb_spec x y) end;
    repeat match goal with |- context [?x <=? ?y] => destruct (Z.leb_spec x y) | |- context [?x <? ?y] => destruct (Z.ltb_spec x y) end; cbn; try reflexivity; try lia.
Qed.

Lemma pattern_step hermitian j k : 0 <= j -> (pattern hermitian (j + 1) k && negb (eqk k (j + 1, j))) || eqk k (j + 1, j) = pattern hermitian (j + 1) k.
Proof.
  intro Hj. destruct k as [a b]. unfold pattern, eqk. cbn [fst snd].
  destruct hermitian; cbn [negb orb];
  repeat match goal with |- context [?x =? ?y] => destruct (Z.eqb_spec x y) end;
  repeat match goal with |- context [?x <=? ?y] => destruct (Z.leb_spec x y) | |- context [?x <? ?y] => destruct (Z.ltb_spec x y) end; cbn; try reflexivity; try lia.
Qed.

Lemma pattern_drop_row hermitian n k : 1 <= n -> pattern hermitian n k && negb (eqk k (n, n - 1)) = pattern hermitian n k && negb (true && (fst k =? n)).
Proof.
  intro Hn. destruct k as [a b]. unfold pattern, eqk. cbn [fst snd andb].
  destruct hermitian; cbn [negb orb];
  repeat match goal with |- context [?x =? ?y] => destruct (Z.eqb_spec x y) end;
  repeat match goal with |- context [?x <=? ?y] => destruct (Z.leb_spec x y) | |- context [?x <? ?y] => destruct (Z.ltb_spec x y) end; cbn; try reflexivity; try lia.
Qed.

(* consecutive columns starting at n-1 *)
Inductive consecutive : Z -> list Z -> Prop :=
| cons_nil j : consecutive j []
| cons_cons j r : consecutive (j + 1) r -> consecutive j (j :: r).

Lemma expand_spec hermitian brk : forall cols n ks miss, 1 <= n -> consecutive (n - 1) cols ->
  (forall k, has k ks = pattern hermitian (n - 1) k) ->
  let r := expand cols hermitian brk n ks miss in
  missing r = miss /\ n <= lenV r /\ lenV r <= n + Z.of_nat (length cols) /\
  (forall k, has k (keys r) = pattern hermitian (krylov_dim (happyR r) (lenV r)) k && negb (happyR r && (fst k =? lenV r))) /\
  (happyR r = true -> brk (lenV r - 1) = true) /\ (happyR r = false -> lenV r = n + Z.of_nat (length cols)).
Proof.
  induction cols as [|j r IH]; intros n ks miss Hn Hc Hp; cbn [expand].
  - cbn [missing lenV keys happyR krylov_dim andb negb length]. repeat split; try lia; try discriminate.
    intro k. rewrite Hp, andb_true_r. reflexivity.
  - inversion Hc; subst. destruct (column_spec hermitian (n - 1) ks ltac:(lia) Hp) as [Hk Hm].
    destruct (column hermitian (n - 1) ks) as [ks1 m1]. cbn [fst snd] in Hk, Hm. subst m1.
    destruct (brk (n - 1)) eqn:Eb.
    + cbn [missing lenV keys happyR krylov_dim andb]. rewrite orb_false_r. cbn [length]. repeat split; try lia; try discriminate; auto.
      intro k. rewrite Hk. replace (n - 1 + 1) with n by lia. apply pattern_drop_row. lia.
    + rewrite orb_false_r.
      specialize (IH (n + 1) (put (n - 1 + 1, n - 1) ks1) miss ltac:(lia)).
      replace (n + 1 - 1) with (n - 1 + 1) in IH by lia. specialize (IH H1).
      assert (Hp' : forall k, has k (put (n - 1 + 1, n - 1) ks1) = pattern hermitian (n - 1 + 1) k).
      { intro k. rewrite has_put, Hk, orb_comm. apply pattern_step. lia. }
      specialize (IH Hp'). cbv zeta in IH. destruct IH as (I1 & I2 & I3 & I4 & I5 & I6).
      cbn [length]. repeat split; try lia; auto. intro Hh. specialize (I6 Hh). lia.
Qed.

Lemma upto_length n : length (upto n) = n.
Proof. induction n as [|n IH]; cbn [upto]; auto. rewrite app_length, IH. simpl. lia. Qed.
Lemma consecutive_app j l : consecutive j l -> consecutive j (l ++ [j + Z.of_nat (length l)]).
Proof.
  intro H. induction H as [j|j r H IH]; cbn [app length].
  - replace (j + Z.of_nat 0) with j by lia. constructor. constructor.
  - constructor. replace (j + Z.of_nat (S (length r))) with (j + 1 + Z.of_nat (length r)) by lia. exact IH.
Qed.
Lemma cols_consecutive lenV0 ncv : consecutive (lenV0 - 1) (cols_from lenV0 ncv).
Proof.
  unfold cols_from. induction (Z.to_nat (ncv - (lenV0 - 1))) as [|n IH]; cbn [upto map]. - constructor.
  - rewrite map_app. cbn [map]. replace (Z.of_nat n) with (Z.of_nat (length (map (fun k : Z => lenV0 - 1 + k) (upto n)))) by (rewrite map_length, upto_length; reflexivity).
    apply consecutive_app. exact IH.
Qed.
Lemma cols_length lenV0 ncv : Z.of_nat (length (cols_from lenV0 ncv)) = Z.max 0 (ncv - (lenV0 - 1)).
Proof. unfold cols_from. rewrite map_length, upto_length. lia. Qed.

(* expand_krylov_space from any well-formed entry state (fresh: lenV0 = 1, no entries; re-entry after a rejected expmv pass: the pattern of
   lenV0 - 1 columns): never reads a missing entry, returns exactly the Hessenberg / tridiagonal pattern of m = krylov_dim columns, without
   the sub-diagonal entry of the last column iff the breakdown fired *)
Theorem expand_krylov_spec ncv hermitian brk lenV0 ks0 : 1 <= lenV0 -> (forall k, has k ks0 = pattern hermitian (lenV0 - 1) k) ->
  let r := expand_krylov ncv hermitian brk lenV0 ks0 in
  missing r = false /\ lenV0 <= lenV r /\ lenV r <= Z.max lenV0 (ncv + 1) /\
  (forall k, has k (keys r) = pattern hermitian (krylov_dim (happyR r) (lenV r)) k && negb (happyR r && (fst k =? lenV r))) /\
  (happyR r = true -> brk (lenV r - 1) = true) /\ (happyR r = false -> lenV r = Z.max lenV0 (ncv + 1)).
Proof.
  intros Hn Hp r. unfold r, expand_krylov.
  destruct (expand_spec hermitian brk (cols_from lenV0 ncv) lenV0 ks0 false Hn (cols_consecutive lenV0 ncv) Hp) as (A & B & C & D & E & F).
  rewrite cols_length in C, F. repeat split; auto; try lia. intro H. specialize (F H). lia.
Qed.
Theorem expand_krylov_fresh ncv hermitian brk : let r := expand_krylov ncv hermitian brk 1 [] in
  missing r = false /\ 1 <= lenV r <= Z.max 1 (ncv + 1) /\
  (forall k, has k (keys r) = pattern hermitian (krylov_dim (happyR r) (lenV r)) k && negb (happyR r && (fst k =? lenV r))) /\
  (happyR r = false -> lenV r = Z.max 1 (ncv + 1)).
Proof.
  intro r. destruct (expand_krylov_spec ncv hermitian brk 1 [] ltac:(lia)) as (A & B & C & D & E & F).
  - intros [a b]. unfold pattern. cbn. destruct (0 <=? b) eqn:E1; destruct (b <? 0) eqn:E2; cbn; auto. apply Z.leb_le in E1. apply Z.ltb_lt in E2. lia.
  - fold r in A, B, C, D, E, F. repeat split; auto.
Qed.

(* what expmv does with the result when no breakdown fired: H.pop((m, m-1)) is defined (for ncv >= 1) and leaves the square m x m pattern *)
Theorem unhappy_subdiagonal_present hermitian n ks : 2 <= n -> (forall k, has k ks = pattern hermitian (n - 1) k) ->
  has (n - 1, n - 2) ks = true /\ forall k, has k (del (n - 1, n - 2) ks) = pattern hermitian (n - 1) k && negb (fst k =? n - 1).
Proof.
  intros Hn Hp. split.
  - rewrite Hp. unfold pattern. destruct hermitian; cbn [negb orb];
    repeat match goal with |- context [?x <=? ?y] => destruct (Z.leb_spec x y) | |- context [?x <? ?y] => destruct (Z.ltb_spec x y) end; cbn; try reflexivity; try lia.
  - intros [a b]. rewrite has_del, Hp. unfold pattern, eqk. cbn [fst snd]. destruct hermitian; cbn [negb orb];
    repeat match goal with |- context [?x =? ?y] => destruct (Z.eqb_spec x y) end;
    repeat match goal with |- context [?x <=? ?y] => destruct (Z.leb_spec x y) | |- context [?x <? ?y] => destruct (Z.ltb_spec x y) end; cbn; try reflexivity; try lia.
Qed.
(* a rejected pass of expmv (pop the sub-diagonal, add the augmentation entry (0, m), drop it again, restore the sub-diagonal) returns
   the entry set it started from, so the next expand_krylov_space call re-enters in a well-formed state *)
Theorem reject_restores hermitian n ks : 2 <= n -> (forall k, has k ks = pattern hermitian (n - 1) k) ->
  forall k, has k (put (n - 1, n - 2) (del (0, n - 1) (put (0, n - 1) (del (n - 1, n - 2) ks)))) = pattern hermitian (n - 1) k.
Proof.
  intros Hn Hp [a b]. rewrite has_put, has_del, has_put, has_del, Hp. unfold pattern, eqk. cbn [fst snd]. destruct hermitian; cbn [negb orb];
  repeat match goal with |- context [?x =? ?y] => destruct (Z.eqb_spec x y) end;
  repeat match goal with |- context [?x <=? ?y] => destruct (Z.leb_spec x y) | |- context [?x <? ?y] => destruct (Z.ltb_spec x y) end; cbn; try reflexivity; try lia.
Qed.
