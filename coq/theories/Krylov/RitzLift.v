(* RitzLift.v -- why eigs is exact once the Krylov space is invariant, and what its error is otherwise.
   Stated for row vectors over an ARBITRARY commutative ring (Section variables, discharged at the end): the basis vectors are the rows of
   Qm, the map is x |-> x.F, the projected matrix is H.  Arnoldi/Lanczos produce  Qm.F = H.Qm + e_last (x) r  with r = h * q_{m}
   (the residual direction); a happy breakdown is r = 0. *)
From Coq Require Import List Ring Setoid Lia.
Import ListNotations.

Section OverRing.
Variable R : Type.
Variables (r0 r1 : R) (radd rmul rsub : R -> R -> R) (ropp : R -> R).
Hypothesis Rth : ring_theory r0 r1 radd rmul rsub ropp (@eq R).
Add Ring Rring : Rth.
Notation "a + b" := (radd a b).
Notation "a * b" := (rmul a b).

Fixpoint vadd (a b : list R) : list R :=
  match a, b with
  | x :: a', y :: b' => (x + y) :: vadd a' b'
  | [], _ => b
  | _, [] => a
  end.
Definition vscale (c : R) (a : list R) : list R := map (rmul c) a.
Definition vzero (n : nat) : list R := repeat r0 n.
(* v . M = sum_k v_k row_k *)
Fixpoint vecmat (w : nat) (v : list R) (M : list (list R)) : list R :=
  match v, M with
  | x :: v', r :: M' => vadd (vscale x r) (vecmat w v' M')
  | _, _ => vzero w
  end.
Definition width_ok (w : nat) (M : list (list R)) : Prop := Forall (fun r => length r = w) M.
(* matrix product A.B, rows of A times B *)
Definition matmul (w : nat) (A B : list (list R)) : list (list R) := map (fun a => vecmat w a B) A.

Lemma vadd_length a b : length a = length b -> length (vadd a b) = length a.
Proof. revert b; induction a as [|x a IH]; intros [|y b] H; simpl in *; try discriminate; auto. Qed.
Lemma vscale_length c a : length (vscale c a) = length a.
Proof. apply map_length. Qed.
Lemma vzero_length n : length (vzero n) = n.
Proof. apply repeat_length. Qed.
Lemma vecmat_length w v M : width_ok w M -> length (vecmat w v M) = w.
Proof.
  revert M; induction v as [|x v IH]; intros [|r M] H; simpl; try apply vzero_length.
  inversion H; subst. rewrite vadd_length; rewrite vscale_length; auto. rewrite IH; auto.
Qed.

Lemma vadd_shuffle : forall a b c d, length a = length b -> length a = length c -> length a = length d ->
  vadd (vadd a b) (vadd c d) = vadd (vadd a c) (vadd b d).
Proof.
  induction a as [|x a IH]; intros [|y b] [|z c] [|u d] H1 H2 H3; simpl in *; try discriminate; auto.
  f_equal; [ring|apply IH; lia].
Qed.
Lemma vscale_vadd c a b : length a = length b -> vscale c (vadd a b) = vadd (vscale c a) (vscale c b).
Proof. revert b; induction a as [|x a IH]; intros [|y b] H; simpl in *; try discriminate; auto. f_equal; [ring|apply IH; lia]. Qed.
Lemma vscale_vscale c e a : vscale c (vscale e a) = vscale (c * e) a.
Proof. unfold vscale. rewrite map_map. apply map_ext. intro; ring. Qed.
Lemma vscale_add_l c e a : vscale (c + e) a = vadd (vscale c a) (vscale e a).
Proof. induction a as [|x a IH]; simpl; auto. f_equal; [ring|exact IH]. Qed.
Lemma vscale_vzero c n : vscale c (vzero n) = vzero n.
Proof. unfold vscale, vzero. induction n; simpl; auto. rewrite IHn. f_equal. ring. Qed.
Lemma vadd_vzero_l n a : length a = n -> vadd (vzero n) a = a.
Proof. revert a; induction n as [|n IH]; intros [|x a] H; simpl in *; try discriminate; auto. rewrite IH by lia. f_equal. ring. Qed.
Lemma vscale_zero_l a : vscale r0 a = vzero (length a).
Proof. induction a as [|x a IH]; simpl; auto. unfold vzero in *. simpl. rewrite <- IH. f_equal. ring. Qed.

(* linearity of v |-> v.M *)
Lemma vecmat_vzero w n M : width_ok w M -> vecmat w (vzero n) M = vzero w.
Proof.
  revert M; induction n as [|n IH]; intros [|r M] H; simpl; auto.
  inversion H; subst. rewrite IH by assumption. rewrite vscale_zero_l. apply vadd_vzero_l. apply vzero_length.
Qed.
Lemma vecmat_vadd w a b M : length a = length b -> length a = length M -> width_ok w M ->
  vecmat w (vadd a b) M = vadd (vecmat w a M) (vecmat w b M).
Proof.
  revert b M; induction a as [|x a IH]; intros [|y b] [|r M] H1 H2 HM; simpl in *; try discriminate.
  - symmetry. apply vadd_vzero_l. apply vzero_length.
  - inversion HM; subst. rewrite IH by (auto; lia). rewrite vscale_add_l.
    apply vadd_shuffle; rewrite ?vscale_length, ?vecmat_length; auto.
Qed.
Lemma vecmat_vscale w c v M : width_ok w M -> vecmat w (vscale c v) M = vscale c (vecmat w v M).
Proof.
  revert M; induction v as [|x v IH]; intros [|r M] H; simpl; try (symmetry; apply vscale_vzero).
  inversion H; subst. rewrite IH by assumption. rewrite vscale_vadd, vscale_vscale; auto.
  rewrite vscale_length, vecmat_length; auto.
Qed.

(* associativity  (y.Q).F = y.(Q.F)  for Q : k x n (rows of width n), F : n x w *)
Lemma vecmat_assoc n w y Q F : length y = length Q -> width_ok n Q -> length F = n -> width_ok w F ->
  vecmat w (vecmat n y Q) F = vecmat w y (matmul w Q F).
Proof.
  revert Q; induction y as [|x y IH]; intros [|q Q] Hl HQ HF HwF; simpl in *; try discriminate.
  - apply vecmat_vzero; assumption.
  - inversion HQ; subst. rewrite vecmat_vadd.
    + rewrite vecmat_vscale by assumption. rewrite IH by (auto; lia). reflexivity.
    + rewrite vscale_length, vecmat_length; auto.
    + rewrite vscale_length. auto.
    + assumption.
Qed.

(* EXACTNESS: if the span of the rows of Qm is invariant (Qm.F = H.Qm) then every eigenpair of the projected matrix lifts to an
   eigenpair of F *)
Theorem ritz_pair_exact n m (Qm F H : list (list R)) (y : list R) (lam : R) :
  length Qm = m -> width_ok n Qm -> length F = n -> width_ok n F -> length H = m -> width_ok m H -> length y = m ->
  matmul n Qm F = matmul n H Qm ->                 (* invariance: happy breakdown *)
  vecmat m y H = vscale lam y ->                    (* (lam, y) is an eigenpair of the projected matrix *)
  vecmat n (vecmat n y Qm) F = vscale lam (vecmat n y Qm).
Proof.
  intros HlQ HwQ HlF HwF HlH HwH Hly Hinv Heig.
  rewrite (vecmat_assoc n n y Qm F) by (auto; lia). rewrite Hinv.
  rewrite <- (vecmat_assoc m n y H Qm) by (auto; lia). rewrite Heig. apply vecmat_vscale. assumption.
Qed.

(* RESIDUAL: with the Arnoldi relation Qm.F = H.Qm + E, where row j of E is e_j * r (only the last e_j is non-zero in Arnoldi), the
   Ritz pair misses being an eigenpair by exactly (y.e) r *)
Definition outer (e : list R) (r : list R) : list (list R) := map (fun c => vscale c r) e.
Fixpoint madd (A B : list (list R)) : list (list R) :=
  match A, B with a :: A', b :: B' => vadd a b :: madd A' B' | _, _ => [] end.
Fixpoint dot (a b : list R) : R := match a, b with x :: a', y :: b' => x * y + dot a' b' | _, _ => r0 end.

Lemma vecmat_madd w y A B : length y = length A -> length A = length B -> width_ok w A -> width_ok w B ->
  vecmat w y (madd A B) = vadd (vecmat w y A) (vecmat w y B).
Proof.
  revert A B; induction y as [|x y IH]; intros [|a A] [|b B] H1 H2 HA HB; simpl in *; try discriminate.
  - symmetry. apply vadd_vzero_l, vzero_length.
  - inversion HA; inversion HB; subst. rewrite IH by (auto; lia). rewrite vscale_vadd by congruence.
    apply vadd_shuffle; rewrite ?vscale_length, ?vecmat_length; auto; congruence.
Qed.
Lemma vecmat_outer w y e r : length y = length e -> length r = w -> vecmat w y (outer e r) = vscale (dot y e) r.
Proof.
  revert e; induction y as [|x y IH]; intros [|c e] H Hr; simpl in *; try discriminate.
  - subst w. symmetry. apply vscale_zero_l.
  - rewrite IH by (auto; lia). rewrite vscale_vscale. symmetry. apply vscale_add_l.
Qed.
Lemma outer_width w e r : length r = w -> width_ok w (outer e r).
Proof. intro H. unfold width_ok, outer. apply Forall_forall. intros x Hx. apply in_map_iff in Hx. destruct Hx as (c & <- & _). rewrite vscale_length. exact H. Qed.
Lemma matmul_width w A B : width_ok w B -> width_ok w (matmul w A B).
Proof. intro H. unfold width_ok, matmul. apply Forall_forall. intros x Hx. apply in_map_iff in Hx. destruct Hx as (c & <- & _). apply vecmat_length. exact H. Qed.

Theorem ritz_pair_residual n m (Qm F H : list (list R)) (y e r : list R) (lam : R) :
  length Qm = m -> width_ok n Qm -> length F = n -> width_ok n F -> length H = m -> width_ok m H -> length y = m ->
  length e = m -> length r = n ->
  matmul n Qm F = madd (matmul n H Qm) (outer e r) ->      (* Arnoldi relation *)
  vecmat m y H = vscale lam y ->
  vecmat n (vecmat n y Qm) F = vadd (vscale lam (vecmat n y Qm)) (vscale (dot y e) r).
Proof.
  intros HlQ HwQ HlF HwF HlH HwH Hly Hle Hlr Harn Heig.
  rewrite (vecmat_assoc n n y Qm F) by (auto; lia). rewrite Harn.
  rewrite vecmat_madd.
  - rewrite <- (vecmat_assoc m n y H Qm) by (auto; lia). rewrite Heig. rewrite vecmat_vscale by assumption.
    rewrite vecmat_outer by (auto; lia). reflexivity.
  - unfold matmul. rewrite map_length. lia.
  - unfold matmul, outer. rewrite !map_length. lia.
  - apply matmul_width. assumption.
  - apply outer_width. assumption.
Qed.
End OverRing.
