From Coq Require Import QArith Qround Qabs Qminmax Bool ZArith List Lia Lqa.
From Yv Require Import Gen.KrylovGen Krylov.ExpmvCtl.
Import ListNotations.
Open Scope Q_scope.

Lemma Qltb_true a b : Qltb a b = true <-> a < b.
Proof.
  unfold Qltb. rewrite negb_true_iff. split; intro H.
  - apply Qnot_le_lt. intro C. apply Qle_bool_iff in C. congruence.
  - destruct (Qle_bool b a) eqn:E; auto. apply Qle_bool_iff in E. apply Qle_not_lt in E. contradiction.
Qed.
Lemma Qltb_false a b : Qltb a b = false <-> b <= a.
Proof.
  unfold Qltb. rewrite negb_false_iff. apply Qle_bool_iff.
Qed.

Definition Inv (t_out : Q) (s : cstate) : Prop :=
  0 <= t_now s /\ t_now s <= t_out /\ 0 <= tau s /\ tau s <= t_out - t_now s /\ (t_now s < t_out -> 0 < tau s)
  /\ qsum (accepted s) == t_now s /\ Forall (fun x => 0 < x) (accepted s).

Lemma Qmin_case_le a b : (Qmin a b == a /\ a <= b) \/ (Qmin a b == b /\ b <= a).
Proof.
  destruct (Qlt_le_dec a b) as [H|H].
  - left. split. apply Q.min_l. apply Qlt_le_weak; auto. apply Qlt_le_weak; auto.
  - right. split. apply Q.min_r; auto. auto.
Qed.
Lemma Qmax_case_le a b : (Qmax a b == a /\ b <= a) \/ (Qmax a b == b /\ a <= b).
Proof.
  destruct (Qlt_le_dec a b) as [H|H].
  - right. split. apply Q.max_r. apply Qlt_le_weak; auto. apply Qlt_le_weak; auto.
  - left. split. apply Q.max_l; auto. auto.
Qed.

(* the next step length never exceeds what is left, is never negative, and is positive while something is left *)
Lemma tau_next_bounds tau1 tn t_out t1 : 0 < tau1 -> t1 <= t_out ->
  0 <= expmv_tau_next tau1 tn t_out t1 /\ expmv_tau_next tau1 tn t_out t1 <= t_out - t1 /\ (t1 < t_out -> 0 < expmv_tau_next tau1 tn t_out t1).
Proof.
  intros Ht Hle. unfold expmv_tau_next.
  assert (Hx : (1 # 5) * tau1 <= Qmax ((1 # 5) * tau1) tn) by apply Q.le_max_l.
  revert Hx. generalize (Qmax ((1 # 5) * tau1) tn). intros x Hx.
  destruct (Qmin_case_le (t_out - t1) ((2 # 1) * tau1)) as [[E2 L2]|[E2 L2]]; revert E2;
  generalize (Qmin (t_out - t1) ((2 # 1) * tau1)); intros y E2;
  (destruct (Qmin_case_le x y) as [[E3 L3]|[E3 L3]]; revert E3; generalize (Qmin x y); intros z E3;
   (split; [|split; [|intro]]); lra).
Qed.

Lemma pass_inv t_out s d : Inv t_out s -> expmv_continue (t_now s) t_out = true -> Inv t_out (pass t_out s d).
Proof.
  intros (H0 & H1 & H2 & H3 & H4 & H5 & H6) Hc. unfold expmv_continue in Hc. apply Qltb_true in Hc.
  specialize (H4 Hc). unfold pass, Inv.
  destruct (happy d) eqn:Eh; cbn [t_now tau accepted].
  - (* happy breakdown *)
    unfold expmv_omega_happy, expmv_delta, expmv_accept.
    replace (Qle_bool (0 # 1) (6 # 5)) with true by reflexivity.
    unfold expmv_t_now_accept, expmv_tau_happy, expmv_tau_new_happy.
    assert (Hp : 0 < t_out - t_now s) by lra.
    assert (Hl : t_now s + (t_out - t_now s) <= t_out) by lra.
    destruct (tau_next_bounds (t_out - t_now s) (t_out - t_now s) t_out (t_now s + (t_out - t_now s)) Hp Hl) as (B1 & B2 & B3).
    repeat split; try lra; try assumption.
    + cbn [qsum]. rewrite H5. lra.
    + constructor; assumption.
  - destruct (expmv_accept (omega d) expmv_delta) eqn:Ea.
    + unfold expmv_t_now_accept.
      assert (Hl : t_now s + tau s <= t_out) by lra.
      destruct (tau_next_bounds (tau s) (tau_new d) t_out (t_now s + tau s) H4 Hl) as (B1 & B2 & B3).
      repeat split; try lra; try assumption.
      * cbn [qsum]. rewrite H5. lra.
      * constructor; assumption.
    + destruct (tau_next_bounds (tau s) (tau_new d) t_out (t_now s) H4 H1) as (B1 & B2 & B3).
      repeat split; try lra; try assumption.
Qed.

Lemma init_inv t : Inv (expmv_t_out0 t) (init t).
Proof.
  unfold Inv, init, expmv_t_now0, expmv_tau0, expmv_t_out0; cbn [t_now tau accepted qsum].
  pose proof (Qabs_nonneg t). repeat split; try lra. constructor.
Qed.

Lemma run_inv t_out ds : forall s, Inv t_out s -> Inv t_out (run t_out s ds).
Proof.
  induction ds as [|d r IH]; intros s H; cbn [run]; auto.
  destruct (expmv_continue (t_now s) t_out) eqn:E; auto. apply IH. apply pass_inv; auto.
Qed.

(* for every sequence of numerical verdicts the controller state is sound *)
Theorem expmv_inv t ds : Inv (expmv_t_out0 t) (run (expmv_t_out0 t) (init t) ds).
Proof. apply run_inv, init_inv. Qed.

(* once the loop has stopped, the applied steps add up to |t| exactly, and with the sign factor to t *)
Theorem expmv_exact_time t ds : let s := run (expmv_t_out0 t) (init t) ds in
  finished (expmv_t_out0 t) s = true ->
  t_now s == Qabs t /\ qsum (accepted s) == Qabs t /\ expmv_sgn t (expmv_t_out0 t) * qsum (accepted s) == t.
Proof.
  intros s Hf. destruct (expmv_inv t ds) as (H0 & H1 & H2 & H3 & H4 & H5 & H6). fold s in H0, H1, H2, H3, H4, H5, H6.
  unfold finished in Hf. rewrite negb_true_iff in Hf. unfold expmv_continue in Hf. apply Qltb_false in Hf.
  unfold expmv_t_out0 in *. assert (E : t_now s == Qabs t) by lra. split; [exact E|]. split; [lra|].
  rewrite H5, E. unfold expmv_sgn. destruct (Qltb (0 # 1) (Qabs t)) eqn:Ez.
  - apply Qltb_true in Ez. field. lra.
  - apply Qltb_false in Ez. pose proof (Qabs_nonneg t) as Hn. assert (Z : Qabs t == 0) by lra.
    destruct (Qlt_le_dec 0 t) as [C|C].
    + rewrite Qabs_pos in Z by lra. lra.
    + rewrite Qabs_neg in Z by lra. assert (t == 0) by lra. lra.
Qed.

(* a happy breakdown ends the evolution in that very pass: the remaining interval is taken in one exact step *)
Theorem happy_finishes t_out s d : Inv t_out s -> expmv_continue (t_now s) t_out = true -> happy d = true ->
  t_now (pass t_out s d) == t_out /\ finished t_out (pass t_out s d) = true /\ exists a, accepted (pass t_out s d) = a :: accepted s /\ a == t_out - t_now s.
Proof.
  intros HI Hc Hh. unfold pass. rewrite Hh. cbn [t_now accepted].
  unfold expmv_omega_happy, expmv_delta, expmv_accept. replace (Qle_bool (0 # 1) (6 # 5)) with true by reflexivity.
  unfold expmv_t_now_accept, expmv_tau_happy. split; [lra|]. split.
  - unfold finished, expmv_continue. cbn [t_now]. rewrite negb_true_iff. apply Qltb_false. lra.
  - eexists. split; [reflexivity|lra].
Qed.

(* a step is only ever applied if it fits into the remaining interval, and it is strictly positive *)
Theorem accepted_fits t_out s d : Inv t_out s -> expmv_continue (t_now s) t_out = true ->
  forall a, accepted (pass t_out s d) = a :: accepted s -> 0 < a /\ t_now s + a <= t_out /\ t_now (pass t_out s d) == t_now s + a.
Proof.
  intros (H0 & H1 & H2 & H3 & H4 & H5 & H6) Hc a. unfold expmv_continue in Hc. apply Qltb_true in Hc. specialize (H4 Hc).
  unfold pass. cbn [accepted t_now].
  destruct (happy d).
  - unfold expmv_omega_happy, expmv_delta, expmv_accept. replace (Qle_bool (0 # 1) (6 # 5)) with true by reflexivity.
    unfold expmv_tau_happy, expmv_t_now_accept. intro E. injection E as E. subst a. repeat split; lra.
  - destruct (expmv_accept (omega d) expmv_delta).
    + unfold expmv_t_now_accept. intro E. injection E as E. subst a. repeat split; lra.
    + intro E. exfalso. assert (L : length (accepted s) = length (a :: accepted s)) by (rewrite <- E; reflexivity). simpl in L. lia.
Qed.

(* a rejected pass leaves the clock untouched *)
Theorem rejected_keeps_time t_out s d : happy d = false -> expmv_accept (omega d) expmv_delta = false ->
  t_now (pass t_out s d) = t_now s /\ accepted (pass t_out s d) = accepted s.
Proof. intros Hh Ha. unfold pass. rewrite Hh, Ha. split; reflexivity. Qed.

(* the next Krylov size stays within [1, ncv_max] and is integral *)
Theorem ncv_next_range ncv_max m ncv_new : 1 <= ncv_max ->
  1 <= expmv_ncv_next ncv_max m ncv_new /\ expmv_ncv_next ncv_max m ncv_new <= ncv_max /\ exists z : Z, expmv_ncv_next ncv_max m ncv_new = inject_Z z.
Proof.
  intro H. unfold expmv_ncv_next, Qtrunc.
  set (x := Qmax (1 # 1) _).
  assert (L : 1 <= x) by (unfold x; apply Q.le_max_l).
  assert (U : x <= ncv_max).
  { unfold x. apply Q.max_lub; [exact H|]. apply Q.le_min_l. }
  split; [|split].
  - change 1 with (inject_Z 1). rewrite <- Zle_Qle. apply Qfloor_resp_le in L. exact L.
  - eapply Qle_trans; [apply Qfloor_le|exact U].
  - eexists; reflexivity.
Qed.

(* the Krylov size never exceeds the bound the controller works with: initially (the bound is raised to the requested size -- with a smaller
   bound a rejected first pass left the controller with a basis it could not shrink and nothing to change: the loop did not terminate; fixed in
   /repo, see known_findings.json), and the bound only grows afterwards *)
Theorem ncv0_range ncv vsize : 1 <= expmv_ncv0 ncv /\ expmv_ncv0 ncv <= expmv_ncv_max (expmv_ncv0 ncv) vsize.
Proof. unfold expmv_ncv0, expmv_ncv_max. split; [apply Q.le_max_l|apply Q.le_max_l]. Qed.
Theorem ncv_max_grows ncv_max supp : ncv_max <= expmv_ncv_max_grow ncv_max supp.
Proof. unfold expmv_ncv_max_grow. apply Q.le_max_l. Qed.

(* dimension bookkeeping of the three solvers *)
Theorem expmv_m_spec lenV : expmv_m_happy lenV = krylov_m true lenV /\ expmv_m_unhappy lenV = krylov_m false lenV.
Proof. split; reflexivity. Qed.
Theorem eigs_dims happy lenV supp : 1 <= lenV -> let m := eigs_m_cap (eigs_m happy lenV) supp in
  eigs_m happy lenV = krylov_m happy lenV /\ eigs_kept m = eigs_T_dim m /\ eigs_kept m <= lenV /\ eigs_kept m <= supp
  /\ (happy = true -> lenV <= supp -> eigs_kept m == lenV).
Proof.
  intros H m. unfold m, eigs_m_cap, eigs_m, eigs_kept, eigs_T_dim, krylov_m.
  destruct happy; (split; [reflexivity|split; [reflexivity|split; [|split; [apply Q.le_min_r|]]]]).
  - eapply Qle_trans; [apply Q.le_min_l|lra].
  - intros _ Hs. apply Q.min_l. exact Hs.
  - eapply Qle_trans; [apply Q.le_min_l|lra].
  - intro; discriminate.
Qed.
Theorem lin_solver_dims happy lenV supp : 1 <= lenV -> let m := lin_solver_m_cap (lin_solver_m happy lenV) supp in
  lin_solver_m happy lenV = krylov_m happy lenV /\ lin_solver_T_rows m == lin_solver_rhs_len m /\ lin_solver_T_cols m == lin_solver_kept m
  /\ lin_solver_T_rows m <= lin_solver_T_dim m /\ lin_solver_T_cols m <= lin_solver_T_dim m
  /\ lin_solver_kept m <= lenV /\ lin_solver_kept m <= supp /\ (happy = true -> lenV <= supp -> lin_solver_kept m == lenV).
Proof.
  intros H m.
  assert (Hm : m <= lenV). { unfold m, lin_solver_m_cap, lin_solver_m. eapply Qle_trans; [apply Q.le_min_l|]. destruct happy; lra. }
  unfold lin_solver_kept, lin_solver_T_dim, lin_solver_T_rows, lin_solver_T_cols, lin_solver_rhs_len.
  split; [unfold lin_solver_m, krylov_m; reflexivity|]. split; [lra|]. split; [lra|]. split; [lra|]. split; [lra|]. split; [exact Hm|]. split.
  - unfold m, lin_solver_m_cap. apply Q.le_min_r.
  - intros Hh Hs. unfold m, lin_solver_m_cap, lin_solver_m. rewrite Hh. apply Q.min_l. exact Hs.
Qed.
