From Coq Require Import QArith Qround Qabs Qminmax Bool ZArith List Lia Lqa.
From Yv Require Import Gen.KrylovGen Krylov.ExpmvCtl.
Import ListNotations.
Open Scope Q_scope.

Lemma Qltb_true a b : Qltb a b = true <-> a < b.
Proof.
  unfold Qltb. rewrite negb_true_iff. split; intro H.
  - apply Qnot_le_lt. intro C. apply Qle_bool_iff in C. congruence.
  - destruct (Qle_bool b a) eqn:E; auto. apply Qle_bool_iff in E. apply Qle_not_lt in E. contradiction.
Qed.
Lemma Qltb_false a b : Qltb a b = false <-> b <= a.
Proof.
  unfold Qltb. rewrite negb_false_iff. apply Qle_bool_iff.
Qed.

Definition Inv (t_out : Q) (s : cstate) : Prop :=
  0 <= t_now s /\ t_now s <= t_out /\ 0 <= tau s /\ tau s <= t_out - t_now s /\ (t_now s < t_out -> 0 < tau s)
  /\ qsum (accepted s) == t_now s /\ Forall (fun x => 0 < x) (accepted s).

Lemma Qmin_case_le a b : (Qmin a b == a /\ a <= b) \/ (Qmin a b == b /\ b <= a).
Proof.
  destruct (Qlt_le_dec a b) as [H|H].
  - left. split. apply Q.min_l. apply Qlt_le_weak; auto. apply Qlt_le_weak; auto.
  - right. split. apply Q.min_r; auto. auto.
Qed.
Lemma Qmax_case_le a b : (Qmax a b == a /\ b <= a) \/ (Qmax a b == b /\ a <= b).
Proof.
  destruct (Qlt_le_dec a b) as [H|H].
  - right. split. apply Q.max_r. apply Qlt_le_weak; auto. apply Qlt_le_weak; auto.
  - left. split. apply Q.max_l; auto. auto.
Qed.

(* the next step length never exceeds what is left, is never negative, and is positive while something is left *)
Lemma tau_next_bounds tau1 tn t_out t1 : 0 < tau1 -> t1 <= t_out ->
  0 <= expmv_tau_next tau1 tn t_out t1 /\ expmv_tau_next tau1 tn t_out t1 <= t_out - t1 /\ (t1 < t_out -> 0 < expmv_tau_next tau1 tn t_out t1).
Proof.
  intros Ht Hle. unfold expmv_tau_next.
  destruct (Qmax_case_le ((1 # 5) * tau1) tn) as [[E1 L1]|[E1 L1]];
  destruct (Qmin_case_le (t_out - t1) ((2 # 1) * tau1)) as [[E2 L2]|[E2 L2]];
  match goal with |- context [Qmin ?a ?b] => destruct (Qmin_case_le a b) as [[E3 L3]|[E3 L3]] end;
Show.
