(* Arnoldi.v -- index bookkeeping of Tensor.expand_krylov_space (yastn/tensor/_krylov.py): which entries of the projected matrix H exist,
   how many basis vectors there are, when the loop stops.  The numerics enter through [brk j] ("the residual norm at column j is below tol").
   Hand-written; tied to the code by the trace correspondence of C18 (opcode 120). *)
From Coq Require Import List ZArith Bool Lia.
Import ListNotations.
Open Scope Z_scope.

Notation key := (Z * Z)%type (only parsing).
Definition eqk (a b : Z * Z) : bool := (fst a =? fst b) && (snd a =? snd b).
Definition has (k : Z * Z) (ks : list (Z * Z)) : bool := existsb (eqk k) ks.
Definition put (k : Z * Z) (ks : list (Z * Z)) : list (Z * Z) := if has k ks then ks else k :: ks.
Definition del (k : Z * Z) (ks : list (Z * Z)) : list (Z * Z) := filter (fun x => negb (eqk k x)) ks.

Record kres := { lenV : Z; keys : list (Z * Z); happyR : bool; missing : bool }.
(* missing: Lanczos copied H[(j, j-1)] although that entry does not exist (a KeyError in the code) *)

Fixpoint upto (n : nat) : list Z := match n with O => [] | S k => upto k ++ [Z.of_nat k] end.   (* 0 .. n-1 *)

Definition column (hermitian : bool) (j : Z) (ks : list (Z * Z)) : list (Z * Z) * bool :=
  if hermitian then
    let ks1 := put (j, j) ks in
    if j =? 0 then (ks1, false) else (put (j - 1, j) ks1, negb (has (j, j - 1) ks))
  else (fold_left (fun acc i => put (i, j) acc) (upto (Z.to_nat (j + 1))) ks, false).

Fixpoint expand (cols : list Z) (hermitian : bool) (brk : Z -> bool) (n : Z) (ks : list (Z * Z)) (miss : bool) : kres :=
  match cols with
  | [] => {| lenV := n; keys := ks; happyR := false; missing := miss |}
  | j :: r =>
    let (ks1, m1) := column hermitian j ks in
    if brk j then {| lenV := n; keys := ks1; happyR := true; missing := miss || m1 |}
    else expand r hermitian brk (n + 1) (put (j + 1, j) ks1) (miss || m1)
  end.

(* for j in range(len(V) - 1, ncv) *)
Definition cols_from (lenV0 ncv : Z) : list Z := map (fun k => lenV0 - 1 + k) (upto (Z.to_nat (ncv - (lenV0 - 1)))).
Definition expand_krylov (ncv : Z) (hermitian : bool) (brk : Z -> bool) (lenV0 : Z) (ks0 : list (Z * Z)) : kres :=
  expand (cols_from lenV0 ncv) hermitian brk lenV0 ks0 false.

(* the entries an m-column Arnoldi (Lanczos) factorisation has: upper Hessenberg (tridiagonal), columns 0..m-1, rows 0..j+1 *)
Definition pattern (hermitian : bool) (m : Z) (k : Z * Z) : bool :=
  let (i, j) := k in (0 <=? j) && (j <? m) && (0 <=? i) && (i <=? j + 1) && (negb hermitian || (j <=? i + 1)).
Definition krylov_dim (happy : bool) (n : Z) : Z := if happy then n else n - 1.
