#!/usr/bin/env python3
"""regenerates /verif/MANIFEST.json from the table below (keeps it valid at all times)."""
import json, os
PROPS = [json.loads(l)['id'] for l in open('/verif/properties.jsonl')]

CLAIMED = {
 'C12': dict(
   category='proof',
   text=('PARTIAL: a small proved core + exact correspondence, the rest validated against the dense state. Proved in Coq (hand-written model of '
         'DoublePepsTensor.add_charge_swaps_, for every symmetry descriptor): the pending charge swaps on the ten legs of a two-layer tensor are the leg-wise group sum of '
         'all inserted charges -- every occurrence of a leg adds the charge once more, other legs are untouched, insertions commute, a second insertion on a leg adds to '
         'the pending charge, a charge and its inverse cancel. The model is compared exactly with the real method for random insertion histories in 6 symmetries. '
         'Proved on programs TRANSLATED from yastn/tn/fpeps/envs/_env_window.py on every run (tr_window): while the fermionic string of a 2-site measurement passes a '
         'site (same row/column and later ones) the swaps it leaves there do not depend on whether that site is among the requested pairs, a listed site is measured '
         'exactly once with its operator set and restored, and both sweeps leave the same string (premise checked by the translator: the transfer matrix is fetched anew '
         'from the environment for every first operator, before each loop over passed sites). NOT '
         'proved: the environment contractions, positivity of bond metrics, exactness of evolution steps -- on finite PEPS (1x3 .. 3x3; product states + random shallow '
         'circuits; spinless / spinful fermions, spins) the identity, 1-site, nearest-neighbour, 2-site (both directions, sub-windows) and 3-site expectation values of '
         'boundary-MPS, CTM (init=dl + expand_outward_) and BP (strips) environments are compared with the dense state using explicit Jordan-Wigner matrices; NTU bond '
         'metrics of 6 cluster types are checked to be Hermitian and positive semi-definite (shallow-circuit states and generic random PEPS, every bond, QR-reduced tensors); measure_2site also with lists of operators at both sites; evolution_step_ with non-binding limits is compared with apply_gate_ and '
         'must report a round-off truncation error.'),
   design_ref='DESIGN.md section 0.2 / 6 C12',
   note=('Trusted: Coq kernel, no axioms; the swaps model is hand-written (tied by exact correspondence); dense references rely on Peps.to_tensor (validated by C11) and on '
         'the explicit Jordan-Wigner matrices of tools/checks/C07.py; tolerance 1e-8; lattices are small (<= 9 sites) because the reference is the dense state.'),
   technique='Coq proof (group-sum bookkeeping of charge swaps; string programs translated from the source) + exact correspondence + dense-state oracles for all exact environments'),
 'C11': dict(
   category='proof',
   text=('PARTIAL proof on closed forms regenerated from the source + exact correspondence + dense oracles. The closed-form gates (gate_nn_hopping, gate_nn_Ising, '
         'gate_local_field, gate_local_occupation, gate_local_Coulomb) are TRANSLATED from yastn/tn/fpeps/gates.py on every run (tools/translate/tr_gates.py, fail-closed) '
         'into linear combinations coefficient-kind x operator-expression. Proved in Coq: their operators denote, in the Jordan-Wigner convention of fkron, exactly the '
         'generator K of the gate and K^2 / I / mutually orthogonal projectors, with coefficient kinds 1, cosh x - 1, sinh x, cosh x, -sinh x, e^x - 1 and the stated '
         'arguments; and over EVERY commutative coefficient ring, for EVERY coefficient sequence a_k (a_k = x^k/k! is the exponential) and EVERY truncation order the '
         'closed form equals sum_{k<=n} a_k K^k term by term, because K^3 = K (hopping), K^2 = I (Ising, field), K^2 = K (occupation) -- facts decided by computation '
         'on the integer matrices and transferred to any ring through the canonical morphism. So the closed forms are the exponentials for all real or complex '
         'parameters. The integer generator matrices and the denotations of the translated forms are compared exactly with the real operators (fkron of the predefined '
         'operator classes), and the real gates with the numerical evaluation of the translated forms. NOT proved: gate_nn_exp / gate_local_exp, Heisenberg and t-J '
         'gates, the SVD splitting, apply_gate_, two-layer contractions, sums of PEPS -- every predefined gate is compared with scipy expm of the Jordan-Wigner '
         'Hamiltonian (real / imaginary / complex steps); apply_gate_ with local and random MPO gates (2..4 sites, shuffled operator positions, odd middle operators, '
         'prefactors) along random paths on lattices up to 6 sites (open and cylinder, purifications and pure states) is compared with the same operators applied in '
         'the 1D fermionic order; DoublePepsTensor.tensordot / transpose with fuse_layers; sums of PEPS with sums of states.'),
   design_ref='DESIGN.md section 0.2 / 6 C11',
   note=('Trusted: Coq kernel, no axioms; translator tr_gates.py; the 1D reference uses yastn.tn.mps (generate_mpo, MPO @ MPS/MPO), validated independently by C06/C07; '
         'convergence of the series to the exponential is analysis and is not stated in Coq; spinful hopping, Heisenberg, t-J and the generic exponentials are covered by '
         'the expm oracle only.'),
   technique='Coq proof (ring-generic collapsed series; integer-matrix facts by computation; translated closed forms) + exact correspondence + scipy expm / 1D-reference oracles'),
 'C10': dict(
   category='proof',
   text=('PARTIAL proof on definitions regenerated from the source + trace correspondence + dense oracles. Translated from yastn/tn/mps/_tdvp.py on every run (fail-closed): '
         '(a) the clock -- number of steps, step length, clock advance, the (time, length) arguments of the sweeps of a 2nd and a 4th order step, the evolution parameters '
         'of forward and backward local updates (tools/translate/tr_step.py); (b) the 1-site and 2-site sweep programs (tools/translate/tr_sweep.py). Proved: for every '
         'interval longer than 1e-12 and every dt > 0 the step count is the least n with n dt > T - 1e-12, the steps tile the interval exactly so every snapshot is '
         'reached exactly, 0 < ds <= dt up to the slack; a 2nd order step is one sweep at the midpoint, a 4th order step five sweeps whose lengths add up to the step '
         'and that are each evaluated at the midpoint of the sub-interval they cover (for every value of the scheme constant), the constant cancels the cubic error term '
         'to 1e-15; forward updates evolve by -u dt/2 and backward updates by +u dt/2 (ring identities). For every chain length, with and without precompute and for '
         'every sequence of 1-site / 2-site sweeps on one environment: each local generator is built from environments that are present and computed from the current '
         'site tensors, the centre is never evolved outside the chain, no gauge move is refused, the sweep leaves the environment ready for the next one; the same for the '
         'mixed 12site sweep for EVERY sequence of decisions of env.enlarge_bond (arbitrary oracle; the four operation blocks are translated, the control skeleton is '
         'checked literally by the translator and compared with real runs given their recorded decisions). Ties: '
         'operation-level traces of real tdvp_ runs replayed through the model (statuses measured by recomputation); (time, length) of every real sweep and TDVP_out vs '
         'the generated arithmetic in exact rationals. NOT proved: local exponentials (C18), exactness of the splitting, conservation laws, orders of convergence '
         '-- compared with dense exp(-u t H) psi at maximal bond dimension (real, imaginary, complex u; 1site / 2site / 12site; 2nd / 4th; flags), '
         'norm / energy / charge / canonical form at small bond dimension, and scipy solve_ivp for time-dependent generators (error bound and halving ratio).'),
   design_ref='DESIGN.md section 6 C10',
   note=('Trusted: Coq kernel, no axioms; translators tr_step.py / tr_sweep.py / pyexpr.py; the status semantics of the environment operations is hand-written and tied by '
         'traces (see C09); float clock vs exact rationals compared at 1e-12..1e-13 relative; the model clock treats u as a rational symbol.'),
   technique='Coq proof over translated step arithmetic and sweep programs + operation-level trace correspondence + dense scipy oracles'),
 'C09': dict(
   category='proof',
   text=('PARTIAL proof on sweep programs regenerated from the source + operation-level trace correspondence + dense oracles. The 1-site and 2-site sweep PROGRAMS are '
         'TRANSLATED from yastn/tn/mps/_dmrg.py on every run (tools/translate/tr_sweep.py, fail-closed) and run on a hand-written bookkeeping model of the environment '
         'dictionary (every entry absent / fresh / stale, incl. the cached products of the precompute variant). Proved for EVERY chain length, every number of sweeps and '
         'every switching between the methods, with and without precompute: each effective-Hamiltonian application and each energy measurement reads entries that are '
         'present and computed from the current site tensors, no gauge move is refused, and each sweep hands the environment over in the state the next expects -- so the '
         'reported energy is computed from environments of the returned state. Tie of the hand-written semantics: real dmrg_ runs are observed operation by operation '
         '(methods wrapped at run time; no change to the repository); the operation sequence must equal the generated program and after EVERY operation the measured '
         'status of every entry (absent / equal to a recomputation from the current tensors / different) must match the model. NOT proved: the contractions, the local '
         'eigensolver, variational bound, monotonicity, eigenstate at full bond dimension, penalties -- validated against dense numpy (eigvalsh in the charge sector, '
         '<H>, norms) for every operator family x symmetry, N = 2..6, real/complex, H single / scaled / sums of MPOs / projection penalties, 12 sweeps.'),
   design_ref='DESIGN.md section 6 C09',
   note=('Trusted: Coq kernel, no axioms; translator tr_sweep.py (its vocabulary of effectful calls; anything else on psi/env is refused); the status semantics of each '
         'operation (Sweep/Sweep.v) is hand-written from _env.py / _mps_obc.py and tied by the trace correspondence (a fresh entry must equal its recomputation to 1e-9; '
         'stale entries are only required to be present); Env_project and Env_sum are covered by the traces, not by separate models.'),
   technique='Coq proof over translated sweep programs (loop invariants for all N; symbolic execution of the loop body) + operation-level trace correspondence + dense numpy oracles'),
 'C18': dict(
   category='proof',
   text=('PARTIAL proof on a model regenerated from the source + trace correspondence + dense oracles. The control arithmetic of expmv / eigs / lin_solver is TRANSLATED from '
         'yastn/krylov/_krylov.py on every run (tools/translate/tr_krylov.py, fail-closed) and the theorems are re-checked against it: for every sequence of numerical '
         'verdicts the clock of expmv never overshoots, applied sub-steps are positive and fit the remaining interval, rejected passes leave the clock untouched, a happy '
         'breakdown finishes with exactly the remaining interval, and on exit the applied sub-steps sum to |t| (times the sign factor: t); Krylov sizes stay in '
         '[1, ncv_max] including the initial one. Hand-written model of expand_krylov_space (Arnoldi and Lanczos, fresh and re-entered): no missing entry is read, the '
         'projected matrix has exactly the Hessenberg / tridiagonal pattern of m = (len V if happy else len V - 1) columns, the entry expmv pops exists, a rejected pass '
         'restores the entry set; eigs / lin_solver keep m vectors (all on a breakdown) and build problems of matching shape. Over an arbitrary commutative ring: with an '
         'invariant Krylov space every eigenpair of the projected matrix lifts to an eigenpair of the map; otherwise the defect is exactly (y.e) r. Every pass of real '
         'expmv runs (observed with sys.settrace, no change to the repository) is replayed through the Coq controller in exact rational arithmetic; expand_krylov_space, '
         'eigs and lin_solver bookkeeping is compared with the model. NOT proved: floating-point orthogonality, expm of the projected matrix, the Niesen-Wright error '
         'estimate, variational bounds, pinv -- expmv / eigs / lin_solver are compared with scipy expm, numpy eigh / eig / solve on the dense map for 6 symmetries, '
         'Hermitian and not, real / imaginary / complex t over 1e-9..400/|F|, t = 0, ncv 1..40, tolerances, normalisation, zero / eigen / near-invariant starts.'),
   design_ref='DESIGN.md section 6 C18',
   note=('Trusted: Coq kernel, no axioms; translator tr_krylov.py + pyexpr.py (its skeleton checks: binding sites of t_now / t_out / tau / sgn, order of the controller stages, '
         'shape of the residual computation in lin_solver); the order in which a pass applies the generated arithmetic is hand-written (ExpmvCtl.pass) and tied by the trace '
         'correspondence with tolerance 1e-13 |t| (floats vs exact rationals); complex t is covered by the oracles only (the model clock is real).'),
   technique='Coq proof over a translated controller (invariants by induction over passes; ring-generic Ritz theorem) + exact-rational trace replay + dense scipy/numpy oracles'),
 'C08': dict(
   category='proof',
   text=('PARTIAL proof + trace correspondence + validated premises. Proved in Coq for every chain length and every sequence of gauge moves: the gauge state machine '
         '(position of the central block pC, per-site canonical flags) never gets stuck in canonize_, holds at most one central block, refuses orthogonalize_site_ exactly '
         'when a block is pending, and after canonize_(to=last) from any state flags every site left-canonical; the composition rule of truncate_ '
         '(d2 + D2 - D2*d2 per cut) equals one minus the product of kept fractions for every number of cuts, stays in [0,1], and is zero iff nothing was discarded. '
         'The machine is executed against real MPS/MPO for random move sequences (pC and refusals must agree; flagged sites must be isometries). Also proved, over any '
         'commutative ring: if the matrices of a site factor as A[s] = Q[s].R (resp. B[s] = L.Q[s]) then replacing (A,B) by (Q,R.B) (resp. (A.L,Q)) anywhere in a chain of '
         'any length leaves EVERY amplitude unchanged, so does every finite sequence of such moves, and a central block on a bond equals its absorption into either '
         'neighbour -- tied exactly to the real absorb_central_ on integer data (opcode 82); the premise A = Q.(nR C) is checked on every real orthogonalize_site_. NOT proved: that QR/SVD '
         'per block meet their specification and that projections along the sweep are orthogonal -- the dense state before/after every move (normalize on/off, factor), '
         'isometries, norm(), Schmidt values and entropies across every cut vs numpy SVD, single-cut truncation (largest values kept, weight, factor; normalize off and on), and the reported '
         'discarded weight of binding sweeps vs the true relative distance are compared numerically for every operator family x symmetry, N=1..6, generic and '
         'rank-deficient/degenerate integer data.'),
   design_ref='DESIGN.md section 6 C08',
   note=('Trusted: Coq kernel, no axioms; hand-written gauge model tied by trace correspondence; dense references by NumPy; tolerance 1e-8 relative. Degenerate multiplets '
         'exactly at the truncation rank are checked through the weight only.'),
   technique='Coq proof (state-machine invariants, discarded-weight algebra over Q) + trace correspondence + dense NumPy oracles'),
 'C07': dict(
   category='proof',
   text=('PARTIAL proof + exact correspondence. Proved in Coq on the sign layer shared by generate_mpo, measure_2site and measure_nsite (all lengths, repetitions, orders, '
         'charges, fermionic flag forms): the ordering sign is the inversion parity of the site sequence weighted by charge products; exchanging two neighbouring operators '
         'on different sites changes the exponent by exactly the fermionic exchange sign while operators on one site pass for free; the pair sign of measure_2site is the '
         'swap sign iff i > j; bosonic flags give no signs. NOT proved: dressed operators / string charges, MPO assembly incl. SVD compression, charge-carrying environments, '
         'rdm, sample -- the dense matrix of generate_mpo (single terms exactly, sums within 1e-10; any order, repeated sites, amplitudes, custom fermionic maps) is compared '
         'with sums of explicit Jordan-Wigner products, and measure_1site / measure_2site (10 bond patterns) / measure_nsite / rdm / sample probabilities with the dense '
         'state, for every predefined fermionic and spin family and symmetry; on-site algebra of every operator family is enumerated.'),
   design_ref='DESIGN.md section 6 C07',
   note=('Trusted: Coq kernel, no axioms; the sign model is tied to the code through the C05 correspondence; Jordan-Wigner oracle written in NumPy in the harness; terms '
         'whose same-site operator product vanishes identically are not generated (generate_mpo cannot represent a zero operator block); two-site fermionic rdm is '
         'compared on single sites only (its basis carries convention-dependent string signs).'),
   technique='Coq proof (ordering-sign laws by induction) + exact / toleranced Jordan-Wigner correspondence'),
 'C06': dict(
   category='proof',
   text=('PARTIAL proof + exact correspondence. Proved in Coq for EVERY chain length >= 2, bond-dimension profile, local dimension and configuration: the direct-sum '
         'construction of MPS addition (amplitudes folded into the row-stacked first site, block-diagonal bulk, column-stacked last site) represents x*a + y*b amplitude '
         'by amplitude, via the transfer-vector recursion used for overlaps, with the block lemmas it rests on. The model (add2/amplitude) is executed on the exported site '
         'matrices of real integer-valued MPS and must give the amplitudes of the real sum. Also proved, over any commutative ring: the site-wise Kronecker product '
         'MPO.MPS (and MPO.MPO) has at every configuration the amplitude sum_sigma\' O(sigma,sigma\') psi(sigma\') (mixed-product property carried through the transfer '
         'recursion; every N, bond profile, local dimension), tied exactly to the real O @ psi and O1 @ O2 on exported site matrices (opcodes 101, 102). '
         'NOT proved: conj/transpose/H/reverse_sites, '
         'product states, overlaps, <a|O|b> incl. sums of MPOs: compared exactly with NumPy on dense vectors/matrices for every operator family x symmetry, N=1..5, '
         'non-unit factors and complex scalars, expression trees; zipper / compression / mps_from_tensor (SVD inside) within 1e-9.'),
   design_ref='DESIGN.md section 6 C06',
   note=('Trusted: Coq kernel, no axioms; hand-written model tied by correspondence of amplitudes (bond bases of the real sum are ordered by charge sector, so site matrices are '
         'compared through amplitudes, not entry-wise); periodic MPOs are not exercised yet.'),
   technique='Coq proof (direct-sum refinement by induction over the chain) + exact NumPy correspondence'),
 'C04': dict(
   category='proof',
   text=('PARTIAL proof + validated premises. Proved in Coq for every symmetry descriptor, all integer charges and all four (nU, sU) branches: the charge assigned '
         'to the new connecting leg makes every block of U, S, V (Q, R) obey the selection rule of its tensor with the promised signatures (sU on U, -sU on V, '
         '(-sU, sU) on S) and with the tensor charge carried by the factor the caller selected (Q keeps it, R has none). The model of the connecting-leg charge '
         'is run against the real factors. NOT proved: that LAPACK meets its per-block specification -- reconstruction U S V = a (suitably permuted), U/Q isometric, '
         'V co-isometric, S non-negative and ordered per sector, R upper triangular with non-negative diagonal, eigh reconstruction/ordering for the four '
         'orderings, eig bi-orthonormality: validated numerically on every run for random real/complex tensors, ranks 2-5, lazily transposed and fused inputs, '
         'all axis positions.'),
   design_ref='DESIGN.md section 6 C04',
   note=('Trusted: Coq kernel, no axioms; LAPACK via scipy/numpy (premise, validated per call within 1e-9..1e-10 relative tolerance); merge/unmerge of legs is covered '
         'by C03/C01 correspondence, not by a theorem here.'),
   technique='Coq proof (charge bookkeeping of the connecting leg) + model correspondence + numerical validation of LAPACK premises'),
 'C17': dict(
   category='proof',
   text=('PARTIAL proof + exact round-trip correspondence. Proved in Coq: combine_data_and_meta inverts split_data_and_meta on EVERY dictionary tree (any nesting, '
         'any number of data arrays, with the invariants that the data tuple only grows and positions stay in range); the tuple/list conversion applied by '
         'from_dict inverts what transport does to the tuple-only structures to_dict emits (and leaves untransported ones alone), always yielding hashable tuples. '
         'The model is run on the dictionary trees of real tensors/MPS/PEPS. NOT proved: the field content of to_dict/from_dict, the zero-block fill-in against a '
         'meta, HDF5: checked by exact round trips of generated objects (all tensor kinds, levels 0-2, legacy format, numpy pickle, HDF5, split/combine, meta-linear '
         'map incl. lazily transposed tensor/meta, MPS with/without central block and factor, Peps on every lattice type) incl. a follow-up contraction, and '
         'rejection of incompatible config/meta.'),
   design_ref='DESIGN.md section 6 C17',
   note=('Trusted: Coq kernel, no axioms; transports (numpy pickle, h5py) modelled by listify; hand-written model tied by correspondence on tree structure only.'),
   technique='Coq proof (split/combine inverse by mutual induction, tuple conversion) + exact round-trip correspondence over all routes'),
 'C03': dict(
   category='proof',
   text=('PARTIAL proof + exact correspondence. Proved in Coq: the index maps fusion is made of are bijections (segment layout: (segment, offset) <-> flat '
         'position, sound/complete/covering/disjoint; row-major merging of the legs of a product sector, both directions), the fused leg is exactly as large '
         'as the product sectors that enter it, and the fused tensor obeys the selection rule with the fused charges -- a bijective re-indexing preserves every '
         'element, hence norms and contractions. The executable model of the fused-leg structure (which product sectors enter, their order and Dslc) must '
         'reproduce the real fused leg on generated tensors. NOT proved at block level: unfuse(fuse a) = a, masks for mismatched histories, block(): these are '
         'compared exactly with NumPy (round trips, norm, tensordot/add/vdot over fused vs original legs with equal/overlapping/disjoint sectors, direct sums '
         'incl. nested ones), and incompatibly fused operands must be rejected with YastnError.'),
   design_ref='DESIGN.md section 6 C03',
   note=('Trusted: Coq kernel, no axioms; hand-written structure model tied by correspondence; known finding C03-nested-block (operands whose blocked leg lost '
         'sectors after blocking) is reported as KNOWN-FINDING only for that structural condition.'),
   technique='Coq proof (index bijections, dimension accounting) + exact model correspondence + exact NumPy differential checks'),
 'C05': dict(
   category='proof',
   text=('PARTIAL proof + exact correspondence. Proved in Coq for every symmetry, rank, grouping and length: the block sign of swap_gate is '
         'involutive, trivial for bosonic statistics, symmetric in the swapped groups, depends only on the declared fermionic components and is '
         'multiplicative over the swapped pairs; sign_canonical_order equals the inversion parity of the site sequence weighted by charge products '
         '(operators on one site never swapped; ordered sites give +1). The models are executed (extracted) against the real per-block negation pattern and '
         'the real sign_canonical_order. NOT proved: order-independence of ncon with swaps on contracted legs (jump-move scheduler) and fkron CAR for all N: '
         'covered by running ALL contraction orders of generated fermionic networks (odd and even tensors, product symmetries with partial fermionic flags; also vs the explicit '
         'outer product / swap_gate / trace evaluation, with legs relabelled, and with a pair entered twice in the swap list, which must cancel) and '
         'by comparing fkron with explicit Jordan-Wigner matrices for all site permutations and application orders, exactly.'),
   design_ref='DESIGN.md section 6 C05',
   note=('Trusted: Coq kernel, no axioms; hand-written sign models tied by exact correspondence; the ncon scheduler (_meta_ncon/_resolve_bad_swaps) is not modelled.'),
   technique='Coq proof (sign laws, inversion parity by induction) + exact model correspondence + exhaustive contraction-order and Jordan-Wigner differential checks'),
 'C14': dict(
   category='proof',
   text=('PARTIAL proof + differential correspondence. Proved in Coq: the lazy-transposition mechanism is faithful and compositional (a pending '
         'permutation acts on indices exactly as the materialised one; pending permutations compose; visible axes map to the native legs carrying the '
         'requested indices). The semantics of a program in the model mentions neither tensordot_policy nor fusion mode; each policy/fusion/lazy variant '
         'of the implementation is tied to it by running every generated program (incl. operation sequences with svd) under 9 configurations and demanding '
         'bit-identical observables (unfused legs, charge, dense bytes) plus agreement with NumPy; contract_with_unroll under unroll specs vs ncon.'),
   design_ref='DESIGN.md section 6 C14',
   note=('Trusted: Coq kernel, no axioms. A model-level theorem that the three block-pairing strategies coincide is not proved (needs the L-block '
         'tensordot refinement, a growth item); policy/fusion independence itself rests on the exact differential runs, which are tests, not theorems.'),
   technique='Coq proof (lazy transposition laws) + exact differential correspondence across configurations'),
 'C15': dict(
   category='proof',
   text=('Heap model (values = structure + storage location; operations Alias / Fresh / Copy / in-place SetItem / Rebind): proved in Coq for ALL finite '
         'sequences of non-in-place operations and all initial heaps that every pre-existing object keeps its observable value even when results share '
         'its storage (frame), that copies are independent of any sequence of in-place writes on either side, and that an in-place write reaches only '
         'objects sharing the receiver storage. The tie to the code is the classification of every public operation and the absence of writes to operand '
         'storage, validated per call by byte-level snapshots: every public Tensor method (list regenerated from the class), every generated operation case '
         'and sequence, svd/qr/eigh drivers incl. low-rank policies on natural-order operands, MPS/MPO functions and methods (also mid-sweep states with a '
         'central block, HDF5/dict export), Peps copy/clone.'),
   design_ref='DESIGN.md section 6 C15',
   note=('Trusted: Coq kernel, no axioms; the classification table in tools/checks/C15.py; snapshots observe data, struct, slices, hfs, mfs, trans, MPS site '
         'maps / factor / pC. The model is not executed against the code (aliasing patterns are data-dependent and not required by the property); memory '
         'safety of NumPy/LAPACK wrappers is outside the model and observed only through the snapshots.'),
   technique='Coq proof (frame invariant over operation sequences) + per-call byte-snapshot validation of the operation classification'),
 'C01': dict(
   category='proof',
   text=('PARTIAL proof + exact correspondence. Proved in Coq for the L-block model (all ranks, sector sets, dimensions, also sectors present in only '
         'one operand): scalar multiples, negation, element-wise zero-preserving maps, sums, differences and linear combinations commute with the '
         'dense (sector, position) semantics, and block access / dense value agree (zero outside stored blocks). The model is executed (extracted) '
         'on the exported blocks of the real operands and must reproduce the real result blocks exactly. NOT proved yet: transposition, tensordot, '
         'trace, vdot, broadcast, masks, diag, legs, ncon -- for those every generated case (integer-valued data, so float64 is exact) is compared '
         'with the same NumPy operation on to_numpy() of the operands through union legs (the property verbatim), incl. legs/signature/charge.'),
   design_ref='DESIGN.md section 6 C01',
   note=('Trusted: Coq kernel, no axioms; hand-written L-block model tied by correspondence (blocks in/blocks out) for the linear operations only; '
         'for all other operations this check is exact differential testing against NumPy (not a theorem) -- stated as such. Structured (sector, '
         'position) indices, not flat NumPy offsets, are what the theorems speak about; the flat embedding is exercised by the NumPy comparison.'),
   technique='Coq proof (linear structure of the block model) + exact NumPy correspondence on integer-valued data for all operations'),
 'C02': dict(
   category='proof',
   text=('Charge conservation is proved in Coq for every symmetry descriptor with positive moduli and all integer charges: selection rule of '
         'tensordot results with n = n_a + n_b, conj (n -> -n), transposition, trace, hard fusion (grouping), add_leg; and by induction for ALL finite '
         'programs (trees of conj/transposition generators/trace/add_leg/tensordot over well-formed leaves). The executable predicate wf_struct '
         '(selection rule, unique sorted blocks, per-leg dimension consistency, storage contiguity and size, diagonal constraints, fusion/transposition '
         'bookkeeping) is proved to imply the selection rule, block uniqueness, zero-outside-sectors and storage consistency, and is RUN (extracted) on the '
         'exported structure of every result, operand and intermediate of generated operation cases and operation sequences.'),
   design_ref='DESIGN.md section 6 C02',
   note=('Trusted: Coq kernel, no axioms; sym translator (fusion rule used by wf_struct is the generated one); exporter tools/tcheck.py export_struct; '
         'self-test each run (deliberately corrupted structures must be rejected). wf preservation is established per produced tensor at run time, not '
         'proved for the storage-level _meta_* functions; values inside svd/qr factors are not constrained by wf.'),
   technique='Coq proof (charge algebra, induction over programs) + extracted well-formedness predicate run on every produced tensor'),
 'C13': dict(
   category='proof',
   text=('For ANY spectrum over any number of sectors, any combination of the four limits and any valid argsort: per-sector and total counts '
         'respect D_block/D_total and the tolerance counts; each stage only switches off a prefix of the argsort, hence whenever a value is '
         'discarded and another kept under the same limit the discarded one is not larger (maximality; ties are the only freedom); non-binding '
         'limits discard nothing; squared error of the spectrum equals the discarded weight -- Coq theorems about a model of truncation_mask '
         '(both stages, scalar and dictionary forms with the missing-key rule). Tied to linalg.py by exact correspondence on integer spectra '
         'with dyadic tolerances, NumPy argsort fed to the model, mask compared element-wise.'),
   design_ref='DESIGN.md section 6 C13',
   note=('Trusted: Coq kernel, no axioms; hand-written model tied by correspondence only; numpy.argsort validity; exactness of float products '
         'for dyadic tolerances. The error identity of the *factorisation* needs U/V (co)isometric (LAPACK premise) and is validated numerically '
         'per run on svd_with_truncation/eigh_with_truncation; truncate_multiplets heuristics are not modelled.'),
   technique='Coq proof over hand-written model + exact model/implementation correspondence + numerical premise validation'),
 'C16': dict(
   category='proof',
   text=('The cache is proved (Coq) to refine the undecorated pure function for ALL histories of call / cache_clear / clear_cache / re-wrapping, '
         'any number of simultaneously live wrappers and all maxsize values (None, 0, n): every call returns f(args), results are independent of '
         'history, a hit only hands out a value stored under an equal key, size bound holds. The two premises the theorem needs from the code -- '
         'equal argument tuples give equal results (key completeness) and cached values are never altered -- are validated on every cache access '
         'of a generated workload by probes at every binding site (cold recomputation + digest at insertion vs at hit); registry facts (re-wrapped '
         'and cleared functions are decorated; cached functions read only parameters/locals/immutable module definitions) are regenerated from '
         'the source and proved by computation; CPython lru_cache is validated against the model on random histories; end results are compared '
         'bit-for-bit cold vs warm vs resized vs cleared. No finite set of tests covers all histories; the theorem does.'),
   design_ref='DESIGN.md section 6 C16',
   note=('Trusted: Coq kernel, no axioms; translator tr_cache.py; CPython lru_cache meets Lru.v (validated each run); the premises key_complete / '
         'immutability hold on the exercised workload only (all 18 cached functions hit; listed in evidence) -- they are Section hypotheses of the '
         'theorem, not proved about the Python code.'),
   technique='Coq proof (LRU refinement, all histories) + translator for registry facts + dynamic premise validation by probes'),
 'C20': dict(
   category='proof',
   text=('For EVERY unit-cell size Nx,Ny>=1 and every boundary type (not only the <=5x5 box): neighbour lookup is mutually inverse wherever '
         'defined (all shifts), sites and bonds are listed exactly once, horizontal bonds are lr- and fermionically ordered, vertical bonds are '
         'tb-ordered and fermionically ordered EXACTLY unless they cross a cylinder boundary (exact characterisation + refutation witness of the '
         'literal text: known finding), site2index is invariant under exactly the lattice periods, f_ordered is a total order, Checkerboard/'
         'Triangular tables and period lattices, RectangularUnitcell accepts exactly the one-neighbourhood-per-label patterns, container get/set/'
         'patch laws -- all Coq theorems about a hand-written model, tied to _geometry.py by EXHAUSTIVE correspondence over the property box.'),
   design_ref='DESIGN.md section 6 C20',
   note=('Trusted: Coq kernel, no axioms; the hand-written model Geom/Lattice.v is tied to the code only by the correspondence run (exhaustive '
         'on SquareLattice 1..5x1..5x3 boundaries x window x 15 shifts, all small RectangularUnitcell patterns, sampled larger ones, container op '
         'sequences); extraction cross-checked by an in-Coq vm_compute sample. Known finding C20-cylinder-wrap is reported as KNOWN-FINDING.'),
   technique='Coq proof over hand-written model + exhaustive model/implementation correspondence'),
 'C19': dict(
   category='proof',
   text=('Group laws (associativity, commutativity, identity, inverse by signature flip, canonical range, order-irrelevance, '
         'grouping as used by fusion) are Coq theorems for every product of Z and Z_k factors and ALL integer charges; the fusion rule '
         'of each shipped symmetry is REGENERATED from yastn/sym/*.py on every run and proved equal to the generic rule with the group '
         'the name denotes; Leg acceptance is proved to be exactly the stated validity predicate and stored charges strictly sorted. '
         'A property over all of Z cannot be settled by the box the tests sample; a theorem can.'),
   design_ref='DESIGN.md section 6 C19',
   note=('Trusted: Coq kernel (vm_compute used, no native_compute), no axioms (Closed under the global context), translator tr_sym.py '
         '(cross-checked each run: generated fuse vs real fuse on random boxes), extraction (ExtrOcamlBasic only) cross-checked by in-Coq '
         'vm_compute sample, harness. Leg model is hand-written and tied by correspondence on constructor arguments in and just outside '
         'the valid domain. int64 overflow not modelled.'),
   technique='Coq proof over generated model (ast translator) + model/implementation correspondence'),
}

NA_REASON = 'check not built yet in this round (work in progress; planned per DESIGN.md section 11)'

def main():
    checks = []
    for p in PROPS:
        if p in CLAIMED:
            c = CLAIMED[p]
            checks.append(dict(property_id=p, quick_cmd='./check %s --tier quick' % p,
                               thorough_cmd='./check %s --tier thorough' % p,
                               evidence_file='/verif/evidence/%s.json' % p,
                               replay_cmd_template='./check %s --replay {path}' % p,
                               engine='coq-model', level_claimed=dict(category=c['category'], text=c['text'], design_ref=c['design_ref']),
                               level_note=c['note'], technique=c['technique']))
    m = dict(version=1,
             setup_cmd='cd /verif && ./setup.sh',
             hooks=dict(guard='YASTN_VERIF', enable='no source hooks: the harness observes /repo (PYTHONPATH=/repo, current working tree) through run-time monkeypatching only',
                        baseline_off_cmd='cd /repo && /venv/bin/python -m pytest -ra -q -p no:cacheprovider --timeout=900 --continue-on-collection-errors',
                        source_commits=[], add_only=True),
             engines=[dict(name='coq-model', path='/verif/coq', serves_properties=sorted(CLAIMED),
                           kind_free_text='Coq 8.16 development (models, theorems), fail-closed ast translators regenerating parts of the model from /repo, extracted OCaml driver + Python harness for model/implementation correspondence and replay search')],
             checks=checks,
             notes='See DESIGN.md. Every check: regenerate translated models from /repo, make, audit (no axioms/admits), correspondence, search, evidence.',
             not_applicable=[dict(property_id=p, reason=NA_REASON) for p in PROPS if p not in CLAIMED])
    json.dump(m, open('/verif/MANIFEST.json', 'w'), indent=1)

if __name__ == '__main__':
    main()
