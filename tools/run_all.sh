#!/bin/bash
# run_all.sh [tier] -- every claimed check on the current tree, one after the other; summary at the end
tier=${1:-quick}
cd /verif
for p in $(python3 -c "import json;print(' '.join(c['property_id'] for c in json.load(open('MANIFEST.json'))['checks']))"); do
  s=$(date +%s)
  out=$(timeout 7200 ./check $p --tier $tier 2>&1 | grep -E "^(OK|VIOLATION|KNOWN-FINDING|CHECK-ERROR)" | head -3 | cut -c1-160)
  echo "$p [$(( $(date +%s) - s ))s] $out"
done
