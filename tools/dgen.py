"""dgen.py -- seeded random Hermitian Hamiltonians as MPOs (through yastn's own generate_mpo, validated against explicit Jordan-Wigner
matrices by C07) for every operator family x symmetry, their dense matrices, and sector projections. Used by C09 / C10."""
import numpy as np
import yastn
import yastn.tn.mps as mps
import mgen

FAMILIES = [f for f in mgen.FAMILIES if f[0] != 'Qdit']


def _pairs(fam, ops):
    """(A, B) with A_i B_j + h.c. charge neutral; (D,) diagonal-ish neutral single-site terms"""
    if fam == 'Spin12':
        hop = [(ops.sp(), ops.sm())]
        dens = [ops.sz()]
        extra = [ops.sx()] if ops.config.sym.SYM_ID == 'dense' else []
    elif fam == 'Spin1':
        hop = [(ops.sp(), ops.sm())]
        dens = [ops.sz(), ops.sz() @ ops.sz()]
        extra = [ops.sx()] if ops.config.sym.SYM_ID == 'dense' else []
    elif fam == 'SpinlessFermions':
        hop = [(ops.cp(), ops.c())]
        dens = [ops.n()]
        extra = []
    else:  # SpinfulFermions
        hop = [(ops.cp('u'), ops.c('u')), (ops.cp('d'), ops.c('d'))]
        dens = [ops.n('u'), ops.n('d'), ops.n('u') @ ops.n('d')]
        extra = []
    return hop, dens, extra


def hamiltonian_terms(rng, fam, ops, N, cplx=False, nterms=None):
    hop, dens, extra = _pairs(fam, ops)
    terms = []
    nterms = nterms or rng.randint(2, 3 * N)
    for _ in range(nterms):
        r = rng.random()
        if r < 0.45 and N >= 2:
            i, j = rng.sample(range(N), 2)
            A, B = rng.choice(hop)
            amp = rng.uniform(-1, 1) + (1j * rng.uniform(-1, 1) if cplx else 0)
            terms.append(mps.Hterm(amp, (i, j), (A, B)))
            terms.append(mps.Hterm(np.conj(amp), (j, i), (A, B)))      # hermitian conjugate: B^dag = A, A^dag = B
        elif r < 0.75 and N >= 2:
            i, j = rng.sample(range(N), 2)
            terms.append(mps.Hterm(rng.uniform(-1, 1), (i, j), (rng.choice(dens), rng.choice(dens))))
        elif extra and r < 0.85:
            terms.append(mps.Hterm(rng.uniform(-1, 1), (rng.randrange(N),), (rng.choice(extra),)))
        else:
            terms.append(mps.Hterm(rng.uniform(-1, 1), (rng.randrange(N),), (rng.choice(dens),)))
    return terms


def hamiltonian(rng, fam, ops, N, cplx=False, nterms=None):
    I = mgen.identity_mpo(ops, N)
    terms = hamiltonian_terms(rng, fam, ops, N, cplx, nterms)
    return mps.generate_mpo(I, terms), terms


def dmat(O, ops):
    """dense matrix of an MPO: rows = ket configuration, columns = bra configuration"""
    t = mgen.dense_state(O, ops)
    N = O.N
    d = t.shape[0]
    return t.transpose(list(range(0, 2 * N, 2)) + list(range(1, 2 * N, 2))).reshape(d ** N, d ** N)


def dvec(psi, ops):
    return mgen.dense_state(psi, ops).reshape(-1)


def site_charges(ops):
    sp = ops.space()
    out = []
    for t, D in zip(sp.t, sp.D):
        out += [tuple(t)] * D
    return out


def sector_mask(ops, N, n):
    """boolean mask of the basis states of total charge n (dense symmetry: everything)"""
    cfg = ops.config
    if cfg.sym.NSYM == 0:
        d = sum(ops.space().D)
        return np.ones(d ** N, dtype=bool)
    import itertools
    sc = site_charges(ops)
    n = tuple(np.atleast_1d(n).tolist())
    mask = []
    for conf in itertools.product(sc, repeat=N):
        tot = cfg.sym.add_charges(*conf, signatures=(1,) * N)
        mask.append(tuple(np.atleast_1d(tot).tolist()) == n)
    return np.array(mask, dtype=bool)


def random_state(rng, ops, N, D_total=8, n=None, cplx=False):
    I = mgen.identity_mpo(ops, N)
    ops.random_seed(seed=rng.randrange(2 ** 31)) if hasattr(ops, 'random_seed') else None
    return mps.random_mps(I, n=n, D_total=D_total, dtype='complex128' if cplx else 'float64')
