#!/bin/bash
# independent re-check of every property file and everything it depends on (coqchk), with the axiom summary; ~5 min; not part of the registered checks
cd /verif/coq
timeout 3000 coqchk -silent -o -Q theories Yv -Q properties YvP $(for i in $(seq -w 1 20); do echo YvP.C$i; done)
