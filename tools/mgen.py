"""mgen.py -- seeded generators of integer-valued MPS / MPO in every operator family and symmetry, and dense references.

Dense conventions (checked against to_tensor on the unchanged tree by the checks themselves):
  psi.to_tensor() of an MPS: legs (virtual_first?, phys_0, ..., phys_{N-1}, virtual_last?) -> we always go through to_matrix-like
  helpers below that contract with NumPy from the site tensors' to_numpy with explicit union-free legs (each site tensor's own legs
  are consistent along the chain only if embedded in common bond legs; we therefore use yastn's own to_tensor for the state and
  validate THAT against an independent site-by-site NumPy contraction in C06)."""
import random
import numpy as np
import yastn
import yastn.tn.mps as mps
import tgen

FAMILIES = [('Spin12', 'dense'), ('Spin12', 'Z2'), ('Spin12', 'U1'), ('Spin1', 'dense'), ('Spin1', 'Z3'), ('Spin1', 'U1'),
            ('SpinlessFermions', 'Z2'), ('SpinlessFermions', 'U1'), ('SpinfulFermions', 'Z2'), ('SpinfulFermions', 'U1xU1'),
            ('SpinfulFermions', 'U1xU1xZ2'), ('Qdit', 'dense')]

_ops_cache = {}


def operators(family, sym):
    key = (family, sym)
    if key not in _ops_cache:
        cls = getattr(yastn.operators, family)
        if family == 'Qdit':
            _ops_cache[key] = cls(d=3)
        else:
            _ops_cache[key] = cls(sym=sym)
    return _ops_cache[key]


def identity_mpo(ops, N):
    return mps.product_mpo(ops.I(), N)


def int_mps(rng, ops, N, D_total=4, n=None, cplx=False, nr_phys=1):
    """random MPS/MPO with the bond structure yastn generates, data overwritten by small integers"""
    I = identity_mpo(ops, N)
    sd = rng.randrange(2 ** 31)
    ops.random_seed(seed=sd) if hasattr(ops, 'random_seed') else None
    if nr_phys == 1:
        psi = mps.random_mps(I, n=n, D_total=D_total, dtype='complex128' if cplx else 'float64')
    else:
        psi = mps.random_mpo(I, D_total=D_total, dtype='complex128' if cplx else 'float64')
    for k in range(N):
        tgen.int_fill(rng, psi[k], cplx=cplx, lo=-2, hi=2)
    return psi


def admissible_charges(ops, N):
    """a few total charges for which random_mps can build a state"""
    cfg = ops.config
    leg = ops.space()
    out = set()
    ts = list(leg.t)
    r = random.Random(7)
    for _ in range(12):
        ch = [r.choice(ts) for _ in range(N)]
        out.add(cfg.sym.add_charges(*ch, signatures=[1] * N))
    return sorted(out)


def dense_state(psi, ops):
    """dense array of an MPS/MPO via yastn's own to_tensor, embedded into the FULL physical spaces; includes psi.factor.
    MPS: axes (p0..pN-1); MPO: axes (k0, b0, k1, b1, ...)"""
    if psi.pC is not None:          # a detached central block is part of the state: absorb it in a shallow copy
        psi = psi.shallow_copy()
        psi.absorb_central_(to='last')
    t = psi.to_tensor()
    sp = ops.space()
    # each physical leg is embedded in the full local space with the signature it actually has (conj / transpose flip signatures)
    legs = {i: (sp if t.get_legs(i).s == sp.s else sp.conj()) for i in range(t.ndim)}
    return t.to_numpy(legs=legs)


def site_dense_contract(psi, ops):
    """independent NumPy contraction of the chain, site by site: every bond is embedded into the union of the legs the two
    neighbouring site tensors report for it, physical legs into the full local space"""
    N = psi.N
    sp = ops.space()
    res = None
    for k in range(N):
        A = psi[k]
        lg = {1: sp}
        if psi.nr_phys == 2:
            lg[3] = sp.conj()
        if k > 0:
            lg[0] = yastn.legs_union(psi[k - 1].get_legs(2).conj(), A.get_legs(0))
        if k < N - 1:
            lg[2] = yastn.legs_union(A.get_legs(2), psi[k + 1].get_legs(0).conj())
        d = A.to_numpy(legs=lg)
        if psi.nr_phys == 2:
            d = d.transpose(0, 1, 3, 2)
        res = d if res is None else np.tensordot(res, d, axes=(res.ndim - 1, 0))
    if res.shape[0] != 1 or res.shape[-1] != 1:
        raise ValueError('end virtual legs are not one-dimensional')
    return res.reshape(res.shape[1:-1]) * psi.factor
