#!/bin/bash
# usage: confirm_seeded.sh <name>   (reads /tmp/seeded_out/<name>/{patch.diff,demo.py}); writes confirm.json there
# confirms: demo passes on clean HEAD, fails with the patch, and the existing test suite passes with the patch.
name=$1; src=/tmp/seeded_out/$name; wt=/tmp/cs_$name
export OPENBLAS_NUM_THREADS=1 OMP_NUM_THREADS=1 PYTHONDONTWRITEBYTECODE=1
git -C /repo worktree remove --force $wt 2>/dev/null
git -C /repo worktree add --detach $wt HEAD >/dev/null 2>&1 || { echo "worktree failed"; exit 2; }
cd $wt
PYTHONPATH=$wt timeout 900 /venv/bin/python $src/demo.py > $src/demo_clean.log 2>&1; rc_clean=$?
if git apply $src/patch.diff 2>$src/apply.log; then applied=1; else applied=0; fi
PYTHONPATH=$wt timeout 900 /venv/bin/python $src/demo.py > $src/demo_patched.log 2>&1; rc_patched=$?
if [ "$2" != "--no-tests" ]; then
PYTHONPATH=$wt timeout 3000 /venv/bin/python -m pytest -q -p no:cacheprovider -p no:randomly -n ${NPROC:-6} --timeout=900 -x tests > $src/tests.log 2>&1; rc_tests=$?
else rc_tests=-1; fi
tail -3 $src/tests.log 2>/dev/null | tr '\n' ' ' > $src/tests_tail.txt
python3 - <<PY
import json
json.dump(dict(name="$name", applied=$applied, demo_clean_rc=$rc_clean, demo_patched_rc=$rc_patched, tests_rc=$rc_tests,
               tests_tail=open("$src/tests_tail.txt").read() if $rc_tests!=-1 else "", repo_head="$(git -C /repo log --format=%h -1)"),
          open("$src/confirm.json","w"), indent=1)
PY
cd /; git -C /repo worktree remove --force $wt
cat $src/confirm.json
