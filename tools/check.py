#!/usr/bin/env python3
import sys, os, argparse, importlib, traceback, json
sys.path.insert(0, '/verif/tools')
import vlib


def main():
    ap = argparse.ArgumentParser()
    ap.add_argument('prop')
    ap.add_argument('--tier', default=os.environ.get('VERIF_TIER', 'quick'))
    ap.add_argument('--replay', default=None)
    a = ap.parse_args()
    seed = int(os.environ.get('VERIF_SEED', '12345'))
    mod = importlib.import_module('checks.' + a.prop)
    ctx = vlib.Ctx(a.prop, a.tier, seed)
    if a.replay:
        sys.exit(mod.replay(ctx, a.replay))
    try:
        rc = mod.run(ctx)
    except Exception as e:
        tb = traceback.extract_tb(e.__traceback__)
        if tb and os.path.realpath(tb[-1].filename).startswith(os.path.realpath(vlib.REPO) + os.sep):
            # the exception was raised INSIDE the implementation, on an input the check generated, and is of a kind the check does not expect from
            # it (the expected ones are handled where they can occur): on the unchanged tree no check sees this, so the property is no longer shown
            where = '%s:%d in %s' % (os.path.relpath(tb[-1].filename, vlib.REPO), tb[-1].lineno, tb[-1].name)
            stack = ['%s:%d %s' % (f.filename, f.lineno, f.name) for f in tb[-8:]]
            ctx.violation('the implementation raised %s: %s at %s while the check was running case %s' % (
                type(e).__name__, str(e)[:200], where, json.dumps(getattr(ctx, 'last_case', None), default=str)[:300]),
                dict(kind='implementation-exception', exception=type(e).__name__, message=str(e)[:500], where=where, stack=stack,
                     last_case=getattr(ctx, 'last_case', None)), found_input=True)
            sys.exit(ctx.finish(level='proof', checker_cmd='(aborted by an exception of the implementation)'))
        # a crash of the machinery is not a verdict about the code: report loudly, exit 2
        traceback.print_exc()
        print('CHECK-ERROR property=%s (machinery failure, not a verdict)' % a.prop)
        sys.exit(2)
    sys.exit(rc)


if __name__ == '__main__':
    main()
