#!/usr/bin/env python3
import sys, os, argparse, importlib, traceback
sys.path.insert(0, '/verif/tools')
import vlib


def main():
    ap = argparse.ArgumentParser()
    ap.add_argument('prop')
    ap.add_argument('--tier', default=os.environ.get('VERIF_TIER', 'quick'))
    ap.add_argument('--replay', default=None)
    a = ap.parse_args()
    seed = int(os.environ.get('VERIF_SEED', '12345'))
    mod = importlib.import_module('checks.' + a.prop)
    ctx = vlib.Ctx(a.prop, a.tier, seed)
    if a.replay:
        sys.exit(mod.replay(ctx, a.replay))
    try:
        rc = mod.run(ctx)
    except Exception:
        # a crash of the machinery is not a verdict about the code: report loudly, exit 2
        traceback.print_exc()
        print('CHECK-ERROR property=%s (machinery failure, not a verdict)' % a.prop)
        sys.exit(2)
    sys.exit(rc)


if __name__ == '__main__':
    main()
