"""sweeptrace.py -- observe real DMRG / TDVP sweeps as sequences of the primitive operations of the Coq model (Sweep/Sweep.v), without
changing the repository: the methods of the MPS and of the environment objects created inside dmrg_ / tdvp_ are wrapped at run time, and after
every operation the STATUS of every environment entry is measured: absent from env.F, present and equal to a recomputation from the current
site tensors (fresh), or present but different (stale)."""
import copy
import numpy as np
import yastn
import yastn.tn.mps as mps
from yastn.tn.mps import _dmrg, _tdvp, _env

TO = {'first': 0, 'last': 1}


def _simple_envs(env):
    return list(env.envs) if hasattr(env, 'envs') else [env]


def _reference(e):
    """fresh copy of a simple environment holding only its boundary entries"""
    r = copy.copy(e)
    for nm in ('clear_site_', 'update_env_', 'Heff0', 'Heff1', 'Heff2', 'measure', 'setup_', 'enlarge_bond'):
        r.__dict__.pop(nm, None)        # run-time wrappers refer to the observed object: the reference must use the class methods
    N = e.N
    r.F = {k: v for k, v in e.F.items() if k in ((-1, 0), (N, N - 1))}
    return r


def _close(a, b):
    try:
        d = (a - b).norm()
    except yastn.YastnError:
        return False
    return float(d) <= 1e-9 * max(1.0, float(a.norm()), float(b.norm()))


def statuses(env):
    """[L(-1..N-1)], [R(0..N)], [CL(0..N)], [CR(-1..N-1)] with 0 absent, 1 fresh, 2 stale; all simple environments of a sum must agree on presence,
    and an entry is fresh only if it is fresh in every one of them"""
    out = None
    for e in _simple_envs(env):
        N = e.N
        ref = _reference(e)
        # with a pending central block the chain of site tensors is not contractible across that bond: entries reaching over it cannot be
        # recomputed (and are necessarily out of date: the site next to the block has just been rewritten)
        try:
            for n in range(N):
                ref.update_env_(n, to='last') if not hasattr(ref, 'get_FL') else _plain_update(ref, n, 'last')
        except yastn.YastnError:
            pass
        refR = _reference(e)
        try:
            for n in range(N - 1, -1, -1):
                refR.update_env_(n, to='first') if not hasattr(refR, 'get_FR') else _plain_update(refR, n, 'first')
        except yastn.YastnError:
            pass
        Ls = [(_st(e.F, (k, k + 1), ref.F)) for k in range(-1, N)]
        Rs = [(_st(e.F, (k, k - 1), refR.F)) for k in range(0, N + 1)]
        CLs, CRs = [0] * (N + 1), [0] * (N + 1)
        if hasattr(e, 'get_FL'):
            for j in range(0, N):
                if (j - 1, j, j) in e.F:
                    rr = copy.copy(ref); rr.F = {k: v for k, v in ref.F.items() if len(k) == 2}
                    CLs[j] = (1 if _close(e.F[(j - 1, j, j)], rr.get_FL(j)) else 2) if (j - 1, j) in rr.F else 2
            for j in range(0, N):
                if (j + 1, j, j) in e.F:
                    rr = copy.copy(refR); rr.F = {k: v for k, v in refR.F.items() if len(k) == 2}
                    CRs[j + 1] = (1 if _close(e.F[(j + 1, j, j)], rr.get_FR(j)) else 2) if (j + 1, j) in rr.F else 2
        cur = [Ls, Rs, CLs, CRs]
        has_cache = hasattr(e, 'get_FL')
        if out is None:
            out = cur
            out_has_cache = has_cache
        else:
            if has_cache and not out_has_cache:
                out[2], out[3], out_has_cache = CLs, CRs, True
            for a, b in list(zip(out, cur))[:(4 if has_cache else 2)]:
                for i in range(len(a)):
                    if (a[i] == 0) != (b[i] == 0):
                        a[i] = -1           # the members of a sum disagree on presence
                    elif a[i] == 1 and b[i] == 2:
                        a[i] = 2
    return out


def _plain_update(e, n, to):
    """update of a precompute environment that never uses its caches (reference computation)"""
    keep = e.F
    e.F = {k: v for k, v in keep.items() if len(k) == 2}
    type(e).update_env_(e, n, to)
    keep.update(e.F)
    e.F = keep


def _st(F, key, refF):
    if key not in F:
        return 0
    if key not in refF:
        return 2
    return 1 if _close(F[key], refF[key]) else 2


class Trace:
    def __init__(self):
        self.ops = []          # (wire op, statuses, pC)
        self.decisions = []    # results of env.enlarge_bond, in call order
        self.env = None
        self.psi = None
        self.snap = True

    def record(self, op, snap=True):
        if self.ops and op[0] in (0, 1, 2) and self.ops[-1][0] == op:
            return          # repeated applications of the same effective Hamiltonian inside one Krylov solve
        st = statuses(self.env) if (snap and self.snap and self.env is not None) else None
        pc = list(self.psi.pC) if self.psi.pC is not None else []
        self.ops.append((op, st, pc))


def _wrap(obj, name, fn):
    orig = getattr(obj, name)

    def w(*a, **k):
        return fn(orig, *a, **k)
    setattr(obj, name, w)


def instrument(tr, psi, env):
    tr.env, tr.psi = env, psi

    def post1(orig, A, n):
        r = orig(A, n); tr.record([3, n]); return r

    def post2(orig, AA, bd, opts):
        r = orig(AA, bd, opts); tr.record([4, bd[0]]); return r

    def orth(orig, n, to='first', normalize=True):
        r = orig(n=n, to=to, normalize=normalize); tr.record([6, n, TO[to]]); return r

    def absorb(orig, to='last'):
        r = orig(to=to); tr.record([7, TO[to]]); return r
    for nm, f in (('post_1site_', post1), ('post_2site_', post2), ('orthogonalize_site_', orth), ('absorb_central_', absorb)):
        if not getattr(getattr(psi, nm), '_verif', False):
            _wrap(psi, nm, f)
            getattr(psi, nm)._verif = True

    def clear(orig, *args):
        r = orig(*args)
        for i, n in enumerate(args):
            tr.record([8, n], snap=(i == len(args) - 1))      # one call clears all listed sites: only the last snapshot is meaningful
        return r

    def update(orig, n, to='last'):
        r = orig(n, to=to); tr.record([9, n, TO[to]]); return r

    def heff0(orig, C, bd):
        r = orig(C, bd); tr.record([0]); return r

    def heff1(orig, A, n):
        r = orig(A, n); tr.record([1, n]); return r

    def heff2(orig, AA, bd):
        r = orig(AA, bd); tr.record([2, min(bd)]); return r

    def measure(orig, bd=(-1, 0)):
        r = orig(bd) if bd != (-1, 0) else orig(); tr.record([10]); return r
    def enlarge(orig, bd, opts_svd):
        r = orig(bd, opts_svd); tr.decisions.append(bool(r)); return r
    for nm, f in (('clear_site_', clear), ('update_env_', update), ('Heff0', heff0), ('Heff1', heff1), ('Heff2', heff2), ('measure', measure), ('enlarge_bond', enlarge)):
        _wrap(env, nm, f)


class traced:
    """context manager: environments created by dmrg_ / tdvp_ are instrumented; writes to the central block (TDVP) are recorded as (5)"""
    def __init__(self, psi, snapshots=True):
        self.tr = Trace()
        self.tr.snap = snapshots
        self.psi = psi

    def __enter__(self):
        tr, psi = self.tr, self.psi
        self.orig_setup = _env.EnvParent.setup_
        orig = self.orig_setup

        def setup(env_self, to='last'):
            r = orig(env_self, to=to)
            if env_self.bra is psi and not getattr(env_self, '_verif_traced', False):
                env_self._verif_traced = True
                instrument(tr, psi, env_self)
            return r
        _env.EnvParent.setup_ = setup
        return tr

    def __exit__(self, *a):
        _env.EnvParent.setup_ = self.orig_setup
        return False
