"""tgen.py -- seeded generators of integer-valued symmetric tensors and of operation cases with NumPy oracles.

Everything is built through the public API (yastn.Leg, yastn.zeros, item assignment of data).  Data are small
integers (Gaussian integers for complex dtype) so float64 results are exact and compared with '=='.
A *case* is a dict(kind=..., seed=..., opts=...) from which the scenario is rebuilt deterministically (replay).
"""
import random, itertools, traceback
import numpy as np
import yastn
from yastn.sym import sym_Z2xU1

SYMS = ['dense', 'Z2', 'Z3', 'U1', 'U1xU1', 'Z2xU1', 'U1xU1xZ2']
POLICIES = ['fuse_to_matrix', 'fuse_contracted', 'no_fusion']
MODULI = {'dense': [], 'Z2': [2], 'Z3': [3], 'U1': [None], 'U1xU1': [None, None], 'Z2xU1': [2, None],
          'U1xU1xZ2': [None, None, 2]}
FERMIONIC_OK = {'Z2': [True, False], 'U1': [True, False], 'U1xU1': [True, False, (True, False), (False, True)],
                'U1xU1xZ2': [(False, False, True), True, False, (True, True, False)], 'Z2xU1': [(True, False), False],
                'Z3': [False], 'dense': [False]}

_cfg_cache = {}


def make_cfg(sym, fermionic=False, policy='fuse_to_matrix', fusion='hard', force=None):
    key = (sym, fermionic, policy, fusion, force)
    if key not in _cfg_cache:
        _cfg_cache[key] = yastn.make_config(sym=sym_Z2xU1 if sym == 'Z2xU1' else sym, fermionic=fermionic,
                                            tensordot_policy=policy, default_fusion=fusion, force_fusion=force)
    return _cfg_cache[key]


def rcharge(rng, sym, wide=False):
    out = []
    for m in MODULI[sym]:
        out.append(rng.randrange(m) if m is not None else (rng.randint(-2, 2) if wide else rng.randint(-1, 1)))
    return tuple(out)


def rleg(rng, cfg, sym, s=None, nsec=None, maxD=3):
    s = s or rng.choice([1, -1])
    if sym == 'dense':
        return yastn.Leg(cfg, s=s, D=(rng.randint(1, maxD),))
    nsec = nsec or rng.choice([1, 2, 2, 3])
    ts = sorted({rcharge(rng, sym) for _ in range(nsec)})
    return yastn.Leg(cfg, s=s, t=ts, D=[rng.randint(1, maxD) for _ in ts])


def perturb_leg(rng, cfg, sym, leg):
    """same dims on common sectors; drop and/or add sectors (so operands have different sector sets)"""
    if sym == 'dense':
        return leg
    tD = dict(zip(leg.t, leg.D))
    orig = dict(tD)
    if rng.random() < 0.3 and len(tD) > 0:
        # relabel: one sector moves to a fresh charge with the SAME dimension at the SAME position, so the tuple of dimensions of the leg is
        # unchanged while its charges differ (fused operands then have equal hfs.D but different hfs.t)
        ts0 = sorted(tD)
        k0 = rng.randrange(len(ts0))
        cands = []
        for _ in range(12):
            t = rcharge(rng, sym, wide=True)
            if t not in orig and 1 + sum(abs(x) for x in t) % 3 == tD[ts0[k0]] and sorted(ts0[:k0] + [t] + ts0[k0 + 1:]).index(t) == k0:
                cands.append(t)
        if cands:
            t = cands[0]
            D0 = tD.pop(ts0[k0])
            tD[t] = D0
            ts = sorted(tD)
            return yastn.Leg(cfg, s=leg.s, t=ts, D=[tD[t_] for t_ in ts])
    r = rng.random()
    if r < 0.4 and len(tD) > 1:
        tD.pop(rng.choice(sorted(tD)))
    if r > 0.3:
        t = rcharge(rng, sym, wide=True)
        if t not in tD:
            rnd = rng.randint(1, 3)       # (drawn always, to keep the stream independent of the branch)
            tD[t] = orig.get(t, 1 + sum(abs(x) for x in t) % 3)    # new sectors get a dimension that depends on the charge only:
            # independent perturbations of one leg then agree on every common sector
    ts = sorted(tD)
    return yastn.Leg(cfg, s=leg.s, t=ts, D=[tD[t] for t in ts])


def int_fill(rng, a, cplx=False, lo=-3, hi=3):
    n = a.size
    d = np.array([rng.randint(lo, hi) for _ in range(n)], dtype=np.float64)
    if cplx:
        d = d + 1j * np.array([rng.randint(lo, hi) for _ in range(n)], dtype=np.float64)
    a._data = d.astype(a._data.dtype) if not cplx else d.astype(np.complex128)
    return a


def rtensor(rng, cfg, legs, n=None, cplx=False, drop=0.0, isdiag=False):
    """integer-valued tensor with all (or a random subset of) the blocks allowed by legs and charge n"""
    a = yastn.zeros(cfg, legs=legs, n=n, isdiag=isdiag, dtype='complex128' if cplx else 'float64')
    if drop > 0 and len(a.struct.t) > 1:
        keep = [t for t in a.get_blocks_charge() if rng.random() > drop]
        if not keep:
            keep = [rng.choice(a.get_blocks_charge())]
        b = yastn.Tensor(config=cfg, s=a.s, n=a.n, isdiag=isdiag, dtype='complex128' if cplx else 'float64')
        lgs = a.get_legs()
        if isdiag:
            lgs = [lgs[0], lgs[1]]
        for t in keep:
            tt = tuple(t[i * cfg.sym.NSYM:(i + 1) * cfg.sym.NSYM] for i in range(len(lgs))) if cfg.sym.NSYM else ()
            Ds = tuple(lg[x] for lg, x in zip(lgs, tt)) if cfg.sym.NSYM else tuple(lg.D[0] for lg in lgs)
            if isdiag:
                b.set_block(ts=t[:cfg.sym.NSYM] if cfg.sym.NSYM else (), Ds=Ds[0], val='zeros')
            else:
                b.set_block(ts=t, Ds=Ds, val='zeros')
        a = b
    return int_fill(rng, a, cplx)


def allowed_charge(rng, cfg, sym, legs):
    """a total charge for which some block exists (or a random one, sometimes giving an empty tensor)"""
    if sym == 'dense':
        return None
    if rng.random() < 0.12:
        return rcharge(rng, sym)
    if any(len(l.t) == 0 for l in legs):
        return cfg.sym.zero()
    ts = [rng.choice(l.t) for l in legs]
    ss = [l.s for l in legs]
    return cfg.sym.add_charges(*ts, signatures=ss) if legs else cfg.sym.zero()


def union_legs(*tensors_axes):
    """legs_union over [(tensor, axis, conj?)...]"""
    lgs = []
    for (a, ax, cj) in tensors_axes:
        l = a.get_legs(ax)
        lgs.append(l.conj() if cj else l)
    return yastn.legs_union(*lgs)


def dense(a, legs=None):
    return a.to_numpy(legs=legs)


def lazy(rng, a, p=0.5):
    """random pending permutation; returns (tensor, perm) with tensor = a.transpose(perm)"""
    if a.ndim_n < 2 or rng.random() > p or a.isdiag:
        return a, tuple(range(a.ndim))
    perm = list(range(a.ndim))
    rng.shuffle(perm)
    b = a.transpose(tuple(perm))
    if FORCE_CONSUME[0]:
        b = b.consume_transpose()
    return b, tuple(perm)


def snapshot(a):
    """byte-level structural snapshot of a tensor (for C15 / C16 bit-identity)"""
    return (a.struct, a.slices, a.hfs, a.mfs, a.trans, a.isdiag, str(a._data.dtype), a._data.tobytes())


def history_supports(x):
    """fusion history vs stored sectors: undoing every fusion of x must succeed, give a consistent tensor and lose no data; returns None or a message"""
    try:
        y = fully_unfused(x)
        y.is_consistent()
        if abs(float(y.norm()) - float(x.norm())) > 1e-9 * max(1.0, float(x.norm())):
            return 'unfusing changes the norm from %r to %r' % (float(x.norm()), float(y.norm()))
    except (yastn.YastnError, ValueError, IndexError, KeyError, AssertionError) as e:
        return 'cannot be unfused: %s: %s' % (type(e).__name__, str(e)[:150])
    return None


def fully_unfused(a):
    """undo every meta and hard fusion (the configuration-independent presentation of a tensor)"""
    for _ in range(8):
        if a.isdiag:
            return a
        fused = [i for i, m in enumerate(a.mfs) if m != (1,)]
        if not fused:
            lg = a.get_legs()
            lg = lg if isinstance(lg, (list, tuple)) else (lg,)
            fused = [i for i, l in enumerate(lg) if l.hf.tree != (1,) and l.hf.op[0] == 'p']
        if not fused:
            return a
        a = a.unfuse_legs(axes=tuple(fused))
    return a


def obs(a):
    """observable value independent of fusion mode / lazy state: unfused legs (s, t, D), charge, dense array bytes"""
    if isinstance(a, (int, float, complex, np.number)):
        return ('num', complex(a))
    a = fully_unfused(a)
    lg = a.get_legs() if a.ndim else ()
    lg = lg if isinstance(lg, (list, tuple)) else (lg,)
    d = a.to_numpy() + 0.0          # -0.0 -> 0.0: negated zeros are not an observable difference
    return ('ten', tuple((l.s, l.t, l.D) for l in lg), tuple(a.n), d.shape, str(d.dtype), d.tobytes())


# --------------------------------------------------------------------------------------------------------------
# scenario builders: each returns dict(fn=callable producing result, oracle=callable producing expected dense,
#                                     operands=[...], describe=...)
# --------------------------------------------------------------------------------------------------------------
class Skip(Exception):
    pass


FORCE_CONSUME = [False]


def pick_cfg(rng, opts):
    # the random stream is consumed identically whatever the options override (differential runs rebuild the same tensors)
    sym_r = rng.choice(SYMS)
    pol_r = rng.choice(POLICIES)
    sym = opts.get('sym') or sym_r
    ferm = opts.get('fermionic', False)
    pol = opts.get('policy') or pol_r
    fusion = opts.get('fusion', 'hard')
    FORCE_CONSUME[0] = bool(opts.get('consume'))
    return sym, make_cfg(sym, ferm, pol, fusion, opts.get('force'))


def sc_tensordot(rng, opts):
    sym, cfg = pick_cfg(rng, opts)
    ra, rb = rng.randint(1, 4), rng.randint(1, 4)
    nc = rng.randint(0, min(ra, rb))
    la = [rleg(rng, cfg, sym) for _ in range(ra)]
    lb = [rleg(rng, cfg, sym) for _ in range(rb)]
    axa = rng.sample(range(ra), nc)
    axb = rng.sample(range(rb), nc)
    conj = rng.choice([(0, 0), (0, 0), (1, 0), (0, 1), (1, 1)])
    for i, j in zip(axa, axb):
        ea = la[i].conj() if conj[0] else la[i]                      # leg of a as seen by the contraction
        eb = (ea if rng.random() < 0.55 else perturb_leg(rng, cfg, sym, ea)).conj()
        lb[j] = eb.conj() if conj[1] else eb
    cplx = rng.random() < 0.3
    a = rtensor(rng, cfg, la, n=allowed_charge(rng, cfg, sym, la), cplx=cplx, drop=rng.choice([0, 0, 0.3]))
    b = rtensor(rng, cfg, lb, n=allowed_charge(rng, cfg, sym, lb), cplx=rng.random() < 0.3, drop=rng.choice([0, 0, 0.3]))
    a, pa = lazy(rng, a)
    b, pb = lazy(rng, b)
    axa = [pa.index(i) for i in axa]
    axb = [pb.index(j) for j in axb]

    def fn():
        return yastn.tensordot(a, b, axes=(axa, axb), conj=conj)

    def oracle(c):
        lga = dict(enumerate(a.get_legs()))
        lgb = dict(enumerate(b.get_legs()))
        for i, j in zip(axa, axb):
            la_ = lga[i].conj() if conj[0] else lga[i]
            lb_ = lgb[j].conj() if conj[1] else lgb[j]
            u = yastn.legs_union(la_, lb_.conj())
            lga[i] = u.conj() if conj[0] else u
            lgb[j] = u if conj[1] else u.conj()
        da, db = dense(a, lga), dense(b, lgb)
        if conj[0]:
            da = da.conj()
        if conj[1]:
            db = db.conj()
        ref = np.tensordot(da, db, axes=(axa, axb))
        outa = [i for i in range(a.ndim) if i not in axa]
        outb = [j for j in range(b.ndim) if j not in axb]
        lgc = {k: (lga[i].conj() if conj[0] else lga[i]) for k, i in enumerate(outa)}
        lgc.update({len(outa) + k: (lgb[j].conj() if conj[1] else lgb[j]) for k, j in enumerate(outb)})
        na = cfg.sym.add_charges(a.n, new_signature=-1) if conj[0] else a.n
        nb = cfg.sym.add_charges(b.n, new_signature=-1) if conj[1] else b.n
        return dict(dense=ref, legs=lgc, n=cfg.sym.add_charges(na, nb))
    return dict(fn=fn, oracle=oracle, operands=[a, b], describe=dict(sym=sym, policy=cfg.tensordot_policy, axes=(axa, axb), conj=conj,
                trans=(a.trans, b.trans), legs_a=str(a.get_legs()), legs_b=str(b.get_legs())))


def sc_add(rng, opts):
    sym, cfg = pick_cfg(rng, opts)
    r = rng.randint(0, 4)
    la = [rleg(rng, cfg, sym) for _ in range(r)]
    n = allowed_charge(rng, cfg, sym, la)
    cplx = rng.random() < 0.3
    a = rtensor(rng, cfg, la, n=n, cplx=cplx, drop=rng.choice([0, 0.3]))
    lb = [l if rng.random() < 0.6 else perturb_leg(rng, cfg, sym, l) for l in la]
    b = rtensor(rng, cfg, lb, n=a.n, cplx=rng.random() < 0.3, drop=rng.choice([0, 0.3, 0.6]))
    perm = tuple(range(r))
    if r >= 2 and rng.random() < 0.5:
        p = list(range(r)); rng.shuffle(p); perm = tuple(p)
    ka, kb = rng.choice([(0, 0), (1, 0), (0, 1), (1, 1)])   # which operand holds the permutation lazily vs materialised
    a2 = a.transpose(perm) if perm != tuple(range(r)) else a
    b2 = b.transpose(perm) if perm != tuple(range(r)) else b
    if ka:
        a2 = a2.consume_transpose()
    if kb:
        b2 = b2.consume_transpose()
    op = rng.choice(['add', 'sub', 'lin', 'iadd_like', 'add3', 'add3'])
    x, y = rng.randint(-2, 3), rng.randint(-2, 3)
    # third operand for yastn.add(a, b, c): same visible legs, its own way of holding the permutation
    lc3 = [l if rng.random() < 0.6 else perturb_leg(rng, cfg, sym, l) for l in la]
    c3 = rtensor(rng, cfg, lc3, n=a.n, cplx=False, drop=rng.choice([0, 0.3]))
    c3 = c3.transpose(perm) if perm != tuple(range(r)) else c3
    if rng.random() < 0.5:
        c3 = c3.consume_transpose()
    z = rng.randint(-2, 3)
    rng_flag = rng.random() < 0.5

    def fn():
        if op == 'add':
            return a2 + b2
        if op == 'sub':
            return a2 - b2
        if op == 'lin':
            return yastn.add(a2, b2, amplitudes=[x, y])
        if op == 'add3':
            return yastn.add(a2, b2, c3, amplitudes=[x, y, z]) if rng_flag else yastn.add(a2, b2, c3)
        return a2.__add__(b2) * 2 - b2

    def oracle(c):
        if op == 'add3':
            lg = {i: yastn.legs_union(a2.get_legs(i), b2.get_legs(i), c3.get_legs(i)) for i in range(r)}
            da, db, dc = dense(a2, lg), dense(b2, lg), dense(c3, lg)
            return dict(dense=(x * da + y * db + z * dc) if rng_flag else (da + db + dc), legs=lg, n=a.n)
        lg = {i: yastn.legs_union(a2.get_legs(i), b2.get_legs(i)) for i in range(r)}
        da, db = dense(a2, lg), dense(b2, lg)
        ref = {'add': da + db, 'sub': da - db, 'lin': x * da + y * db, 'iadd_like': (da + db) * 2 - db}[op]
        return dict(dense=ref, legs=lg, n=a.n)
    return dict(fn=fn, oracle=oracle, operands=[a2, b2, c3], describe=dict(sym=sym, op=op, perm=perm, rank=r, trans=(a2.trans, b2.trans, c3.trans)))


def sc_unary(rng, opts):
    sym, cfg = pick_cfg(rng, opts)
    r = rng.randint(0, 4)
    la = [rleg(rng, cfg, sym) for _ in range(r)]
    cplx = rng.random() < 0.5
    a = rtensor(rng, cfg, la, n=allowed_charge(rng, cfg, sym, la), cplx=cplx, drop=rng.choice([0, 0.3]))
    a, pa = lazy(rng, a)
    op = rng.choice(['conj', 'conj_blocks', 'flip_signature', 'neg', 'mul', 'rmul', 'div', 'abs', 'real', 'imag', 'transpose',
                     'moveaxis', 'T', 'H', 'copy', 'clone', 'consume', 'pow', 'remove_zero_blocks'])
    perm = list(range(a.ndim)); rng.shuffle(perm); perm = tuple(perm)
    src, dst = (rng.randrange(a.ndim), rng.randrange(a.ndim)) if a.ndim else (0, 0)
    k = rng.choice([-2, 2, 3, 1j if cplx else -1])
    neg = lambda t: cfg.sym.add_charges(t, new_signature=-1)

    def fn():
        return {'conj': a.conj, 'conj_blocks': a.conj_blocks, 'flip_signature': a.flip_signature, 'neg': lambda: -a,
                'mul': lambda: a * k, 'rmul': lambda: k * a, 'div': lambda: a / 2, 'abs': lambda: abs(a), 'real': lambda: a.real(),
                'imag': lambda: a.imag(), 'transpose': lambda: a.transpose(perm), 'moveaxis': lambda: a.moveaxis(src, dst) if a.ndim else a.copy(),
                'T': lambda: a.T, 'H': lambda: a.H, 'copy': a.copy, 'clone': a.clone, 'consume': a.consume_transpose,
                'pow': lambda: a ** 2, 'remove_zero_blocks': a.remove_zero_blocks}[op]()

    def oracle(c):
        lg = list(a.get_legs()) if a.ndim else []
        d = dense(a)
        cl = [l.conj() for l in lg]
        if op == 'conj':
            return dict(dense=d.conj(), legs=dict(enumerate(cl)), n=neg(a.n))
        if op == 'conj_blocks':
            return dict(dense=d.conj(), legs=dict(enumerate(lg)), n=a.n)
        if op == 'flip_signature':
            return dict(dense=d, legs=dict(enumerate(cl)), n=neg(a.n))
        if op == 'H':
            return dict(dense=d.conj().transpose(tuple(range(a.ndim))[::-1]), legs=dict(enumerate(cl[::-1])), n=neg(a.n))
        if op == 'T':
            return dict(dense=d.transpose(tuple(range(a.ndim))[::-1]), legs=dict(enumerate(lg[::-1])), n=a.n)
        if op == 'transpose':
            return dict(dense=d.transpose(perm), legs={i: lg[p] for i, p in enumerate(perm)}, n=a.n)
        if op == 'moveaxis' and a.ndim:
            o = list(range(a.ndim)); o.insert(dst, o.pop(src))
            return dict(dense=np.moveaxis(d, src, dst), legs={i: lg[p] for i, p in enumerate(o)}, n=a.n)
        ref = {'neg': -d, 'mul': d * k, 'rmul': k * d, 'div': d / 2, 'abs': np.abs(d), 'real': d.real, 'imag': d.imag, 'copy': d,
               'clone': d, 'consume': d, 'pow': d ** 2, 'moveaxis': d, 'remove_zero_blocks': d}[op]
        return dict(dense=ref, legs=dict(enumerate(lg)), n=a.n, inexact=(op in ('abs',) and cplx))
    return dict(fn=fn, oracle=oracle, operands=[a], describe=dict(sym=sym, op=op, perm=perm, trans=a.trans, k=str(k), src_dst=(src, dst)))


def _sc_trace_fused(rng, sym, cfg):
    """trace over a pair of HARD-FUSED legs whose constituents differ in sector content (a mask is needed), on a tensor that may carry a pending
    transposition and a meta-fused leg in front of them"""
    k = rng.randint(2, 3)
    la = [rleg(rng, cfg, sym, maxD=2) for _ in range(k)]
    lb = [(l if rng.random() < 0.4 else perturb_leg(rng, cfg, sym, l)).conj() for l in la]
    nfree = rng.randint(1, 3)
    free = [rleg(rng, cfg, sym, maxD=2) for _ in range(nfree)]
    legs = free + la + lb
    a = rtensor(rng, cfg, legs, n=allowed_charge(rng, cfg, sym, legs), cplx=rng.random() < 0.3, drop=rng.choice([0, 0.3]))
    ga, gb = tuple(range(nfree, nfree + k)), tuple(range(nfree + k, nfree + 2 * k))
    meta_front = nfree >= 2 and rng.random() < 0.5
    perm = list(range(nfree - (1 if meta_front else 0) + 2)); rng.shuffle(perm)
    use_perm = rng.random() < 0.6
    consume = rng.random() < 0.3

    def fn():
        f = a.fuse_legs(axes=tuple(range(nfree)) + (ga, gb), mode='hard')
        if meta_front:
            f = f.fuse_legs(axes=((0, 1),) + tuple(range(2, f.ndim)), mode='meta')
        nd = f.ndim
        p_ = perm if use_perm else list(range(nd))
        f = f.transpose(tuple(p_))
        if consume:
            f = f.consume_transpose()
        r_ = f.trace(axes=(p_.index(nd - 2), p_.index(nd - 1)))
        # bring the remaining legs back to the order of the free legs and unfuse
        rest = [q for q in p_ if q < nd - 2]
        r_ = r_.transpose(tuple(np.argsort(rest).tolist())) if len(rest) > 1 else r_
        return r_.unfuse_legs(axes=0) if meta_front else r_

    def oracle(c):
        lga = dict(enumerate(a.get_legs()))
        for i, j in zip(ga, gb):
            u = yastn.legs_union(lga[i], lga[j].conj())
            lga[i], lga[j] = u, u.conj()
        d = dense(a, lga)
        letters = 'abcdefghij'
        sub = [letters[5 + i] for i in range(nfree)] + [letters[i] for i in range(k)] * 2
        ref = np.einsum(''.join(sub) + '->' + ''.join(sub[:nfree]), d)
        return dict(dense=ref, legs={i: lga[i] for i in range(nfree)}, n=a.n)
    return dict(fn=fn, oracle=oracle, operands=[a], describe=dict(sym=sym, op='trace_fused', k=k, nfree=nfree, meta_front=meta_front, perm=perm if use_perm else None, consume=consume))


def sc_trace(rng, opts):
    sym, cfg = pick_cfg(rng, opts)
    if rng.random() < 0.35 and not opts.get('mode'):
        return _sc_trace_fused(rng, sym, cfg)
    npairs = rng.randint(1, 2)
    nfree = rng.randint(0, 2)
    legs = []
    for _ in range(npairs):
        l = rleg(rng, cfg, sym)
        l2 = l.conj() if rng.random() < 0.6 else perturb_leg(rng, cfg, sym, l).conj()
        legs += [l, l2]
    legs += [rleg(rng, cfg, sym) for _ in range(nfree)]
    order = list(range(len(legs))); rng.shuffle(order)
    lg = [legs[i] for i in order]
    pos = {i: order.index(i) for i in range(len(legs))}
    a = rtensor(rng, cfg, lg, n=allowed_charge(rng, cfg, sym, lg), cplx=rng.random() < 0.3, drop=rng.choice([0, 0.3]))
    a, pa = lazy(rng, a)
    ax0 = [pa.index(pos[2 * k]) for k in range(npairs)]
    ax1 = [pa.index(pos[2 * k + 1]) for k in range(npairs)]
    if rng.random() < 0.5 and npairs == 1:
        axes = (ax0[0], ax1[0])
    else:
        axes = (tuple(ax0), tuple(ax1))

    def fn():
        return a.trace(axes=axes)

    def oracle(c):
        lga = dict(enumerate(a.get_legs()))
        for i, j in zip(ax0, ax1):
            u = yastn.legs_union(lga[i], lga[j].conj())
            lga[i], lga[j] = u, u.conj()
        d = dense(a, lga)
        rest = [i for i in range(a.ndim) if i not in ax0 + ax1]
        letters = 'abcdefghij'
        sub = [''] * a.ndim
        for k, (i, j) in enumerate(zip(ax0, ax1)):
            sub[i] = sub[j] = letters[k]
        for k, i in enumerate(rest):
            sub[i] = letters[5 + k]
        ref = np.einsum(''.join(sub) + '->' + ''.join(sub[i] for i in rest), d)
        return dict(dense=ref, legs={k: lga[i] for k, i in enumerate(rest)}, n=a.n)
    return dict(fn=fn, oracle=oracle, operands=[a], describe=dict(sym=sym, axes=axes, trans=a.trans, legs=str(a.get_legs())))


def sc_vdot(rng, opts):
    sym, cfg = pick_cfg(rng, opts)
    r = rng.randint(0, 4)
    la = [rleg(rng, cfg, sym) for _ in range(r)]
    a = rtensor(rng, cfg, la, n=allowed_charge(rng, cfg, sym, la), cplx=rng.random() < 0.4, drop=rng.choice([0, 0.3]))
    conj = rng.choice([(1, 0), (1, 0), (0, 0), (0, 1), (1, 1)])
    same = conj in ((1, 0), (0, 1))
    lb = [(l if same else l.conj()) if rng.random() < 0.6 else (perturb_leg(rng, cfg, sym, l) if same else perturb_leg(rng, cfg, sym, l).conj()) for l in la]
    nb = a.n if same else cfg.sym.add_charges(a.n, new_signature=-1)
    if rng.random() < 0.1:
        nb = rcharge(rng, sym) if sym != 'dense' else None
    b = rtensor(rng, cfg, lb, n=nb, cplx=rng.random() < 0.4, drop=rng.choice([0, 0.3]))
    perm = list(range(r)); rng.shuffle(perm); perm = tuple(perm)
    if r >= 2 and rng.random() < 0.5:
        a = a.transpose(perm)
        b = b.transpose(perm)
        if rng.random() < 0.5:
            b = b.consume_transpose()

    def fn():
        return yastn.vdot(a, b, conj=conj)

    def oracle(c):
        lg = {}
        for i in range(r):
            l1 = a.get_legs(i)
            l2 = b.get_legs(i)
            u = yastn.legs_union(l1, l2 if same else l2.conj())
            lg[i] = (u, u if same else u.conj())
        da = dense(a, {i: lg[i][0] for i in range(r)})
        db = dense(b, {i: lg[i][1] for i in range(r)})
        if conj[0]:
            da = da.conj()
        if conj[1]:
            db = db.conj()
        return dict(number=np.sum(da * db))
    return dict(fn=fn, oracle=oracle, operands=[a, b], describe=dict(sym=sym, conj=conj, rank=r, trans=(a.trans, b.trans)))


def sc_diag_ops(rng, opts):
    """diag both ways, broadcast, apply_mask, tensordot with a diagonal operand"""
    sym, cfg = pick_cfg(rng, opts)
    l = rleg(rng, cfg, sym, maxD=4)
    cplx = rng.random() < 0.3
    D = rtensor(rng, cfg, [l, l.conj()], cplx=cplx, isdiag=True, drop=rng.choice([0, 0.3]))
    op = rng.choice(['diag2full', 'full2diag', 'broadcast', 'mask', 'dot_diag_left', 'dot_diag_right', 'diag_T'])
    if rng.random() < 0.4:
        D = D.T if rng.random() < 0.5 else D.transpose((1, 0))
    r = rng.randint(1, 4)
    ax = rng.randrange(r)
    la = [rleg(rng, cfg, sym) for _ in range(r)]
    dl = list(D.get_legs())
    dleg_in = dl[0] if op == 'dot_diag_right' else dl[1]          # the leg of D that meets a
    la[ax] = dleg_in.conj() if rng.random() < 0.6 else perturb_leg(rng, cfg, sym, dleg_in.conj())
    a = rtensor(rng, cfg, la, n=allowed_charge(rng, cfg, sym, la), cplx=rng.random() < 0.3, drop=rng.choice([0, 0.3]))
    a, pa = lazy(rng, a)
    axl = pa.index(ax)
    # sometimes meta-fuse two neighbouring legs that are not the one meeting D (the logical axis then differs from the native one)
    metafuse = None
    if op in ('mask', 'broadcast') and a.ndim >= 3 and rng.random() < 0.4:
        cand = [i for i in range(a.ndim - 1) if axl not in (i, i + 1)]
        if cand:
            metafuse = rng.choice(cand)
    M = None
    if op == 'mask':
        M = D.copy()
        M._data = (np.abs(M._data.real) >= 2)   # boolean mask, diagonal
        if not M._data.any():
            M._data[:] = True

    def fn():
        if op == 'diag2full':
            return D.diag()
        if op == 'full2diag':
            return D.diag().diag()
        if op == 'diag_T':
            return D.T.diag()
        if metafuse is not None:
            i = metafuse
            fa = a.fuse_legs(axes=tuple(range(i)) + ((i, i + 1),) + tuple(range(i + 2, a.ndim)), mode='meta')
            fax = axl if axl < i else axl - 1
            r_ = D.broadcast(fa, axes=fax) if op == 'broadcast' else M.apply_mask(fa, axes=fax)
            return r_.unfuse_legs(axes=i)
        if op == 'broadcast':
            return D.broadcast(a, axes=axl)
        if op == 'mask':
            return M.apply_mask(a, axes=axl)
        if op == 'dot_diag_left':
            return yastn.tensordot(D, a, axes=(1, axl))
        return yastn.tensordot(a, D, axes=(axl, 0))

    def oracle(c):
        dD = dense(D)
        if op in ('diag2full', 'full2diag'):
            return dict(dense=dD, legs={0: dl[0], 1: dl[1]}, n=D.n, isdiag=(op == 'full2diag'))
        if op == 'diag_T':
            return dict(dense=dD.T, legs={0: dl[1], 1: dl[0]}, n=D.n)
        lga = dict(enumerate(a.get_legs()))
        if op == 'mask':
            # per sector of a's own leg: the mask's boolean vector if the mask has that sector, else nothing survives
            mvec = {}
            ml = M.get_legs(0)
            dm = np.diag(dense(M)).astype(bool)
            off = 0
            for t, Dt in zip(ml.t, ml.D):
                mvec[t] = dm[off:off + Dt]
                off += Dt
            vec = []
            for t, Dt in zip(lga[axl].t, lga[axl].D):
                if t in mvec and len(mvec[t]) != Dt:
                    raise yastn.YastnError('generator: mask dimension mismatch')
                vec.append(mvec[t] if t in mvec else np.zeros(Dt, dtype=bool))
            vec = np.concatenate(vec) if vec else np.zeros(0, dtype=bool)
            ref = np.compress(vec, dense(a), axis=axl)
            lgm = dict(lga)
            kept = [(t, int(np.sum(mvec[t]))) for t in lga[axl].t if t in mvec and np.sum(mvec[t]) > 0]
            if kept and sym != 'dense':
                lgm[axl] = yastn.Leg(cfg, s=lga[axl].s, t=[t for t, _ in kept], D=[d_ for _, d_ in kept])
            elif kept:
                lgm[axl] = yastn.Leg(cfg, s=lga[axl].s, D=[kept[0][1]])
            else:
                lgm = None if ref.size else None
            return dict(dense=ref, legs=lgm, n=a.n, signatures=[lga[i].s for i in range(a.ndim)], allow_empty_shape=True)
        u = yastn.legs_union(lga[axl], dleg_in.conj())
        lga[axl] = u
        da = dense(a, lga)
        dsame = {0: u.conj() if dl[0].s == u.conj().s else u}
        dsame[1] = dsame[0].conj()
        dDu = dense(D, dsame)
        if op == 'broadcast':
            v = np.diag(dDu)
            shp = [1] * a.ndim; shp[axl] = len(v)
            return dict(dense=da * v.reshape(shp), legs=lga, n=a.n)
        if op == 'dot_diag_left':
            ref = np.tensordot(dDu, da, axes=(1, axl))
            rest = [i for i in range(a.ndim) if i != axl]
            lg = {0: dsame[0]}; lg.update({k + 1: lga[i] for k, i in enumerate(rest)})
            return dict(dense=ref, legs=lg, n=a.n)
        ref = np.tensordot(da, dDu, axes=(axl, 0))
        rest = [i for i in range(a.ndim) if i != axl]
        lg = {k: lga[i] for k, i in enumerate(rest)}; lg[len(rest)] = dsame[1]
        return dict(dense=ref, legs=lg, n=a.n)
    return dict(fn=fn, oracle=oracle, operands=[D, a] + ([M] if M is not None else []),
                describe=dict(sym=sym, op=op, axis=axl, metafuse=metafuse, trans=(D.trans, a.trans), legD=str(D.get_legs()), legs_a=str(a.get_legs())))


def _sc_remove_meta(rng, sym, cfg):
    """remove_leg of ONE logical leg of dimension one that is a meta-fusion of 2-3 native legs carrying charges"""
    r = rng.randint(0, 2)
    k = rng.randint(2, 3)
    la = [rleg(rng, cfg, sym) for _ in range(r)]
    ones = []
    for _ in range(k):
        s1 = rng.choice([1, -1])
        ones.append(yastn.Leg(cfg, s=s1, t=[rcharge(rng, sym)], D=[1]) if sym != 'dense' else yastn.Leg(cfg, s=s1, D=[1]))
    pos = sorted(rng.sample(range(r + k), k))          # native positions of the unit legs
    legs, it_a, it_o = [], iter(la), iter(ones)
    for i in range(r + k):
        legs.append(next(it_o) if i in pos else next(it_a))
    a = rtensor(rng, cfg, legs, n=allowed_charge(rng, cfg, sym, legs), cplx=rng.random() < 0.3)
    a, pa = lazy(rng, a)
    lg = [legs[pa[i]] for i in range(a.ndim)]
    unit = [i for i in range(a.ndim) if pa[i] in pos]      # leg i of the (lazily transposed) tensor is leg pa[i] of the stored one
    rng.shuffle(unit)
    rest = [i for i in range(a.ndim) if i not in unit]
    where = rng.randint(0, len(rest))
    axes = tuple(rest[:where]) + (tuple(unit),) + tuple(rest[where:])
    inter = []

    def fn():
        f = a.fuse_legs(axes=axes, mode='meta')
        inter.append(f)
        return f.remove_leg(axis=where)

    def oracle(c):
        d = dense(a, dict(enumerate(lg)))
        d2 = d.transpose(rest + unit).reshape([d.shape[i] for i in rest])
        if sym != 'dense':
            un = [ones[pos.index(pa[i])] for i in unit]
            n2 = cfg.sym.add_charges(a.n, *[l.t[0] for l in un], signatures=(1,) + tuple(-l.s for l in un))
        else:
            n2 = a.n
        return dict(dense=d2, legs={j: lg[i] for j, i in enumerate(rest)}, n=n2 if a.size > 0 else None)
    return dict(fn=fn, oracle=oracle, operands=[a], intermediates=inter, describe=dict(sym=sym, op='remove_meta', axes=axes, where=where, trans=a.trans))


def _sc_add_meta(rng, sym, cfg, a, r):
    """add_leg(leg=<meta-fused leg of dimension one made of two unit legs>) at any position, also counted from the end (the default is -1)"""
    ones = []
    for _ in range(2):
        s1 = rng.choice([1, -1])
        ones.append(yastn.Leg(cfg, s=s1, t=[rcharge(rng, sym)], D=[1]) if sym != 'dense' else yastn.Leg(cfg, s=s1, D=[1]))
    lm = yastn.ones(cfg, legs=ones, n=cfg.sym.add_charges(*[l.t[0] for l in ones], signatures=tuple(l.s for l in ones)) if sym != 'dense' else None)
    lm = lm.fuse_legs(axes=((0, 1),), mode='meta').get_legs(0)
    axis = rng.randint(-(r + 1), r)
    default = axis == -1 and rng.random() < 0.5

    def fn():
        b = a.add_leg(leg=lm) if default else a.add_leg(leg=lm, axis=axis)
        return b.unfuse_legs(axes=axis % (r + 1))

    def oracle(c):
        d = dense(a)
        lg = list(a.get_legs()) if a.ndim else []
        pos = axis % (r + 1)
        d2 = np.expand_dims(np.expand_dims(d, pos), pos)
        lg2 = lg[:pos] + ones + lg[pos:]
        n2 = cfg.sym.add_charges(a.n, *[l.t[0] for l in ones], signatures=(1,) + tuple(l.s for l in ones)) if sym != 'dense' else a.n
        return dict(dense=d2, legs=dict(enumerate(lg2)), n=n2 if a.size > 0 else None)
    return dict(fn=fn, oracle=oracle, operands=[a], describe=dict(sym=sym, op='add_meta', axis=axis, default=default, trans=a.trans))


def sc_legs(rng, opts):
    """add_leg / remove_leg"""
    sym, cfg = pick_cfg(rng, opts)
    r = rng.randint(0, 3)
    la = [rleg(rng, cfg, sym) for _ in range(r)]
    a = rtensor(rng, cfg, la, n=allowed_charge(rng, cfg, sym, la), cplx=rng.random() < 0.3)
    a, pa = lazy(rng, a)
    axis = rng.randint(-(r + 1), r)
    s = rng.choice([1, -1])
    t = rcharge(rng, sym) if sym != 'dense' and rng.random() < 0.6 else None
    op = rng.choice(['add', 'add_remove', 'add2', 'remove_meta', 'add_meta'])
    if op == 'remove_meta':
        return _sc_remove_meta(rng, sym, cfg)
    if op == 'add_meta':
        return _sc_add_meta(rng, sym, cfg, a, r)

    def fn():
        b = a.add_leg(axis=axis, s=s, t=t)
        if op == 'add_remove':
            return b.remove_leg(axis=axis)
        if op == 'add2':
            return b.add_leg(axis=0, s=-s)
        return b

    def oracle(c):
        d = dense(a)
        lg = list(a.get_legs()) if a.ndim else []
        if op == 'add_remove':
            # an empty tensor keeps no record of the charge its removed leg carried: n is not compared then
            return dict(dense=d, legs=dict(enumerate(lg)), n=a.n if a.size > 0 else None)
        pos = axis % (r + 1)
        # t=None: the new leg carries the tensor charge (result has n=0); otherwise n' = n + s*t
        tt = cfg.sym.add_charges(t, signatures=(s,), new_signature=s) if t is not None else cfg.sym.add_charges(a.n, signatures=(-1,), new_signature=s)
        newleg = yastn.Leg(cfg, s=s, t=[tt], D=[1]) if sym != 'dense' else yastn.Leg(cfg, s=s, D=[1])
        lg2 = lg[:pos] + [newleg] + lg[pos:]
        d2 = np.expand_dims(d, pos)
        n2 = cfg.sym.add_charges(a.n, tt, signatures=(1, s)) if sym != 'dense' else a.n
        if op == 'add2':
            t3 = cfg.sym.add_charges(n2, signatures=(-1,), new_signature=-s)
            z = yastn.Leg(cfg, s=-s, t=[t3], D=[1]) if sym != 'dense' else yastn.Leg(cfg, s=-s, D=[1])
            return dict(dense=np.expand_dims(d2, 0), legs=dict(enumerate([z] + lg2)), n=cfg.sym.zero())
        return dict(dense=d2, legs=dict(enumerate(lg2)), n=n2)
    return dict(fn=fn, oracle=oracle, operands=[a], describe=dict(sym=sym, op=op, axis=axis, s=s, t=t, trans=a.trans))


def _sc_mixed_unfuse(rng, sym, cfg):
    """hard fusion first, meta fusion on top; several hard-fused legs are unfused in ONE call while meta-fused legs stay fused in between"""
    # logical legs of the final tensor: H = one hard-fused leg (2-3 native legs), M = meta-fusion of two hard-level legs, P = plain
    while True:
        kinds = [rng.choice('HHHMMP') for _ in range(rng.randint(2, 4))]
        if rng.random() < 0.6:        # several hard-fused legs with a meta-fused one behind the first
            kinds = ['H', 'M', 'H']
            if rng.random() < 0.4:
                kinds.insert(rng.randint(0, 3), rng.choice('HMP'))
        sizes = []
        for kd in kinds:
            sizes.append([rng.randint(2, 3)] if kd == 'H' else ([rng.randint(1, 2), rng.randint(1, 2)] if kd == 'M' else [1]))
        r = sum(sum(z) for z in sizes)
        if r <= 7:
            break
    la = [rleg(rng, cfg, sym, maxD=2, nsec=rng.randint(1, 2)) for _ in range(r)]
    a = rtensor(rng, cfg, la, n=allowed_charge(rng, cfg, sym, la), cplx=rng.random() < 0.3, drop=rng.choice([0, 0.3]))
    a, pa = lazy(rng, a, p=0.4)
    order = list(range(r)); rng.shuffle(order)
    groups, mgroups, i = [], [], 0
    for zs in sizes:
        start = len(groups)
        for k in zs:
            g = tuple(order[i:i + k])
            groups.append(g if k > 1 else g[0])
            i += k
        mgroups.append(tuple(range(start, start + len(zs))) if len(zs) > 1 else start)
    hard_single = [q for q, mg in enumerate(mgroups) if not isinstance(mg, tuple) and isinstance(groups[mg], tuple)]   # logical legs that are one hard-fused leg
    meta_legs = [q for q, mg in enumerate(mgroups) if isinstance(mg, tuple)]
    qperm = list(range(len(mgroups))); rng.shuffle(qperm)
    use_perm = rng.random() < 0.4
    inter = []

    def fn():
        y = a.fuse_legs(axes=tuple(groups), mode='hard')
        y = y.fuse_legs(axes=tuple(mgroups), mode='meta')
        pos = {q: q for q in range(len(mgroups))}
        if use_perm:
            y = y.transpose(tuple(qperm))
            pos = {q: i_ for i_, q in enumerate(qperm)}
        ax = tuple(sorted(pos[q] for q in hard_single))
        z = y.unfuse_legs(axes=ax) if ax else y            # ONE call for all hard-fused legs
        inter.append(z)
        # now unfuse what is still fused: meta legs, then the hard legs inside them
        for _ in range(2):                                  # (plain legs are left alone by unfuse_legs)
            z = z.unfuse_legs(axes=tuple(range(z.ndim)))
        return z

    def oracle(c):
        lg = list(a.get_legs())
        seq = qperm if use_perm else list(range(len(mgroups)))
        flat = []
        for q in seq:
            mg = mgroups[q]
            for gi in (mg if isinstance(mg, tuple) else (mg,)):
                g = groups[gi]
                flat += list(g) if isinstance(g, tuple) else [g]
        return dict(dense=dense(a).transpose(flat), legs={k: lg[i_] for k, i_ in enumerate(flat)}, n=a.n)
    return dict(fn=fn, oracle=oracle, operands=[a], intermediates=inter,
                describe=dict(sym=sym, op='mixed_unfuse', groups=groups, mgroups=mgroups, perm=qperm if use_perm else None, trans=a.trans))


def _sc_disjoint_fused(rng, sym, cfg):
    """contraction over hard-fused legs whose histories share an effective charge with DISJOINT internal content of equal dimension
    (a holds (0,q)->q, b holds (q,0)->q) while another shared charge matches completely: the disjoint sector must contribute nothing"""
    zero = tuple(cfg.sym.zero())
    q = zero
    for _ in range(20):
        q = rcharge(rng, sym)
        if q != zero:
            break
    if q == zero:
        raise Skip('no non-zero charge drawn')
    d = rng.randint(1, 2)
    s1 = rng.choice([1, -1])
    both = sorted([zero, q])
    la1 = yastn.Leg(cfg, s=s1, t=[zero], D=[d])
    la2 = yastn.Leg(cfg, s=s1, t=both, D=[d, d])
    lb1 = yastn.Leg(cfg, s=-s1, t=both, D=[d, d])
    lb2 = yastn.Leg(cfg, s=-s1, t=[zero], D=[d])
    nq = tuple(int(v) for v in np.atleast_1d(cfg.sym.add_charges(q, signatures=(-1,), new_signature=1)))
    ts3 = sorted({zero, q, nq})
    x = yastn.Leg(cfg, s=rng.choice([1, -1]), t=ts3, D=[rng.randint(1, 2) for _ in ts3])
    y = yastn.Leg(cfg, s=rng.choice([1, -1]), t=ts3, D=[rng.randint(1, 2) for _ in ts3])
    a = rtensor(rng, cfg, [x, la1, la2], n=rng.choice([zero, q, nq]))
    b = rtensor(rng, cfg, [lb1, lb2, y], n=rng.choice([zero, q, nq]))
    if a.size == 0 or b.size == 0:
        raise Skip('empty operand')
    mode = rng.choice(['hard', 'hard', 'meta'])
    what = rng.choice(['dot', 'dot', 'trace'])

    def fn():
        fa = a.fuse_legs(axes=(0, (1, 2)), mode=mode)
        fb = b.fuse_legs(axes=((0, 1), 2), mode=mode)
        if what == 'dot':
            return yastn.tensordot(fa, fb, axes=(1, 0))
        t = yastn.tensordot(fa, fb, axes=((), ()))          # x F F' y
        return t.trace(axes=(1, 2))

    def oracle(c):
        u1 = yastn.legs_union(la1, lb1.conj()); u2 = yastn.legs_union(la2, lb2.conj())
        da = dense(a, {0: x, 1: u1, 2: u2}); db = dense(b, {0: u1.conj(), 1: u2.conj(), 2: y})
        return dict(dense=np.tensordot(da, db, axes=((1, 2), (0, 1))), legs={0: x, 1: y}, n=cfg.sym.add_charges(a.n, b.n))
    return dict(fn=fn, oracle=oracle, operands=[a, b], describe=dict(sym=sym, op='disjoint_fused', mode=mode, what=what, q=q, d=d))


def _sc_relabel_fused(rng, sym, cfg):
    """+ / - / vdot / tensordot of hard-fused operands whose fused sub-legs have IDENTICAL dimension tuples but DIFFERENT charges
    (the union of the two fusion histories is needed although no dimension differs)"""
    k = rng.randint(2, 3)
    la = [rleg(rng, cfg, sym, maxD=2, nsec=2) for _ in range(k)]
    lb = list(la)
    changed = False
    for i in rng.sample(range(k), k):
        for _ in range(30):
            cand = perturb_leg(rng, cfg, sym, la[i])
            if cand.D == la[i].D and cand.t != la[i].t:
                lb[i] = cand
                changed = True
                break
        if changed and rng.random() < 0.6:
            break
    if not changed:
        raise Skip('no relabelling found')
    x = rleg(rng, cfg, sym, maxD=2)
    n = allowed_charge(rng, cfg, sym, [x] + la)
    a = rtensor(rng, cfg, [x] + la, n=n)
    b = rtensor(rng, cfg, [x] + lb, n=n)
    if a.size == 0 or b.size == 0:
        raise Skip('empty operand')
    what = rng.choice(['add', 'sub', 'vdot', 'dot'])
    inter = []

    def fn():
        fa = a.fuse_legs(axes=(0, tuple(range(1, k + 1))), mode='hard')
        fb = b.fuse_legs(axes=(0, tuple(range(1, k + 1))), mode='hard')
        if what in ('add', 'sub'):
            r_ = fa + fb if what == 'add' else fa - fb
            inter.append(r_)
            return r_.unfuse_legs(axes=1)
        if what == 'vdot':
            return yastn.vdot(fa, fb)
        return yastn.tensordot(fa, fb.conj(), axes=(1, 1))

    def oracle(c):
        un = {0: x}
        un.update({i + 1: yastn.legs_union(la[i], lb[i]) for i in range(k)})
        da, db = dense(a, un), dense(b, un)
        if what in ('add', 'sub'):
            return dict(dense=da + db if what == 'add' else da - db, legs=un, n=n)
        if what == 'vdot':
            return dict(number=np.sum(da.conj() * db))
        axs = tuple(range(1, k + 1))
        return dict(dense=np.tensordot(da, db.conj(), axes=(axs, axs)), legs={0: x, 1: x.conj()}, n=cfg.sym.zero())
    return dict(fn=fn, oracle=oracle, operands=[a, b], intermediates=inter, describe=dict(sym=sym, op='relabel_fused', what=what, k=k))


def _sc_extend_fused(rng, sym, cfg):
    """+ / - (both orders) of hard-fused operands where the fused sub-legs of one operand are those of the other plus extra sectors at distant
    charges: the smaller operand may need no embedding at all, yet the result has to carry the union of the two fusion histories"""
    k = rng.randint(2, 3)
    la = [rleg(rng, cfg, sym, maxD=2, nsec=rng.choice([1, 2])) for _ in range(k)]
    lb = list(la)
    for i in rng.sample(range(k), rng.randint(1, k)):
        tD = dict(zip(la[i].t, la[i].D))
        far = tuple((rng.randrange(m) if m is not None else rng.choice([-7, -5, 5, 6])) for m in MODULI[sym])
        if far in tD:
            continue
        tD[far] = 1 + sum(abs(x_) for x_ in far) % 3
        ts = sorted(tD)
        lb[i] = yastn.Leg(cfg, s=la[i].s, t=ts, D=[tD[t_] for t_ in ts])
    if lb == la:
        raise Skip('no extension found')
    x = rleg(rng, cfg, sym, maxD=2)
    xb = x
    if rng.random() < 0.7:       # the other leg of the larger operand reaches the new effective charges
        xb = perturb_leg(rng, cfg, sym, x)
    n = allowed_charge(rng, cfg, sym, [x] + la)
    a = rtensor(rng, cfg, [x] + la, n=n)
    b = rtensor(rng, cfg, [xb] + lb, n=n)
    if a.size == 0 or b.size == 0:
        raise Skip('empty operand')
    what = rng.choice(['add', 'radd', 'sub', 'sub', 'sub', 'rsub'])
    inter = []

    def fn():
        fa = a.fuse_legs(axes=(0, tuple(range(1, k + 1))), mode='hard')
        fb = b.fuse_legs(axes=(0, tuple(range(1, k + 1))), mode='hard')
        r_ = {'add': lambda: fa + fb, 'radd': lambda: fb + fa, 'sub': lambda: fa - fb, 'rsub': lambda: fb - fa}[what]()
        inter.append(r_)
        return r_.unfuse_legs(axes=1)

    def oracle(c):
        un = {0: yastn.legs_union(x, xb)}
        un.update({i + 1: yastn.legs_union(la[i], lb[i]) for i in range(k)})
        da, db = dense(a, un), dense(b, un)
        return dict(dense={'add': da + db, 'radd': da + db, 'sub': da - db, 'rsub': db - da}[what], legs=un, n=n)
    return dict(fn=fn, oracle=oracle, operands=[a, b], intermediates=inter, describe=dict(sym=sym, op='extend_fused', what=what, k=k))


def sc_fuse(rng, opts):
    """fuse (hard/meta, nested) ; unfuse restores; operations over fused legs equal operations over original legs"""
    sym, cfg = pick_cfg(rng, opts)
    if opts.get('variant') == 'extend_fused':
        if sym == 'dense':
            raise Skip('no sectors to extend')
        return _sc_extend_fused(rng, sym, cfg)
    r = rng.randint(2, 5)
    la = [rleg(rng, cfg, sym, maxD=2) for _ in range(r)]
    a = rtensor(rng, cfg, la, n=allowed_charge(rng, cfg, sym, la), cplx=rng.random() < 0.3, drop=rng.choice([0, 0.3]))
    a, pa = lazy(rng, a, p=0.4)
    # random partition of a random order into groups
    order = list(range(r)); rng.shuffle(order)
    groups, i = [], 0
    while i < r:
        k = rng.randint(1, min(3, r - i))
        g = tuple(order[i:i + k])
        groups.append(g if len(g) > 1 else g[0])
        i += k
    mode_r = rng.choice(['hard', 'meta'])
    mode = opts.get('mode') or mode_r
    depth2 = rng.random() < 0.4 and len(groups) >= 2
    mode2 = rng.choice(['hard', 'meta'])
    op = rng.choice(['roundtrip', 'norm', 'dense', 'dot', 'add', 'vdot', 'roundtrip_transposed', 'roundtrip_transposed', 'add_transposed', 'add_transposed', 'add3', 'mixed_unfuse', 'mixed_unfuse'])
    if op == 'mixed_unfuse' and not opts.get('mode'):
        return _sc_mixed_unfuse(rng, sym, cfg)
    if op in ('add3', 'vdot', 'norm') and sym != 'dense' and not opts.get('mode') and rng.random() < 0.5:
        return _sc_disjoint_fused(rng, sym, cfg)
    if op in ('add', 'dot', 'dense') and sym != 'dense' and not opts.get('mode'):
        r_ = rng.random()
        if r_ < 0.3:
            return _sc_relabel_fused(rng, sym, cfg)
        if r_ < 0.5:
            return _sc_extend_fused(rng, sym, cfg)
    flat = [x for g in groups for x in (g if isinstance(g, tuple) else (g,))]
    qperm = list(range(len(groups))); rng.shuffle(qperm)
    consume_first = rng.random() < 0.3

    def fuse(x):
        y = x.fuse_legs(axes=tuple(groups), mode=mode)
        if depth2:
            y = y.fuse_legs(axes=((0, 1),) + tuple(range(2, y.ndim)), mode=mode2)
        return y

    neg_axes = rng.random() < 0.3       # axes counted from the end

    def unfuse(y):
        if depth2:
            y = y.unfuse_legs(axes=-y.ndim if neg_axes else 0)
        ax = [k for k, g in enumerate(groups) if isinstance(g, tuple)]
        if neg_axes:
            ax = [k - y.ndim for k in ax]
        return y.unfuse_legs(axes=tuple(ax)) if ax else y
    # partner with conj legs and (sometimes) different sector content
    lb = [l.conj() if rng.random() < 0.6 else perturb_leg(rng, cfg, sym, l).conj() for l in a.get_legs()]
    b = rtensor(rng, cfg, lb, n=allowed_charge(rng, cfg, sym, lb), cplx=rng.random() < 0.3, drop=rng.choice([0, 0.3]))
    c2 = rtensor(rng, cfg, [l.conj() for l in lb], n=a.n, cplx=False, drop=rng.choice([0, 0.3]))

    inter = []

    def fn():
        fa = fuse(a)
        if op == 'roundtrip':
            return unfuse(fa)
        if op == 'add3':
            # three fused operands: the first and the last share their fusion history, the middle one has different sector content
            a3 = rtensor(random.Random(r * 7919 + len(groups)), cfg, list(a.get_legs()), n=a.n, cplx=False)
            fn.a3 = a3
            s3 = yastn.add(fa, fuse(c2), fuse(a3))
            inter.append(s3)
            return unfuse(s3)
        if op == 'add_transposed':
            # both (hard- or meta-) fused operands carry the SAME pending transposition; their fused legs differ in sector content
            f1 = a.fuse_legs(axes=tuple(groups), mode=mode).transpose(tuple(qperm))
            f2 = c2.fuse_legs(axes=tuple(groups), mode=mode).transpose(tuple(qperm))
            ax = tuple(k for k, gi in enumerate(qperm) if isinstance(groups[gi], tuple))
            r_ = f1 + f2
            inter.append(r_)
            return r_.unfuse_legs(axes=ax) if ax else r_
        if op == 'roundtrip_transposed':
            # fuse (one level), transpose the fused tensor lazily, then unfuse all fused legs at once
            f1 = a.fuse_legs(axes=tuple(groups), mode=mode)
            t1 = f1.transpose(tuple(qperm))
            if consume_first:
                t1 = t1.consume_transpose()
            ax = tuple(k for k, gi in enumerate(qperm) if isinstance(groups[gi], tuple))
            return t1.unfuse_legs(axes=ax) if ax else t1
        if op == 'norm':
            return fa.norm() ** 2
        if op == 'dense':
            return fa
        if op == 'dot':
            fb = fuse(b)
            nf = fa.ndim
            return yastn.tensordot(fa, fb, axes=(tuple(range(nf)), tuple(range(nf))))
        if op == 'add':
            s2 = fa + fuse(c2)
            inter.append(s2)
            return unfuse(s2)
        return yastn.vdot(fa, fuse(c2))

    def oracle(c):
        lg = list(a.get_legs())
        if op == 'roundtrip':
            return dict(dense=dense(a).transpose(flat), legs={k: lg[i] for k, i in enumerate(flat)}, n=a.n)
        if op == 'roundtrip_transposed':
            fl2 = [x for gi in qperm for x in (groups[gi] if isinstance(groups[gi], tuple) else (groups[gi],))]
            return dict(dense=dense(a).transpose(fl2), legs={k: lg[i] for k, i in enumerate(fl2)}, n=a.n)
        if op == 'add3':
            un3 = {i: yastn.legs_union(lg[i], c2.get_legs(i)) for i in range(r)}
            return dict(dense=(dense(a, un3) + dense(c2, un3) + dense(fn.a3, un3)).transpose(flat), legs={k: un3[i] for k, i in enumerate(flat)}, n=a.n)
        if op == 'add_transposed':
            fl2 = [x for gi in qperm for x in (groups[gi] if isinstance(groups[gi], tuple) else (groups[gi],))]
            un2 = {i: yastn.legs_union(lg[i], c2.get_legs(i)) for i in range(r)}
            return dict(dense=(dense(a, un2) + dense(c2, un2)).transpose(fl2), legs={k: un2[i] for k, i in enumerate(fl2)}, n=a.n)
        if op == 'norm':
            return dict(number=np.sum(np.abs(dense(a)) ** 2))
        if op == 'dense':
            return dict(fused_of=dense(a).transpose(flat), n=a.n, total=np.sum(dense(a)), sumsq=np.sum(np.abs(dense(a)) ** 2))
        un = {i: yastn.legs_union(lg[i], (b if op == 'dot' else c2).get_legs(i).conj() if op == 'dot' else c2.get_legs(i)) for i in range(r)}
        da = dense(a, un)
        if op == 'dot':
            db = dense(b, {i: un[i].conj() for i in range(r)})
            return dict(number=np.sum(da * db), as_tensor=True)
        dc = dense(c2, un)
        if op == 'add':
            return dict(dense=(da + dc).transpose(flat), legs={k: un[i] for k, i in enumerate(flat)}, n=a.n)
        return dict(number=np.sum(da.conj() * dc))
    return dict(fn=fn, oracle=oracle, operands=[a, b, c2], intermediates=inter, describe=dict(sym=sym, op=op, groups=groups, mode=mode, depth2=depth2, mode2=mode2,
                trans=a.trans, policy=cfg.tensordot_policy))


def parity(cfg, t):
    f = cfg.fermionic
    if f is False:
        return 0
    if f is True:
        return sum(t) % 2
    return sum(x for x, fl in zip(t, f) if fl) % 2


def sc_swap(rng, opts):
    sym = opts.get('sym') or rng.choice(['Z2', 'U1', 'U1xU1', 'U1xU1xZ2', 'Z2xU1'])
    ferm = opts.get('fermionic', None)
    if ferm is None:
        ferm = rng.choice(FERMIONIC_OK[sym])
    pol_r = rng.choice(POLICIES)
    FORCE_CONSUME[0] = bool(opts.get('consume'))
    cfg = make_cfg(sym, ferm, opts.get('policy') or pol_r)
    r = rng.randint(2, 5)
    la = [rleg(rng, cfg, sym, maxD=2) for _ in range(r)]
    a = rtensor(rng, cfg, la, n=allowed_charge(rng, cfg, sym, la), cplx=rng.random() < 0.3, drop=rng.choice([0, 0.3]))
    a, pa = lazy(rng, a)
    idx = list(range(r)); rng.shuffle(idx)
    k1 = rng.randint(1, max(1, r - 1))
    g1 = tuple(idx[:k1]); g2 = tuple(idx[k1:k1 + rng.randint(1, max(1, r - k1))]) if k1 < r else (idx[0],)
    if not g2:
        g2 = (idx[-1],)
    g1 = g1 if len(g1) > 1 or rng.random() < 0.5 else g1[0]
    g2 = g2 if len(g2) > 1 or rng.random() < 0.5 else g2[0]
    op = rng.choice(['swap', 'swap', 'swap_twice', 'charge'])
    ch = rcharge(rng, sym)

    def fn():
        if op == 'swap':
            return a.swap_gate(axes=(g1, g2))
        if op == 'swap_twice':
            return a.swap_gate(axes=(g1, g2)).swap_gate(axes=(g1, g2))
        return a.swap_gate(axes=g1, charge=ch)

    def oracle(c):
        lg = list(a.get_legs())
        d = dense(a).copy()
        if op == 'swap_twice':
            return dict(dense=d, legs=dict(enumerate(lg)), n=a.n)
        # sign per dense element from per-leg sector parities
        G1 = g1 if isinstance(g1, tuple) else (g1,)
        G2 = g2 if isinstance(g2, tuple) else (g2,)
        nsym = cfg.sym.NSYM
        f = cfg.fermionic
        comps = [] if f is False else (list(range(nsym)) if f is True else [i for i, fl in enumerate(f) if fl])
        def leg_par(l):   # array (dim, ncomp) of parities along the leg's dense index
            rows = []
            for t, D in zip(l.t, l.D):
                rows += [[t[cmp] % 2 for cmp in comps]] * D
            return np.array(rows, dtype=int).reshape(sum(l.D), len(comps))
        sign = np.zeros(d.shape, dtype=int)
        for cmp in range(len(comps)):
            def gp(G):
                tot = np.zeros(d.shape, dtype=int)
                for ax in G:
                    shp = [1] * d.ndim; shp[ax] = d.shape[ax]
                    tot = tot + leg_par(lg[ax])[:, cmp].reshape(shp)
                return tot % 2
            if op == 'swap':
                sign = sign + gp(G1) * gp(G2)
            else:
                sign = sign + gp(G1) * (ch[comps[cmp]] % 2)
        return dict(dense=d * (1 - 2 * (sign % 2)), legs=dict(enumerate(lg)), n=a.n)
    return dict(fn=fn, oracle=oracle, operands=[a], describe=dict(sym=sym, fermionic=ferm, op=op, g1=g1, g2=g2, charge=ch, trans=a.trans))


def sc_ncon(rng, opts):
    """small networks contracted by ncon/einsum vs np.einsum (bosonic)"""
    sym, cfg = pick_cfg(rng, opts)
    shape = rng.choice(['chain3', 'triangle', 'pair_trace', 'outer', 'full'])
    mk = lambda: rleg(rng, cfg, sym, maxD=2)
    L = [mk() for _ in range(6)]
    if shape == 'chain3':   # A[a,b] B[b*,c,d] C[c*,e]  -> a d e
        specs = [([L[0], L[1]], [-1, 1]), ([L[1].conj(), L[2], L[3]], [1, 2, -2]), ([L[2].conj(), L[4]], [2, -3])]
        es = 'ab,bcd,ce->ade'
    elif shape == 'triangle':   # A[a,b,x] B[b*,c] C[c*,a*,y]
        specs = [([L[0], L[1], L[2]], [1, 2, -1]), ([L[1].conj(), L[3]], [2, 3]), ([L[3].conj(), L[0].conj(), L[4]], [3, 1, -2])]
        es = 'abx,bc,cay->xy'
    elif shape == 'full':   # A[a,b] B[b*,a*] -> scalar (explicit empty output)
        specs = [([L[0], L[1]], [1, 2]), ([L[1].conj(), L[0].conj()], [2, 1])]
        es = 'ab,ba->'
    elif shape == 'pair_trace':   # A[a,a*,b] B[b*,c]
        specs = [([L[0], L[0].conj(), L[1]], [1, 1, 2]), ([L[1].conj(), L[2]], [2, -1])]
        es = 'aab,bc->c'
    else:
        specs = [([L[0]], [-2]), ([L[1], L[2]], [-1, -3])]
        es = 'b,ac->abc'
    ts = [rtensor(rng, cfg, lg, n=allowed_charge(rng, cfg, sym, lg), cplx=rng.random() < 0.2) for lg, _ in specs]
    inds = [list(i) for _, i in specs]
    conjs = [rng.choice([0, 0, 1]) if shape == 'outer' else 0 for _ in ts]
    use_einsum = rng.random() < 0.4 and shape != 'pair_trace'
    # random contraction order over positive labels
    pos = sorted({i for ii in inds for i in ii if i > 0})
    order = pos[:]; rng.shuffle(order)
    if shape == 'pair_trace':
        order = [1, 2]      # ncon insists on traces first
    if use_einsum:
        conjs = [0 for _ in ts]

    implicit = use_einsum and rng.random() < 0.4 and sorted(es.split('->')[1]) == list(es.split('->')[1])
    # (implicit mode of np.einsum: no '->', output indices in alphabetical order; usable when the explicit output is already alphabetical)
    es_call = es.split('->')[0] if implicit else es

    def fn():
        if use_einsum:
            return yastn.einsum(es_call, *ts, order=None)
        return yastn.ncon(ts, inds, conjs=conjs, order=order if order else None)

    def oracle(c):
        ds = [dense(t, dict(enumerate(lg))) for t, (lg, _) in zip(ts, specs)]
        ds = [d.conj() if cj else d for d, cj in zip(ds, conjs)]
        ref = np.einsum(es, *ds)
        n = cfg.sym.zero()
        for t, cj in zip(ts, conjs):
            n = cfg.sym.add_charges(n, t.n, signatures=(1, -1 if cj else 1))
        out = {}
        for (lg, ii), cj in zip(specs, conjs):
            for l, i in zip(lg, ii):
                if i < 0:
                    out[-i - 1] = l.conj() if cj else l
        return dict(dense=ref, legs=out, n=n)
    return dict(fn=fn, oracle=oracle, operands=ts, describe=dict(sym=sym, shape=shape, order=order, einsum=es_call if use_einsum else None, conjs=conjs, policy=cfg.tensordot_policy))


def sc_chain(rng, opts):
    """a finite sequence of public operations applied to a tensor, with the dense value tracked by NumPy alongside"""
    sym, cfg = pick_cfg(rng, opts)
    r = rng.randint(1, 3)
    la = [rleg(rng, cfg, sym, maxD=2) for _ in range(r)]
    a0 = rtensor(rng, cfg, la, n=allowed_charge(rng, cfg, sym, la), cplx=rng.random() < 0.2, drop=rng.choice([0, 0.2]))
    nsteps = opts.get('steps') or rng.randint(2, 7)
    plan = [rng.choice(['transpose', 'conj', 'scale', 'add', 'dot', 'fuse_unfuse', 'add_remove_leg', 'fuse_keep', 'copy', 'svd_recombine'])
            for _ in range(nsteps)]
    seeds = [rng.randrange(10 ** 9) for _ in range(nsteps)]
    inter = []

    def fn2():
        del inter[:]
        x = a0
        d = dense(a0)
        lg = list(a0.get_legs()) if a0.ndim else []
        ok = True
        for step, sd in zip(plan, seeds):
            rr = random.Random(sd)
            if x.ndim > 5 and step == 'dot':
                step = 'transpose'
            if step == 'transpose' and x.ndim >= 2:
                p = list(range(x.ndim)); rr.shuffle(p)
                x = x.transpose(tuple(p)); d = d.transpose(p); lg = [lg[i] for i in p]
            elif step == 'conj':
                x = x.conj(); d = d.conj(); lg = [l.conj() for l in lg]
            elif step == 'scale':
                k = rr.choice([-1, 2, 3]); x = k * x; d = k * d
            elif step == 'add' and x.ndim and all(m == (1,) for m in x.mfs):
                y = rtensor(rr, cfg, lg, n=x.n, cplx=False, drop=rr.choice([0, 0.4]))
                x = x + y; d = d + dense(y, dict(enumerate(lg)))
            elif step == 'dot' and x.ndim >= 1 and all(m == (1,) for m in x.mfs):
                nc = rr.randint(1, min(2, x.ndim))
                axx = rr.sample(range(x.ndim), nc)
                newl = [rleg(rr, cfg, sym, maxD=2) for _ in range(rr.randint(0, 2))]
                lb = [lg[i].conj() for i in axx] + newl
                y = rtensor(rr, cfg, lb, n=allowed_charge(rr, cfg, sym, lb), cplx=False, drop=rr.choice([0, 0.3]))
                dy = dense(y, dict(enumerate(lb)))
                x = yastn.tensordot(x, y, axes=(axx, list(range(nc))))
                d = np.tensordot(d, dy, axes=(axx, list(range(nc))))
                lg = [lg[i] for i in range(len(lg)) if i not in axx] + newl
            elif step in ('fuse_unfuse', 'fuse_keep') and x.ndim >= 2 and all(m == (1,) for m in x.mfs):
                i = rr.randrange(x.ndim - 1)
                axes = tuple(range(i)) + ((i, i + 1),) + tuple(range(i + 2, x.ndim))
                y = x.fuse_legs(axes=axes, mode=rr.choice(['hard', 'meta']))
                inter.append(y)
                x = y.unfuse_legs(axes=i)
            elif step == 'add_remove_leg' and x.size > 0:
                ax = rr.randint(0, x.ndim)
                y = x.add_leg(axis=ax, s=rr.choice([1, -1]))
                inter.append(y)
                x = y.remove_leg(axis=ax)
            elif step == 'copy':
                x = x.copy() if rr.random() < 0.5 else x.consume_transpose()
            elif step == 'svd_recombine' and x.ndim >= 2 and x.size > 0 and all(m == (1,) for m in x.mfs):
                nl = rr.randint(1, x.ndim - 1)
                U, S, V = yastn.svd(x, axes=(tuple(range(nl)), tuple(range(nl, x.ndim))), sU=rr.choice([1, -1]), nU=rr.random() < 0.5)
                inter.extend([U, S, V])
            inter.append(x)
        fn2.expected = dict(dense=d, legs=dict(enumerate(lg)), n=None)
        return x
    return dict(fn=fn2, oracle=lambda c: fn2.expected, operands=[a0], intermediates=inter,
                describe=dict(sym=sym, plan=plan, policy=cfg.tensordot_policy, legs=str(a0.get_legs()) if a0.ndim else '()'))


def stale_sum_history(a):
    """does some leg of `a` carry a direct-sum ('s') history whose children imply top-level sectors/dimensions that the tensor's
    blocks no longer have?  (the structural condition of known finding C03-nested-block)"""
    lg = a.get_legs()
    lg = lg if isinstance(lg, (list, tuple)) else (lg,)
    for l in lg:
        hf = l.hf
        if hf.op and hf.op[0] == 's':
            implied = {}
            # direct children: walk the linearised tree
            k, child = 1, 0
            while k < len(hf.tree):
                tt, DD = hf.t[k - 1], hf.D[k - 1]
                for t_, D_ in zip(tt, DD):
                    implied[t_] = implied.get(t_, 0) + D_
                k += hf.tree[k] if False else _subtree_len(hf.tree, k)
            actual = dict(zip(l.t, l.D))
            if any(actual.get(t_, 0) != D_ for t_, D_ in implied.items()):
                return True
    return False


def _subtree_len(tree, k):
    """number of entries of the linearised subtree starting at position k (tree[k] = number of original legs below it)"""
    need, j = tree[k], k + 1
    if need == 1:
        return 1
    got = 0
    while got < need:
        sl = _subtree_len(tree, j)
        got += tree[j]
        j += sl
    return j - k


def _sc_block_fused_common(rng, sym, cfg):
    """block() along one leg while the COMMON leg is hard-fused and the parts differ in the sector content of its constituents"""
    m = rng.randint(2, 3)
    c1, c2 = rleg(rng, cfg, sym, maxD=2), rleg(rng, cfg, sym, maxD=2)
    c1s = [c1 if rng.random() < 0.4 else perturb_leg(rng, cfg, sym, c1) for _ in range(m)]
    c2s = [c2 if rng.random() < 0.4 else perturb_leg(rng, cfg, sym, c2) for _ in range(m)]
    sb = rng.choice([1, -1])
    same_b = rng.random() < 0.5
    b0 = rleg(rng, cfg, sym, s=sb, maxD=2)
    bs = [b0 if same_b else rleg(rng, cfg, sym, s=sb, maxD=2) for _ in range(m)]
    n = allowed_charge(rng, cfg, sym, [c1s[0], c2s[0], bs[0]])
    parts = [rtensor(rng, cfg, [c1s[p], c2s[p], bs[p]], n=n, cplx=False, drop=rng.choice([0, 0.3])) for p in range(m)]
    first = rng.random() < 0.5          # position of the blocked leg

    def fn():
        fps = [t.fuse_legs(axes=((0, 1), 2), mode='hard') for t in parts]
        if first:
            fps = [t.transpose((1, 0)) for t in fps]
        B = yastn.block({(p,): t for p, t in enumerate(fps)}, common_legs=(1,) if first else (0,))
        B = B.transpose((1, 0)) if first else B
        return B.unfuse_legs(axes=0)

    def oracle(c):
        u1 = yastn.legs_union(*c1s) if sym != 'dense' else c1
        u2 = yastn.legs_union(*c2s) if sym != 'dense' else c2
        bs = [t.get_legs(2) for t in parts]        # block() lays out the sectors its operands actually have
        ds = [dense(t, {0: u1, 1: u2, 2: bs[p]}) for p, t in enumerate(parts)]
        if sym == 'dense':
            arr = np.concatenate(ds, axis=2)
            bl = yastn.Leg(cfg, s=sb, D=[arr.shape[2]])
        else:
            ts_all = sorted({t for l in bs for t in l.t})
            pieces, tot = [], []
            for tt in ts_all:
                Dt = 0
                for p in range(m):
                    tD = dict(zip(bs[p].t, bs[p].D))
                    if tt in tD:
                        off = sum(D for t2, D in zip(bs[p].t, bs[p].D) if t2 < tt)
                        pieces.append(ds[p][:, :, off:off + tD[tt]])
                        Dt += tD[tt]
                tot.append(Dt)
            if not pieces:
                raise Skip('all parts are empty')
            arr = np.concatenate(pieces, axis=2)
            bl = yastn.Leg(cfg, s=sb, t=ts_all, D=tot)
        return dict(dense=arr, legs={0: u1, 1: u2, 2: bl}, n=n, drop_history=True)
    return dict(fn=fn, oracle=oracle, operands=parts, describe=dict(sym=sym, op='block_fused_common', m=m, first=first, same_b=same_b))


def sc_block(rng, opts):
    """block(): direct sum along one leg (others common), optionally nested; the blocked tensor and operations over the blocked leg"""
    sym, cfg = pick_cfg(rng, opts)
    if rng.random() < 0.25 and not opts.get('mode'):
        return _sc_block_fused_common(rng, sym, cfg)
    r = rng.randint(2, 3)
    k = rng.randrange(r)
    m = rng.randint(2, 3)
    common = [rleg(rng, cfg, sym, maxD=2) for _ in range(r)]
    nested = rng.random() < 0.45
    npos = m * (2 if nested else 1)
    blegs = [rleg(rng, cfg, sym, s=common[k].s, maxD=2) for _ in range(npos)]
    n = allowed_charge(rng, cfg, sym, common[:k] + [blegs[0]] + common[k + 1:])
    op = rng.choice(['dense', 'dot', 'add', 'vdot'])

    def mk(p, conj=False, drop=None):
        lg = common[:k] + [blegs[p]] + common[k + 1:]
        if conj:
            lg = [l.conj() for l in lg]
        nn = n if not conj else (cfg.sym.add_charges(n, new_signature=-1) if sym != 'dense' else None)
        return rtensor(rng, cfg, lg, n=nn, cplx=False, drop=rng.choice([0, 0.3]) if drop is None else drop)
    parts = [mk(p) for p in range(npos)]
    partner = [mk(p, conj=(op in ('dot',)), drop=0) for p in range(npos)]
    cl = tuple(i for i in range(r) if i != k)

    # nested blocking where an inner block loses sectors AFTER it was blocked (projector on a common leg + remove_zero_blocks):
    # its blocked leg then carries a direct-sum history richer than its blocks
    project = nested and r >= 2 and rng.random() < 0.5
    pc = rng.choice(cl) if cl else None
    pq = rng.randrange(m)
    Pm = None
    if project and sym != 'dense':
        lc = common[pc]
        Pm = yastn.zeros(cfg, legs=[lc.conj(), lc], isdiag=True)
        keepmask = [1.0 if rng.random() < 0.5 else 0.0 for _ in range(Pm.size)]
        Pm._data = np.array(keepmask, dtype=np.float64)
    else:
        project = False
    if project and op == 'add':
        op = 'vdot'       # the layout of a sum depends on which sectors survive; contracted results do not

    def blk(ts, masked=True):
        if not nested:
            return yastn.block({(p,): t for p, t in enumerate(ts)}, common_legs=cl)
        inner = [yastn.block({(0,): ts[2 * q], (1,): ts[2 * q + 1]}, common_legs=cl) for q in range(m)]
        if project and masked:
            inner[pq] = Pm.broadcast(inner[pq], axes=pc).remove_zero_blocks()
        return yastn.block({(q,): t for q, t in enumerate(inner)}, common_legs=cl)

    def fn():
        A = blk(parts)
        if op == 'dense':
            fn.stale = stale_sum_history(A)
            return A
        B = blk(partner, masked=False)
        fn.stale = stale_sum_history(A) or stale_sum_history(B)
        if op == 'dot':
            return yastn.tensordot(A, B, axes=(k, k))
        if op == 'add':
            return A + B
        return yastn.vdot(A, B)
    fn.stale = False

    def dense_block(ts, conj=False):
        """expected dense array and blocked leg: sector-major, positions in ascending order inside a sector"""
        # 'dense' compares the layout of the blocked leg itself: block() lays out the sectors its operands actually have
        bl_ = [t.get_legs(k) if op == 'dense' else blegs[p] for p, t in enumerate(ts)]
        return _dense_block_with(ts, bl_, conj)

    def _dense_block_with(ts, blegs, conj):
        ts_all = sorted({t for p in range(npos) for t in blegs[p].t})
        lgs = common[:k] + [None] + common[k + 1:]
        ds = []
        for p, t in enumerate(ts):
            emb = dict(enumerate(lgs))
            emb[k] = blegs[p]
            if conj:
                emb = {i: l.conj() for i, l in emb.items()}
            ds.append(dense(t, emb))
        pieces, tot = [], []
        for tt in ts_all:
            Dt = 0
            for p in range(npos):
                tD = dict(zip(blegs[p].t, blegs[p].D))
                if tt in tD:
                    off = sum(D for t2, D in zip(blegs[p].t, blegs[p].D) if t2 < tt)
                    pieces.append(np.take(ds[p], range(off, off + tD[tt]), axis=k))
                    Dt += tD[tt]
            tot.append(Dt)
        arr = np.concatenate(pieces, axis=k) if pieces else np.zeros([0] * r)
        return arr, ts_all, tot

    def oracle(c):
        eff = list(parts)
        if project:
            for p in (2 * pq, 2 * pq + 1):
                eff[p] = Pm.broadcast(parts[p], axes=pc)
                if op == 'dense':
                    eff[p] = eff[p].remove_zero_blocks()
        arrA, ts_all, tot = dense_block(eff)
        if op == 'dense':
            if sym == 'dense':
                bl = yastn.Leg(cfg, s=common[k].s, D=[sum(tot)])
            else:
                bl = yastn.Leg(cfg, s=common[k].s, t=ts_all, D=tot)
            lg = dict(enumerate(common)); lg[k] = bl
            if project:
                # the inner block keeps its full blocked dimension for sectors that survive in either part: compare content only
                return dict(dense=arrA, sum_of=(arrA,), n=n)
            return dict(dense=arrA, legs=lg, n=n, drop_history=True, allow_empty_shape=True)
        arrB, _, _ = dense_block(partner, conj=(op == 'dot'))
        if op == 'dot':
            ref = np.tensordot(arrA, arrB, axes=(k, k))
            lga = [common[i] for i in cl]
            return dict(dense=ref, legs=dict(enumerate(lga + [l.conj() for l in lga])), n=cfg.sym.zero() if sym != 'dense' else ())
        if op == 'add':
            return dict(dense=arrA + arrB, legs=None, n=n, skip_embed=True, sum_of=(arrA, arrB))
        return dict(number=np.sum(arrA.conj() * arrB))
    return dict(fn=fn, oracle=oracle, operands=parts + partner, describe=dict(sym=sym, op=op, axis=k, nested=nested, project=project, npos=npos, policy=cfg.tensordot_policy))


SCENARIOS = dict(tensordot=sc_tensordot, add=sc_add, unary=sc_unary, trace=sc_trace, vdot=sc_vdot, diag=sc_diag_ops, legs=sc_legs,
                 fuse=sc_fuse, swap=sc_swap, ncon=sc_ncon, chain=sc_chain, block=sc_block)


def build(kind, seed, opts=None):
    rng = random.Random('%s-%d' % (kind, seed))
    return SCENARIOS[kind](rng, dict(opts or {}))


def compare(res, exp, cfg_sym_zero=None):
    """returns None if the implementation result matches the oracle's expectation, else a description"""
    if 'number' in exp:
        val = res.to_number() if hasattr(res, 'to_number') else res
        if not np.allclose(complex(val), complex(exp['number']), rtol=1e-12, atol=1e-9):
            return 'number %r != expected %r' % (val, exp['number'])
        return None
    if 'fused_of' in exp:
        d = res.to_numpy()
        full = exp['fused_of']
        if not np.isclose(np.sum(np.abs(d) ** 2), exp['sumsq']) or not np.isclose(np.sum(d), exp['total']):
            return 'fused tensor does not preserve elements (sum / sum of squares differ)'
        if tuple(res.n) != tuple(exp['n']):
            return 'charge %r != %r' % (res.n, exp['n'])
        return None
    if exp.get('n') is not None and tuple(res.n) != tuple(exp['n']):
        return 'charge %r != expected %r' % (res.n, exp['n'])
    if not res.is_consistent():
        return 'result is not consistent'
    if exp.get('isdiag') is not None and bool(res.isdiag) != bool(exp['isdiag']):
        return 'isdiag flag differs'
    if exp.get('sum_of') is not None:
        d = res.to_numpy()
        ref = exp['dense']
        # the result lists only sectors with blocks: compare total sum, sum of squares and shape-insensitive multiset of values
        if not (np.isclose(np.sum(d), np.sum(ref)) and np.isclose(np.sum(np.abs(d) ** 2), np.sum(np.abs(ref) ** 2))):
            return 'sum of blocked tensors differs from the dense sum (sum / sum of squares)'
        return None
    if exp.get('drop_history'):
        res = res.drop_leg_history()
    try:
        if exp.get('legs') is not None:
            rl = res.get_legs()
            rl = [rl] if isinstance(rl, yastn.Leg) else list(rl)
            if exp['legs'] and max(exp['legs']) >= len(rl):
                return 'result has %d legs, expected %d' % (len(rl), max(exp['legs']) + 1)
            for i, l in exp['legs'].items():
                if rl[i].s != l.s:
                    return 'signature of result leg %d is %d, expected %d' % (i, rl[i].s, l.s)
            d = res.to_numpy(legs=exp['legs'])
        else:
            d = res.to_numpy()
            if exp.get('signatures') is not None and list(res.s) != list(exp['signatures']):
                return 'signature %r != expected %r' % (res.s, exp['signatures'])
    except yastn.YastnError as e:
        return 'result does not embed into the expected legs: %s' % e
    ref = exp['dense']
    if exp.get('allow_empty_shape') and ref.size == 0 and d.size == 0:
        return None
    if d.shape != ref.shape:
        return 'shape %r != expected %r' % (d.shape, ref.shape)
    if exp.get('inexact'):
        ok = np.allclose(d, ref, rtol=1e-12, atol=1e-12)
    else:
        ok = np.array_equal(d, ref)
    if not ok:
        bad = np.argwhere(d != ref)
        return 'dense values differ at %d positions, first %r: got %r expected %r' % (len(bad), tuple(bad[0]), d[tuple(bad[0])], ref[tuple(bad[0])])
    return None


def views_agree(x):
    """block access (key in x, x[key]), to_numpy (both sector orders), to_nonsymmetric and get_legs describe one and the same array:
    the dense array is re-assembled here from the blocks and the legs alone"""
    if hasattr(x, 'struct') and not x.isdiag and x.ndim != x.ndim_n and x.ndim > 0:
        # meta-fused: the dense image must be a well-formed tensor of the logical rank
        try:
            ns = x.to_nonsymmetric()
            if len(ns.trans) != ns.ndim_n or ns.ndim_n != x.ndim:
                return 'to_nonsymmetric() of a meta-fused tensor has rank %d and a transposition record of length %d' % (ns.ndim_n, len(ns.trans))
            if not np.array_equal(ns.consume_transpose().to_numpy(), x.to_numpy()):
                return 'to_nonsymmetric() of a meta-fused tensor differs from to_numpy()'
        except Exception as e:
            return 'to_nonsymmetric() of a meta-fused tensor is unusable: %s: %s' % (type(e).__name__, e)
        return None
    if not hasattr(x, 'struct') or x.isdiag or x.ndim != x.ndim_n or x.ndim == 0:
        return None
    nsym = x.config.sym.NSYM
    lg = x.get_legs()
    lg = [lg] if isinstance(lg, yastn.Leg) else list(lg)
    nat = [tuple(tuple(t[i * nsym:(i + 1) * nsym]) for i in range(x.ndim_n)) for t in x.struct.t]
    keys = [tuple(k[p] for p in x.trans) for k in nat]          # leg i of the tensor is stored leg trans[i]
    for reverse in (False, True):
        offs = []
        for l in lg:
            o, d = 0, {}
            for t, D in (list(zip(l.t, l.D))[::-1] if reverse else zip(l.t, l.D)):
                d[t] = (o, o + D); o += D
            offs.append((d, o))
        ref = np.zeros([o for _, o in offs], dtype=x.yastn_dtype)
        for k in keys:
            flat = tuple(c for t in k for c in t)
            if nsym and flat not in x:
                return 'block %r is listed but "in" denies it' % (k,)
            try:
                blk = x[flat] if nsym else x[()]
            except yastn.YastnError as e:
                return 'block %r is listed but item access raises: %s' % (k, e)
            try:
                ref[tuple(slice(*offs[i][0][t]) for i, t in enumerate(k))] = blk
            except (KeyError, ValueError) as e:
                return 'block %r does not fit the legs reported by get_legs (%s)' % (k, e)
        try:
            d = x.to_numpy(reverse=reverse)
        except Exception as e:
            return 'to_numpy(reverse=%s) raised %s: %s' % (reverse, type(e).__name__, e)
        if d.shape != ref.shape or not np.array_equal(d, ref):
            return 'to_numpy(reverse=%s) differs from the array assembled from the blocks and get_legs' % reverse
    try:
        ns = x.to_nonsymmetric()
        dn = ns.to_numpy()
        ns.get_legs()
        okc = ns.is_consistent()
    except Exception as e:
        return 'to_nonsymmetric / its to_numpy / get_legs raised %s: %s' % (type(e).__name__, e)
    if dn.shape != x.to_numpy().shape or not np.array_equal(dn, x.to_numpy()):
        return 'to_nonsymmetric().to_numpy() differs from to_numpy()'
    # a key that is not a block
    if nsym and keys and x.ndim >= 2:
        k = keys[0]
        other = tuple(c for t in (k[1:] + k[:1]) for c in t)
        present = tuple(k[1:] + k[:1]) in keys
        if (other in x) != present:
            return '"in" answers %r for key %r, listed blocks say %r' % (other in x, other, present)
    return None


def run_case(kind, seed, opts=None):
    """returns (status, detail, scenario) with status in ok / mismatch / error / skip"""
    try:
        sc = build(kind, seed, opts)
    except (yastn.YastnError, Skip) as e:
        return 'skip', 'build: %s' % e, None
    try:
        res = sc['fn']()
    except yastn.YastnError as e:
        return 'error', 'YastnError: %s' % e, sc
    except Exception as e:
        return 'error', '%s: %s\n%s' % (type(e).__name__, e, traceback.format_exc()[-600:]), sc
    try:
        exp = sc['oracle'](res)
    except (yastn.YastnError, Skip) as e:
        return 'skip', 'oracle: %s' % e, sc
    msg = compare(res, exp)
    if msg:
        return 'mismatch', msg, sc
    if (opts or {}).get('views', True):
        for y in [res] + list(sc.get('operands', [])):
            msg = views_agree(y)
            if msg:
                return 'mismatch', 'views: ' + msg, sc
    return 'ok', res, sc
