#!/usr/bin/env python3
"""keep_seeded.py <name> <prop> [--tier quick]: after confirm_seeded.sh succeeded, run the property's check against
the patch applied to /repo (undone straight afterwards) and store everything as /verif/seeded/<name>/."""
import sys, os, json, subprocess, shutil
name, prop = sys.argv[1], sys.argv[2]
tier = sys.argv[4] if len(sys.argv) > 4 else 'quick'
src = '/tmp/seeded_out/' + name
conf = json.load(open(src + '/confirm.json'))
ok = conf['applied'] == 1 and conf['demo_clean_rc'] == 0 and conf['demo_patched_rc'] != 0 and conf['tests_rc'] == 0
if not ok:
    print('NOT CONFIRMED', conf); sys.exit(1)
assert subprocess.run('git -C /repo status --porcelain', shell=True, capture_output=True, text=True).stdout.strip() == '', '/repo dirty'
subprocess.run('git -C /repo apply %s/patch.diff' % src, shell=True, check=True)
try:
    p = subprocess.run('cd /verif && timeout 3000 ./check %s --tier %s' % (prop, tier), shell=True, capture_output=True, text=True)
finally:
    subprocess.run('git -C /repo checkout -- .', shell=True, check=True)
out = p.stdout
detected = p.returncode == 1 and ('VIOLATION property=%s' % prop) in out
dst = '/verif/seeded/' + name
os.makedirs(dst, exist_ok=True)
shutil.copy(src + '/patch.diff', dst + '/patch.diff')
shutil.copy(src + '/demo.py', dst + '/demo.py')
notes = open(src + '/notes.md').read() if os.path.exists(src + '/notes.md') else ''
vio = [l for l in out.splitlines() if l.startswith(('VIOLATION', '  - '))][:4]
meta = dict(id=name, property=prop, breaks=prop, needs_to_manifest=notes[:1500],
            confirmed=dict(demo_passes_on_clean_tree=True, demo_fails_with_patch=True,
                           existing_suite_with_patch=conf['tests_tail'].strip(), repo_head=conf['repo_head'],
                           how='tools/confirm_seeded.sh in a scratch worktree under /tmp (removed afterwards)'),
            check=dict(cmd='./check %s --tier %s' % (prop, tier), exit_code=p.returncode, detected=detected, output_head=vio))
json.dump(meta, open(dst + '/meta.json', 'w'), indent=1)
print(name, 'detected' if detected else 'MISSED', vio[:2])
