"""C07 -- MPO construction and measurements realise Jordan-Wigner operators.
proof: Fermi/CanonOrder.v + Fermi/JWSign.v (ordering sign = inversion parity; exchange sign; pair sign; bosonic no strings);
tie/search: dense matrix of generate_mpo (single terms exactly, sums within tolerance; any operator order, repeated sites, custom fermionic maps,
amplitudes) vs sums of explicit Jordan-Wigner products; measure_1site / measure_2site (all bond patterns) / measure_nsite / rdm / sample
probabilities vs the dense state; on-site (anti)commutators of every predefined operator family."""
import json, itertools
import numpy as np
import vlib

PROP_V = 'properties/C07.v'


def fss_list(cfg):
    n = cfg.sym.NSYM
    f = cfg.fermionic
    return [1] * n if f is True else ([0] * n if f is False else [1 if x else 0 for x in f])


class JW:
    """explicit Jordan-Wigner matrices on N sites; f_map[site] = position of the site in the fermionic order"""
    def __init__(self, ops, N, f_map=None):
        self.ops, self.N = ops, N
        self.sp = ops.space()
        self.d = sum(self.sp.D)
        self.state_t = []
        for t, D in zip(self.sp.t, self.sp.D):
            self.state_t += [t] * D
        self.fl = fss_list(ops.config)
        self.f_map = list(range(N)) if f_map is None else list(f_map)

    def local(self, op):
        return op.to_numpy(legs={0: self.sp, 1: self.sp.conj()})

    def string(self, n_op):
        return np.diag([1 - 2 * (sum(x * y for x, y, f in zip(t, n_op, self.fl) if f) % 2) for t in self.state_t]).astype(float)

    def at(self, op, site):
        fac = []
        for k in range(self.N):
            if k == site:
                fac.append(self.local(op))
            elif self.f_map[k] < self.f_map[site]:
                fac.append(self.string(op.n))
            else:
                fac.append(np.eye(self.d))
        M = fac[0]
        for f in fac[1:]:
            M = np.kron(M, f)
        return M

    def product(self, op_list, sites):
        M = np.eye(self.d ** self.N)
        for op, s in zip(op_list, sites):
            M = M @ self.at(op, s)
        return M


def op_pool(fam, ops, rng):
    if fam == 'SpinlessFermions':
        return {'c': ops.c(), 'cp': ops.cp(), 'n': ops.n(), 'I': ops.I()}
    if fam == 'SpinfulFermions':
        return {'cu': ops.c('u'), 'cd': ops.c('d'), 'cpu': ops.cp('u'), 'cpd': ops.cp('d'), 'nu': ops.n('u'), 'nd': ops.n('d'), 'I': ops.I()}
    if fam == 'Spin12':
        return {'sp': ops.sp(), 'sm': ops.sm(), 'z': ops.z(), 'I': ops.I()}
    if fam == 'Spin1':
        return {'sp': ops.sp(), 'sm': ops.sm(), 'sz': ops.sz(), 'I': ops.I()}
    raise KeyError(fam)


FAMS = [('SpinlessFermions', 'Z2'), ('SpinlessFermions', 'U1'), ('SpinfulFermions', 'Z2'), ('SpinfulFermions', 'U1xU1'), ('SpinfulFermions', 'U1xU1xZ2'),
        ('Spin12', 'Z2'), ('Spin12', 'U1'), ('Spin12', 'dense'), ('Spin1', 'U1'), ('Spin1', 'Z3')]


def onsite_algebra(ctx):
    """(anti)commutation relations of every predefined operator family in every symmetry (finite: all enumerated)"""
    import yastn
    for fam, syms in (('SpinlessFermions', ['Z2', 'U1']), ('SpinfulFermions', ['Z2', 'U1xU1', 'U1xU1xZ2']), ('SpinfulFermions_tJ', ['Z2', 'U1xU1', 'U1xU1xZ2']),
                      ('Spin12', ['dense', 'Z2', 'U1']), ('Spin1', ['dense', 'Z3', 'U1'])):
        for sym in syms:
            try:
                ops = getattr(yastn.operators, fam)(sym=sym)
            except Exception as e:
                ctx.count('operators:unavailable:%s:%s' % (fam, sym))
                continue
            sp = ops.space()
            D = lambda o: o.to_numpy(legs={0: sp, 1: sp.conj()})
            I = np.eye(sum(sp.D))
            ok = True
            why = ''
            if fam == 'SpinlessFermions':
                c, cp, n = D(ops.c()), D(ops.cp()), D(ops.n())
                ok = np.array_equal(c @ cp + cp @ c, I) and np.array_equal(c @ c, 0 * I) and np.array_equal(cp @ c, n) and np.array_equal(cp, c.conj().T)
            elif fam == 'SpinfulFermions':
                for s in 'ud':
                    c, cp, n = D(ops.c(s)), D(ops.cp(s)), D(ops.n(s))
                    ok = ok and np.array_equal(c @ cp + cp @ c, I) and np.array_equal(c @ c, 0 * I) and np.array_equal(cp @ c, n) and np.array_equal(cp, c.conj().T)
            elif fam == 'SpinfulFermions_tJ':
                for s in 'ud':
                    c, cp, n = D(ops.c(s)), D(ops.cp(s)), D(ops.n(s))
                    ok = ok and np.array_equal(cp @ c, n) and np.array_equal(cp, c.conj().T) and np.array_equal(c @ c, 0 * c)
            elif fam == 'Spin12':
                sp_, sm_, z = D(ops.sp()), D(ops.sm()), D(ops.z())
                ok = np.allclose(sp_ @ sm_ - sm_ @ sp_, z) and np.array_equal(sm_, sp_.conj().T) and np.allclose(z @ z, I)
            elif fam == 'Spin1':
                sp_, sm_, sz = D(ops.sp()), D(ops.sm()), D(ops.sz())
                ok = np.allclose(sp_ @ sm_ - sm_ @ sp_, 2 * sz) and np.allclose(sm_, sp_.conj().T) and np.allclose(sz @ sp_ - sp_ @ sz, sp_)
            ctx.case(dict(kind='onsite-algebra', family=fam, sym=sym), nontrivial=True)
            ctx.count('onsite-algebra')
            if not ok:
                ctx.violation('on-site (anti)commutation relations of %s(sym=%s) are violated' % (fam, sym), dict(kind='onsite-algebra', family=fam, sym=sym))


def mpo_cases(ctx, quick):
    import yastn, yastn.tn.mps as mps, mgen
    rng = ctx.rng
    nrep = 400 if quick else 6000
    for k in range(nrep):
        fam, sym = rng.choice(FAMS)
        ops = mgen.operators(fam, sym)
        pool = op_pool(fam, ops, rng)
        N = rng.randint(2, 5 if sum(ops.space().D) <= 2 else 4)
        use_fmap = rng.random() < 0.4
        f_map = None
        if use_fmap:
            f_map = list(range(N)); rng.shuffle(f_map)
        jw = JW(ops, N, f_map)
        nterms = rng.choice([1, 1, 2, 3, 5])
        terms, ref = [], np.zeros((jw.d ** N, jw.d ** N), dtype=complex)
        # all terms of one MPO must carry the same total charge: draw a charge pattern once and permute/re-dress it
        def vanishes(names, sites):
            for s_ in set(sites):
                m = np.eye(jw.d)
                for nm_, st_ in zip(names, sites):
                    if st_ == s_:
                        m = m @ jw.local(pool[nm_])
                if not np.any(m):
                    return True
            return False

        def draw_term():
            for _t in range(50):
                L = rng.randint(1, 4)
                names = [rng.choice(sorted(pool)) for _ in range(L)]
                sites = [rng.randrange(N) for _ in range(L)]
                if not vanishes(names, sites):      # a term that is identically zero (e.g. c c on one site) is not a meaningful Hterm
                    return names, sites
            return ['I'], [0]
        base_names, base_sites = draw_term()
        tot = ops.config.sym.add_charges(*[pool[n_].n for n_ in base_names]) if base_names else ops.config.sym.zero()
        for t in range(nterms):
            if t == 0:
                names, sites = base_names, base_sites
            else:
                for _try in range(30):
                    names, sites = draw_term()
                    if tuple(ops.config.sym.add_charges(*[pool[n_].n for n_ in names])) == tuple(tot):
                        break
                else:
                    perm = list(range(len(base_names))); rng.shuffle(perm)
                    names = [base_names[i] for i in perm]; sites = [base_sites[i] for i in perm]
                    if vanishes(names, sites):
                        names, sites = base_names, base_sites
            amp = rng.choice([1, -2, 0.5, 3, 1j, -1.5])
            terms.append(mps.Hterm(amp, tuple(sites), tuple(pool[n_] for n_ in names)))
            ref = ref + amp * jw.product([pool[n_] for n_ in names], sites)
        desc = dict(kind='generate_mpo', family=fam, sym=sym, N=N, f_map=f_map, terms=[(str(t.amplitude), list(t.positions), [tuple(o.n) for o in t.operators]) for t in terms], rep=k)
        ctx.case(desc, nontrivial=True)
        ctx.count('mpo:terms=%d' % nterms)
        try:
            H = mps.generate_mpo(ops.I(), terms, N=N, f_map=f_map)
        except yastn.YastnError as e:
            ctx.violation('generate_mpo rejected a valid term list: %s' % str(e)[:150], desc)
            continue
        except Exception as e:
            ctx.violation('generate_mpo crashed on a valid term list with %s: %s' % (type(e).__name__, str(e)[:150]), desc)
            continue
        t = mgen.dense_state(H, ops)
        got = t.transpose(list(range(0, 2 * N, 2)) + list(range(1, 2 * N, 2))).reshape(jw.d ** N, jw.d ** N)
        exact = nterms == 1
        ok = np.array_equal(got, ref) if exact and not np.iscomplexobj(ref) or (exact and np.array_equal(got, ref)) else np.allclose(got, ref, rtol=1e-10, atol=1e-10)
        if not ok:
            ctx.violation('generate_mpo (%s %s, N=%d, f_map=%r, %d term(s)) is not the sum of the Jordan-Wigner products' % (fam, sym, N, f_map, nterms), desc)


def measure_cases(ctx, quick):
    import yastn, yastn.tn.mps as mps, mgen
    rng = ctx.rng
    nrep = 150 if quick else 2500
    for k in range(nrep):
        fam, sym = rng.choice(FAMS)
        ops = mgen.operators(fam, sym)
        pool = op_pool(fam, ops, rng)
        N = rng.randint(2, 5 if sum(ops.space().D) <= 2 else 3)
        jw = JW(ops, N)
        chs = mgen.admissible_charges(ops, N)
        n = rng.choice(chs)
        try:
            psi = mgen.int_mps(rng, ops, N, D_total=4, n=n, cplx=rng.random() < 0.35)      # Gaussian-integer amplitudes in a third of the cases
        except Exception:
            continue
        v = mgen.dense_state(psi, ops).reshape(-1)
        if not np.any(v):
            continue
        desc0 = dict(family=fam, sym=sym, N=N, n=n, rep=k)
        names = sorted(pool)

        def same(a, b):
            return np.isclose(a, b, rtol=1e-10, atol=1e-8)
        # charge-changing operators need a bra in the shifted sector: use O|psi> overlaps through measure with bra=ket only for charge-neutral products
        # 1-site
        for nm in names:
            O = pool[nm]
            if any(O.n):
                continue
            res = mps.measure_1site(psi, O, psi)
            for i in range(N):
                ctx.count('measure_1site')
                if not same(res[i], np.vdot(v, jw.at(O, i) @ v)):
                    ctx.violation('measure_1site(%s) at site %d differs from <psi|O_i|psi> (%s %s N=%d)' % (nm, i, fam, sym, N), dict(desc0, kind='measure_1site', op=nm, site=i))
                    break
            # an explicit list of sites in any order, with repetitions and out-of-range entries (ignored)
            lst = [rng.randrange(-1, N + 1) for _ in range(rng.randint(1, N + 1))]
            if rng.random() < 0.5:
                lst = sorted(set(lst), reverse=True)           # descending neighbours
            res = mps.measure_1site(psi, O, psi, sites=lst)
            ctx.count('measure_1site(sites=list)')
            want = sorted({i for i in lst if 0 <= i < N})
            if sorted(res) != want or any(not same(res[i], np.vdot(v, jw.at(O, i) @ v)) for i in want):
                ctx.violation('measure_1site(%s, sites=%r) gives %r, the dense state has %r (%s %s N=%d)' % (
                    nm, lst, {i: complex(res[i]) for i in sorted(res)}, {i: complex(np.vdot(v, jw.at(O, i) @ v)) for i in want}, fam, sym, N), dict(desc0, kind='measure_1site-list', op=nm, sites=lst))
        # 2-site: explicit lists of pairs in any order
        for _ in range(2):
            a_, b_ = rng.choice(names), rng.choice(names)
            O, P = pool[a_], pool[b_]
            if any(x != 0 for x in ops.config.sym.add_charges(O.n, P.n)):
                continue
            allp = [(i, j) for i in range(N) for j in range(N)]
            lst = rng.sample(allp, rng.randint(1, min(5, len(allp))))
            if rng.random() < 0.5:     # pairs sharing a site, far partner first
                i0 = rng.randrange(N)
                others = [j for j in range(N) if j != i0]
                rng.shuffle(others)
                lst = [((i0, j) if rng.random() < 0.5 else (j, i0)) for j in sorted(others[:3], reverse=True)] + lst[:1]
            try:
                res = mps.measure_2site(psi, O, P, psi, bonds=lst)
            except yastn.YastnError as e:
                ctx.violation('measure_2site(bonds=%r) raised YastnError: %s (%s, %s; %s %s N=%d)' % (lst, str(e)[:100], a_, b_, fam, sym, N), dict(desc0, kind='measure_2site-list', ops=(a_, b_), bonds=lst))
                continue
            ctx.count('measure_2site(bonds=list)')
            res = {tuple(k): val for k, val in res.items()} if isinstance(res, dict) else {tuple(lst[0]): res}
            for (i, j) in set(lst):
                ref = np.vdot(v, jw.at(O, i) @ jw.at(P, j) @ v)
                if (i, j) not in res or not same(res[i, j], ref):
                    ctx.violation('measure_2site(%s, %s, bonds=%r) at (%d, %d) = %r differs from <psi|O_i P_j|psi> = %r (%s %s N=%d)' % (a_, b_, lst, i, j, res.get((i, j)), ref, fam, sym, N),
                                  dict(desc0, kind='measure_2site-list', ops=(a_, b_), pair=(i, j), bonds=lst))
                    break
        # 2-site: all bond patterns
        neutral_pairs = [(x_, y_) for x_ in names for y_ in names if not any(c_ != 0 for c_ in np.atleast_1d(ops.config.sym.add_charges(pool[x_].n, pool[y_].n)))]
        charged_pairs = [pq for pq in neutral_pairs if any(c_ != 0 for c_ in np.atleast_1d(pool[pq[0]].n))]
        for _ in range(4):
            a_, b_ = rng.choice(charged_pairs) if (charged_pairs and rng.random() < 0.6) else (rng.choice(names), rng.choice(names))
            O, P = pool[a_], pool[b_]
            if any(x != 0 for x in ops.config.sym.add_charges(O.n, P.n)):
                continue
            pattern = rng.choice(['<', '>', '=', 'a', '<=>', 'r1', 'r-1', 'r2', 'r1p', '<='])
            try:
                res = mps.measure_2site(psi, O, P, psi, bonds=pattern)
            except yastn.YastnError as e:
                ctx.violation('measure_2site(bonds=%r) rejected valid operators: %s' % (pattern, str(e)[:100]), dict(desc0, kind='measure_2site', ops=(a_, b_), bonds=pattern))
                continue
            expect_pairs = set(mps._measure._parse_2site_bonds(pattern, N)) if hasattr(mps, '_measure') else None
            ctx.case(dict(desc0, kind='measure_2site', ops=(a_, b_), bonds=pattern), nontrivial=True)
            for (i, j), val in res.items():
                ctx.count('measure_2site:' + ('i<j' if i < j else 'i=j' if i == j else 'i>j'))
                ref = np.vdot(v, jw.at(O, i) @ jw.at(P, j) @ v)
                if not same(val, ref):
                    ctx.violation('measure_2site(%s, %s) at (%d, %d) = %r differs from <psi|O_i P_j|psi> = %r (%s %s N=%d)' % (a_, b_, i, j, val, ref, fam, sym, N),
                                  dict(desc0, kind='measure_2site', ops=(a_, b_), pair=(i, j), bonds=pattern))
                    break
            # documented pair sets
            docs = {'<': {(i, j) for i in range(N) for j in range(N) if i < j}, '>': {(i, j) for i in range(N) for j in range(N) if i > j},
                    '=': {(i, i) for i in range(N)}, 'a': {(i, j) for i in range(N) for j in range(N)},
                    'r1': {(i, i + 1) for i in range(N - 1)}, 'r-1': {(i, i - 1) for i in range(1, N)}, 'r2': {(i, i + 2) for i in range(N - 2)},
                    'r1p': {(i, (i + 1) % N) for i in range(N)}}
            docs['<=>'] = docs['a']; docs['<='] = docs['<'] | docs['=']
            if set(res.keys()) != docs[pattern]:
                ctx.violation('measure_2site(bonds=%r) covers pairs %r, documented %r' % (pattern, sorted(res.keys()), sorted(docs[pattern])), dict(desc0, kind='bond-pattern', bonds=pattern))
        # n-site with repeated sites, arbitrary order
        for _ in range(4):
            L = rng.randint(1, 4)
            nms = [rng.choice(names) for _ in range(L)]
            sites = [rng.randrange(N) for _ in range(L)]
            if any(x != 0 for x in ops.config.sym.add_charges(*[pool[x].n for x in nms])):
                continue
            val = mps.measure_nsite(psi, *[pool[x] for x in nms], ket=psi, sites=sites)
            ref = np.vdot(v, jw.product([pool[x] for x in nms], sites) @ v)
            ctx.case(dict(desc0, kind='measure_nsite', ops=nms, sites=sites), nontrivial=True)
            ctx.count('measure_nsite')
            if not same(val, ref):
                ctx.violation('measure_nsite(%r at %r) = %r differs from the dense expectation %r (%s %s N=%d)' % (nms, sites, val, ref, fam, sym, N),
                              dict(desc0, kind='measure_nsite', ops=nms, sites=sites))
        # rdm and sampling on a normalised copy (canonical forms of every kind)
        phi = psi.copy()
        form = rng.choice(['as-is', 'first', 'last', 'first-last'])
        if form in ('first', 'first-last'):
            phi.canonize_(to='first')
        if form in ('last', 'first-last'):
            phi.canonize_(to='last')
        if rng.random() < 0.5:
            phi = rng.choice([2.5, -0.5, 2j]) * phi        # the separate prefactor is part of the state
        w = mgen.dense_state(phi, ops).reshape(-1)
        nw = np.vdot(w, w).real
        if nw > 1e-12 and fam in ('Spin12', 'SpinlessFermions'):
            # (for fermions the two-site rdm carries Jordan-Wigner signs of the sites in between: only single sites are compared by spectrum)
            sites = sorted(rng.sample(range(N), rng.randint(1, min(2, N)) if fam == 'Spin12' else 1))
            rho = mps.rdm(phi, *sites)
            T = w.reshape([jw.d] * N)
            rest = [i for i in range(N) if i not in sites]
            M = np.tensordot(T, T.conj(), axes=(rest, rest))        # rdm of the state as given (unnormalised states keep their norm)
            ns = len(sites)
            got = rho.to_numpy(legs={i: (jw.sp if rho.get_legs(i).s == 1 else jw.sp.conj()) for i in range(rho.ndim)})
            got = got.transpose(list(range(0, 2 * ns, 2)) + list(range(1, 2 * ns, 2)))
            ctx.count('rdm')
            # for fermions compare basis-independent data: spectrum and trace (ordering signs of the two-site basis are convention dependent)
            gm = got.reshape(jw.d ** ns, jw.d ** ns); mm = M.reshape(jw.d ** ns, jw.d ** ns)
            if not (np.isclose(np.trace(gm), nw, rtol=1e-9) and np.allclose(np.sort(np.linalg.eigvalsh((gm + gm.conj().T) / 2)), np.sort(np.linalg.eigvalsh(mm)), rtol=1e-8, atol=1e-8 * nw)):
                ctx.violation('rdm on sites %r does not have the spectrum of the dense reduced density matrix (%s %s N=%d, form %s)' % (sites, fam, sym, N, form),
                              dict(desc0, kind='rdm', sites=sites, form=form))
            # Born probabilities of product configurations
            if fam == 'Spin12':
                proj = {0: ops.vec_z(val=1), 1: ops.vec_z(val=-1)}
                basis = {0: 0, 1: 1}
            else:
                proj = {0: ops.vec_n(val=0), 1: ops.vec_n(val=1)}
            try:
                samples, probs = mps.sample(phi, proj, number=6, return_probabilities=True)
                for smp, p in zip(samples, probs):
                    idx = []
                    for s in smp:
                        vec = proj[int(s)].to_numpy(legs={0: jw.sp}).reshape(-1)
                        idx.append(int(np.argmax(np.abs(vec))))
                    amp = T[tuple(idx)]
                    ctx.count('sample')
                    if not np.isclose(p, abs(amp) ** 2 / nw, rtol=1e-8, atol=1e-10):
                        ctx.violation('sample: returned probability %r of configuration %r is not the Born probability %r (%s %s N=%d, canonical form %s)' % (
                            p, list(map(int, smp)), abs(amp) ** 2 / nw, fam, sym, N, form), dict(desc0, kind='sample', form=form, config=list(map(int, smp))))
                        break
            except yastn.YastnError as e:
                ctx.count('sample:rejected')
            except Exception as e:
                ctx.violation('sample raised %s: %s (%s %s N=%d, canonical form %s)' % (type(e).__name__, str(e)[:100], fam, sym, N, form), dict(desc0, kind='sample-crash', form=form))
            # a COMPLEX product basis (eigenvectors of sigma_y; only the dense spin-1/2 has them as vectors): <y..y|psi> needs the conjugated vectors
            if fam == 'Spin12' and sym == 'dense' and hasattr(ops, 'vec_y'):
                try:
                    projy = {0: ops.vec_y(val=1), 1: ops.vec_y(val=-1)}
                    vy = {k_: pv.to_numpy().reshape(-1) for k_, pv in projy.items()}
                    samples, probs = mps.sample(phi, projy, number=6, return_probabilities=True)
                    for smp, p in zip(samples, probs):
                        amp = T
                        for s_ in smp:
                            amp = np.tensordot(np.conj(vy[int(s_)]), amp, axes=(0, 0))
                        ctx.count('sample:complex-basis')
                        if not np.isclose(p, abs(amp) ** 2 / nw, rtol=1e-8, atol=1e-10):
                            ctx.violation('sample in the sigma_y basis: returned probability %r of configuration %r is not the Born probability %r (N=%d, canonical form %s)' % (
                                p, list(map(int, smp)), abs(amp) ** 2 / nw, N, form), dict(desc0, kind='sample-complex-basis', form=form, config=list(map(int, smp))))
                            break
                except yastn.YastnError:
                    ctx.count('sample:complex-basis:rejected')


def run(ctx):
    st = vlib.prepare(ctx, PROP_V)
    quick = ctx.tier == 'quick'
    ctx.cov['rule'] = ('generate_mpo for 1-5 Hterms over N = 2..5 with operators from every predefined fermionic / spin family and symmetry, arbitrary order, repeated sites, '
                       'amplitudes (real/complex), custom fermionic maps (random permutations) vs explicit Jordan-Wigner matrices; measure_1site / measure_2site (10 bond '
                       'patterns, i<j, i=j, i>j) / measure_nsite (repeated sites, any order) / rdm / sample on integer-valued states of admissible charges in four canonical '
                       'forms; on-site algebra of every operator family. non-trivial = all; distinct by arguments')
    onsite_algebra(ctx)
    mpo_cases(ctx, quick)
    measure_cases(ctx, quick)
    if ctx.broken and not ctx.violations:
        ctx.violation('obligation or tie no longer checks: %s' % ctx.broken[0], dict(kind='obligation', broken=ctx.broken), found_input=False)
    return ctx.finish(level='proof', checker_cmd='make -C /verif/coq (coqc 8.16.1) + coqc properties/C07.v (Print Assumptions)',
                      assumptions=['the sign model is tied to sign_canonical_order by C05 correspondence', 'multi-term MPOs use SVD compression: compared within 1e-10'])


def replay(ctx, path):
    print(json.dumps(json.load(open(path)), indent=1)[:4000])
    return 0
