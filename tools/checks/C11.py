"""C11 -- PEPS gates and their application act exactly as the dense operators.
proof: Gates/Series.v (collapsed series for K^3 = K, K^2 = I, K^2 = K over any commutative ring), Gates/JW2.v (the generators as integer
matrices, facts by computation, transfer Z -> R), Gates/GateLang.v + Gen/GatesGen.v (closed forms translated from yastn/tn/fpeps/gates.py by
tools/translate/tr_gates.py) + Gates/GateSpec.v.
tie: translator on every run; the model's generator matrices and the denotations of the translated forms are compared with the real operators
(fkron of the predefined operator classes) exactly, and the real gates with the numerical evaluation of the translated forms.
search / premises: every predefined gate vs scipy expm of the Jordan-Wigner Hamiltonian (real, imaginary, complex steps); apply_gate_ with
local / nearest-neighbour / longer-path / MPO gates on finite PEPS (all bond directions and orientations, cylinders, purifications and pure
states, MPO prefactors, odd middle operators) vs the same operators applied in the 1D fermionic order; DoublePepsTensor.tensordot vs
fuse_layers; sums of PEPS."""
import json, itertools
import numpy as np
import vlib

PROP_V = 'properties/C11.v'
OP_MATS, OP_FORM = 150, 151


def two_site_dense(T, sp):
    """dense matrix of a 4-leg two-site operator in fkron's leg order (k0 b0 k1 b1): rows (k0 k1), columns (b0 b1)"""
    a = T.to_numpy(legs={0: sp, 1: sp.conj(), 2: sp, 3: sp.conj()})
    d = a.shape[0]
    return a.transpose(0, 2, 1, 3).reshape(d * d, d * d)


def gate_dense(gate, sp):
    """dense matrix of a Gate with one or two tensors"""
    import yastn
    if len(gate.G) == 1:
        return gate.G[0].to_numpy(legs={0: sp, 1: sp.conj()})
    G = yastn.ncon(gate.G, [(-0, -1, 1), (-2, -3, 1)])
    return two_site_dense(G, sp)


def intmat(a):
    assert np.allclose(a, np.round(a.real)) and np.allclose(a.imag if np.iscomplexobj(a) else 0, 0), a
    return [[int(round(float(np.real(x)))) for x in row] for row in a]


def model_correspondence(ctx, st):
    """the integer generator matrices of the theorems are the real operators"""
    import yastn, mgen
    bad = []
    if not st['model_ok']:
        return bad
    mo = vlib.run_model([(OP_MATS, []), (OP_FORM, [0]), (OP_FORM, [1]), (OP_FORM, [2]), (OP_FORM, [3]), (OP_FORM, [4])])
    hopK, hopP, isingK, mX, mn, Pd, Pu, Pud = mo[0]
    n = 0
    for sym in ('Z2', 'U1'):
        ops = mgen.operators('SpinlessFermions', sym)
        sp = ops.space()
        c, cp, I = ops.c(), ops.cp(), ops.I()
        K = yastn.fkron(cp, c, sites=(0, 1)) + yastn.fkron(cp, c, sites=(1, 0))
        nn, hh = cp @ c, c @ cp
        P = yastn.fkron(nn, hh, sites=(0, 1)) + yastn.fkron(hh, nn, sites=(0, 1))
        for name, real, model in (('hopping generator', K, hopK), ('hopping projector', P, hopP)):
            n += 1
            if intmat(two_site_dense(real, sp)) != model:
                bad.append(dict(what=name, sym=sym, model=model, impl=intmat(two_site_dense(real, sp))))
        if intmat(ops.n().to_numpy(legs={0: sp, 1: sp.conj()})) != mn:
            bad.append(dict(what='occupation', sym=sym, model=mn))
        # forms: hopping and occupation
        got = [intmat(two_site_dense(x, sp)) for x in (yastn.fkron(I, I, sites=(0, 1)), P, K)]
        if got != mo[1]:
            bad.append(dict(what='denotation of the translated hopping form', sym=sym, model=mo[1], impl=got))
        got = [intmat(x.to_numpy(legs={0: sp, 1: sp.conj()})) for x in (I, ops.n())]
        if got != mo[4]:
            bad.append(dict(what='denotation of the translated occupation form', sym=sym, model=mo[4], impl=got))
        n += 3
    for sym in ('dense', 'Z2'):
        ops = mgen.operators('Spin12', sym)
        sp = ops.space()
        X = ops.sp() + ops.sm()
        I = ops.I()
        if intmat(X.to_numpy(legs={0: sp, 1: sp.conj()})) != mX:
            bad.append(dict(what='Pauli X', sym=sym, model=mX))
        if sym == 'Z2':
            got = [intmat(two_site_dense(x, sp)) for x in (yastn.fkron(I, I, sites=(0, 1)), yastn.fkron(X, X, sites=(0, 1)))]
            if got != mo[2]:
                bad.append(dict(what='denotation of the translated Ising form', sym=sym, model=mo[2], impl=got))
            n += 2
            continue
        if intmat(two_site_dense(yastn.fkron(X, X, sites=(0, 1)), sp)) != isingK:
            bad.append(dict(what='Ising generator', sym=sym, model=isingK))
        got = [intmat(two_site_dense(x, sp)) for x in (yastn.fkron(I, I, sites=(0, 1)), yastn.fkron(X, X, sites=(0, 1)))]
        if got != mo[2]:
            bad.append(dict(what='denotation of the translated Ising form', sym=sym, model=mo[2], impl=got))
        got = [intmat(x.to_numpy(legs={0: sp, 1: sp.conj()})) for x in (I, X)]
        if got != mo[5]:
            bad.append(dict(what='denotation of the translated field form', sym=sym, model=mo[5], impl=got))
        n += 4
    ops = mgen.operators('SpinfulFermions', 'U1xU1')
    sp = ops.space()
    nu, nd, I = ops.n('u'), ops.n('d'), ops.I()
    nn = nu @ nd
    got = [intmat(x.to_numpy(legs={0: sp, 1: sp.conj()})) for x in (I, nd - nn, nu - nn, nn)]
    if got != mo[3] or got[1:] != [Pd, Pu, Pud]:
        bad.append(dict(what='denotation of the translated Coulomb form (basis |0>, |d>, |u>, |ud>)', model=mo[3], impl=got))
    n += 1
    ctx.extra['generator_correspondence'] = dict(compared=n, disagreements=len(bad))
    ctx.count('correspondence:generators', n)
    return bad, mo


def cfval(kind, x):
    return {'one': 1.0, 'coshm1': np.cosh(x) - 1, 'sinh': np.sinh(x), 'cosh': np.cosh(x), 'negsinh': -np.sinh(x), 'expm1': np.exp(x) - 1}[kind]


def closed_forms_vs_real(ctx, mo, quick):
    """the real gates are the numerical evaluation of the translated forms (coefficient kinds and arguments as proved about in properties/C11.v)"""
    import yastn, yastn.tn.fpeps as fpeps, mgen
    rng = ctx.rng
    for rep in range(40 if quick else 400):
        step = rng.choice([rng.uniform(0.01, 1.0), 1j * rng.uniform(0.01, 1.0), complex(rng.uniform(-0.5, 0.5), rng.uniform(-0.5, 0.5))])
        p = [rng.uniform(-2, 2) for _ in range(3)]
        which = rng.choice(['hopping', 'ising', 'field', 'occupation', 'coulomb'])
        desc = dict(kind='closed-form', gate=which, step=str(step), params=p, rep=rep)
        ctx.case(desc, nontrivial=True)
        if which == 'hopping':
            ops = mgen.operators('SpinlessFermions', rng.choice(['Z2', 'U1'])); sp = ops.space()
            g = fpeps.gates.gate_nn_hopping(p[0], step, ops.I(), ops.c(), ops.cp())
            x = p[0] * step
            want = sum(cfval(k, x) * np.array(M, dtype=complex) for k, M in zip(('one', 'coshm1', 'sinh'), mo[1]))
        elif which == 'ising':
            ops = mgen.operators('Spin12', rng.choice(['dense', 'Z2'])); sp = ops.space()
            g = fpeps.gates.gate_nn_Ising(p[0], step, ops.I(), ops.sp() + ops.sm())
            x = p[0] * step
            want = sum(cfval(k, x) * np.array(M, dtype=complex) for k, M in zip(('cosh', 'negsinh'), mo[2]))
        elif which == 'field':
            ops = mgen.operators('Spin12', 'dense'); sp = ops.space()      # X carries charge 1 under Z2: the field gate exists for the dense configuration only
            g = fpeps.gates.gate_local_field(p[0], step, ops.I(), ops.sp() + ops.sm())
            x = p[0] * step
            want = sum(cfval(k, x) * np.array(M, dtype=complex) for k, M in zip(('cosh', 'sinh'), mo[5]))
        elif which == 'occupation':
            ops = mgen.operators('SpinlessFermions', rng.choice(['Z2', 'U1'])); sp = ops.space()
            g = fpeps.gates.gate_local_occupation(p[0], step, ops.I(), ops.n())
            x = p[0] * step
            want = sum(cfval(k, x) * np.array(M, dtype=complex) for k, M in zip(('one', 'expm1'), mo[4]))
        else:
            ops = mgen.operators('SpinfulFermions', 'U1xU1'); sp = ops.space()
            mu_up, mu_dn, U = p
            g = fpeps.gates.gate_local_Coulomb(mu_up, mu_dn, U, step, ops.I(), ops.n('u'), ops.n('d'))
            xs = [0, step * (mu_dn + U / 2), step * (mu_up + U / 2), step * (mu_up + mu_dn)]
            want = sum(cfval(k, x) * np.array(M, dtype=complex) for k, x, M in zip(('one', 'expm1', 'expm1', 'expm1'), xs, mo[3]))
        got = gate_dense(g, sp)
        if not np.allclose(got, want, atol=1e-12 * max(1.0, np.abs(want).max())):
            ctx.violation('gate %s(step=%s, params=%r) is not the evaluation of its translated closed form (max deviation %.3g)' % (which, step, p, np.abs(got - want).max()), desc)


def family_ops(fam, sym):
    import mgen
    return mgen.operators(fam, sym)


def gates_vs_expm(ctx, quick):
    """every predefined gate against scipy expm of the dense Hamiltonian in the Jordan-Wigner convention (explicit matrices of tools/checks/C07.JW)"""
    import scipy.linalg, yastn, yastn.tn.fpeps as fpeps
    import sys, os
    sys.path.insert(0, os.path.join(vlib.VERIF, 'tools', 'checks'))
    import C07
    rng = ctx.rng
    G = fpeps.gates
    for rep in range(60 if quick else 800):
        step = rng.choice([rng.uniform(0.01, 0.8), 1j * rng.uniform(0.01, 0.8), complex(rng.uniform(-0.4, 0.4), rng.uniform(-0.4, 0.4))])
        which = rng.choice(['hopping', 'hopping-spinful', 'ising', 'heisenberg', 'tJ', 'coulomb', 'occupation', 'field', 'nn_exp', 'local_exp'])
        p = [rng.uniform(-1.5, 1.5) for _ in range(7)]
        if which in ('hopping', 'occupation'):
            fam, sym = 'SpinlessFermions', rng.choice(['Z2', 'U1'])
        elif which in ('hopping-spinful', 'coulomb'):
            fam, sym = 'SpinfulFermions', rng.choice(['Z2', 'U1xU1', 'U1xU1xZ2'])
        elif which == 'tJ':
            fam, sym = 'SpinfulFermions_tJ', rng.choice(['Z2', 'U1', 'U1xU1', 'U1xU1xZ2'])
        elif which == 'ising':
            fam, sym = 'Spin12', rng.choice(['dense', 'Z2'])
        elif which == 'field':
            fam, sym = 'Spin12', 'dense'
        elif which == 'heisenberg':
            fam, sym = 'Spin12', rng.choice(['dense', 'Z2', 'U1'])
        else:
            fam, sym = rng.choice([('SpinlessFermions', 'U1'), ('SpinfulFermions', 'U1xU1'), ('Spin12', 'Z2'), ('Spin1', 'U1')])
        try:
            ops = getattr(yastn.operators, fam)(sym=sym)
        except Exception:
            continue
        sp = ops.space()
        jw = C07.JW(ops, 2)
        I = ops.I()
        desc = dict(kind='gate-vs-expm', gate=which, family=fam, sym=sym, step=str(step), params=p, rep=rep)
        ctx.case(desc, nontrivial=True)
        ctx.count('expm:' + which)

        def two(A, B, order=(0, 1)):
            return jw.product([A, B], list(order))
        try:
            if which == 'hopping':
                c, cp = ops.c(), ops.cp()
                g = G.gate_nn_hopping(p[0], step, I, c, cp); H = -p[0] * (two(cp, c) + two(cp, c, (1, 0)))
            elif which == 'hopping-spinful':
                s_ = rng.choice(['u', 'd']); c, cp = ops.c(s_), ops.cp(s_)
                g = G.gate_nn_hopping(p[0], step, I, c, cp); H = -p[0] * (two(cp, c) + two(cp, c, (1, 0)))
            elif which == 'ising':
                X = ops.sp() + ops.sm(); g = G.gate_nn_Ising(p[0], step, I, X); H = p[0] * two(X, X)
            elif which == 'heisenberg':
                sz, spl, sm = ops.sz(), ops.sp(), ops.sm()
                g = G.gate_nn_Heisenberg(p[0], step, I, sz, spl, sm); H = p[0] * (two(sz, sz) + 0.5 * two(spl, sm) + 0.5 * two(sm, spl))
            elif which == 'tJ':
                cu, cpu, cd, cpd = ops.c('u'), ops.cp('u'), ops.c('d'), ops.cp('d')
                J, tu, td, muu0, muu1, mud0, mud1 = p
                g = G.gate_nn_tJ(J, tu, td, muu0, muu1, mud0, mud1, step, I, cu, cpu, cd, cpd)
                nu, nd, Sp, Sm = cpu @ cu, cpd @ cd, cpu @ cd, cpd @ cu
                H = 0.5 * J * (two(Sp, Sm) + two(Sm, Sp)) - 0.5 * J * (two(nu, nd) + two(nd, nu)) - tu * (two(cpu, cu) + two(cpu, cu, (1, 0))) \
                    - td * (two(cpd, cd) + two(cpd, cd, (1, 0))) - muu0 * two(nu, I) - muu1 * two(I, nu) - mud0 * two(nd, I) - mud1 * two(I, nd)
            elif which == 'coulomb':
                nu, nd = ops.n('u'), ops.n('d'); mu_up, mu_dn, U = p[:3]
                g = G.gate_local_Coulomb(mu_up, mu_dn, U, step, I, nu, nd)
                d = jw.d
                NU, ND, ID = jw.local(nu), jw.local(nd), np.eye(d)
                H = U * (NU - ID / 2) @ (ND - ID / 2) - mu_up * NU - mu_dn * ND - U / 4 * ID
            elif which == 'occupation':
                n_ = ops.n(); g = G.gate_local_occupation(p[0], step, I, n_); H = -p[0] * jw.local(n_)
            elif which == 'field':
                X = ops.sp() + ops.sm(); g = G.gate_local_field(p[0], step, I, X); H = -p[0] * jw.local(X)
            elif which == 'nn_exp':
                # a random Hermitian charge-neutral two-site Hamiltonian from the operator pool
                pool = C07.op_pool(fam, ops, rng)
                names = sorted(pool)
                Hy, H = None, 0
                for _ in range(rng.randint(1, 4)):
                    a, b = rng.choice(names), rng.choice(names)
                    A, B = pool[a], pool[b]
                    amp = rng.uniform(-1, 1)
                    try:
                        t1 = yastn.fkron(A, B, sites=(0, 1)); t2 = yastn.fkron(B.conj().transpose(), A.conj().transpose(), sites=(1, 0))
                    except Exception:
                        continue
                    if t1.n != t1.config.sym.zero():
                        continue
                    term = amp * (t1 + t2)
                    Hy = term if Hy is None else Hy + term
                    H = H + amp * (two(A, B) + two(B.conj().transpose(), A.conj().transpose(), (1, 0)))
                if Hy is None:
                    continue
                g = G.gate_nn_exp(step, I, Hy)
            else:
                pool = C07.op_pool(fam, ops, rng)
                cands = [v for v in pool.values() if v.n == v.config.sym.zero()]
                A = rng.choice(cands)
                Hy = A + A.conj().transpose()
                g = G.gate_local_exp(step, I, Hy); H = jw.local(Hy)
        except (yastn.YastnError, TypeError, AttributeError) as e:
            ctx.count('expm:skipped(%s)' % which)
            continue
        want = scipy.linalg.expm(-step * H)
        got = gate_dense(g, sp)
        if got.shape != want.shape or not np.allclose(got, want, atol=1e-10 * max(1.0, np.abs(want).max())):
            ctx.violation('gate %s (%s %s, step=%s) differs from expm(-step H) in the Jordan-Wigner convention by %.3g' % (
                which, fam, sym, step, np.abs(got - want).max() if got.shape == want.shape else -1), desc)


# ------------------------------------------------------------------------------------------------------------- apply_gate_
def lattices(rng):
    import yastn.tn.fpeps as fpeps
    dims = rng.choice([(1, 2), (2, 1), (2, 2), (1, 3), (3, 1), (3, 2), (2, 3), (2, 3), (3, 2), (2, 3)])      # the two-dimensional 6-site lattices more often
    boundary = 'cylinder' if (dims[0] >= 2 and rng.random() < 0.3) else 'obc'
    return fpeps.SquareLattice(dims=dims, boundary=boundary), dims, boundary


def random_path(rng, geometry, length):
    """a self-avoiding path of nearest neighbours (also across the cylinder seam)"""
    sites = list(geometry.sites())
    for _ in range(50):
        path = [rng.choice(sites)]
        while len(path) < length:
            nbrs = [geometry.nn_site(path[-1], d) for d in 'tlbr']
            nbrs = [s for s in nbrs if s is not None and s not in path]
            if not nbrs:
                break
            path.append(rng.choice(nbrs))
        if len(path) == length:
            return tuple(path)
    return None


def apply_gate_cases(ctx, quick, n_cases=None, seeds=None):
    import random, yastn, yastn.tn.fpeps as fpeps, yastn.tn.mps as mps, mgen
    import sys, os
    sys.path.insert(0, os.path.join(vlib.VERIF, 'tools', 'checks'))
    import C07
    n_cases = n_cases or (200 if quick else 1500)
    for rep in range(n_cases):
        sd = seeds[rep] if seeds is not None else ctx.rng.randrange(2 ** 31)
        rng = random.Random(sd)
        fam, sym = rng.choice([('SpinlessFermions', 'Z2'), ('SpinlessFermions', 'U1'), ('SpinfulFermions', 'Z2'), ('SpinfulFermions', 'U1xU1'), ('SpinfulFermions', 'U1xU1xZ2'),
                               ('Spin12', 'dense'), ('Spin12', 'Z2'), ('Spin12', 'U1')])
        ops = mgen.operators(fam, sym)
        if fam == 'SpinfulFermions':
            geometry, dims, boundary = fpeps.SquareLattice(dims=rng.choice([(1, 2), (2, 1), (2, 2), (1, 3)]), boundary='obc'), None, 'obc'
        else:
            geometry, dims, boundary = lattices(rng)
        sites = list(geometry.sites())
        N = len(sites)
        s2i = {s: i for i, s in enumerate(sites)}
        pool = C07.op_pool(fam, ops, rng)
        names = sorted(pool)
        I = ops.I()
        purification = rng.random() < 0.4
        # initial state and its 1D reference
        if purification:
            psi = fpeps.product_peps(geometry, I)
            phi = mps.product_mpo(I, N=N)
        else:
            # product of local basis states through the operator classes' own vectors
            try:
                choices = {s: rng.choice(_local_vectors(fam, ops)) for s in sites}
            except Exception as e:
                ctx.count('apply_gate:skipped(local vectors: %s)' % type(e).__name__)
                continue
            psi = fpeps.product_peps(geometry, choices)
            phi = mps.product_mps([choices[s] for s in sites])
        ngates = rng.randint(1, 4) if N < 6 else rng.randint(3, 7)      # the largest lattices need several gates before every bond is entangled
        glist = []
        ok = True
        # on the largest lattices, sometimes: a hopping-like gate on EVERY nearest-neighbour bond (random order), so that every bond carries odd sectors
        cover = N >= 6 and boundary == 'obc' and not purification and rng.random() < 0.7      # (9+ MPO gates on a purification or across a seam: dimensions overflow)
        if cover:
            up, dn_ = {'SpinlessFermions': ('cp', 'c'), 'SpinfulFermions': ('cpu', 'cu'), 'Spin12': ('sp', 'sm')}[fam]
            bonds_ = list(geometry.bonds())
            rng.shuffle(bonds_)
            for (s0_, s1_) in bonds_:
                amp = complex(rng.uniform(0.3, 1), rng.uniform(-1, 1))
                try:
                    Osm = mps.generate_mpo(I, [mps.Hterm(amp, (0, 1), (pool[up], pool[dn_])), mps.Hterm(np.conj(amp), (1, 0), (pool[up], pool[dn_])), mps.Hterm(1.0, (0,), (I,))], N=2)
                    Obg = mps.generate_mpo(I, [mps.Hterm(amp, (s2i[s0_], s2i[s1_]), (pool[up], pool[dn_])), mps.Hterm(np.conj(amp), (s2i[s1_], s2i[s0_]), (pool[up], pool[dn_])),
                                               mps.Hterm(1.0, (0,), (I,))], N=N)
                except Exception:
                    ok = False; break
                glist.append(('hop-all-bonds', fpeps.Gate(Osm, (s0_, s1_)), Obg))
            ngates = rng.randint(0, 2)
        for _ in range(ngates):
            r = rng.random()
            if r < 0.2:
                # local gate
                s = rng.choice(sites)
                cands = [v for v in pool.values() if v.n == v.config.sym.zero()]
                A = rng.choice(cands) + 0.3 * I
                gate = fpeps.gates.Gate_local(A, s) if hasattr(fpeps.gates, 'Gate_local') else fpeps.Gate((A,), (s,))
                ref = mps.generate_mpo(I, [mps.Hterm(1.0, (s2i[s],), (A,))], N=N)
                glist.append(('local', gate, ref))
            else:
                L = rng.choice([2, 3, 3, 3, 4]) if N >= 3 else 2
                L = min(L, N)
                # a TWO-tensor gate carried along a longer path (identities with strings filled in by apply_gate_)
                stretched = N >= 3 and rng.random() < 0.4
                Lpath = min(N, rng.choice([3, 4, 4, 5, 5])) if stretched else L
                if stretched:
                    L = 2
                path = random_path(rng, geometry, Lpath)
                if path is None and stretched:
                    path = random_path(rng, geometry, 3)
                if path is None:
                    ctx.count('apply_gate:skipped(no path)')
                    ok = False; break
                # a random (charge-neutral in total) operator on the sites of the path, as an MPO in path order
                terms_small, terms_big = [], []
                for _t in range(rng.randint(1, 3)):
                    k = L if rng.random() < 0.5 else rng.randint(1, L)      # often an operator on every site of the path (odd middle operators)
                    pos = sorted(rng.sample(range(L), k))
                    if rng.random() < 0.5:
                        rng.shuffle(pos)
                    opsl = None
                    for _try in range(40):      # the term must carry no total charge (all terms of one MPO share a charge)
                        cand = [pool[rng.choice(names)] for _ in pos]
                        tot = ops.config.sym.add_charges(*[o.n for o in cand], signatures=(1,) * len(cand)) if ops.config.sym.NSYM else ()
                        if tuple(np.atleast_1d(tot).tolist()) == tuple(np.atleast_1d(ops.config.sym.zero()).tolist()) or not ops.config.sym.NSYM:
                            opsl = cand
                            break
                    if opsl is None:
                        continue
                    amp = complex(rng.uniform(-1, 1), rng.uniform(-1, 1)) if rng.random() < 0.3 else rng.uniform(-1, 1)
                    terms_small.append(mps.Hterm(amp, tuple(pos), tuple(opsl)))
                    terms_big.append(mps.Hterm(amp, tuple(s2i[path[-1 if (stretched and p == 1) else p]] for p in pos), tuple(opsl)))
                terms_small.append(mps.Hterm(1.0, (0,), (I,)))
                terms_big.append(mps.Hterm(1.0, (0,), (I,)))
                try:
                    Osmall = mps.generate_mpo(I, terms_small, N=L)
                    Obig = mps.generate_mpo(I, terms_big, N=N)
                except Exception as e:
                    ctx.count('apply_gate:skipped(generate_mpo: %s)' % type(e).__name__)
                    ok = False; break
                fac = rng.choice([1.0, 1.0, 2.5, -0.5])
                Osmall = fac * Osmall
                Obig = fac * Obig
                glist.append((('mpo2-along-%d' % len(path)) if stretched else ('mpo%d' % L), fpeps.Gate(Osmall, path), Obig))
        if not ok or not glist:
            continue
        desc = dict(kind='apply_gate', family=fam, sym=sym, dims=(geometry.Nx, geometry.Ny), boundary=boundary, purification=purification, gates=[g[0] for g in glist],
                    paths=[list(g[1].sites) for g in glist], case_seed=sd)
        ctx.case(desc, nontrivial=True)
        for g in glist:
            ctx.count('apply_gate:' + g[0] + (':cyl' if boundary == 'cylinder' else ''))
        try:
            for _, gate, ref in glist:
                psi.apply_gate_(gate)
                phi = ref @ phi
            a = psi.to_tensor()
            b = phi.to_tensor()
            if not purification:
                for k in range(a.ndim - 1, 0, -2):   # drop the trivial ancilla legs of a pure product state
                    a = a.remove_leg(axis=k)
            diff = (a - b).norm()
        except yastn.YastnError as e:
            # charges that cannot be matched (e.g. a term changing the total charge of a pure state to an empty sector) are generator artefacts
            if 'harge' in str(e) or 'consistent' in str(e) or 'match' in str(e):
                ctx.count('apply_gate:incomparable')
                continue
            ctx.violation('apply_gate_ raised YastnError: %s (%s %s %r %s)' % (str(e)[:120], fam, sym, (geometry.Nx, geometry.Ny), [g[0] for g in glist]), desc)
            continue
        except (KeyError, IndexError, ValueError, AttributeError) as e:
            ctx.violation('apply_gate_ raised %s: %s (%s %s %r %s)' % (type(e).__name__, str(e)[:120], fam, sym, (geometry.Nx, geometry.Ny), [g[0] for g in glist]), desc)
            continue
        if float(diff) > 1e-9 * max(1.0, float(b.norm())):
            ctx.violation('apply_gate_ (%s on paths %r, %s %s, lattice %r %s, %s) differs from the same operators applied in the 1D fermionic order by %.3g' % (
                [g[0] for g in glist], [list(g[1].sites) for g in glist], fam, sym, (geometry.Nx, geometry.Ny), boundary, 'purification' if purification else 'pure state', float(diff)), desc)


def _local_vectors(fam, ops):
    if fam == 'SpinlessFermions':
        return [ops.vec_n(0), ops.vec_n(1)]
    if fam == 'SpinfulFermions':
        return [ops.vec_n((0, 0)), ops.vec_n((1, 0)), ops.vec_n((0, 1)), ops.vec_n((1, 1))]
    return [ops.vec_z(1), ops.vec_z(-1)] if hasattr(ops, 'vec_z') else []


def double_layer_and_sums(ctx, quick):
    import yastn, yastn.tn.fpeps as fpeps, tgen
    rng = ctx.rng
    allowed = ((0, 1, 2, 3), (1, 2, 3, 0), (2, 3, 0, 1), (3, 0, 1, 2), (0, 3, 2, 1), (1, 0, 3, 2), (2, 1, 0, 3), (3, 2, 1, 0))
    for rep in range(30 if quick else 400):
        sym = rng.choice(['Z2', 'U1', 'U1xU1'])
        ferm = rng.random() < 0.7
        cfg = tgen.make_cfg(sym, fermionic=ferm)
        legs = [tgen.rleg(rng, cfg, sym, s=s, maxD=2) for s in (-1, 1, 1, -1, 1)]
        cplx = rng.random() < 0.5
        A = yastn.rand(cfg, legs=legs, dtype='complex128' if cplx else 'float64')
        B = yastn.rand(cfg, legs=legs, dtype='complex128' if cplx else 'float64') if rng.random() < 0.5 else A
        if A.size == 0 or B.size == 0:
            continue
        T = fpeps.DoublePepsTensor(bra=B, ket=A)
        if rng.random() < 0.5:
            lp = legs[4]
            op = yastn.rand(cfg, legs=[lp, lp.conj()], n=tgen.rcharge(rng, sym), dtype='complex128' if cplx else 'float64')
            if op.size:
                T.set_operator_(op)
        # pending charge swaps (fermionic strings of operators elsewhere) on some of the ten legs
        if rng.random() < 0.5 and sym != 'dense':
            ch = tgen.rcharge(rng, sym)
            T.add_charge_swaps_(ch, axes=rng.sample(['b0', 'b1', 'b2', 'b3', 'b4', 'k0', 'k1', 'k2', 'k3', 'k4'], rng.randint(1, 3)))
        desc = dict(kind='double-layer', sym=sym, fermionic=ferm, rep=rep, swaps=repr(dict(T.swaps)))
        ctx.case(desc, nontrivial=True)
        # copies and the conjugate carry everything the tensor carries (operator, swaps, transposition)
        try:
            for how in ('copy', 'clone', 'conj'):
                Tc = getattr(T, how)()
                want = T.fuse_layers().conj() if how == 'conj' else T.fuse_layers()
                if (Tc.fuse_layers() - want).norm() > 1e-10 * max(1.0, float(want.norm())):
                    ctx.violation('DoublePepsTensor.%s().fuse_layers() differs from fuse_layers()%s (%s fermionic=%s swaps=%r operator=%s)' % (
                        how, '.conj()' if how == 'conj' else '', sym, ferm, dict(T.swaps), T.op is not None), desc)
                    raise StopIteration
        except StopIteration:
            continue
        except yastn.YastnError:
            pass
        try:
            f0 = T.fuse_layers()
        except yastn.YastnError:
            continue
        ax1 = rng.choice(allowed)
        T1 = T.transpose(axes=ax1)
        r1 = f0.transpose(axes=ax1)
        if (T1.fuse_layers() - r1).norm() > 1e-10 * max(1.0, float(r1.norm())):
            ctx.violation('DoublePepsTensor.transpose(%r).fuse_layers() differs from fuse_layers().transpose (%s fermionic=%s)' % (ax1, sym, ferm), desc)
            continue
        lfs = T1.get_legs()
        pair = rng.choice([(0, 1), (1, 2), (2, 3), (3, 0)])
        extra = tgen.rleg(rng, cfg, sym, maxD=2)
        t = yastn.rand(cfg, legs=[extra, lfs[pair[0]].conj(), lfs[pair[1]].conj()], n=tgen.rcharge(rng, sym), dtype='complex128' if cplx else 'float64')
        if t.size == 0:
            continue
        try:
            cj = rng.choice([(0, 0), (0, 0), (1, 0), (0, 1), (1, 1)])       # conj flags of the two operands
            tt = t.conj() if cj[0] != cj[1] else t                         # legs must still match after conjugating one side
            a = yastn.tensordot(r1, tt, axes=(pair, (1, 2)), conj=cj)
            b = yastn.tensordot(T1, tt, axes=(pair, (1, 2)), conj=cj)
            c = yastn.tensordot(tt, T1, axes=((1, 2), pair), conj=cj[::-1])
            a2 = yastn.tensordot(tt, r1, axes=((1, 2), pair), conj=cj[::-1])
        except yastn.YastnError as e:
            ctx.count('double-layer:rejected')
            continue
        ctx.count('double-layer:tensordot')
        if (a - b).norm() > 1e-10 * max(1.0, float(a.norm())) or (a2 - c).norm() > 1e-10 * max(1.0, float(a2.norm())):
            ctx.violation('DoublePepsTensor.tensordot over legs %r (conj=%r) differs from the tensordot of its fused form (%s fermionic=%s, operator=%s, swaps=%r)' % (pair, cj, sym, ferm, T.op is not None, dict(T.swaps)), desc)


def peps_sums(ctx, quick):
    import yastn, yastn.tn.fpeps as fpeps, yastn.tn.mps as mps, mgen
    rng = ctx.rng
    for rep in range(10 if quick else 100):
        fam, sym = rng.choice([('SpinlessFermions', 'U1'), ('SpinlessFermions', 'Z2'), ('Spin12', 'Z2'), ('Spin12', 'dense')])
        ops = mgen.operators(fam, sym)
        geometry, dims, boundary = lattices(rng)
        if boundary != 'obc':
            geometry = fpeps.SquareLattice(dims=(geometry.Nx, geometry.Ny), boundary='obc')
        sites = list(geometry.sites())
        vecs = _local_vectors(fam, ops)
        occ0 = {s: rng.randrange(2) for s in sites}
        psi0 = fpeps.product_peps(geometry, {s: vecs[occ0[s]] for s in sites})
        # a second state in the same total charge sector: apply a random neutral two-site MPO gate
        path = random_path(rng, geometry, 2)
        if path is None:
            continue
        pool = {'a': (ops.cp(), ops.c())} if fam == 'SpinlessFermions' else {'a': (ops.sp(), ops.sm())}
        A, B = pool['a']
        O2 = mps.generate_mpo(ops.I(), [mps.Hterm(0.7, (0, 1), (A, B)), mps.Hterm(0.7, (1, 0), (A, B)), mps.Hterm(1.0, (0,), (ops.I(),))], N=2)
        psi1 = psi0.shallow_copy()
        psi1.apply_gate_(fpeps.Gate(O2, path))
        amp = [rng.uniform(-2, 2), complex(rng.uniform(-1, 1), rng.uniform(-1, 1))]
        desc = dict(kind='peps-sum', family=fam, sym=sym, dims=(geometry.Nx, geometry.Ny), rep=rep)
        ctx.case(desc, nontrivial=True)
        try:
            s_ = fpeps.add(psi0, psi1, amplitudes=amp).to_tensor()
            ref = amp[0] * psi0.to_tensor() + amp[1] * psi1.to_tensor()
        except yastn.YastnError as e:
            ctx.count('peps-sum:incomparable')
            continue
        if (s_ - ref).norm() > 1e-10 * max(1.0, float(ref.norm())):
            ctx.violation('to_tensor(x a + y b) differs from x to_tensor(a) + y to_tensor(b) (%s %s lattice %r)' % (fam, sym, (geometry.Nx, geometry.Ny)), desc)


def run(ctx):
    st = vlib.prepare(ctx, PROP_V, need_translators=('tr_gates',))
    quick = ctx.tier == 'quick'
    ctx.cov['rule'] = ('(a) generator matrices of the theorems and denotations of the translated closed forms vs the real operators, exactly; real gates vs the numerical '
                       'evaluation of the translated forms (random parameters, real / imaginary / complex steps); (b) every predefined gate for every operator family x '
                       'symmetry vs scipy expm of the Jordan-Wigner Hamiltonian; (c) apply_gate_ of local gates and of random MPO gates (2..4 sites, shuffled operator '
                       'positions, odd middle operators, complex amplitudes, MPO prefactors) along random self-avoiding paths on lattices up to 6 sites, open and '
                       'cylindrical, purifications and pure product states, vs the same operators in the 1D fermionic order; (d) DoublePepsTensor transpose / tensordot '
                       'vs fuse_layers; sums of PEPS. non-trivial = every case; distinct by parameters / case seed')
    res = model_correspondence(ctx, st)
    bad, mo = res if isinstance(res, tuple) else (res, None)
    if mo is not None:
        closed_forms_vs_real(ctx, mo, quick)
    gates_vs_expm(ctx, quick)
    apply_gate_cases(ctx, quick)
    double_layer_and_sums(ctx, quick)
    peps_sums(ctx, quick)
    if bad and not ctx.violations:
        ctx.violation('gate model and implementation disagree: %s' % json.dumps(bad[0], default=str)[:600], dict(kind='correspondence', first=bad[:2]))
    if ctx.broken and not ctx.violations:
        ctx.violation('obligation or tie no longer checks: %s' % ctx.broken[0], dict(kind='obligation', broken=ctx.broken), found_input=False)
    return ctx.finish(level='proof', checker_cmd='make -C /verif/coq (coqc 8.16.1) + coqc properties/C11.v (Print Assumptions)',
                      assumptions=['eigh / svd inside gate_nn_exp, gate_local_exp, decompose_nn_gate (validated against expm)', 'the series converge to the exponential (analysis, not stated in Coq)'])


def replay(ctx, path):
    st = vlib.prepare(ctx, PROP_V, need_translators=('tr_gates',))
    rec = json.load(open(path))
    seeds = [v['replay']['case_seed'] for v in rec.get('violations', []) if isinstance(v.get('replay'), dict) and v['replay'].get('kind') == 'apply_gate']
    if seeds:
        apply_gate_cases(ctx, True, n_cases=len(seeds), seeds=seeds)
    for v in ctx.violations:
        print('REPRODUCED', v['what'][:400])
    if not seeds:
        print(json.dumps(rec, indent=1, default=str)[:3000])
    return 1 if ctx.violations else 0
