"""C17 -- serialisation round-trips every object exactly.
proof: Serial/SplitCombine(Laws).v, Serial/Listify.v; tie: the real split_data_and_meta/combine_data_and_meta on the dictionary trees of
real tensors/MPS/PEPS vs the model; search/oracle: to_dict -> (transport) -> from_dict for tensors (diagonal, fused, lazily transposed, empty,
complex), all levels, legacy format, numpy save/load, HDF5, split/combine, meta-linear map, rejection of incompatible config/meta; MPS with and
without central block; PEPS on every lattice type -- restored objects observationally identical incl. a follow-up contraction."""
import io, json, random
import numpy as np
import vlib

PROP_V = 'properties/C17.v'
OP_SPLIT = 80
DATA_KEY = 'data'


def obs_equal(a, b):
    """observational identity of two tensors: legs incl. history, trans semantics, charge, dtype, values"""
    import tgen
    if a.get_legs() != b.get_legs() or tuple(a.n) != tuple(b.n) or a.isdiag != b.isdiag:
        return 'legs/charge/isdiag differ'
    if a.yastn_dtype != b.yastn_dtype:
        return 'dtype differs'
    if a.mfs != b.mfs:
        return 'meta fusion differs'
    da, db = a.to_numpy(), b.to_numpy()
    if da.shape != db.shape or not np.array_equal(da, db):
        return 'values differ'
    return None


def encode_tree(d, ids, arrays):
    """python dict tree -> wire value for the model; non-dict values by identity (opaque id)"""
    items = []
    for k in sorted(d):
        kid = ids.setdefault(('key', k), 0 if k == DATA_KEY else len(ids) + 1)
        v = d[k]
        if k != DATA_KEY and isinstance(v, dict):
            items.append([kid, encode_tree(v, ids, arrays)])
        else:
            arrays.append(v)
            items.append([kid, [0, len(arrays) + 1000]])
    return [1, items]


def split_combine_correspondence(ctx, st, objs):
    """real split/combine on real to_dict trees vs the model (structure, data order, round trip)"""
    import yastn
    jobs, src = [], []
    for name, d in objs:
        ids, arrays = {}, []
        try:
            enc = encode_tree(d, ids, arrays)
        except TypeError:
            continue     # keys that cannot be sorted together (never produced by to_dict)
        data, meta = yastn.split_data_and_meta(d)
        back = yastn.combine_data_and_meta(data, meta)
        # implementation-side facts: number and order of data arrays, round trip
        def collect(dd, out):
            for k in sorted(dd):
                if k == DATA_KEY:
                    out.append(dd[k])
                elif isinstance(dd[k], dict):
                    collect(dd[k], out)
            return out
        expect_data = collect(d, [])
        ok_impl = len(data) == len(expect_data) and all(x is y for x, y in zip(data, expect_data))
        if not ok_impl:
            ctx.violation('split_data_and_meta of %s does not list the data arrays in sorted-key traversal order' % name, dict(kind='split-order', obj=name))
        if not tree_equal(back, d):
            ctx.violation('combine_data_and_meta(split_data_and_meta(d)) differs from d for %s' % name, dict(kind='split-combine', obj=name))
        jobs.append((OP_SPLIT, enc))
        src.append((name, len(data)))
        ctx.case(dict(kind='split-combine', obj=name, n_data=len(data)), nontrivial=len(data) > 0)
    bad = []
    if st['model_ok'] and jobs:
        mo = vlib.run_model(jobs)
        for (name, nd), m, j in zip(src, mo, jobs):
            if not (isinstance(m, list) and len(m) == 3):
                bad.append(dict(obj=name, why='model rejected the tree'))
                continue
            if len(m[1]) != nd:
                bad.append(dict(obj=name, why='number of data arrays', model=len(m[1]), impl=nd))
            if m[2] != j[1][1]:
                bad.append(dict(obj=name, why='model round trip differs from the tree'))
        ok, idx, ns = vlib.coq_sample('C17', [(op, arg, out) for (op, arg), out in list(zip(jobs, mo))[:25] if len(vlib.to_sx(arg)) < 4000])
        ctx.extra['coq_vm_sample'] = dict(n=ns, mismatches=len(idx), ok=ok)
        if not ok and not bad:
            ctx.broken.append('in-Coq vm_compute sample disagrees with the extracted driver at %r' % idx[:5])
    ctx.extra['split_combine_correspondence'] = dict(trees=len(jobs), disagreements=len(bad))
    return bad


def tree_equal(a, b):
    if isinstance(a, dict) and isinstance(b, dict):
        return a.keys() == b.keys() and all(tree_equal(a[k], b[k]) for k in a)
    if isinstance(a, np.ndarray) or isinstance(b, np.ndarray):
        return a is b or (isinstance(a, np.ndarray) and isinstance(b, np.ndarray) and a.shape == b.shape and np.array_equal(a, b))
    try:
        return bool(a == b)
    except Exception:
        return a is b


def gen_tensor(rng):
    import yastn, tgen
    sym = rng.choice(tgen.SYMS)
    ferm = rng.choice(tgen.FERMIONIC_OK[sym])
    cfg = tgen.make_cfg(sym, ferm, rng.choice(tgen.POLICIES))
    style = rng.choice(['plain', 'plain', 'diag', 'fused', 'fused_meta', 'lazy', 'empty', 'complex', 'nested', 'blocked'])
    r = rng.randint(0, 4)
    legs = [tgen.rleg(rng, cfg, sym, maxD=3) for _ in range(r)]
    if style == 'diag':
        l = tgen.rleg(rng, cfg, sym)
        a = tgen.rtensor(rng, cfg, [l, l.conj()], isdiag=True)
        if rng.random() < 0.4:
            a = a.T
        return a, style, sym
    if style == 'empty' and sym != 'dense':
        return yastn.zeros(cfg, legs=legs, n=tgen.rcharge(rng, sym, wide=True)), style, sym
    a = tgen.rtensor(rng, cfg, legs, n=tgen.allowed_charge(rng, cfg, sym, legs), cplx=(style == 'complex' or rng.random() < 0.2), drop=rng.choice([0, 0.3]))
    if style in ('fused', 'fused_meta', 'nested') and a.ndim >= 2:
        mode = 'meta' if style == 'fused_meta' else 'hard'
        a = a.fuse_legs(axes=((0, 1),) + tuple(range(2, a.ndim)), mode=mode)
        if style == 'nested' and a.ndim >= 2:
            a = a.fuse_legs(axes=((0, 1),) + tuple(range(2, a.ndim)), mode=rng.choice(['hard', 'meta']))
    if style == 'blocked' and a.ndim >= 1:
        b = tgen.rtensor(rng, cfg, legs, n=a.n, drop=0.2)
        a = yastn.block({(0,): a, (1,): b}, common_legs=tuple(range(1, a.ndim)))
    if style == 'lazy' or rng.random() < 0.3:
        a, _ = tgen.lazy(rng, a, p=1.0)
    if rng.random() < 0.2:
        # the config's default dtype differs from the dtype of the data (real data under a complex default and vice versa)
        a = a._replace(config=a.config._replace(default_dtype='complex128' if not a.is_complex() else 'float64'))
    return a, style, sym


def tensor_roundtrips(ctx, quick, trees):
    import yastn, tgen, h5py
    rng = ctx.rng
    n = 250 if quick else 5000
    for k in range(n):
        a, style, sym = gen_tensor(rng)
        desc = dict(kind='tensor-roundtrip', style=style, sym=sym, trans=a.trans, rep=k)
        ctx.case(desc, nontrivial=a.size > 0)
        ctx.count('tensor:' + style)
        for level in (0, 1, 2):
            d = a.to_dict(level=level)
            if k % 5 == 0:
                trees.append(('tensor %s level %d' % (style, level), d))
            routes = {'direct': lambda d=d: d}
            if level >= 1:
                def via_np(d=d):
                    buf = io.BytesIO(); np.save(buf, d, allow_pickle=True); buf.seek(0)
                    return np.load(buf, allow_pickle=True).item()
                routes['numpy'] = via_np
                routes['split'] = lambda d=d: yastn.combine_data_and_meta(*yastn.split_data_and_meta(d))
            routes['with-config'] = lambda d=d: ('CONFIG', d)
            for rn, route in routes.items():
                try:
                    rr = route()
                    b = yastn.from_dict(rr[1], config=a.config) if isinstance(rr, tuple) and rr[0] == 'CONFIG' else yastn.from_dict(rr)
                    if rn == 'direct':
                        b2 = yastn.Tensor.from_dict(route())
                except Exception as e:
                    ctx.violation('from_dict(to_dict(level=%d)) via %s failed for a %s tensor (sym %s): %s: %s' % (level, rn, style, sym, type(e).__name__, str(e)[:150]),
                                  dict(desc, level=level, route=rn))
                    continue
                why = obs_equal(a, b)
                if why is None and a.ndim >= 1 and a.size and not a.isdiag:
                    # behaves identically under a follow-up contraction
                    c1 = yastn.tensordot(a, a.conj(), axes=(tuple(range(a.ndim)), tuple(range(a.ndim))))
                    c2 = yastn.tensordot(b, a.conj(), axes=(tuple(range(a.ndim)), tuple(range(a.ndim))))
                    if c1.to_number() != c2.to_number():
                        why = 'follow-up contraction differs'
                if why:
                    ctx.violation('from_dict(to_dict(level=%d)) via %s is not identical for a %s tensor (sym %s): %s' % (level, rn, style, sym, why), dict(desc, level=level, route=rn))
        # legacy format (after consume_transpose, observationally)
        if rng.random() < 0.5 and not (sym == 'Z2xU1'):
            try:
                b = yastn.load_from_dict(config=a.config, d=a.save_to_dict())
                why = obs_equal(a.consume_transpose(), b.consume_transpose()) if a.get_legs() == b.get_legs() else 'legs differ'
            except Exception as e:
                why = '%s: %s' % (type(e).__name__, str(e)[:120])
            if why:
                ctx.violation('legacy save_to_dict/load_from_dict round trip fails for a %s tensor (sym %s): %s' % (style, sym, why), dict(desc, route='legacy'))
        # HDF5
        if rng.random() < 0.4:
            try:
                with h5py.File(io.BytesIO(), 'w') as f:
                    a.save_to_hdf5(f, 'T/')
                    b = yastn.load_from_hdf5(a.config, f, 'T/')
                why = obs_equal(a.consume_transpose(), b.consume_transpose()) if a.consume_transpose().get_legs() == b.get_legs() else 'legs differ'
            except Exception as e:
                why = '%s: %s' % (type(e).__name__, str(e)[:120])
            if why:
                ctx.violation('HDF5 round trip fails for a %s tensor (sym %s): %s' % (style, sym, why), dict(desc, route='hdf5'))
        # incompatible config is rejected
        if sym not in ('dense',) and rng.random() < 0.3:
            other = tgen.make_cfg('Z3' if sym != 'Z3' else 'Z2')
            try:
                yastn.from_dict(a.to_dict(level=rng.choice([0, 1, 2])), config=other)
                ctx.violation('from_dict accepted a config with a different symmetry', dict(desc, route='wrong-config'))
            except yastn.YastnError:
                pass


def meta_linear(ctx, quick):
    """serialising against a supplied meta: linear, norm preserving, inverted by from_dict(combine(...)); incompatible meta rejected"""
    import yastn, tgen
    rng = ctx.rng
    for k in range(120 if quick else 2500):
        sym = rng.choice(['U1', 'Z2', 'Z3', 'dense', 'U1xU1'])
        cfg = tgen.make_cfg(sym)
        r = rng.randint(1, 3)
        if rng.random() < 0.4:        # self-similar legs: a permutation can map the structure onto itself
            l = tgen.rleg(rng, cfg, sym)
            legs = [l] * r if r < 3 else [l, l, l.conj()]
        else:
            legs = [tgen.rleg(rng, cfg, sym) for _ in range(r)]
        n = tgen.allowed_charge(rng, cfg, sym, legs)
        full = tgen.rtensor(rng, cfg, legs, n=n)
        x = tgen.rtensor(rng, cfg, legs, n=n, drop=rng.choice([0, 0.4]))
        y = tgen.rtensor(rng, cfg, legs, n=n, drop=rng.choice([0, 0.4]))
        perm = list(range(r)); rng.shuffle(perm); perm = tuple(perm)
        how = rng.choice(['plain', 'x_lazy', 'meta_lazy', 'both_lazy'])
        ref = full.transpose(perm) if how in ('meta_lazy', 'both_lazy') else full
        xs = x.transpose(perm) if how in ('x_lazy', 'both_lazy') else x
        ys = y.transpose(perm) if how in ('x_lazy', 'both_lazy') else y
        if how == 'meta_lazy':
            # x must have the same visible legs as ref: build it over the permuted legs
            xs = tgen.rtensor(rng, cfg, [legs[p] for p in perm], n=n, drop=rng.choice([0, 0.4]))
            ys = tgen.rtensor(rng, cfg, [legs[p] for p in perm], n=n, drop=rng.choice([0, 0.4]))
        if how == 'x_lazy' and xs.get_legs() != ref.get_legs():
            continue
        _, meta = yastn.split_data_and_meta(ref.to_dict(level=0), squeeze=True)
        desc = dict(kind='meta-linear', sym=sym, how=how, perm=perm, rank=r, rep=k)
        ctx.case(desc, nontrivial=xs.size > 0)
        ctx.count('meta:' + how)
        ro = [rng.random() < 0.4 for _ in range(4)]      # resolve_ops is an independent option of every call
        desc['resolve_ops'] = ro
        try:
            vx, _ = yastn.split_data_and_meta(xs.to_dict(level=0, meta=meta, resolve_ops=ro[0]), squeeze=True)
            vy, _ = yastn.split_data_and_meta(ys.to_dict(level=0, meta=meta, resolve_ops=ro[1]), squeeze=True)
            vxy, _ = yastn.split_data_and_meta((2 * xs - 3 * ys).to_dict(level=0, meta=meta, resolve_ops=ro[2]), squeeze=True)
        except yastn.YastnError as e:
            ctx.violation('to_dict(meta=...) rejected a tensor compatible with the meta (%s): %s' % (how, str(e)[:120]), desc)
            continue
        fam = 'to_dict-meta-with-lazy-transpose-in-meta' if how == 'meta_lazy' else None
        if not (vx.shape == vy.shape == vxy.shape):
            ctx.violation('to_dict(meta=..., resolve_ops=%r) gives vectors of different lengths %r for tensors serialised against one meta (%s)' % (
                ro[:3], (vx.shape, vy.shape, vxy.shape), how), desc, family=fam)
            continue
        if not np.array_equal(vxy, 2 * vx - 3 * vy):
            ctx.violation('to_dict(meta=...) is not linear (%s)' % how, desc, family=fam)
        if not np.isclose(np.linalg.norm(vx), xs.norm()):
            ctx.violation('to_dict(meta=...) does not preserve the norm (%s)' % how, desc, family=fam)
        back = yastn.from_dict(yastn.combine_data_and_meta(vx, meta))
        lg = {i: yastn.legs_union(back.get_legs(i), xs.get_legs(i)) for i in range(r)}
        if tuple(back.n) != tuple(xs.n) or not np.array_equal(back.to_numpy(legs=lg), xs.to_numpy(legs=lg)):
            ctx.violation('from_dict(combine_data_and_meta(to_dict(x, meta).data, meta)) is not x (%s, perm %r, sym %s)' % (how, perm, sym), desc, family=fam)
        # a tensor whose blocks, slices and meta-fusion agree with the meta but whose HARD-fusion history differs (legs fused in the other order)
        if sym != 'dense' and rng.random() < 0.5:
            l1 = tgen.rleg(rng, cfg, sym, maxD=2, nsec=2)
            l2 = tgen.rleg(rng, cfg, sym, s=l1.s, maxD=2, nsec=2)
            try:
                t12 = tgen.rtensor(rng, cfg, [l1, l2, l1.conj()], n=cfg.sym.zero()).fuse_legs(axes=((0, 1), 2), mode='hard')
                t21 = tgen.rtensor(rng, cfg, [l2, l1, l1.conj()], n=cfg.sym.zero()).fuse_legs(axes=((0, 1), 2), mode='hard')
                if t12.size and t12.struct == t21.struct and t12.slices == t21.slices and t12.hfs != t21.hfs:
                    _, m12 = yastn.split_data_and_meta(t12.to_dict(level=0), squeeze=True)
                    ctx.count('meta:other-hard-fusion-history')
                    try:
                        t21.to_dict(level=0, meta=m12, resolve_ops=ro[3])
                        ctx.violation('to_dict(meta=...) accepted a tensor whose hard-fusion history differs from the one of the meta (legs fused in the other order)', dict(desc, what='hfs'))
                    except yastn.YastnError:
                        pass
            except yastn.YastnError:
                pass
        # incompatible meta
        other_legs = [tgen.perturb_leg(rng, cfg, sym, l) for l in legs]
        if sym != 'dense' and [o.t for o in other_legs] != [l.t for l in legs]:
            # presented with the same LOGICAL leg order as the tensor the meta was taken from
            if how == 'meta_lazy':
                z = tgen.rtensor(rng, cfg, [other_legs[p_] for p_ in perm], n=n)
            else:
                z = tgen.rtensor(rng, cfg, other_legs, n=n)
                if how in ('x_lazy', 'both_lazy'):
                    z = z.transpose(perm)
            zl = z.get_legs()
            zl = list(zl) if isinstance(zl, (list, tuple)) else [zl]
            rl = ref.get_legs()
            rl = list(rl) if isinstance(rl, (list, tuple)) else [rl]
            extra = any(t not in dict(zip(l.t, l.D)) for o, l in zip(zl, rl) for t in o.t) if z.size else False
            if extra:
                try:
                    z.to_dict(level=0, meta=meta, resolve_ops=ro[3])
                    ctx.violation('to_dict(meta=..., resolve_ops=%s) accepted a tensor with blocks outside the meta' % ro[3], desc)
                except yastn.YastnError:
                    pass


def mps_peps_roundtrips(ctx, quick, trees):
    import yastn, yastn.tn.mps as mps, yastn.tn.fpeps as fpeps, mgen, tgen, h5py
    rng = ctx.rng
    for k in range(20 if quick else 300):
        fam, sym = rng.choice(mgen.FAMILIES)
        ops = mgen.operators(fam, sym)
        N = rng.randint(1, 5)
        try:
            psi = mgen.int_mps(rng, ops, N, D_total=4, n=rng.choice(mgen.admissible_charges(ops, N)), cplx=rng.random() < 0.3)
            H = mgen.int_mps(rng, ops, N, D_total=3, nr_phys=2)
        except Exception:
            continue
        objs = [('mps', psi), ('mpo', H)]
        mid = psi.copy()
        if N >= 2:
            mid.canonize_(to='first', normalize=False)
            mid.orthogonalize_site_(n=rng.randrange(N), to=rng.choice(['first', 'last']), normalize=False)
            if mid.pC is not None:
                objs.append(('mps-with-central-block', mid))
        if rng.random() < 0.5:
            objs.append(('mps-with-factor', -2.5 * psi))
        # periodic MPO with its truncation tolerance (an attribute next to the tensors)
        if N >= 2:
            P = mps.MpoPBC(N=N)
            for n_ in range(N):
                P[n_] = H[n_]
            P.tol = rng.choice([None, 1e-8, 0.5])
            for level in (0, 1, 2):
                for rn, route in (('direct', lambda d: d), ('split', lambda d: yastn.combine_data_and_meta(*yastn.split_data_and_meta(d)))):
                    ctx.case(dict(kind='mpo-pbc-roundtrip', family=fam, sym=sym, N=N, level=level, route=rn, rep=k), nontrivial=True)
                    try:
                        Q = mps.MpoPBC.from_dict(route(P.to_dict(level=level)))
                        ok = type(Q).__name__ == 'MpoPBC' and Q.tol == P.tol and Q.N == P.N and all(tgen.obs(Q[n_]) == tgen.obs(P[n_]) for n_ in range(N))
                    except Exception as e:
                        ok = False
                    if not ok:
                        ctx.violation('MpoPBC (tol=%r) does not round-trip through to_dict(level=%d)/%s (%s %s N=%d)' % (P.tol, level, rn, fam, sym, N),
                                      dict(kind='mpo-pbc-roundtrip', family=fam, sym=sym, N=N, level=level, route=rn, tol=P.tol), family='mpo-pbc-tol')
        for name, ob in objs:
            ref = mgen.dense_state(ob.shallow_copy(), ops) if True else None
            desc = dict(kind='mps-roundtrip', obj=name, family=fam, sym=sym, N=N, rep=k)
            ctx.case(desc, nontrivial=True)
            ctx.count('mps:' + name)
            for level in (0, 1, 2):
                d = ob.to_dict(level=level)
                if k % 4 == 0:
                    trees.append(('%s level %d' % (name, level), d))
                for rn, route in (('direct', lambda d=d: d), ('split', lambda d=d: yastn.combine_data_and_meta(*yastn.split_data_and_meta(d)))):
                    try:
                        ob2 = yastn.from_dict(route()) if level >= 1 else mps.MpsMpoOBC.from_dict(route())
                        d2 = mgen.dense_state(ob2, ops)
                        ok = np.array_equal(d2, ref) and ob2.N == ob.N and ob2.nr_phys == ob.nr_phys and ob2.pC == ob.pC and ob2.factor == ob.factor
                    except Exception as e:
                        ok = False
                        desc = dict(desc, error='%s: %s' % (type(e).__name__, str(e)[:120]))
                    if not ok:
                        ctx.violation('%s does not round-trip through to_dict(level=%d)/%s (%s %s N=%d)' % (name, level, rn, fam, sym, N), dict(desc, level=level, route=rn))
            # HDF5 and legacy dictionary
            try:
                with h5py.File(io.BytesIO(), 'w') as f:
                    ob.save_to_hdf5(f, 'state/')
                    ob3 = mps.load_from_hdf5(ops.config, f, 'state/')
                if not np.array_equal(mgen.dense_state(ob3, ops), ref):
                    ctx.violation('%s does not round-trip through HDF5 (%s %s N=%d)' % (name, fam, sym, N), dict(desc, route='hdf5'))
                ob4 = mps.load_from_dict(ops.config, ob.save_to_dict())
                if not np.array_equal(mgen.dense_state(ob4, ops), ref):
                    ctx.violation('%s does not round-trip through save_to_dict (%s %s N=%d)' % (name, fam, sym, N), dict(desc, route='legacy'))
            except Exception as e:
                ctx.violation('%s HDF5/legacy round trip raised %s: %s' % (name, type(e).__name__, str(e)[:120]), dict(desc, route='hdf5/legacy'))
    # PEPS / Lattice on every lattice type
    geoms = [fpeps.SquareLattice(dims=(2, 2), boundary='obc'), fpeps.SquareLattice(dims=(2, 3), boundary='cylinder'), fpeps.SquareLattice(dims=(1, 2), boundary='infinite'),
             fpeps.CheckerboardLattice(), fpeps.RectangularUnitcell(pattern=[[0, 1, 2], [1, 2, 0], [2, 0, 1]]), fpeps.TriangularLattice(),
             fpeps.TriangularLattice(dims=(2, 2), boundary='obc', full_patch=True)]
    for g in geoms:
        ops = yastn.operators.SpinlessFermions(sym=rng.choice(['Z2', 'U1']))
        occ = {s: ops.vec_n(val=rng.randrange(2)) for s in g.sites()}
        psi = fpeps.product_peps(g, occ)
        for s in g.sites():
            tgen.int_fill(rng, psi[s]) if False else None
        for level in (0, 1, 2):
            d = psi.to_dict(level=level)
            trees.append(('peps %s level %d' % (type(g).__name__, level), d))
            for rn, route in (('direct', lambda d=d: d), ('split', lambda d=d: yastn.combine_data_and_meta(*yastn.split_data_and_meta(d)))):
                desc = dict(kind='peps-roundtrip', lattice=type(g).__name__, level=level, route=rn)
                ctx.case(desc, nontrivial=True)
                try:
                    psi2 = yastn.from_dict(route()) if level >= 1 else fpeps.Peps.from_dict(route())
                    ok = psi2.geometry == psi.geometry and all(obs_equal(psi[s], psi2[s]) is None for s in g.sites())
                except Exception as e:
                    ok = False
                    desc = dict(desc, error='%s: %s' % (type(e).__name__, str(e)[:120]))
                if not ok:
                    ctx.violation('Peps on %s does not round-trip through to_dict(level=%d)/%s' % (type(g).__name__, level, rn), desc)


def run(ctx):
    st = vlib.prepare(ctx, PROP_V, need_translators=('tr_deleg',))
    quick = ctx.tier == 'quick'
    ctx.cov['rule'] = ('tensors (plain, diagonal incl. transposed, hard/meta/nested fused, blocked, lazily transposed, empty, complex) of all 7 symmetries and fermionic '
                       'flags x levels 0-2 x routes (direct, numpy save/load, split/combine, legacy dictionary, HDF5); to_dict against a supplied '
                       'meta (plain, lazily transposed tensor and/or meta, self-similar legs); MPS/MPO of every operator family with/without central block and factor; '
                       'Peps on every lattice type; the dictionary trees of these objects through the split/combine model. non-trivial = object with data; distinct by (style, seed)')
    trees = []
    tensor_roundtrips(ctx, quick, trees)
    meta_linear(ctx, quick)
    mps_peps_roundtrips(ctx, quick, trees)
    bad = split_combine_correspondence(ctx, st, trees)
    if bad and not ctx.violations:
        ctx.violation('split/combine model and implementation disagree: %r' % (bad[0],), dict(kind='correspondence', first=bad[:5]))
    if ctx.broken and not ctx.violations:
        ctx.violation('obligation or tie no longer checks: %s' % ctx.broken[0], dict(kind='obligation', broken=ctx.broken), found_input=False)
    return ctx.finish(level='proof', checker_cmd='make -C /verif/coq (coqc 8.16.1) + coqc properties/C17.v (Print Assumptions)',
                      assumptions=['numpy.save/np.load(pickle), h5py and json are faithful transports (modelled by listify)', 'integer-valued data: comparisons exact'])


def replay(ctx, path):
    print(json.dumps(json.load(open(path)), indent=1)[:4000])
    return 0
