"""C13 -- truncation keeps exactly the largest weights and reports the true error.
proof: Linalg/Trunc.v + TruncLaws.v; tie: exact correspondence of truncation_mask (both stages, dict forms, ties fed through
NumPy's own argsort) on integer spectra with dyadic tolerances; direct oracle: tie-insensitive reference selection, limits,
and the error identity of svd_with_truncation / eigh_with_truncation on random tensors."""
import json, math, random
from fractions import Fraction
import numpy as np
import vlib

PROP_V = 'properties/C13.v'
OP_GLOBAL, OP_BLOCKS = 31, 32
TOLS = [(0, 1), (0, 1), (1, 2), (1, 4), (1, 8), (3, 8), (1, 1), (1, 1024), (5, 4)]


def gen_case(rng):
    import yastn, tgen
    sym = rng.choice(['U1', 'U1', 'Z3', 'Z2', 'U1xU1', 'dense'])
    cfg = tgen.make_cfg(sym)
    nb = 1 if sym == 'dense' else rng.randint(1, {'Z2': 2, 'Z3': 3}.get(sym, 5))
    if sym == 'dense':
        leg = yastn.Leg(cfg, s=1, D=[rng.randint(1, 8)])
    else:
        ts = set()
        for _ in range(50):
            if len(ts) >= nb:
                break
            ts.add(tgen.rcharge(rng, sym, wide=True))
        ts = sorted(ts)
        leg = yastn.Leg(cfg, s=1, t=ts, D=[rng.choice([1, 1, 2, 3, 4, 6]) for _ in ts])
    S = yastn.zeros(cfg, legs=[leg, leg.conj()], isdiag=True)
    style = rng.choice(['ties', 'ties', 'distinct', 'zeros', 'equal'])
    n = S.size
    if style == 'distinct':
        vals = rng.sample(range(1, 200), n)
    elif style == 'equal':
        vals = [rng.randint(1, 5)] * n
    elif style == 'zeros':
        vals = [rng.choice([0, 0, 1, 2, 7]) for _ in range(n)]
    else:
        vals = [rng.choice([1, 2, 2, 4, 4, 8, 16, 3]) for _ in range(n)]
    S._data = np.array(vals, dtype=np.float64)
    tsl = list(leg.t) if sym != 'dense' else [()]
    # options
    tol = rng.choice(TOLS)
    if rng.random() < 0.3:
        tolb = ('dict', {t: rng.choice(TOLS) for t in tsl if rng.random() < 0.7})
    else:
        tolb = ('scalar', rng.choice(TOLS))
    r = rng.random()
    if r < 0.3:
        Db = ('dict', {t: rng.randint(0, 4) for t in tsl if rng.random() < 0.7})
    elif r < 0.55:
        Db = ('scalar', None)
    else:
        Db = ('scalar', rng.randint(0, 5))
    Dt = None if rng.random() < 0.35 else rng.randint(0, max(1, n))
    return dict(sym=sym, S=S, leg=leg, tol=tol, tolb=tolb, Db=Db, Dt=Dt, vals=vals, style=style)


def fl(pq):
    return pq[0] / pq[1]


def call_impl(c):
    import yastn
    kw = dict(tol=fl(c['tol']))
    kw['tol_block'] = {t: fl(v) for t, v in c['tolb'][1].items()} if c['tolb'][0] == 'dict' else fl(c['tolb'][1])
    kw['D_block'] = dict(c['Db'][1]) if c['Db'][0] == 'dict' else (float('inf') if c['Db'][1] is None else c['Db'][1])
    kw['D_total'] = float('inf') if c['Dt'] is None else c['Dt']
    M = yastn.truncation_mask(c['S'], **kw)
    return M, kw


def blocks_of(S):
    nsym = S.config.sym.NSYM
    out = []
    for t, sl in zip(S.struct.t, S.slices):
        out.append((tuple(t[:nsym]), slice(*sl.slcs[0])))
    return out


def reference_kept(c):
    """tie-insensitive reference: the multiset of values that must be kept"""
    S = c['S']
    surv = []
    for t, slc in blocks_of(S):
        vals = [int(x) for x in S._data[slc]]
        tb = c['tolb'][1].get(t, (0, 1)) if c['tolb'][0] == 'dict' else c['tolb'][1]
        mx = max([abs(v) for v in vals] + [0])
        ntol = sum(1 for v in vals if Fraction(v) > Fraction(*tb) * mx)
        Dbl = c['Db'][1].get(t, 0) if c['Db'][0] == 'dict' else c['Db'][1]
        Dbl = ntol if Dbl is None else min(Dbl, ntol)
        keep = sorted(vals, reverse=True)[:Dbl] if Dbl > 0 else []
        surv += keep
    mx = max([abs(v) for v in surv] + [0])
    ntol = sum(1 for v in surv if Fraction(v) > Fraction(*c['tol']) * mx)
    Dt = ntol if c['Dt'] is None else min(c['Dt'], ntol)
    return sorted(sorted(surv, reverse=True)[:Dt])


def numeric_error_identity(ctx, quick):
    """svd_with_truncation / eigh_with_truncation: ||a - U S V|| equals the norm of the discarded values; kept = the largest"""
    import yastn, tgen
    rng = ctx.rng
    n = 150 if quick else 2000
    for k in range(n):
        sym = rng.choice(['U1', 'Z2', 'Z3', 'dense', 'U1xU1'])
        cfg = tgen.make_cfg(sym)
        r = rng.randint(2, 4)
        legs = [tgen.rleg(rng, cfg, sym, maxD=4) for _ in range(r)]
        try:
            a = yastn.rand(cfg, legs=legs, n=tgen.allowed_charge(rng, cfg, sym, legs), dtype=rng.choice(['float64', 'complex128']))
        except yastn.YastnError:
            continue
        if a.size == 0:
            continue
        nl = rng.randint(1, r - 1)
        perm = list(range(r)); rng.shuffle(perm)
        axes = (tuple(perm[:nl]), tuple(perm[nl:]))
        U0, S0, V0 = yastn.svd(a, axes=axes, sU=rng.choice([1, -1]))
        ns = S0.size
        if ns == 0:
            continue
        opts = dict(D_total=rng.randint(1, ns), tol=rng.choice([0, 1e-3, 0.2]))
        if rng.random() < 0.5:
            opts['D_block'] = rng.randint(1, 3)
        if rng.random() < 0.3:
            opts['tol_block'] = rng.choice([0.1, 0.5])
        U, S, V = yastn.svd_with_truncation(a, axes=axes, **opts)
        rec = (U @ S @ V).transpose(np.argsort(axes[0] + axes[1]).tolist()) if U.size else None
        err2 = (a - rec).norm() ** 2 if rec is not None else a.norm() ** 2
        disc2 = S0.norm() ** 2 - S.norm() ** 2
        ctx.count('svd_with_truncation')
        ctx.case(dict(kind='svd_with_truncation', sym=sym, axes=axes, opts=opts), nontrivial=True)
        if abs(err2 - disc2) > 1e-9 * max(1.0, a.norm() ** 2):
            ctx.violation('svd_with_truncation: |a - U S V|^2 = %.12g but discarded weight = %.12g (opts %r, sym %s, axes %r)' % (err2, disc2, opts, sym, axes),
                          dict(kind='svd-error-identity', sym=sym, axes=axes, opts=opts, err2=float(err2), disc2=float(disc2), seed_index=k))
        if S.size > opts['D_total']:
            ctx.violation('svd_with_truncation keeps %d > D_total=%d values' % (S.size, opts['D_total']), dict(kind='svd-Dtotal', opts=opts, sym=sym))
        # non-binding limits discard nothing
        U2, S2, V2 = yastn.svd_with_truncation(a, axes=axes, D_total=ns + 3, tol=0, D_block=10 ** 6)
        if S2.size != sum(1 for x in S0._data if x > 0):
            ctx.violation('svd_with_truncation with non-binding limits discards values: %d of %d positive kept' % (S2.size, ns), dict(kind='svd-nonbinding', sym=sym, axes=axes))
        # the wrappers forward EVERY limit to truncation_mask (the function the Coq model is tied to): kept values = mask of the full spectrum
        def kept_sorted(Sx):
            return sorted(np.real(Sx._data).tolist())
        m0 = yastn.linalg.truncation_mask(S0, **opts)
        want = kept_sorted(m0.apply_mask(S0, axes=0))
        if not np.allclose(kept_sorted(S), want, rtol=1e-10, atol=1e-12) if len(want) == S.size else True:
            ctx.violation('svd_with_truncation(%r) keeps %d values, truncation_mask on the full spectrum with the same limits keeps %d (sym %s)' % (opts, S.size, len(want), sym),
                          dict(kind='svd-forwarding', sym=sym, axes=axes, opts=opts, seed_index=k))
        if nl >= 1:
            hp = yastn.tensordot(a, a.conj(), axes=(axes[1], axes[1]))
            hlp = len(axes[0])
            hp = hp.fuse_legs(axes=(tuple(range(hlp)), tuple(range(hlp, 2 * hlp))), mode='hard')
            eopts = dict(tol=rng.choice([0, 1e-6, 1e-3, 0.05]), tol_block=rng.choice([0, 1e-3, 0.1, 0.5]))
            if rng.random() < 0.5:
                eopts['D_total'] = rng.randint(1, max(1, hp.get_shape(0)))
            if rng.random() < 0.4:
                eopts['D_block'] = rng.randint(1, 3)
            try:
                Sf, Uf = yastn.eigh(hp, axes=(0, 1))
                Se, Ue = yastn.eigh_with_truncation(hp, axes=(0, 1), which='LR', **eopts)
                me = yastn.linalg.truncation_mask(Sf, **eopts)
                wante = kept_sorted(me.apply_mask(Sf, axes=0))
                ctx.count('eigh_with_truncation:forwarding')
                if len(wante) != Se.size or not np.allclose(kept_sorted(Se), wante, rtol=1e-9, atol=1e-10 * max(1.0, float(Sf.norm()))):
                    ctx.violation('eigh_with_truncation(which=LR, %r) on a positive matrix keeps %d values, truncation_mask on its full spectrum with the same limits keeps %d (sym %s)' % (
                        eopts, Se.size, len(wante), sym), dict(kind='eigh-forwarding', sym=sym, axes=axes, opts=eopts, seed_index=k))
            except yastn.YastnError:
                pass
            # the same operator presented META-fused, the new leg of U at any position: the error identity |h - U S U^+|^2 = discarded weight
            if hlp >= 2:
                try:
                    h4 = yastn.tensordot(a, a.conj(), axes=(axes[1], axes[1]))
                    hm = h4.fuse_legs(axes=(tuple(range(hlp)), tuple(range(hlp, 2 * hlp))), mode='meta')
                    Uax = rng.choice([-1, 0, 1])
                    Sm, Um = yastn.eigh_with_truncation(hm, axes=(0, 1), which='LR', Uaxis=Uax, **eopts)
                    Um = Um.moveaxis(source=Uax % 2, destination=1)
                    recm = yastn.tensordot(yastn.tensordot(Um, Sm, axes=(1, 0)), Um.conj(), axes=(1, 1))
                    errm = float((hm - recm).norm()) ** 2
                    discm = float(Sf.norm()) ** 2 - float(Sm.norm()) ** 2
                    ctx.count('eigh_with_truncation:meta-fused:Uaxis=%d' % Uax)
                    if not abs(errm - discm) <= 1e-8 * max(1.0, float(hm.norm()) ** 2) or Sm.size != Se.size:
                        ctx.violation('eigh_with_truncation(meta-fused operator, Uaxis=%d, %r): |h - U S U^+|^2 = %.10g, discarded weight = %.10g, kept %d (hard-fused presentation keeps %d) (sym %s)' % (
                            Uax, eopts, errm, discm, Sm.size, Se.size, sym), dict(kind='eigh-meta-uaxis', sym=sym, axes=axes, opts=eopts, Uaxis=Uax, seed_index=k))
                except yastn.YastnError:
                    ctx.count('eigh_with_truncation:meta-fused:rejected')
        # eigh_with_truncation on a Hermitian (indefinite) matrix
        if nl >= 1:
            h = yastn.tensordot(a, a.conj(), axes=(axes[1], axes[1]))
            hl = len(axes[0])
            # make it indefinite: h - c * identity-like (subtract a multiple of itself squared is overkill) -> use h - shift*eye on fused legs
            hf = h.fuse_legs(axes=(tuple(range(hl)), tuple(range(hl, 2 * hl))), mode='hard')
            try:
                shift = float(np.median(np.linalg.eigvalsh(hf.to_numpy()))) if hf.size else 0.0
                eye = yastn.eye(cfg, legs=hf.get_legs(0), isdiag=False)
                hf = hf - shift * eye
            except Exception:
                continue
            for which in ('LR', 'LM'):
                Dk = rng.randint(1, max(1, hf.get_shape(0) - 1))
                try:
                    Se, Ue = yastn.eigh_with_truncation(hf, axes=(0, 1), which=which, D_total=Dk)
                except yastn.YastnError:
                    continue
                ev = np.linalg.eigvalsh(hf.to_numpy())
                scale = max(1.0, float(np.max(np.abs(ev))))
                eps = 1e-9 * scale
                if which == 'LR':
                    cand = sorted([x for x in ev if x > eps], reverse=True)[:Dk]
                    got = sorted(x for x in np.real(Se._data).tolist() if x > eps)
                    cand = sorted(cand)
                else:   # compare magnitudes: +x and -x tie under 'LM'
                    cand = sorted(sorted([abs(x) for x in ev if abs(x) > eps], reverse=True)[:Dk])
                    got = sorted(abs(x) for x in np.real(Se._data).tolist() if abs(x) > eps)
                ngot_all = Se.size
                ctx.count('eigh_with_truncation:' + which)
                # values within eps of zero may or may not be counted: allow the kept list to be shorter by those only
                near0 = sum(1 for x in ev if abs(x) <= eps)
                ok_len = len(got) == len(cand) or (len(got) < len(cand) and len(cand) - len(got) <= near0 and ngot_all >= min(Dk, len(ev)) - 0)
                if ngot_all > Dk or not ok_len or not np.allclose(cand[len(cand) - len(got):], got, atol=1e-7 * scale):
                    # degenerate boundary values may legitimately differ by which copy is kept -> compare values only (done above)
                    ctx.violation('eigh_with_truncation(which=%r, D_total=%d) keeps (sorted%s) %r, the largest are %r' % (which, Dk, ' magnitudes' if which == 'LM' else '', got[-6:], cand[-6:]),
                                  dict(kind='eigh-selection', which=which, D_total=Dk, sym=sym, kept=got, expected=cand))
                    break


def run(ctx):
    st = vlib.prepare(ctx, PROP_V, need_translators=('tr_deleg',))
    quick = ctx.tier == 'quick'
    import yastn
    ctx.cov['rule'] = ('spectra over 1-5 charge sectors (sector sizes 1-6; styles: many ties / all equal / distinct / with zeros), integer '
                       'values, dyadic tolerances (incl. 0, 1 and >1), D_block scalar/inf/dict with missing keys and zeros, tol_block scalar/dict, '
                       'D_total 0..n/inf; NumPy argsort of the same arrays fed to the model. non-trivial = >1 value; distinct by values+options')
    n = 2500 if quick else 40000
    cases, stage1, disagreements = [], [], []
    for _ in range(n):
        c = gen_case(ctx.rng)
        try:
            M, kw = call_impl(c)
        except Exception as e:
            ctx.violation('truncation_mask raised %s: %s' % (type(e).__name__, e), dict(kind='raise', vals=c['vals'], opts=repr((c['tol'], c['tolb'], c['Db'], c['Dt']))))
            continue
        c['impl_mask'] = [bool(x) for x in M._data]
        c['kw'] = kw
        S = c['S']
        blocks = []
        for t, slc in blocks_of(S):
            v = S._data[slc]
            blocks.append([list(t), [int(x) for x in v], [int(i) for i in np.argsort(v)]])
        ts = [1, [[list(t), list(pq)] for t, pq in c['tolb'][1].items()]] if c['tolb'][0] == 'dict' else [0, c['tolb'][1][0], c['tolb'][1][1]]
        ds = [1, [[list(t), [d]] for t, d in c['Db'][1].items()]] if c['Db'][0] == 'dict' else [0, [] if c['Db'][1] is None else [c['Db'][1]]]
        c['arg1'] = [ts, ds, blocks]
        cases.append(c)
        ctx.case(dict(kind='truncation_mask', sym=c['sym'], style=c['style'], vals=c['vals'], tol=c['tol'], tol_block=repr(c['tolb']), D_block=repr(c['Db']), D_total=c['Dt']),
                 nontrivial=len(c['vals']) > 1)
        ctx.count('style:' + c['style'])
        ctx.count('Dblock:' + c['Db'][0]); ctx.count('tolblock:' + c['tolb'][0])
        # direct oracle: tie-insensitive reference
        kept = sorted(int(x) for x, m in zip(S._data, c['impl_mask']) if m)
        ref = reference_kept(c)
        if kept != ref:
            ctx.violation('truncation_mask keeps %r, the limits admit exactly the largest %r (values %r, options %r)' % (kept, ref, c['vals'], kw),
                          dict(kind='selection', sym=c['sym'], blocks=[(list(t), [int(x) for x in S._data[s_]]) for t, s_ in blocks_of(S)], options=repr(kw), kept=kept, expected=ref))
    if st['model_ok'] and cases:
        m1s = vlib.run_model([(OP_BLOCKS, c['arg1']) for c in cases])
        args2 = []
        for c, m1 in zip(cases, m1s):
            temp = c['S']._data * np.array(m1, dtype=bool)
            ginds = [int(i) for i in np.argsort(temp)]
            args2.append([c['tol'][0], c['tol'][1], [] if c['Dt'] is None else [c['Dt']], [int(x) for x in c['S']._data], m1, ginds])
        m2s = vlib.run_model([(OP_GLOBAL, a) for a in args2])
        for c, m2 in zip(cases, m2s):
            if [bool(x) for x in m2] != c['impl_mask']:
                disagreements.append(dict(vals=c['vals'], options=repr(c['kw']), model=m2, impl=[int(x) for x in c['impl_mask']]))
        sample = [(OP_BLOCKS, c['arg1'], m1) for c, m1 in list(zip(cases, m1s))[:80]] + [(OP_GLOBAL, a, m2) for a, m2 in list(zip(args2, m2s))[:80]]
        ok, idx, ns = vlib.coq_sample('C13', sample)
        ctx.extra['coq_vm_sample'] = dict(n=ns, mismatches=len(idx), ok=ok)
        if not ok:
            ctx.broken.append('in-Coq vm_compute sample disagrees with the extracted driver at %r' % idx[:5])
    ctx.extra['correspondence'] = dict(cases=len(cases), disagreements=len(disagreements))
    numeric_error_identity(ctx, quick)
    if disagreements:
        ctx.broken.append('correspondence model<->implementation: %d disagreements, first %r' % (len(disagreements), disagreements[0]))
    if ctx.broken and not ctx.violations:
        if disagreements:
            ctx.violation('model and implementation disagree: %r' % (disagreements[0],), dict(kind='correspondence', first=disagreements[:5]), found_input=True)
        else:
            ctx.violation('obligation or tie no longer checks: %s' % ctx.broken[0], dict(kind='obligation', broken=ctx.broken), found_input=False)
    return ctx.finish(level='proof', checker_cmd='make -C /verif/coq (coqc 8.16.1) + coqc properties/C13.v (Print Assumptions)',
                      assumptions=['float64 products tol*max are exact for dyadic tol and integer spectra < 2^40', 'numpy.argsort returns a valid argsort',
                                   'LAPACK svd/eigh meet their specs (U,V (co)isometric): premise of the error identity, validated numerically'])


def replay(ctx, path):
    print(json.dumps(json.load(open(path)), indent=1)[:4000])
    return 0
