"""C18 -- Krylov solvers agree with dense matrix functions.
proof: Krylov/ExpmvCtl.v + ExpmvLaws.v (controller arithmetic GENERATED from yastn/krylov/_krylov.py by tools/translate/tr_krylov.py: exact time
keeping), Krylov/Arnoldi.v + ArnoldiLaws.v (index bookkeeping of expand_krylov_space), Krylov/RitzLift.v (Ritz pairs over any commutative ring).
tie: (1) the translator regenerates the controller on every run; (2) the hand-written pass skeleton and the Arnoldi bookkeeping are executed
against the real code: every pass of real expmv runs is observed with sys.settrace (no change to /repo) and replayed through the model in exact
rational arithmetic; expand_krylov_space is called directly and its (len V, keys of H, happy) compared.
search / premises: expmv, eigs, lin_solver vs scipy.linalg.expm / numpy eigh, eig, solve on the dense matrix of the map."""
import json, sys, os, ast, inspect
from fractions import Fraction
import numpy as np
import vlib

PROP_V = 'properties/C18.v'
OP_EXPAND, OP_PASS, OP_INIT, OP_NCV, OP_DIMS = 120, 121, 122, 123, 124
SYMS = ['dense', 'Z2', 'Z3', 'U1', 'U1xU1', 'Z2xU1']


def q(x):
    fr = Fraction(float(x)) if not isinstance(x, (int, np.integer)) else Fraction(int(x))
    return [fr.numerator, fr.denominator]


def unq(s):
    return Fraction(s[0], s[1])


def close(exact, fl, rel=1e-13):
    fl = float(fl)
    return abs(float(exact) - fl) <= rel * max(abs(fl), abs(float(exact))) + 1e-300


# ---------------------------------------------------------------------------------------------- problem generator
def problem(rng, hermitian, cplx=False, dmin=2, dmax=14, two_legs=None):
    """vector space = tensors with legs `legs` and charge n; f = contraction with an operator O; returns dict with dense references"""
    import yastn, tgen
    for _ in range(200):
        sym = rng.choice(SYMS)
        cfg = tgen.make_cfg(sym)
        k = rng.choice([1, 1, 2]) if two_legs is None else (2 if two_legs else 1)
        legs = [tgen.rleg(rng, cfg, sym, maxD=min(dmax, 16) if k == 1 else max(3, int(dmax ** 0.5) + 1), nsec=rng.randint(1, 3)) for _ in range(k)]
        ns = [()] if sym == 'dense' else sorted(_charges(cfg, legs))
        rng.shuffle(ns)
        for n in ns:
            try:
                one = yastn.ones(cfg, legs=legs, n=n if sym != 'dense' else None)
            except Exception:
                continue
            d = one.size
            if dmin <= d <= dmax:
                break
        else:
            continue
        dt = 'complex128' if cplx else 'float64'
        cfg.backend.random_seed(seed=rng.randrange(2 ** 31))
        O = yastn.rand(cfg, legs=legs + [l.conj() for l in legs], dtype=dt)
        if hermitian:
            O = O + O.conj().transpose(tuple(range(k, 2 * k)) + tuple(range(k)))
        v = yastn.rand(cfg, legs=legs, n=n if sym != 'dense' else None, dtype=dt)
        if v.size != d:
            continue
        lg = {i: l for i, l in enumerate(legs)}
        D = int(np.prod([sum(l.D) for l in legs]))
        lo = {i: l for i, l in enumerate(legs + [l.conj() for l in legs])}
        Om = O.to_numpy(legs=lo).reshape(D, D)

        def f(x, O=O, k=k):
            return yastn.tensordot(O, x, axes=(tuple(range(k, 2 * k)), tuple(range(k))))

        def dense(x, lg=lg, D=D):
            return x.to_numpy(legs=lg).reshape(D)
        # basis of the sector: positions where `one` is non-zero
        mask = dense(one) != 0
        if rng.random() < 0.3 and len(v.get_blocks_charge()) >= 2:
            # a start vector that lacks blocks the map populates: v.size underestimates the dimension of the space
            ts = list(v.get_blocks_charge())
            for t_ in rng.sample(ts, rng.randint(1, len(ts) - 1)):
                v[t_] = 0 * v[t_]
            v = v.remove_zero_blocks()
        return dict(sym=sym, cfg=cfg, legs=legs, n=n, d=d, O=O, f=f, v=v, dense=dense, Om=Om, mask=mask, k=k, D=D, dtype=dt)
    raise RuntimeError('no problem found')


def _charges(cfg, legs):
    import itertools
    out = set()
    for ts in itertools.product(*[l.t for l in legs]):
        out.add(tuple(int(x) for x in np.atleast_1d(cfg.sym.add_charges(*ts, signatures=tuple(l.s for l in legs)))))
    return out


# ---------------------------------------------------------------------------------------------- tracing the real controller
def _lines():
    import yastn.krylov._krylov as K
    src, first = inspect.getsourcelines(K.expmv)
    tree = ast.parse(''.join(src))
    fn = tree.body[0]
    W = [s for s in fn.body if isinstance(s, ast.While)][0]
    body = W.body
    acc = [s for s in body if isinstance(s, ast.If) and any(isinstance(x, ast.AugAssign) and getattr(x.target, 'id', None) == 't_now' for x in s.body)][0]
    ia = body.index(acc)
    tl = [s for s in body[ia + 1:] if isinstance(s, ast.Assign)]
    after = fn.body[fn.body.index(W) + 1]
    off = first - 1
    return dict(start=body[0].lineno + off, acc=acc.lineno + off, tau=tl[0].lineno + off, ncv=tl[1].lineno + off, end=after.lineno + off, code=K.expmv.__code__)


def traced_expmv(L, *args, **kwargs):
    import yastn
    ev = []
    keys = ('t_now', 't_out', 'tau', 'tau_new', 'omega', 'happy', 'm', 'ncv', 'ncv_new', 'ncv_max')

    def tr(frame, event, arg):
        if frame.f_code is not L['code']:
            return None
        if event == 'line' and frame.f_lineno in (L['start'], L['acc'], L['tau'], L['ncv'], L['end']):
            loc = frame.f_locals
            ev.append((frame.f_lineno, {k_: loc.get(k_) for k_ in keys}, loc['info']['steps']))
        return tr
    old = sys.gettrace()
    sys.settrace(tr)
    try:
        out = yastn.expmv(*args, **kwargs)
    finally:
        sys.settrace(old)
    return out, ev


def traced_dims(fname, vecs, call):
    """run call() and capture (happy, len(vecs) before truncation) and (m, len(vecs), T.shape) at the end of yastn.krylov._krylov.<fname>"""
    import yastn.krylov._krylov as K
    fn = getattr(K, fname)
    src, first = inspect.getsourcelines(fn)
    tree = ast.parse(''.join(src)).body[0]
    cut = [s_ for s_ in tree.body if isinstance(s_, ast.Assign) and isinstance(s_.targets[0], ast.Name) and s_.targets[0].id == vecs and isinstance(s_.value, ast.Subscript)]
    ln_cut = cut[0].lineno + first - 1
    rec = {}

    def tr(frame, event, arg):
        if frame.f_code is not fn.__code__:
            return None
        if event == 'line' and frame.f_lineno == ln_cut:
            rec['happy'] = bool(frame.f_locals['happy']); rec['len0'] = len(frame.f_locals[vecs]); rec['supp'] = max(int(x.size) for x in frame.f_locals[vecs])
        if event == 'return':
            loc = frame.f_locals
            if 'T' in loc and 'm' in loc:
                rec['m'] = int(loc['m']); rec['len1'] = len(loc[vecs]); rec['T'] = tuple(int(x) for x in loc['T'].shape)
        return tr
    old = sys.gettrace()
    sys.settrace(tr)
    try:
        out = call()
    finally:
        sys.settrace(old)
    return out, rec


def passes_from_events(L, ev):
    out, cur = [], None
    for ln, loc, steps in ev:
        if ln == L['start']:
            cur = dict(t_out=loc['t_out'], t_now0=loc['t_now'], tau0=loc['tau'], steps0=steps, ncv0=loc['ncv'])
        elif cur is not None and ln == L['acc']:
            cur.update(happy=bool(loc['happy']), omega=loc['omega'], tau_new=loc['tau_new'], m=loc['m'], ncv_new=loc['ncv_new'], ncv_max=loc['ncv_max'], tau1=loc['tau'])
        elif cur is not None and ln == L['tau']:
            cur.update(t_now1=loc['t_now'], accepted=steps > cur['steps0'])
        elif cur is not None and ln == L['ncv']:
            cur.update(tau2=loc['tau'])
            out.append(cur)
        if ln in (L['start'], L['end']) and out and 'ncv2' not in out[-1]:
            out[-1]['ncv2'] = loc['ncv']
    return out


# ---------------------------------------------------------------------------------------------- the check
def _case_rng(ctx, seeds, rep):
    import random
    sd = seeds[rep] if seeds is not None else ctx.rng.randrange(2 ** 31)
    r = random.Random(sd)
    r.case_seed = sd
    return r


def expand_cases(ctx, n_cases, jobs, src, seeds=None):
    import yastn
    # ---- (1) expand_krylov_space bookkeeping
    for rep in range(n_cases):
        rng = _case_rng(ctx, seeds, rep)
        herm = rng.random() < 0.5
        P = problem(rng, herm, cplx=rng.random() < 0.3, dmax=8)
        d, f, v = P['d'], P['f'], P['v']
        ncv1 = rng.randint(0, d + 2)
        V = [v / v.norm()]
        V, H, happy = v.expand_krylov_space(f, 1e-10, ncv1, herm, V)
        desc = dict(kind='expand', sym=P['sym'], d=d, ncv=ncv1, hermitian=herm, case_seed=rng.case_seed)
        ctx.case(desc, nontrivial=d >= 2)
        jobs.append((OP_EXPAND, [ncv1, int(herm), d - 1, 1, []]))
        src.append(('expand', desc, [len(V), sorted([list(k_) for k_ in H.keys()]), int(happy), 0]))
        if not happy and len(V) >= 2 and rng.random() < 0.7:
            # what a rejected expmv pass does, then re-entry with a larger ncv
            m = len(V) - 1
            h = H.pop((m, m - 1)); H[(0, m)] = 1.0; H.pop((0, m)); H[(m, m - 1)] = h
            keys0 = sorted([list(k_) for k_ in H.keys()])
            ncv2 = ncv1 + rng.randint(0, 4)
            n0 = len(V)
            try:
                V, H, happy = v.expand_krylov_space(f, 1e-10, ncv2, herm, V, H)
                got = [len(V), sorted([list(k_) for k_ in H.keys()]), int(happy), 0]
            except KeyError:
                got = [None, None, None, 1]
            desc2 = dict(desc, kind='expand-reentry', ncv2=ncv2, lenV0=n0)
            ctx.case(desc2, nontrivial=True)
            jobs.append((OP_EXPAND, [ncv2, int(herm), d - 1, n0, keys0]))
            src.append(('expand', desc2, got))



def expmv_cases(ctx, L, n_cases, focused, jobs, src, seeds=None):
    import yastn, scipy.linalg
    # ---- (2) expmv: dense oracle + traced passes
    for rep in range(n_cases):
        rng = _case_rng(ctx, seeds, rep)
        herm = rng.random() < 0.6
        cplx = rng.random() < 0.3
        big = rng.random() < 0.15
        substep = focused or rng.random() < 0.3      # small sector, small initial ncv, long evolution: the space closes on a later sub-step
        if substep:
            herm = True
            P = problem(rng, herm, cplx=cplx, dmin=9 if focused else 5, dmax=14)
        else:
            P = problem(rng, herm, cplx=cplx, dmin=2, dmax=14) if not big else problem(rng, herm, cplx=cplx, dmin=15, dmax=300, two_legs=True)
        d, f, v, Om, dense = P['d'], P['f'], P['v'], P['Om'], P['dense']
        nF = max(np.linalg.norm(Om, 2), 1e-12)
        kind = rng.choice(['real', 'real', 'neg', 'imag', 'complex', 'zero', 'tiny']) if not substep else rng.choice(['imag', 'imag', 'neg'] if not focused else ['imag'])
        mag = (rng.choice([1e-3, 0.1, 1.0, 5.0, 20.0, 60.0]) if not substep else rng.choice([30.0, 60.0, 120.0, 250.0] if not focused else [120.0, 200.0, 400.0])) / nF
        if herm and kind in ('real', 'complex') and mag * nF > 20:
            mag = 20.0 / nF     # exp growth: keep the condition of the problem moderate
        if not herm and mag * nF > 10:
            mag = 10.0 / nF
        t = {'real': mag, 'neg': -mag, 'imag': 1j * mag, 'complex': mag * np.exp(1j * rng.uniform(0, 6.28)), 'zero': 0.0, 'tiny': 1e-9 / nF}[kind]
        if not cplx and isinstance(t, complex):
            v = v.to(dtype='complex128') if hasattr(v, 'to') else v * (1 + 0j)
        ncv = rng.choice([1, 2, 3, 3, 5, 10, 40])
        tol = rng.choice([1e-12, 1e-12, 1e-10, 1e-8])
        normalize = rng.random() < 0.4
        start = rng.choice(['generic'] * 5 + ['zero', 'eigen', 'near-eigen'])
        if substep:
            ncv, tol, start = rng.choice([1, 2, 3]), rng.choice([1e-12, 1e-12, 1e-13, 1e-14]), 'generic'
        if start in ('eigen', 'near-eigen') and not isinstance(t, complex) and abs(t) * nF > 3:
            # an eigenvector start makes exp(tF)v ill-conditioned for long real-time evolutions (rounding noise in the other eigen-directions is
            # amplified by exp(|t| * spread)): keep those to unitary evolutions or short times
            t = 1j * abs(t) if herm else t * 3 / (abs(t) * nF)
        if start == 'zero':
            v = 0 * v
        elif start in ('eigen', 'near-eigen') and herm:
            w, U = np.linalg.eigh(Om)
            # an eigenvector inside the sector: project a generic sector vector by a few power steps is fragile; use dense eigh of the sector block
            idx = np.where(P['mask'])[0]
            B = Om[np.ix_(idx, idx)]
            wb, Ub = np.linalg.eigh(B)
            vec = np.zeros(P['D'], dtype=Ub.dtype); vec[idx] = Ub[:, rng.randrange(len(wb))]
            ev_t = _from_dense(P, vec)
            v = ev_t if start == 'eigen' else ev_t + 1e-7 * v / v.norm()
        desc = dict(kind='expmv', sym=P['sym'], d=d, hermitian=herm, cplx=cplx, t=str(t), ncv=ncv, tol=tol, normalize=normalize, start=start, case_seed=rng.case_seed, focused=focused)
        ctx.case(desc, nontrivial=d >= 2)
        ctx.count('expmv:t=' + kind); ctx.count('expmv:start=' + start)
        v0d = dense(v)
        ref = scipy.linalg.expm(t * Om) @ v0d
        if os.environ.get('VERIF_DEBUG'):
            print('expmv-case', json.dumps(desc, default=str), flush=True)
        try:
            with vlib.time_limit(60):
                (out, info), ev = traced_expmv(L, f, v, t, tol=tol, ncv=ncv, hermitian=herm, normalize=normalize, return_info=True)
        except vlib.TimeLimit:
            ctx.violation('expmv(t=%s, ncv=%d, tol=%g, hermitian=%s) did not finish within 60 s on a %d-dimensional sector (%s)' % (t, ncv, tol, herm, d, P['sym']), dict(desc, kind='expmv-hang'),
                          family='expmv-does-not-terminate')
            continue
        except yastn.YastnError as e:
            if start == 'zero' and normalize:
                ctx.count('expmv:zero-vector-rejected')
                continue
            ctx.violation('expmv rejected a well-formed problem: %s' % str(e)[:150], desc)
            continue
        except (KeyError, IndexError, ValueError, ZeroDivisionError, OverflowError) as e:
            ctx.violation('expmv raised %s: %s (%s d=%d t=%s ncv=%d)' % (type(e).__name__, str(e)[:100], P['sym'], d, t, ncv), desc)
            continue
        od = dense(out)
        nref = np.linalg.norm(ref)
        if normalize and nref > 0:
            ref_n = ref / nref
            ok = abs(np.linalg.norm(od) - 1) < 1e-9 and np.linalg.norm(od - ref_n) <= max(2e3 * tol, 1e-9)
        else:
            ok = np.linalg.norm(od - ref) <= max(2e3 * tol, 1e-9) * max(nref, np.linalg.norm(v0d), 1e-300)
        if not ok:
            ctx.violation('expmv(t=%s, ncv=%d, tol=%g, hermitian=%s, normalize=%s) differs from expm(tF)v by %.3g (relative) (%s, sector dim %d, start %s)' % (
                t, ncv, tol, herm, normalize, np.linalg.norm(od - (ref / nref if normalize and nref > 0 else ref)) / max(nref if not normalize else 1.0, 1e-300), P['sym'], d, start), desc)
        if np.any(np.abs(od[~P['mask']]) > 0):
            ctx.violation('expmv left the symmetry sector of the start vector', desc)
        # trace of the controller
        passes = passes_from_events(L, ev)
        ctx.count('expmv:passes', len(passes))
        if any(p.get('happy') and p['t_now0'] > 0 for p in passes):
            ctx.count('expmv:breakdown-on-a-later-substep')
        if any(not p.get('accepted', True) for p in passes):
            ctx.count('expmv:rejected-pass')
        tsum = 0.0
        for p in passes:
            if 'tau2' not in p or 'happy' not in p:
                continue
            jobs.append((OP_PASS, [q(p['t_out']), q(p['t_now0']), q(p['tau0']), int(p['happy']), q(0.0 if p['happy'] else p['omega']), q(p['tau_new'])]))
            src.append(('pass', desc, p))
            if 'ncv2' in p:
                jobs.append((OP_NCV, [q(p['ncv_max']), q(p['m']), q(p['ncv_new'])]))
                src.append(('ncv', desc, p))
            if p['accepted']:
                tsum += p['tau1'] if not p['happy'] else (p['t_out'] - p['t_now0'])
        if passes and not close(Fraction(abs(t)), tsum, 1e-12):
            ctx.violation('expmv: the applied sub-steps add up to %r, not |t| = %r' % (tsum, abs(t)), dict(desc, kind='expmv-clock'))
        if not isinstance(t, complex):
            jobs.append((OP_INIT, [q(t), q(ncv), q(v.size)]))
            src.append(('init', desc, dict(t=t, ncv=ncv, size=v.size, first=passes[0] if passes else None)))



def eigs_cases(ctx, n_cases, jobs, src, seeds=None):
    import yastn
    # ---- (3) eigs
    for rep in range(n_cases):
        rng = _case_rng(ctx, seeds, rep)
        herm = rng.random() < 0.7
        P = problem(rng, herm, cplx=rng.random() < 0.3, dmin=2, dmax=14)
        d, f, v, Om, dense = P['d'], P['f'], P['v'], P['Om'], P['dense']
        idx = np.where(P['mask'])[0]
        B = Om[np.ix_(idx, idx)]
        ncv = rng.choice([1, 2, 3, d - 1, d, d + 3, 40])
        ncv = max(1, ncv)
        which = rng.choice(['SR', 'LR', 'LM']) if herm else rng.choice(['LM', 'LR', 'SR'])
        k = rng.randint(1, min(2, ncv, d))
        desc = dict(kind='eigs', sym=P['sym'], d=d, hermitian=herm, ncv=ncv, which=which, k=k, case_seed=rng.case_seed)
        ctx.case(desc, nontrivial=d >= 2)
        try:
            (vals, vecs), rec = traced_dims('eigs', 'V', lambda: yastn.eigs(f, v, k=k, which=which, ncv=ncv, hermitian=herm))
        except (IndexError, KeyError, ValueError) as e:
            ctx.violation('eigs raised %s: %s (%s d=%d ncv=%d k=%d)' % (type(e).__name__, str(e)[:100], P['sym'], d, ncv, k), desc)
            continue
        vals = np.atleast_1d(np.asarray(vals))
        spec = np.linalg.eigvalsh(B) if herm else np.linalg.eigvals(B)
        for lam, y in zip(vals, vecs):
            yd = dense(y)
            if np.any(np.abs(yd[~P['mask']]) > 0):
                ctx.violation('eigs: Ritz vector leaves the symmetry sector', desc)
                break
            res = np.linalg.norm(Om @ yd - lam * yd)
            if ncv >= d:
                ctx.count('eigs:complete-space')
                if np.min(np.abs(spec - lam)) > 1e-7 * max(1.0, np.max(np.abs(spec))) or res > 1e-6 * max(1.0, np.max(np.abs(spec))):
                    ctx.violation('eigs with a complete Krylov space (ncv=%d >= dim %d): Ritz pair is not an eigenpair (|lam - spec| = %.3g, residual %.3g) (%s, hermitian=%s, which=%s)' % (
                        ncv, d, np.min(np.abs(spec - lam)), res, P['sym'], herm, which), desc)
                    break
            elif herm:
                ctx.count('eigs:variational')
                lam_r = float(np.real(lam))
                if lam_r < spec[0] - 1e-9 * max(1, abs(spec[0])) or lam_r > spec[-1] + 1e-9 * max(1, abs(spec[-1])):
                    ctx.violation('eigs: Ritz value %r outside the spectrum [%r, %r] of a Hermitian map' % (lam_r, spec[0], spec[-1]), desc)
                    break
                ry = float(np.real(np.vdot(yd, Om @ yd) / np.vdot(yd, yd)))
                if abs(ry - lam_r) > 1e-8 * max(1.0, abs(lam_r)):
                    ctx.violation('eigs: Ritz value %r is not the Rayleigh quotient %r of its vector' % (lam_r, ry), desc)
                    break
        if ncv >= d and herm and len(vals):
            want = {'SR': spec[0], 'LR': spec[-1], 'LM': spec[np.argmax(np.abs(spec))]}[which]
            if abs(np.real(vals[0]) - want) > 1e-7 * max(1.0, abs(want)) and not (which == 'LM' and abs(abs(np.real(vals[0])) - abs(want)) < 1e-7 * max(1, abs(want))):
                ctx.violation('eigs(which=%s) with a complete space returns %r, the extremal eigenvalue is %r' % (which, vals[0], want), desc)
        if 'm' in rec and 'happy' in rec:
            jobs.append((OP_DIMS, [int(rec['happy']), rec['len0'], rec['supp']]))
            src.append(('dims', desc, dict(which='eigs', rec=rec)))



def lin_cases(ctx, n_cases, jobs, src, seeds=None):
    import yastn
    # ---- (4) lin_solver
    for rep in range(n_cases):
        rng = _case_rng(ctx, seeds, rep)
        herm = rng.random() < 0.4
        P = problem(rng, herm, cplx=rng.random() < 0.3, dmin=2, dmax=12)
        d, f0, v, Om, dense = P['d'], P['f'], P['v'], P['Om'], P['dense']
        shift = 2.0 * np.linalg.norm(Om, 2) + 1.0      # well-conditioned: F + shift
        f = (lambda x, f0=f0, shift=shift: f0(x) + shift * x)
        idx = np.where(P['mask'])[0]
        B = Om[np.ix_(idx, idx)] + shift * np.eye(len(idx))
        b = yastn.rand(P['cfg'], legs=P['legs'], n=P['n'] if P['sym'] != 'dense' else None, dtype=P['dtype'])
        v0 = rng.choice([0.0, 1.0]) * v
        ncv = rng.choice([1, 2, d - 1, d, d + 2, 10, 25])
        ncv = max(1, ncv)
        kw = {} if rng.random() < 0.5 else dict(tol=1e-13)
        desc = dict(kind='lin_solver', sym=P['sym'], d=d, hermitian=herm, ncv=ncv, case_seed=rng.case_seed, v0='zero' if v0.norm() == 0 else 'random')
        ctx.case(desc, nontrivial=d >= 2)
        if rng.random() < 0.1 and v.norm() > 0:
            # the initial guess already solves the system (b = f(v0) bit for bit): the answer is v0 with residual 0
            ctx.count('lin_solver:exact-initial-guess')
            try:
                x_, res_ = yastn.lin_solver(f, f(v), v, ncv=ncv, hermitian=herm, **kw)
                if float(res_) != 0.0 or float((x_ - v).norm()) != 0.0:
                    ctx.violation('lin_solver started from the exact solution returns residual %r and moves the vector by %r' % (float(res_), float((x_ - v).norm())), dict(desc, v0='exact'))
            except yastn.YastnError as e:
                ctx.violation('lin_solver started from the exact solution raised YastnError: %s' % str(e)[:100], dict(desc, v0='exact'), family='lin-solver-exact-start')
            continue
        try:
            (x, res), rec = traced_dims('lin_solver', 'Q', lambda: yastn.lin_solver(f, b, v0, ncv=ncv, hermitian=herm, **kw))
        except (IndexError, KeyError, ValueError) as e:
            ctx.violation('lin_solver raised %s: %s' % (type(e).__name__, str(e)[:100]), desc)
            continue
        if 'm' in rec and 'happy' in rec:
            jobs.append((OP_DIMS, [int(rec['happy']), rec['len0'], rec['supp']]))
            src.append(('dims', desc, dict(which='lin_solver', rec=rec)))
            ctx.count('lin_solver:happy' if rec['happy'] else 'lin_solver:no-breakdown')
        xd, bd = dense(x), dense(b)
        true_res = np.linalg.norm((Om + shift * np.eye(P['D'])) @ xd - bd)
        if abs(true_res - float(res)) > 1e-10 * max(1.0, np.linalg.norm(bd)):
            ctx.violation('lin_solver: reported residual %r, true residual %r' % (float(res), true_res), desc)
        if np.any(np.abs(xd[~P['mask']]) > 0):
            ctx.violation('lin_solver: solution leaves the symmetry sector', desc)
        if ncv >= d:
            ctx.count('lin_solver:complete-space')
            sol = np.linalg.solve(B, bd[idx])
            if np.linalg.norm(xd[idx] - sol) > 1e-7 * max(1.0, np.linalg.norm(sol)):
                ctx.violation('lin_solver with a complete Krylov space (ncv=%d >= dim %d) is off the solution by %.3g (relative), reports residual %.3g (%s hermitian=%s)' % (
                    ncv, d, np.linalg.norm(xd[idx] - sol) / max(1e-300, np.linalg.norm(sol)), float(res), P['sym'], herm), desc)
        else:
            ctx.count('lin_solver:partial-space')
            # minimal-residual property over the affine Krylov space: not worse than the start
            if float(res) > np.linalg.norm((Om + shift * np.eye(P['D'])) @ dense(v0) - bd) * (1 + 1e-9) + 1e-12:
                ctx.violation('lin_solver: residual %r larger than that of the initial guess' % float(res), desc)



def compare_model(ctx, model_ok, jobs, src):
    # ---- model vs implementation
    bad = []
    if model_ok and jobs:
        mo = vlib.run_model(jobs)
        for (kind, desc, impl), (op, arg), m in zip(src, jobs, mo):
            if kind == 'expand':
                mm = [m[0], sorted(m[1]), m[2], m[3]]
                if impl[3] == 1 or mm[3] == 1:
                    if impl[3] != mm[3]:
                        bad.append(dict(desc=desc, why='missing-entry read differs', model=mm, impl=impl))
                elif mm != impl:
                    bad.append(dict(desc=desc, why='expand_krylov_space bookkeeping', model=mm, impl=impl))
            elif kind == 'pass':
                p = impl
                t1, tau2, acc, cont = unq(m[0]), unq(m[1]), bool(m[2]), bool(m[3])
                scale = float(p['t_out'])      # the remaining interval is a difference of numbers of size t_out: compare on that scale
                if abs(float(t1) - float(p['t_now1'])) > 1e-13 * scale or abs(float(tau2) - float(p['tau2'])) > 1e-13 * scale or acc != p['accepted']:
                    bad.append(dict(desc=desc, why='controller pass', model=dict(t_now=float(t1), tau=float(tau2), accepted=acc),
                                    impl={k_: (float(v_) if isinstance(v_, (float, np.floating)) else v_) for k_, v_ in p.items()}))
            elif kind == 'ncv':
                if unq(m) != Fraction(int(impl['ncv2'])):
                    bad.append(dict(desc=desc, why='next Krylov size', model=float(unq(m)), impl=int(impl['ncv2'])))
            elif kind == 'dims':
                r = impl['rec']
                mm = [int(unq(x_)) for x_ in m]
                got = [r['len1'], r['T'][0]] if impl['which'] == 'eigs' else [r['len1'], r['T'][0], r['T'][1]]
                exp = mm[:2] if impl['which'] == 'eigs' else mm[2:]
                if got != exp or (impl['which'] == 'eigs' and r['T'][0] != r['T'][1]):
                    bad.append(dict(desc=desc, why='dimensions of the projected problem', model=exp, impl=got, rec=r))
            elif kind == 'init':
                t_out, sgn, tau0 = unq(m[0]), unq(m[1]), unq(m[2])
                f0 = impl['first']
                if f0 is not None and (not close(t_out, f0['t_out']) or not close(tau0, f0['tau0'])):
                    bad.append(dict(desc=desc, why='initial clock', model=[float(t_out), float(tau0)], impl=[f0['t_out'], f0['tau0']]))
                if f0 is not None and unq(m[3]) != Fraction(int(f0['ncv0'])):
                    bad.append(dict(desc=desc, why='initial Krylov size', model=float(unq(m[3])), impl=int(f0['ncv0'])))
                if impl['t'] != 0 and float(sgn) != np.sign(impl['t']):
                    bad.append(dict(desc=desc, why='sign factor', model=float(sgn), impl=impl['t']))
        ok, idx_, ns = vlib.coq_sample('C18', [(op, arg, out) for (op, arg), out in list(zip(jobs, mo))[:50]])
        ctx.extra['coq_vm_sample'] = dict(n=ns, mismatches=len(idx_), ok=ok)
        if not ok and not bad:
            ctx.broken.append('in-Coq vm_compute sample disagrees with the extracted driver at %r' % idx_[:5])
    ctx.extra['correspondence'] = dict(cases=len(jobs), disagreements=len(bad), by_kind={k_: sum(1 for s_ in src if s_[0] == k_) for k_ in ('expand', 'pass', 'ncv', 'init', 'dims')})
    return bad


def run(ctx):
    st = vlib.prepare(ctx, PROP_V, need_translators=('tr_krylov',))
    quick = ctx.tier == 'quick'
    import yastn, scipy.linalg
    rng = ctx.rng
    ctx.cov['rule'] = ('maps = contraction with a random symmetric operator (Hermitian and not, real and complex) on one- and two-leg vectors in a charge sector of '
                       'dimension 2..14 (6 symmetries) or up to a few hundred (dense part); expmv: t real/imaginary/complex over 1e-3..60/|F|, t=0, ncv 1..40, tol, '
                       'normalize, zero / eigen / near-invariant start vectors, every pass traced and replayed through the Coq controller; expand_krylov_space: fresh and '
                       're-entered, Arnoldi and Lanczos, breakdown before / at / after ncv; eigs, lin_solver vs numpy. non-trivial = sector dimension >= 2')
    L = _lines()
    jobs, src = [], []

    expand_cases(ctx, 60 if quick else 800, jobs, src)
    expmv_cases(ctx, L, 90 if quick else 1500, False, jobs, src)
    expmv_cases(ctx, L, 60 if quick else 1500, True, jobs, src)

    eigs_cases(ctx, 60 if quick else 1000, jobs, src)
    lin_cases(ctx, 60 if quick else 1000, jobs, src)

    bad = compare_model(ctx, st['model_ok'], jobs, src)
    if (bad or ctx.broken) and not ctx.violations:
        # the tie is broken: look harder for an input on which the solvers now give a wrong answer (long evolutions in small sectors,
        # where the Krylov space closes on a later sub-step)
        expmv_cases(ctx, L, 1200, True, [], [])
        ctx.extra['extended_search'] = dict(cases=1200, found=len(ctx.violations))
    if bad and not ctx.violations:
        ctx.violation('Krylov model and implementation disagree: %s' % json.dumps(bad[0], default=str)[:600], dict(kind='correspondence', first=bad[:3]))
    if ctx.broken and not ctx.violations:
        ctx.violation('obligation or tie no longer checks: %s' % ctx.broken[0], dict(kind='obligation', broken=ctx.broken), found_input=False)
    return ctx.finish(level='proof', checker_cmd='make -C /verif/coq (coqc 8.16.1) + coqc properties/C18.v (Print Assumptions)',
                      assumptions=['floating-point Arnoldi/Lanczos, expm of the projected matrix, the Niesen-Wright error estimate, pinv: validated against scipy/numpy dense references',
                                   'exp(a F) exp(b F) = exp((a+b) F)'])


def _from_dense(P, vec):
    """tensor in the problem's vector space with the given dense entries"""
    import yastn
    one = yastn.ones(P['cfg'], legs=P['legs'], n=P['n'] if P['sym'] != 'dense' else None, dtype='complex128' if np.iscomplexobj(vec) else P['dtype'])
    arr = vec.reshape([sum(l.D) for l in P['legs']])
    out = one.copy()
    # fill block by block using the slices of the dense embedding
    offs = [dict(zip(l.t, np.cumsum((0,) + l.D[:-1]))) for l in P['legs']]
    for t in one.get_blocks_charge():
        nsym = P['cfg'].sym.NSYM
        ts = [tuple(t[i * nsym:(i + 1) * nsym]) for i in range(len(P['legs']))] if nsym else [()] * len(P['legs'])
        sl = []
        for l, tt, of in zip(P['legs'], ts, offs):
            key = tt if nsym else ()
            D = l.D[l.t.index(key)] if nsym else l.D[0]
            o = of[key] if nsym else 0
            sl.append(slice(int(o), int(o) + int(D)))
        out[t] = arr[tuple(sl)]
    return out


def replay(ctx, path):
    """re-run exactly the recorded cases (each carries its own seed) against the current tree"""
    st = vlib.prepare(ctx, PROP_V, need_translators=('tr_krylov',))
    L = _lines()
    rec = json.load(open(path))
    jobs, src = [], []
    for v in rec.get('violations', []):
        d = v.get('replay') or {}
        sd = d.get('case_seed')
        if sd is None:
            print('not replayable by seed:', json.dumps(d, default=str)[:600])
            continue
        kind = d.get('kind', '')
        if kind.startswith('expand'):
            expand_cases(ctx, 1, jobs, src, seeds=[sd])
        elif kind.startswith('expmv'):
            expmv_cases(ctx, L, 1, bool(d.get('focused')), jobs, src, seeds=[sd])
        elif kind == 'eigs':
            eigs_cases(ctx, 1, jobs, src, seeds=[sd])
        elif kind == 'lin_solver':
            lin_cases(ctx, 1, jobs, src, seeds=[sd])
    bad = compare_model(ctx, st['model_ok'], jobs, src)
    for b in bad:
        print('MODEL-DISAGREEMENT', json.dumps(b, default=str)[:800])
    for v in ctx.violations:
        print('REPRODUCED', v['what'][:400])
    return 1 if (ctx.violations or bad) else 0
