"""C03 -- leg fusion is a faithful, reversible change of basis.
proof: Fusion/Index.v (segment and row-major index bijections), Fusion/Fusion.v (fused-leg structure, dimension accounting), C02's sel_fuse;
tie: exact correspondence of the fused leg (sectors, dimensions) with the model on generated tensors; search/oracle: unfuse(fuse a) = a, norm,
operations over fused legs vs over the original legs (equal / overlapping / disjoint sector sets), block() vs dense direct sums incl. nested
blocks, and rejection of incompatibly fused operands -- all exact against NumPy."""
import json, random
import numpy as np
import vlib, tcheck

PROP_V = 'properties/C03.v'
OP_FUSED_LEG = 70


def fused_leg_correspondence(ctx, st, quick, info):
    import yastn, tgen
    rng = ctx.rng
    jobs, src = [], []
    classes = info[0]
    for k in range(400 if quick else 6000):
        sym = rng.choice(tgen.SYMS)
        cfg = tgen.make_cfg(sym)
        r = rng.randint(2, 5)
        legs = [tgen.rleg(rng, cfg, sym, maxD=3) for _ in range(r)]
        a = tgen.rtensor(rng, cfg, legs, n=tgen.allowed_charge(rng, cfg, sym, legs), drop=rng.choice([0, 0.3]))
        a, perm = tgen.lazy(rng, a, p=0.4)
        i = rng.randrange(r - 1)
        glen = rng.randint(2, min(3, r - i))
        grp = tuple(range(i, i + glen))
        axes = tuple(range(i)) + (grp,) + tuple(range(i + glen, r))
        fa = a.fuse_legs(axes=axes, mode='hard')
        fl = fa.get_legs(i)
        nsym = cfg.sym.NSYM
        # per-leg sectors present in the tensor, and the fused charges realised by its blocks (visible axis x is native axis trans[x])
        ss = [a.s[x] for x in grp]
        snew = ss[0]          # fuse_legs gives the fused leg the signature of the first leg of the group
        leg_tD = []
        for x in grp:
            lx = a.get_legs(x)
            leg_tD.append([[list(t), D] for t, D in zip(lx.t, lx.D)])
        t_out = set()
        for t in a.struct.t:
            cs = [tuple(t[a.trans[x] * nsym:(a.trans[x] + 1) * nsym]) for x in grp]
            t_out.add(tuple(cfg.sym.add_charges(*cs, signatures=ss, new_signature=snew)) if nsym else ())
        si = [j for j, c in enumerate(classes) if c['sym_id'] == sym][0]
        jobs.append((71, [si, ss, snew, leg_tD, [list(t) for t in sorted(t_out)]]))
        combos = t_out
        impl = [[list(t), D] for t, D in zip(fl.t, fl.D)]
        src.append((dict(kind='fused-leg', sym=sym, group=grp, trans=a.trans, s=fl.s, expected_s=snew), impl))
        ctx.case(src[-1][0], nontrivial=len(combos) > 0)
        if fl.s != snew:
            ctx.violation('fused leg has signature %d, first leg of the group has %d' % (fl.s, snew), src[-1][0])
    bad = []
    if st['model_ok'] and jobs:
        mo = vlib.run_model(jobs)
        for (desc, impl), m in zip(src, mo):
            if m[0] != impl:
                bad.append(dict(desc=desc, model=m[0], impl=impl))
        ok, idx, ns = vlib.coq_sample('C03', [(op, arg, [impl, m[1]]) for ((op, arg), (_, impl), m) in list(zip(jobs, src, mo))[:80]])
        ctx.extra['coq_vm_sample'] = dict(n=ns, mismatches=len(idx), ok=ok)
        if not ok and not bad:
            ctx.broken.append('in-Coq vm_compute sample disagrees with the extracted driver/implementation at %r' % idx[:5])
    ctx.extra['fused_leg_correspondence'] = dict(cases=len(jobs), disagreements=len(bad))
    return bad


def incompatible_rejected(ctx, quick):
    """operations on incompatibly fused legs must raise YastnError, never compute a value"""
    import yastn, tgen
    rng = ctx.rng
    for k in range(150 if quick else 2500):
        sym = rng.choice(['U1', 'Z2', 'Z3', 'dense', 'U1xU1'])
        cfg = tgen.make_cfg(sym, policy=rng.choice(tgen.POLICIES))
        l = [tgen.rleg(rng, cfg, sym, maxD=2) for _ in range(3)]
        a = tgen.rtensor(rng, cfg, l, n=tgen.allowed_charge(rng, cfg, sym, l))
        b = tgen.rtensor(rng, cfg, [x.conj() for x in l], n=cfg.sym.add_charges(a.n, new_signature=-1) if sym != 'dense' else None)
        how = rng.choice(['tree', 'order', 'depth', 'mixed'])
        mode = rng.choice(['hard', 'meta'])
        if how == 'tree':        # ((0,1),2) vs (0,(1,2)) then everything fused
            fa = a.fuse_legs(axes=((0, 1), 2), mode=mode).fuse_legs(axes=((0, 1),), mode=mode)
            fb = b.fuse_legs(axes=(0, (1, 2)), mode=mode).fuse_legs(axes=((0, 1),), mode=mode)
        elif how == 'order':     # different order of legs inside the group
            fa = a.fuse_legs(axes=((0, 1, 2),), mode=mode)
            fb = b.fuse_legs(axes=((1, 0, 2),), mode=mode)
        elif how == 'depth':     # flat vs nested
            fa = a.fuse_legs(axes=((0, 1, 2),), mode=mode)
            fb = b.fuse_legs(axes=((0, 1), 2), mode=mode).fuse_legs(axes=((0, 1),), mode=mode)
        else:                    # hard vs meta fusion of the same group
            fa = a.fuse_legs(axes=((0, 1, 2),), mode='hard')
            fb = b.fuse_legs(axes=((0, 1, 2),), mode='meta')
        if how == 'order' and l[0].s == l[1].s:
            # exchanging two legs of equal signature: the histories differ only through the recorded dimensions; use legs with the SAME charges
            # and DIFFERENT dimensions, so that the fused dimensions coincide and only the history check can notice
            if sym == 'dense':
                continue
            ts_ = sorted({tgen.rcharge(rng, sym) for _ in range(2)})
            d0 = [rng.randint(1, 3) for _ in ts_]
            d1 = [d + 1 for d in d0]
            p_ = yastn.Leg(cfg, s=1, t=ts_, D=d0); q_ = yastn.Leg(cfg, s=1, t=ts_, D=d1)
            a = tgen.rtensor(rng, cfg, [p_, q_, l[2]], n=tgen.allowed_charge(rng, cfg, sym, [p_, q_, l[2]]))
            b = tgen.rtensor(rng, cfg, [q_.conj(), p_.conj(), l[2].conj()], n=cfg.sym.add_charges(a.n, new_signature=-1))
            fa = a.fuse_legs(axes=((0, 1), 2), mode=mode)
            fb = b.fuse_legs(axes=((0, 1), 2), mode=mode)
            if a.size == 0 or b.size == 0:
                continue
        same_legs = False
        for opname, f in (('tensordot', lambda: yastn.tensordot(fa, fb, axes=(0, 0))), ('vdot', lambda: yastn.vdot(fa, fb.conj())), ('add', lambda: fa + fb.conj())):
            desc = dict(kind='incompatible-fusion', how=how, mode=mode, op=opname, sym=sym, rep=k)
            ctx.case(desc, nontrivial=True)
            try:
                f()
                if not same_legs:
                    ctx.violation('%s over incompatibly fused legs (%s, %s fusion, sym %s) was computed instead of rejected' % (opname, how, mode, sym), desc)
            except yastn.YastnError:
                ctx.count('incompatible:rejected')
            except Exception as e:
                ctx.violation('%s over incompatibly fused legs raised %s instead of YastnError: %s' % (opname, type(e).__name__, str(e)[:100]), desc)


def run(ctx):
    st = vlib.prepare(ctx, PROP_V, need_translators=('tr_sym',))
    quick = ctx.tier == 'quick'
    import tgen, tr_sym
    info = tr_sym.translate(vlib.REPO)
    ctx.cov['rule'] = ('fusion cases (tools/tgen.py kinds fuse and trace (over hard-fused pairs): random partitions/orders of legs into groups, hard/meta/mixed, depth 2, operations over fused legs with '
                       'partners of equal/overlapping/disjoint sector content), block cases (direct sums along a leg, nested, nested with sectors lost after '
                       'blocking), operation sequences with fuse/unfuse, incompatible fusions; fused-leg structure vs Coq model. non-trivial = operand with '
                       '>= 1 block; distinct by (kind, seed)')
    n = 600 if quick else 10000
    base = ctx.seed % 1000 * 100000
    jobs = [(k, s, {}, 'plain') for k in ('fuse', 'block', 'chain', 'trace') for s in range(base, base + n)]      # trace: over hard-fused pairs (tgen trace_fused)
    jobs += [('fuse', s, dict(mode=m), 'plain') for m in ('hard', 'meta') for s in range(base + n, base + n + n // 3)]
    recs = tcheck.run_jobs(jobs)
    for r in recs:
        ctx.case(dict(kind=r['kind'], seed=r['seed'], describe=r['describe']), nontrivial=r['status'] == 'ok')
        ctx.count('%s:%s' % (r['kind'], r['status']))
        if r['status'] in ('mismatch', 'crash', 'error'):
            fam = None
            if r['kind'] == 'block' and r.get('stale') and r['describe'] and r['describe'].get('project') and r['describe'].get('op') in ('dot', 'vdot'):
                fam = 'nested-block-stale-history'
            ctx.violation('%s case seed %d: %s' % (r['kind'], r['seed'], (r['detail'] or '')[:300]),
                          dict(kind=r['kind'], seed=r['seed'], opts=r['opts'], detail=r['detail'], describe=r['describe']), family=fam)
    bad = fused_leg_correspondence(ctx, st, quick, info)
    incompatible_rejected(ctx, quick)
    if bad and not ctx.violations:
        ctx.violation('fused-leg model and implementation disagree: %r' % (bad[0],), dict(kind='correspondence', first=bad[:5]))
    if ctx.broken and not ctx.violations:
        ctx.violation('obligation or tie no longer checks: %s' % ctx.broken[0], dict(kind='obligation', broken=ctx.broken), found_input=False)
    return ctx.finish(level='proof', checker_cmd='make -C /verif/coq (coqc 8.16.1) + coqc properties/C03.v (Print Assumptions)',
                      assumptions=['integer-valued data: dense comparisons are exact'])


def replay(ctx, path):
    import tgen
    d = json.load(open(path))
    for v in d['violations'][:3]:
        r = v['replay']
        if 'seed' in r and r.get('kind') in tgen.SCENARIOS:
            print('re-running', r['kind'], r['seed'], tgen.run_case(r['kind'], r['seed'], r.get('opts'))[:2])
    return 0
