"""C19 -- symmetry rules are abelian groups; legs hold canonical charges.
tie: translator (tr_sym) + run-time differential of generated fuse vs real fuse; Leg model correspondence."""
import itertools, importlib, json
import numpy as np
import vlib

OP_FUSE, OP_LEG = 1, 2
PROP_V = 'properties/C19.v'
# harness-side copy of the group table (for the direct oracle only)
MODULI = {'dense': [], 'Z2': [2], 'Z3': [3], 'U1': [None], 'U1xU1': [None, None], 'Z2xU1': [2, None],
          'U1xU1xZ2': [None, None, 2]}
LEG_ERR = {'Signature of Leg should be 1 or -1': 1, 'D should be a tuple of positive ints.': 2,
           'Charges should be tuples of ints.': 3,
           'Number of provided charges and bond dimensions do not match sym.NSYM': 4,
           'Provided charges are outside of the natural range for specified symmetry.': 5,
           'Repeated charge index.': 6}


def sym_classes(tr_info):
    classes, _, _ = tr_info
    out = []
    for i, c in enumerate(classes):
        mod = importlib.import_module('yastn.sym.' + c['file'][:-3])
        out.append((i, c['sym_id'], c['nsym'], getattr(mod, c['cls'])))
    return out


def real_fuse(cls, charges, sigs, snew, nsym):
    arr = np.array(charges, dtype=np.int64).reshape(1, len(charges), nsym)
    return [int(x) for x in np.asarray(cls.fuse(arr, tuple(sigs), snew)).reshape(-1).tolist()]


def rand_charge(rng, mods, B, canonical):
    out = []
    for m in mods:
        if m is None or not canonical:
            out.append(rng.randint(-B, B))
        else:
            out.append(rng.randrange(m))
    return out


def gen_fuse_cases(ctx, syms, n):
    rng = ctx.rng
    cases = []
    for (i, sid, nsym, cls) in syms:
        mods = MODULI.get(sid, [None] * nsym)
        for _ in range(n):
            m = rng.choice([0, 1, 1, 2, 2, 3, 3, 4, 5])
            canonical = rng.random() < 0.5
            B = rng.choice([1, 2, 6, 6, 40])
            charges = [rand_charge(rng, mods, B, canonical) for _ in range(m)]
            sigs = [rng.choice([1, -1]) for _ in range(m)]
            snew = rng.choice([1, -1])
            cases.append((i, sid, nsym, cls, charges, sigs, snew))
    return cases


def laws_oracle(ctx, sid, nsym, cls, B):
    """direct enumeration of the group laws on the REAL fuse over a box (search stage / replay source)"""
    mods = MODULI.get(sid)
    if mods is None:
        ctx.violation('shipped symmetry %s is not in the property table' % sid, dict(sym=sid), found_input=True)
        return
    rng = ctx.rng
    def f(ch, sg, sn): return real_fuse(cls, ch, sg, sn, nsym)
    def add(a, b): return f([a, b], [1, 1], 1)
    def inrange(t): return all(m is None or 0 <= x < m for m, x in zip(mods, t))
    zero = [0] * nsym
    ranges = [range(-B, B + 1) if m is None else range(m) for m in mods]
    box = [list(t) for t in itertools.product(*ranges)]
    if len(box) > 60:
        box = [box[k] for k in sorted(rng.sample(range(len(box)), 60))]
    bad = None
    # results are canonical and depend only on the class of the inputs, also for NON-canonical inputs
    def canon_t(t): return [x if m is None else x % m for m, x in zip(mods, t)]
    for _ in range(80):
        k = rng.randint(1, 3)
        ch = [[rng.randint(-7, 7) for _m in mods] for _ in range(k)]
        sg = [rng.choice([1, -1]) for _ in range(k)]
        sn = rng.choice([1, -1])
        r = f(ch, sg, sn)
        ctx.count('laws_noncanonical')
        if not inrange(r):
            bad = ('canonical', ch, sg, sn, r)
        elif r != f([canon_t(t) for t in ch], sg, sn):
            bad = ('well-defined-on-classes', ch, sg, sn)
    for a in box:
        ctx.count('laws_points')
        if add(zero, a) != a or add(a, zero) != a:
            bad = ('identity', a)
        if f([a, a], [1, -1], 1) != zero or add(a, f([a], [1], -1)) != zero:
            bad = ('inverse', a)
        for b in box[:25]:
            if add(a, b) != add(b, a):
                bad = ('comm', a, b)
            if not inrange(add(a, b)):
                bad = ('canonical', a, b)
            for c in box[:12]:
                if add(add(a, b), c) != add(a, add(b, c)):
                    bad = ('assoc', a, b, c)
                for sg in (1, -1):
                    for s1, s2, s3, sn in ((1, -1, 1, 1), (-1, -1, 1, -1), (1, 1, -1, 1)):
                        g = f([a, b], [s1, s2], sg)
                        if f([g, c], [sg, s3], sn) != f([a, b, c], [s1, s2, s3], sn):
                            bad = ('grouping', a, b, c, (s1, s2, s3, sg, sn))
        if bad:
            break
    if bad:
        ctx.violation('group law %s fails for symmetry %s on the real fuse at %r' % (bad[0], sid, bad[1:]),
                      dict(kind='law', sym=sid, law=bad[0], args=bad[1:]), found_input=True)


def num_token(rng, kind):
    """a constructor element and its model image (Some z / None)"""
    if kind == 'int':
        v = rng.randint(-3, 5)
        return v, [v]
    if kind == 'float_int':
        v = rng.randint(-2, 4)
        return float(v), [v]
    if kind == 'bool':
        v = rng.random() < 0.5
        return v, [int(v)]
    if kind == 'frac':
        v = rng.choice([0.5, 1.5, -2.25, 3.000001])
        return v, []
    if kind == 'npint':
        v = rng.randint(-3, 5)
        return np.int64(v), [v]
    raise ValueError(kind)


def gen_leg_case(rng, sid, nsym, mods):
    nsec = rng.choice([0, 1, 1, 2, 2, 3, 4])
    valid_bias = rng.random() < 0.6
    if rng.random() < 0.2 and any(m is not None for m in mods):
        # otherwise valid leg with one charge moved outside the canonical range
        ts = []
        for _try in range(40):
            if len(ts) >= max(1, nsec):
                break
            t = rand_charge(rng, mods, 3, True)
            if t not in ts:
                ts.append(t)
        j = rng.randrange(len(ts))
        c = rng.choice([k for k, m in enumerate(mods) if m is not None])
        ts[j][c] += mods[c] * rng.choice([1, -1, 2])
        Ds = [rng.randint(1, 4) for _ in ts]
        s = rng.choice([1, -1])
        return dict(sym=sid, s=s, t=tuple(tuple(t) for t in ts), D=tuple(Ds)), ([s], [[x] for t in ts for x in t], [[d] for d in Ds])
    # charges
    ts, seen = [], set()
    for _ in range(nsec):
        for _try in range(20):
            t = tuple(rand_charge(rng, mods, 3, canonical=valid_bias or rng.random() < 0.7))
            if t not in seen or not valid_bias:
                break
        seen.add(t)
        ts.append(list(t))
    if nsym == 0:
        ts = [[] for _ in range(nsec)]
    Ds = [rng.randint(1, 4) if valid_bias or rng.random() < 0.8 else rng.randint(-1, 1) for _ in range(nsec)]
    # decorate numbers
    def deco(v):
        k = 'int' if valid_bias and rng.random() < 0.8 else rng.choice(['int', 'int', 'float_int', 'bool', 'frac', 'npint'])
        if k == 'int':
            return v, [v]
        if k == 'float_int':
            return float(v), [v]
        if k == 'npint':
            return np.int64(v), [v]
        if k == 'bool':
            return (bool(v), [int(bool(v))]) if v in (0, 1) else (v, [v])
        return v + 0.5, []
    t_py, t_md = [], []
    for t in ts:
        row = []
        for x in t:
            p, m = deco(x)
            row.append(p)
            t_md.append(m)
        t_py.append(tuple(row) if (nsym != 1 or rng.random() < 0.5) else row[0])
    D_py, D_md = [], []
    for x in Ds:
        p, m = deco(x)
        D_py.append(p)
        D_md.append(m)
    # count mismatches
    r = rng.random()
    if not valid_bias and r < 0.15 and D_py:
        D_py.pop(); D_md.pop()
    elif not valid_bias and r < 0.3:
        D_py.append(2); D_md.append([2])
    s_py, s_md = rng.choice([(1, [1]), (-1, [-1]), (1, [1]), (-1, [-1]), (0, [0]), (2, [2]), (1.0, [1]), (True, [1]), (0.5, [])]) \
        if not valid_bias else rng.choice([(1, [1]), (-1, [-1])])
    return dict(sym=sid, s=s_py, t=tuple(t_py), D=tuple(D_py)), (s_md, t_md, D_md)


def run_real_leg(cls, c):
    import yastn
    try:
        l = yastn.Leg(sym=cls, s=c['s'], t=c['t'], D=c['D'])
        return [0, [int(l.s), [list(map(int, t)) for t in l.t], [int(d) for d in l.D]]]
    except yastn.YastnError as e:
        return [-1, LEG_ERR.get(str(e), 99)]


def run(ctx):
    st = vlib.prepare(ctx, PROP_V, need_translators=('tr_sym',))
    quick = ctx.tier == 'quick'
    tr = ctx.extra['translators'].get('tr_sym', {})
    import tr_sym
    try:
        info = tr_sym.translate(vlib.REPO)
    except Exception as e:
        info = None
    ctx.cov['rule'] = ('fuse: random (symmetry, 0-5 charges canonical or not within |t|<=B, signature vectors, new signature); '
                       'laws: enumeration over a box on the real fuse; Leg: constructor arguments in and just outside the valid '
                       'domain (floats, bools, numpy ints, wrong counts, repeats, non-canonical). non-trivial = at least one '
                       'charge/sector; distinct by argument value')
    # ---- discover the shipped symmetries from the real package (independent of the translator)
    import yastn.sym as ysym
    real = {}
    for nm in dir(ysym):
        o = getattr(ysym, nm)
        if isinstance(o, type) and hasattr(o, 'SYM_ID') and nm != 'sym_abelian' and issubclass(o, ysym.sym_abelian):
            real[o.SYM_ID] = o
    syms = []
    if info is not None:
        try:
            syms = sym_classes(info)
        except Exception as e:
            ctx.broken.append('translator output does not match importable classes: %r' % (e,))
        if set(real) != set(s[1] for s in syms):
            ctx.broken.append('symmetries exported by yastn.sym %s differ from the translated set %s' % (sorted(real), sorted(s[1] for s in syms)))
    # ---- 1. correspondence: generated fuse (model) vs real fuse
    nf = 150 if quick else 3000
    fuse_cases = gen_fuse_cases(ctx, syms, nf) if syms else []
    model_in = [(OP_FUSE, [i, ch, sg, sn]) for (i, sid, nsym, cls, ch, sg, sn) in fuse_cases]
    impl_out = []
    for (i, sid, nsym, cls, ch, sg, sn) in fuse_cases:
        try:
            impl_out.append(real_fuse(cls, ch, sg, sn, nsym))
        except Exception as e:
            impl_out.append(['EXC', repr(e)])
        ctx.case(dict(op='fuse', sym=sid, charges=ch, sigs=sg, snew=sn), nontrivial=len(ch) > 0)
        ctx.count('fuse:' + sid)
    corr_broken = []
    if st['model_ok'] and fuse_cases:
        mo = vlib.run_model(model_in)
        for k, (a, b) in enumerate(zip(mo, impl_out)):
            if a != b:
                c = fuse_cases[k]
                corr_broken.append(dict(kind='fuse', sym=c[1], charges=c[4], sigs=c[5], snew=c[6], model=a, impl=b))
    # ---- 2. Leg correspondence
    nl = 120 if quick else 2500
    leg_cases = []
    for (i, sid, nsym, cls) in syms:
        mods = MODULI.get(sid, [None] * nsym)
        for _ in range(nl):
            c, md = gen_leg_case(ctx.rng, sid, nsym, mods)
            leg_cases.append((i, cls, c, md))
    impl_leg = []
    for (i, cls, c, md) in leg_cases:
        try:
            r = run_real_leg(cls, c)
        except Exception as e:
            r = ['EXC', type(e).__name__]
        impl_leg.append(r)
        ctx.case(dict(op='Leg', **{k: repr(v) for k, v in c.items()}), nontrivial=len(c['D']) > 0)
        ctx.count('leg:' + ('ok' if r[0] == 0 else 'err%s' % r[1]))
    if st['model_ok'] and leg_cases:
        mo = vlib.run_model([(OP_LEG, [i, md[0], md[1], md[2]]) for (i, cls, c, md) in leg_cases])
        for k, (a, b) in enumerate(zip(mo, impl_leg)):
            if a != b:
                c = leg_cases[k][2]
                corr_broken.append(dict(kind='leg', args={k2: repr(v) for k2, v in c.items()}, model=a, impl=b))
        # cross-check extraction against vm_compute inside Coq on a sample
        sample = [(OP_FUSE, model_in[k][1], impl_out[k]) for k in range(0, len(model_in), max(1, len(model_in) // 150))]
        sample += [(OP_LEG, [i, md[0], md[1], md[2]], impl_leg[k]) for k, (i, cls, c, md) in enumerate(leg_cases)
                   if k % max(1, len(leg_cases) // 150) == 0]
        ok, idx, n = vlib.coq_sample('C19', sample)
        ctx.extra['coq_vm_sample'] = dict(n=n, mismatches=len(idx), ok=ok)
        if not ok and not corr_broken:
            ctx.broken.append('in-Coq vm_compute sample disagrees with extracted driver/implementation at %r' % idx[:5])
    ctx.extra['correspondence'] = dict(fuse_cases=len(fuse_cases), leg_cases=len(leg_cases), disagreements=len(corr_broken))
    # ---- 3. direct oracle on the real code (always cheap here; it is also the search for a replay)
    for sid, cls in sorted(real.items()):
        laws_oracle(ctx, sid, cls.NSYM, cls, B=2 if quick else 4)
    # Leg oracle: accepted legs are sorted, canonical, positive; conj involutive
    import yastn
    for (i, cls, c, md), r in zip(leg_cases, impl_leg):
        if r[0] == 0:
            s, t, D = r[1]
            mods = MODULI.get(cls.SYM_ID, [])
            ok = t == sorted(t) and len(set(map(tuple, t))) == len(t) and all(d > 0 for d in D) and s in (1, -1) and \
                all(all(m is None or 0 <= x < m for m, x in zip(mods, tt)) for tt in t)
            l = yastn.Leg(sym=cls, s=c['s'], t=c['t'], D=c['D'])
            ok = ok and l.conj().conj() == l and l.conj().s == -l.s and l.conj().t == l.t and l.conj().D == l.D
            if not ok:
                ctx.violation('Leg accepted/stored non-canonical data: %r -> %r' % (c, r), dict(kind='leg', args={k2: repr(v) for k2, v in c.items()}, impl=r))
    # ---- verdict
    if corr_broken:
        ctx.broken.append('correspondence model<->implementation: %d disagreements, first: %r' % (len(corr_broken), corr_broken[0]))
    if ctx.broken and not ctx.violations:
        # a broken obligation/tie/correspondence with no failing input from the oracle
        if corr_broken:
            ctx.violation('model and implementation disagree: %r' % corr_broken[0], dict(kind='correspondence', first=corr_broken[:5], broken=ctx.broken), found_input=True)
        else:
            ctx.violation('obligation or tie no longer checks: %s' % ctx.broken[0], dict(kind='obligation', broken=ctx.broken), found_input=False)
    return ctx.finish(level='proof', checker_cmd='make -C /verif/coq (coqc 8.16.1) + coqc properties/C19.v (Print Assumptions)',
                      assumptions=['numpy int64 arithmetic on |t| < 2^40 equals Z arithmetic', 'np.mod is floor-mod (Z.modulo for positive modulus)'])


def replay(ctx, path):
    data = json.load(open(path))
    print(json.dumps(data, indent=1)[:3000])
    return 0
