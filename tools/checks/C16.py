"""C16 -- metadata caches are transparent.
proof: Lru.v / LruLaws.v (cache refines the pure function for all histories, any number of caches, all maxsize);
tie: tr_cache (registry facts regenerated from the source) + dynamic validation of the theorem's premises with probes at
EVERY binding site of every lru_cache wrapper: (key completeness) cold recomputation on every call, (immutability) digest
of the value held by the cache at every hit vs at insertion; validation of CPython's lru_cache against Lru.v; end-to-end
cold-vs-warm-vs-resized-vs-cleared bit-identity of results."""
import sys, json, random, functools, collections
import numpy as np
import vlib

PROP_V = 'properties/C16.v'
OP_LRU = 20


def digest(o):
    """canonical hashable image of a cached value / result"""
    if isinstance(o, np.ndarray):
        return ('nd', str(o.dtype), o.shape, o.tobytes())
    if isinstance(o, dict):
        return ('dict', tuple(sorted(((digest(k), digest(v)) for k, v in o.items()), key=repr)))
    if isinstance(o, (list,)):
        return ('list', tuple(digest(x) for x in o))
    if isinstance(o, tuple):
        return ('tuple', type(o).__name__ if hasattr(o, '_fields') else '', tuple(digest(x) for x in o))
    if isinstance(o, (set, frozenset)):
        return ('set', tuple(sorted((digest(x) for x in o), key=repr)))
    if isinstance(o, slice):
        return ('slice', o.start, o.stop, o.step)
    if isinstance(o, (int, float, complex, str, bool, type(None), bytes)):
        return (type(o).__name__, o)
    if isinstance(o, np.generic):
        return ('npg', str(o.dtype), o.item())
    if isinstance(o, type):
        return ('type', o.__name__)
    if hasattr(o, '__dict__'):
        return ('obj', type(o).__name__, digest(vars(o)))
    return ('repr', repr(o))


class Probe:
    """stands in for an lru_cache wrapper at a binding site; transparent to callers"""
    def __init__(self, wrapper, name, log):
        self._w = wrapper
        self.__wrapped__ = wrapper.__wrapped__
        self.name = name
        self.log = log
        self.inserted = {}

    def __call__(self, *args, **kw):
        w = self._w
        before = w.cache_info().hits
        res = w(*args, **kw)
        hit = w.cache_info().hits > before
        self.log['calls'][self.name] += 1
        if hit:
            self.log['hits'][self.name] += 1
        try:
            fresh = w.__wrapped__(*args, **kw)          # cold recomputation with the undecorated function
        except Exception as e:
            fresh = ('EXC', repr(e))
        dr, df = digest(res), digest(fresh)
        if dr != df:
            self.log['mismatch'].append(dict(kind='hit-differs-from-recomputation' if hit else 'miss-differs-from-recomputation',
                                             function=self.name, hit=hit, args=repr(args)[:1500], cached=repr(res)[:600], recomputed=repr(fresh)[:600]))
        key = args
        if hit and key in self.inserted and self.inserted[key] != dr:
            self.log['mismatch'].append(dict(kind='cached-entry-altered-after-insertion', function=self.name, args=repr(args)[:1500]))
        if not hit:
            if len(self.inserted) > 5000:
                self.inserted.clear()
            self.inserted[key] = dr
        return res

    def cache_clear(self):
        self.inserted.clear()
        return self._w.cache_clear()

    def cache_info(self):
        return self._w.cache_info()


def install_probes(log, probes):
    """wrap every lru wrapper at every binding site in every yastn module"""
    n = 0
    for mname, mod in list(sys.modules.items()):
        if not mname.startswith('yastn') or mod is None:
            continue
        for attr, val in list(vars(mod).items()):
            if isinstance(val, Probe):
                continue
            if callable(val) and hasattr(val, 'cache_info') and hasattr(val, '__wrapped__'):
                p = probes.get(id(val))
                if p is None:
                    p = Probe(val, '%s.%s' % (val.__wrapped__.__module__.split('.')[-1], val.__wrapped__.__name__), log)
                    probes[id(val)] = p
                setattr(mod, attr, p)
                n += 1
    return n


def lru_validation(ctx, st, quick):
    """CPython functools.lru_cache vs Lru.v on random histories (hit/miss sequence and values)"""
    rng = ctx.rng
    cases = []
    for _ in range(120 if quick else 2000):
        ncache = rng.randint(1, 3)
        ms = [rng.choice([None, 0, 1, 2, 3, 5]) for _ in range(ncache)]
        wrappers = [functools.lru_cache(maxsize=m)(functools.partial(lambda i, k: 1000 * i + k, i)) for i, m in enumerate(ms)]
        evs, outs = [], []
        for _k in range(rng.randint(5, 40)):
            r = rng.random()
            i = rng.randrange(ncache)
            if r < 0.8:
                k = rng.randint(0, 6)
                h0 = wrappers[i].cache_info().hits
                v = wrappers[i](k)
                outs.append([v, 1 if wrappers[i].cache_info().hits > h0 else 0])
                evs.append([0, i, k])
            elif r < 0.88:
                wrappers[i].cache_clear()
                evs.append([1, i])
            elif r < 0.93:
                for w in wrappers:
                    w.cache_clear()
                evs.append([2])
            else:
                m = rng.choice([None, 0, 1, 2, 4])
                wrappers[i] = functools.lru_cache(maxsize=m)(wrappers[i].__wrapped__)
                evs.append([3, i, [] if m is None else [m]])
        cases.append(([[[] if m is None else [m] for m in ms], evs], outs))
        ctx.case(dict(kind='lru-history', maxsizes=ms, events=len(evs)), nontrivial=len(evs) > 5)
    bad = []
    if st['model_ok']:
        mo = vlib.run_model([(OP_LRU, arg) for arg, _ in cases])
        for (arg, outs), m in zip(cases, mo):
            if m != outs:
                bad.append(dict(kind='lru-model-vs-cpython', arg=arg, model=m, impl=outs))
        ok, idx, n = vlib.coq_sample('C16', [(OP_LRU, a, o) for a, o in cases[:60]])
        ctx.extra['coq_vm_sample'] = dict(n=n, mismatches=len(idx), ok=ok)
        if not ok:
            ctx.broken.append('in-Coq vm_compute sample of the LRU model disagrees at %r' % idx[:5])
    ctx.extra['lru_validation'] = dict(histories=len(cases), disagreements=len(bad))
    return bad


def shared_layout_programs(rng_seed):
    """operands with IDENTICAL struct/slices/data under different symmetries and fermionic flags"""
    import yastn, tgen
    progs = []
    variants = [('Z2', False), ('Z2', True), ('Z3', False), ('U1', False), ('U1', True)]
    for vi, (sym, ferm) in enumerate(variants):
        for pol in tgen.POLICIES:
            def prog(sym=sym, ferm=ferm, pol=pol, seed=rng_seed):
                rng = random.Random(seed)     # same stream for every variant -> same legs, same data
                cfg = tgen.make_cfg(sym, ferm, pol)
                mk = lambda s: yastn.Leg(cfg, s=s, t=[(0,), (1,)], D=[rng.randint(1, 2), rng.randint(1, 2)])
                l0, l1, l2 = mk(1), mk(1), mk(-1)
                a = tgen.rtensor(rng, cfg, [l0, l1, l2], n=(rng.randrange(2),))
                b = tgen.rtensor(rng, cfg, [l2.conj(), l1.conj(), l0], n=(rng.randrange(2),))
                out = []
                c = yastn.tensordot(a, b, axes=((2, 1), (0, 1)))
                out.append(tgen.snapshot(c))
                f = a.fuse_legs(axes=((0, 1), 2), mode='hard')
                out.append(tgen.snapshot(f))
                out.append(tgen.snapshot(f.unfuse_legs(axes=0)))
                g = b.fuse_legs(axes=(0, (1, 2)), mode='hard')
                out.append(tgen.snapshot(yastn.tensordot(f, g, axes=((1,), (0,)))))
                out.append(tgen.snapshot(a.swap_gate(axes=(0, 1))))
                out.append(tgen.snapshot(a.swap_gate(axes=((0, 1), 2))))
                out.append(tgen.snapshot(yastn.tensordot(a, a.conj(), axes=((0, 1), (0, 1))).trace(axes=(0, 1))))
                out.append(('num', complex(yastn.vdot(a, a))))
                out.append(tgen.snapshot(a + a.transpose((1, 0, 2)).transpose((1, 0, 2)) * 2))
                out.append(tgen.snapshot(yastn.ncon([a, b], [[1, 2, -1], [-2, 2, 1]])))
                U, S, V = yastn.svd(a, axes=((0, 1), 2), sU=1)
                out.append(('struct', U.struct, S.struct, V.struct))
                return out
            progs.append((('shared', sym, ferm, pol, rng_seed), prog))
    return progs


def mismatched_fusion_program(seed):
    """hard-fused legs with different histories (exercises _masks_hfs_intersection incl. all-False sectors)"""
    import yastn, tgen

    def prog():
        out = []
        for pol in tgen.POLICIES:
            cfg = tgen.make_cfg('U1', False, pol)
            rng = random.Random(seed)
            la = [yastn.Leg(cfg, s=1, t=[(0,), (1,)], D=[1, 2]), yastn.Leg(cfg, s=1, t=[(0,), (1,)], D=[2, 1])]
            lb = [yastn.Leg(cfg, s=1, t=[(1,), (2,)], D=[2, 1]), yastn.Leg(cfg, s=1, t=[(-1,), (0,)], D=[1, 2])]
            lc = yastn.Leg(cfg, s=-1, t=[(0,), (1,), (2,)], D=[1, 2, 1])
            a = tgen.rtensor(rng, cfg, la + [lc])
            b = tgen.rtensor(rng, cfg, [l.conj() for l in lb] + [lc.conj()])
            fa = a.fuse_legs(axes=((0, 1), 2), mode='hard')
            fb = b.fuse_legs(axes=((0, 1), 2), mode='hard')
            for _rep in range(2):
                out.append(tgen.snapshot(yastn.tensordot(fa, fb, axes=(0, 0))))
                out.append(('num', complex(yastn.vdot(fa, fb.conj()))))
                out.append(tgen.snapshot(yastn.tensordot(fa, fb, axes=((0, 1), (0, 1)))))
                out.append(tgen.snapshot(fa + fb.conj()))
        return out
    return (('mismatched-fusion', seed), prog)


def must_reject_program(seed):
    """a contraction whose bond dimensions do not match must be REJECTED whatever ran before: both operands are first used in valid contractions
    (so every per-operand cache entry is warm), then contracted with each other; the outcome recorded is the kind of exception or 'answered'"""
    import yastn, tgen

    def prog():
        out = []
        rng = random.Random(seed)
        for pol in tgen.POLICIES:
            for sym in ('U1', 'Z2', 'dense'):
                cfg = tgen.make_cfg(sym, False, pol)
                if sym == 'dense':
                    l1, l2 = yastn.Leg(cfg, s=1, D=[2]), yastn.Leg(cfg, s=1, D=[3])
                else:
                    l1, l2 = yastn.Leg(cfg, s=1, t=[(0,), (1,)], D=[2, 3]), yastn.Leg(cfg, s=1, t=[(0,), (1,)], D=[3, 2])
                x = tgen.rleg(rng, cfg, sym, maxD=2)
                a = yastn.ones(cfg, legs=[x, l1, l2])                        # every admissible block present; contracted legs (l1, l2): fused sizes agree with (l2, l1)
                b = yastn.ones(cfg, legs=[l2.conj(), l1.conj(), x.conj()])
                if not (set(a.get_legs(1).t) & set(b.get_legs(0).t)):
                    continue
                pa = tgen.rtensor(rng, cfg, [l1.conj(), l2.conj(), x])       # valid partners
                pb = tgen.rtensor(rng, cfg, [x, l2, l1])
                for _rep in range(2):
                    out.append(tgen.snapshot(yastn.tensordot(a, pa, axes=((1, 2), (0, 1)))))
                    out.append(tgen.snapshot(yastn.tensordot(pb, b, axes=((1, 2), (0, 1)))))
                    try:
                        yastn.tensordot(a, b, axes=((1, 2), (0, 1)))
                        out.append(('must-reject', pol, sym, 'answered'))
                    except yastn.YastnError:
                        out.append(('must-reject', pol, sym, 'YastnError'))
        return out
    return (('must-reject', seed), prog)


def inplace_after_use_program(seed):
    """the documented in-place API (item assignment) on a lazily transposed tensor AFTER that tensor took part in operations: later operations
    see the new content (nothing computed earlier for that tensor object may be reused); returns ('stale', ...) entries when they do not"""
    import yastn, tgen

    def prog():
        out = []
        rng = random.Random(seed)
        for sym in ('U1', 'Z2', 'dense'):
            cfg = tgen.make_cfg(sym, False, rng.choice(tgen.POLICIES))
            legs = [tgen.rleg(rng, cfg, sym, maxD=2) for _ in range(3)]
            a = tgen.rtensor(rng, cfg, legs, n=tgen.allowed_charge(rng, cfg, sym, legs))
            if a.size == 0:
                continue
            perm = rng.choice([(1, 0, 2), (2, 0, 1), (0, 2, 1), (2, 1, 0)])
            at = a.transpose(perm)
            b = tgen.rtensor(rng, cfg, [legs[p] for p in perm], n=a.n)
            uses = [lambda t: t + b, lambda t: yastn.vdot(t, b), lambda t: t.to_numpy(), lambda t: yastn.tensordot(t, b.conj(), axes=((0, 1), (0, 1)))]
            first = rng.choice(uses)
            first(at)                                   # the tensor is used (its transposition gets materialised somewhere inside)
            key = at.get_blocks_charge()[0] if sym != 'dense' else ()
            at[key] = 3 * at[key] + 1                   # in-place update through the public API
            for use in uses:
                got = use(at)
                want = use(at.copy())                   # a fresh object with the same content has no past
                same = np.array_equal(got, want) if isinstance(got, np.ndarray) else (tgen.snapshot(got) == tgen.snapshot(want) if hasattr(got, 'struct') else got == want)
                out.append(('stale' if not same else 'fresh', sym, perm))
        return out
    return (('inplace-after-use', seed), prog)


def generated_programs(kinds, seeds):
    import tgen

    def mk(kind, seed):
        def prog():
            st_, detail, sc = tgen.run_case(kind, seed)
            if st_ == 'ok':
                return [tgen.snapshot(detail) if hasattr(detail, 'struct') else ('num', complex(detail))]
            return [(st_, str(detail)[:200])]
        return ((kind, seed), prog)
    return [mk(k, s) for k in kinds for s in seeds]


CONTROLLED = ('yastn.tensor._contractions', 'yastn.tensor._merging', 'yastn.tensor._algebra', 'yastn.tensor._einsum')


def control_reaches_every_handle(ctx, progs):
    """set_cache_maxsize / clear_cache act on every cache object that is actually in use: every name in the package bound to an lru wrapper
    (defining module or 'from ._x import f') has the requested size after a resize and is empty after a clear"""
    import sys, yastn

    def handles():
        out = {}
        for mn, mod in list(sys.modules.items()):
            if mn.startswith('yastn') and mod is not None:
                for an, obj in list(vars(mod).items()):
                    if callable(obj) and hasattr(obj, 'cache_info') and hasattr(obj, '__wrapped__') and \
                            getattr(obj.__wrapped__, '__module__', '') in CONTROLLED:       # the tables of the registry (not e.g. the contraction-path cache of oe_blocksparse)
                        out['%s.%s' % (mn, an)] = obj
        return out
    for size in (7, 0, 1024):
        yastn.set_cache_maxsize(size)
        for _, prog in progs[:25]:
            try:
                prog()
            except Exception:
                pass
        hs = handles()
        ctx.case(dict(kind='cache-control', size=size, handles=len(hs)), nontrivial=True)
        wrong = sorted(n for n, h in hs.items() if h.cache_info().maxsize != size)
        if wrong:
            ctx.violation('after set_cache_maxsize(%d) these names still hold a cache of another size (they keep using it): %r' % (size, [(n, hs[n].cache_info().maxsize) for n in wrong][:6]),
                          dict(kind='cache-control-resize', size=size, stale=wrong))
        yastn.clear_cache()
        full = sorted(n for n, h in handles().items() if h.cache_info().currsize != 0)
        if full:
            ctx.violation('after clear_cache() these caches still hold entries: %r' % full[:6], dict(kind='cache-control-clear', size=size, not_cleared=full))
    yastn.set_cache_maxsize(1024)


def run(ctx):
    st = vlib.prepare(ctx, PROP_V, need_translators=('tr_cache',))
    quick = ctx.tier == 'quick'
    import yastn, tgen
    from yastn.tensor import _control_lru
    ctx.cov['rule'] = ('histories = interleavings of generated tensor programs (all op kinds of tools/tgen.py x symmetries x policies, '
                       'operands with coinciding struct/slices under Z2/Z3/U1 and fermionic on/off, mismatched hard-fusion histories), run '
                       'cold (clear_cache before each), then warm in shuffled order under cache sizes default/0/1 with clear_cache at random '
                       'points; every call of every lru wrapper (all binding sites) is recomputed cold and digested; plus random histories for '
                       'the LRU model vs CPython. non-trivial = program touching >= 1 cached function; distinct by (kind, seed, config)')
    log = dict(calls=collections.Counter(), hits=collections.Counter(), mismatch=[])
    probes = {}
    # ---- programs
    nseed = 40 if quick else 300
    kinds = list(tgen.SCENARIOS)
    progs = generated_programs(kinds, range(nseed))
    for sd in range(3 if quick else 12):
        progs += shared_layout_programs(1000 + sd)
        progs.append(mismatched_fusion_program(2000 + sd))
        progs.append(must_reject_program(3000 + sd))
        progs.append(inplace_after_use_program(4000 + sd))
    control_reaches_every_handle(ctx, progs)
    # ---- cold reference (no probes: pristine wrappers, cache cleared before every program)
    cold = {}
    for key, prog in progs:
        yastn.clear_cache()
        try:
            raw = prog()
            cold[key] = digest(raw)
            answered = [x for x in raw if isinstance(x, tuple) and x and x[0] == 'must-reject' and x[-1] == 'answered'] if isinstance(raw, list) else []
            stale = [x for x in raw if isinstance(x, tuple) and x and x[0] == 'stale'] if isinstance(raw, list) else []
            if stale:
                ctx.violation('after an in-place item assignment a lazily transposed tensor still behaves as before the assignment in later operations (something computed '
                              'earlier for that object is reused): %r' % (stale[:2],), dict(kind='stale-after-inplace', program=repr(key), entries=[list(map(str, x)) for x in stale[:4]]))
            if answered:
                ctx.violation('a contraction over legs of different dimensions was answered instead of rejected once its operands had been used in valid contractions '
                              '(the outcome depends on what ran before): %r' % (answered[:2],), dict(kind='must-reject-answered', program=repr(key), entries=[list(x) for x in answered[:4]]))
        except Exception as e:
            cold[key] = ('EXC', type(e).__name__, str(e)[:200])
        ctx.case(dict(kind='program', key=repr(key)), nontrivial=True)
    # ---- warm runs with probes
    e2e_bad = []
    rng = ctx.rng
    for size in (1024, 0, 1, 1024):
        yastn.set_cache_maxsize(size)
        install_probes(log, probes)
        order = list(range(len(progs))) * 2
        rng.shuffle(order)
        for k in order:
            key, prog = progs[k]
            if rng.random() < 0.03:
                yastn.clear_cache()
                ctx.count('clear_cache')
            try:
                r = digest(prog())
            except Exception as e:
                r = ('EXC', type(e).__name__, str(e)[:200])
            ctx.count('warm_runs')
            if r != cold[key]:
                e2e_bad.append(dict(kind='warm-differs-from-cold', program=repr(key), cache_size=size))
                if len(e2e_bad) > 20:
                    break
    ctx.extra['probe_calls'] = dict(log['calls'])
    ctx.extra['probe_hits'] = dict(log['hits'])
    ctx.extra['binding_sites_wrapped'] = len(probes)
    # every decorated function of the registry must have been exercised, with hits
    try:
        import tr_cache
        reg = tr_cache.translate(vlib.REPO)
        missing = [f for f in reg['decorated'] if log['hits'].get(f, 0) == 0]
        ctx.extra['cached_functions_never_hit'] = missing
    except Exception as e:
        ctx.extra['cached_functions_never_hit'] = 'translator failed: %r' % (e,)
    for m in log['mismatch'][:10]:
        ctx.violation('cache premise violated (%s) in %s' % (m['kind'], m['function']), m, found_input=True)
    for b in e2e_bad[:5]:
        ctx.violation('result depends on cache history: %r' % (b,), b, found_input=True)
    bad_lru = lru_validation(ctx, st, quick)
    if bad_lru:
        ctx.broken.append('CPython lru_cache disagrees with Lru.v: %r' % (bad_lru[0],))
    if ctx.broken and not ctx.violations:
        ctx.violation('obligation or tie no longer checks: %s' % ctx.broken[0], dict(kind='obligation', broken=ctx.broken), found_input=False)
    return ctx.finish(level='proof', checker_cmd='make -C /verif/coq (coqc 8.16.1) + coqc properties/C16.v (Print Assumptions)',
                      assumptions=['CPython functools.lru_cache behaves as Lru.v (validated on random histories each run)',
                                   'key completeness and immutability of cached values are premises, validated dynamically on every cache access of the workload'])


def replay(ctx, path):
    print(json.dumps(json.load(open(path)), indent=1)[:4000])
    return 0
