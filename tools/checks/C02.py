"""C02 -- every produced tensor is well-formed and conserves charge.
proof: Block/Charge.v, Programs(Laws).v, Struct(Laws).v; tie: the extracted wf_struct is run on the exported structure of EVERY
result, operand and intermediate of generated operation cases and operation sequences (all op kinds x 7 symmetries), next to
is_consistent() and the oracle's charge formula."""
import json
import numpy as np
import vlib, tcheck

PROP_V = 'properties/C02.v'
OP_WF = 40


def sym_index(info, sym):
    classes = info[0]
    for i, c in enumerate(classes):
        if c['sym_id'] == sym:
            return i
    raise KeyError(sym)


def must_reject(ctx, quick):
    """operations whose precondition fails must be REJECTED (YastnError), never answered with an ill-formed tensor:
    (a) diag() of a non-diagonal matrix whose legs have equal signatures; (b) a block whose dimension on ANY leg contradicts the dimension the same
    charge already has on that leg"""
    import yastn, tgen
    rng = ctx.rng
    for rep in range(200 if quick else 2000):
        sym = rng.choice(['U1', 'Z2', 'Z3', 'U1xU1'])
        cfg = tgen.make_cfg(sym)
        # (a)
        sg = rng.choice([1, -1])
        l = tgen.rleg(rng, cfg, sym, s=sg, maxD=3)
        try:
            # legs (t, D) and (-t, D) with equal signatures: every block is square and the tensor charge is zero
            neg = [tuple(int(x) for x in np.atleast_1d(cfg.sym.add_charges(t, signatures=(1,), new_signature=-1))) for t in l.t]
            order = sorted(range(len(neg)), key=lambda i: neg[i])
            lneg = yastn.Leg(cfg, s=sg, t=[neg[i] for i in order], D=[l.D[i] for i in order])
            a = yastn.rand(cfg, legs=[l, lneg], n=cfg.sym.zero())
        except yastn.YastnError:
            a = None
        if a is not None and a.size > 0:
            desc = dict(kind='diag-equal-signatures', sym=sym, s=sg, legs=str(l), rep=rep)
            ctx.case(desc, nontrivial=True)
            ctx.count('must-reject:diag')
            try:
                d = a.diag()
                ctx.violation('diag() of a non-diagonal matrix with signatures %r was answered (isdiag=%s, s=%r) instead of rejected; its dense form has elements in symmetry-forbidden sectors' % (
                    (sg, sg), d.isdiag, d.s), desc)
            except yastn.YastnError:
                pass
        # (b)
        r = rng.randint(2, 4)
        legs = [tgen.rleg(rng, cfg, sym, maxD=3, nsec=2) for _ in range(r)]
        try:
            a = tgen.rtensor(rng, cfg, legs, n=tgen.allowed_charge(rng, cfg, sym, legs), drop=0.5)      # some allowed blocks are absent
        except yastn.YastnError:
            continue
        blocks = a.get_blocks_charge()
        if len(blocks) < 1:
            continue
        nsym = cfg.sym.NSYM
        # a NEW block that shares its charge on leg i with an existing block but claims another dimension there
        i = rng.choice([0, r - 1, rng.randrange(r)])        # first, last, any
        cand = None
        for _ in range(30):
            ts = [rng.choice(lg.t) for lg in legs]
            tn = cfg.sym.add_charges(*ts, signatures=tuple(lg.s for lg in legs))
            if tuple(np.atleast_1d(tn).tolist()) == tuple(np.atleast_1d(a.n).tolist()):
                flat = tuple(c for t in ts for c in t)
                if flat not in blocks:
                    cand = ts
                    break
        if cand is None:
            continue
        b = a.copy()
        Ds = [lg.D[lg.t.index(t)] for lg, t in zip(legs, cand)]
        if cand[i] not in a.get_legs(i).t:
            continue                    # no stored block fixes the dimension of that charge on leg i: nothing to contradict
        Ds[i] += 1
        desc = dict(kind='set_block-conflicting-dimension', sym=sym, rank=r, leg=i, rep=rep)
        ctx.case(desc, nontrivial=True)
        ctx.count('must-reject:set_block:leg%d-of-%d' % (i, r))
        try:
            b.set_block(ts=tuple(cand), Ds=tuple(Ds), val='rand')
            ok = False
            try:
                ok = b.is_consistent()
            except (yastn.YastnError, AssertionError):
                ok = None
            ctx.violation('set_block accepted a block of shape %r although charge %r already has dimension %d on leg %d of %d (is_consistent afterwards: %r)' % (
                tuple(Ds), cand[i], Ds[i] - 1, i, r, ok), desc)
        except yastn.YastnError:
            pass


def run(ctx):
    st = vlib.prepare(ctx, PROP_V, need_translators=('tr_sym',))
    quick = ctx.tier == 'quick'
    import tgen, tr_sym
    info = tr_sym.translate(vlib.REPO)
    ctx.cov['rule'] = ('operation cases of every kind in tools/tgen.py (tensordot, add, unary ops, trace, vdot, diagonal ops, add/remove leg, fusion, '
                       'swap gates, ncon/einsum) and operation SEQUENCES (kind chain: 2-7 steps incl. svd factors) over the 7 symmetries, ranks 0-6, non-zero '
                       'charges, lazy/fused/diagonal states; wf_struct (extracted from Coq) evaluated on every result, operand and intermediate. '
                       'non-trivial = result with >= 1 block; distinct by (kind, seed)')
    n = 150 if quick else 2500
    nchain = 1200 if quick else 12000
    jobs = [(k, s, {}, 'plain') for k in tgen.SCENARIOS if k != 'chain' for s in range(ctx.seed % 1000 * 10000, ctx.seed % 1000 * 10000 + n)]
    jobs += [('chain', s, {}, 'plain') for s in range(ctx.seed % 1000 * 10000, ctx.seed % 1000 * 10000 + nchain)]
    jobs += [('fuse', s, {}, 'plain') for s in range(ctx.seed % 1000 * 10000 + n, ctx.seed % 1000 * 10000 + n + (450 if quick else 5000))]     # fusion has the most variants
    jobs += [('fuse', s, {'variant': 'extend_fused'}, 'plain') for s in range(ctx.seed % 1000 * 10000, ctx.seed % 1000 * 10000 + (300 if quick else 3000))]  # one fused space contains the other
    recs = tcheck.run_jobs(jobs)
    wf_jobs, wf_src = [], []
    for r in recs:
        ctx.case(dict(kind=r['kind'], seed=r['seed'], describe=r['describe']), nontrivial=r.get('nblocks', 0) > 0)
        ctx.count('status:%s:%s' % (r['kind'], r['status']))
        if r['status'] == 'crash':
            ctx.violation('operation crashed with a non-YastnError exception: %s' % r['detail'][:300], dict(kind=r['kind'], seed=r['seed'], detail=r['detail']))
        if r['status'] in ('mismatch', 'error') and (r['describe'] or {}).get('op') in ('relabel_fused', 'extend_fused'):
            ctx.violation('%s case seed %d (hard-fused operands whose sub-leg sectors differ, op %s): %s' % (r['kind'], r['seed'], r['describe'].get('what'), (r['detail'] or '')[:200]),
                          dict(kind=r['kind'], seed=r['seed'], opts=r['opts'], detail=r['detail'], describe=r['describe']))
        if r['status'] == 'mismatch' and (r['detail'].startswith('charge') or 'not consistent' in r['detail']):
            ctx.violation('%s case seed %d: %s' % (r['kind'], r['seed'], r['detail']), dict(kind=r['kind'], seed=r['seed'], opts=r['opts'], detail=r['detail'], describe=r['describe']))
        if r.get('history'):
            ctx.violation('%s case seed %d: a produced tensor carries a fusion history that does not support its sectors: %s' % (r['kind'], r['seed'], r['history']),
                          dict(kind=r['kind'], seed=r['seed'], opts=r['opts'], detail=r['history'], describe=r['describe']))
        ctx.count('history-checked', r.get('history_checked', 0))
        if r['status'] != 'ok':
            if r.get('inter_structs') and r.get('sym') is not None:
                for s_ in r['inter_structs']:
                    wf_jobs.append((OP_WF, [sym_index(info, r['sym']), s_]))
                    wf_src.append((r['kind'], r['seed'], 'intermediate'))
                    ctx.count('wf:intermediate')
            continue
        if r.get('consistent') is False or r.get('inter_consistent') is False:
            ctx.violation('%s case seed %d: is_consistent() fails on a produced tensor' % (r['kind'], r['seed']), dict(kind=r['kind'], seed=r['seed'], describe=r['describe']))
        sym = r.get('sym')
        if sym is None:
            continue
        si = sym_index(info, sym)
        for tag, sts in (('result', [r['struct']] if 'struct' in r else []), ('operand', r.get('operand_structs', [])), ('intermediate', r.get('inter_structs', []))):
            for s_ in sts:
                wf_jobs.append((OP_WF, [si, s_]))
                wf_src.append((r['kind'], r['seed'], tag))
                ctx.count('wf:' + tag)
    bad = []
    # self-test of the predicate and the pipeline: corrupted structures must be REJECTED by wf_struct
    import copy
    corrupt = []
    for j in wf_jobs[:400]:
        s_ = j[1][1]
        if len(s_[4]) >= 1 and s_[0] >= 1 and len(s_[1]) >= 1:
            c1 = copy.deepcopy(s_); c1[2][0] += 1                      # wrong total charge
            c2 = copy.deepcopy(s_); c2[5][0][0] += 1                  # wrong block dimension (storage size inconsistent)
            c3 = copy.deepcopy(s_); c3[6][0][0] += 1                  # shifted slice
            corrupt += [(OP_WF, [j[1][0], c]) for c in (c1, c2, c3)]
            if len(s_[4]) >= 2:
                c4 = copy.deepcopy(s_); c4[4][0], c4[4][1] = c4[4][1], c4[4][0]   # blocks out of order
                corrupt.append((OP_WF, [j[1][0], c4]))
    if st['model_ok'] and corrupt:
        oc = vlib.run_model(corrupt)
        ctx.extra['self_test'] = dict(corrupted_structs=len(corrupt), rejected=sum(1 for o in oc if o == 0))
        if any(o != 0 for o in oc):
            ctx.broken.append('self-test: wf_struct accepted a deliberately corrupted structure')
    if st['model_ok'] and wf_jobs:
        out = vlib.run_model(wf_jobs)
        for (kind, seed, tag), o, j in zip(wf_src, out, wf_jobs):
            if o != 1:
                bad.append(dict(kind=kind, seed=seed, which=tag, struct=j[1][1]))
        step = max(1, len(wf_jobs) // 60)
        ok, idx, ns = vlib.coq_sample('C02', [(OP_WF, j[1], 1) for j in wf_jobs[::step] if len(vlib.to_sx(j[1])) < 5000][:60])
        ctx.extra['coq_vm_sample'] = dict(n=ns, mismatches=len(idx), ok=ok)
        if not ok and not bad:
            ctx.broken.append('in-Coq vm_compute sample disagrees with the extracted wf_struct at %r' % idx[:5])
    must_reject(ctx, quick)
    ctx.extra['wf_struct_evaluations'] = len(wf_jobs)
    for b in bad[:5]:
        ctx.violation('wf_struct (Coq model) rejects the %s of %s case seed %d' % (b['which'], b['kind'], b['seed']), b)
    if ctx.broken and not ctx.violations:
        ctx.violation('obligation or tie no longer checks: %s' % ctx.broken[0], dict(kind='obligation', broken=ctx.broken), found_input=False)
    return ctx.finish(level='proof', checker_cmd='make -C /verif/coq (coqc 8.16.1) + coqc properties/C02.v (Print Assumptions)',
                      assumptions=['int64 charges/dimensions do not overflow on the generated inputs'])


def replay(ctx, path):
    import tgen
    d = json.load(open(path))
    for v in d['violations'][:3]:
        r = v['replay']
        if 'seed' in r and 'kind' in r:
            print('re-running', r['kind'], r['seed'], tgen.run_case(r['kind'], r['seed'], r.get('opts'))[:2])
    return 0
