"""C20 -- lattice geometry is a consistent indexing of the square lattice.
tie: hand-written model (coq/theories/Geom/Lattice.v) <-> implementation, exhaustive over the property's box;
plus the property evaluated directly on the real objects (search stage / replay source)."""
import itertools, json
import vlib

PROP_V = 'properties/C20.v'
OP_LISTS, OP_POINT, OP_RUC, OP_SPECIAL, OP_LATTICE = 10, 11, 12, 13, 14
BCS = ['infinite', 'obc', 'cylinder']
DIRS = {'tl': (-1, -1), 't': (-1, 0), 'tr': (-1, 1), 'l': (0, -1), 'r': (0, 1), 'bl': (1, -1), 'b': (1, 0), 'br': (1, 1)}
DIRN_CODE = {'lr': 1, 'tb': 2, 'rl': 3, 'bt': 4}


def S(s):
    return None if s is None else [int(s[0]), int(s[1])]


def osite(s):
    return [] if s is None else [S(s)]


def bonds(bs):
    return [[S(b[0]), S(b[1])] for b in bs]


def listing_oracle(ctx, g, tag, dirns=('h', 'v')):
    """bonds() / sites() without a direction and with reverse=True list exactly the per-direction listings, each bond once"""
    try:
        per = [list(g.bonds(d)) for d in dirns]
        allb = list(g.bonds())
        rev = list(g.bonds(reverse=True))
        flat = [b for bs in per for b in bs]
        if allb != flat:
            ctx.violation('bonds() is not the per-direction listings %r one after the other on %r' % (dirns, tag), dict(tag, kind='bonds-all'), family='bonds-all')
        if rev != allb[::-1]:
            ctx.violation('bonds(reverse=True) is not bonds() reversed on %r' % (tag,), dict(tag, kind='bonds-all-reverse'), family='bonds-all')
        for d, bs in zip(dirns, per):
            if list(g.bonds(d, reverse=True)) != bs[::-1]:
                ctx.violation('bonds(%r, reverse=True) is not bonds(%r) reversed on %r' % (d, d, tag), dict(tag, kind='bonds-reverse', dirn=d), family='bonds-all')
        # (two directions may join the same pair of sites on a wrapped lattice of width 1: only repetitions within one direction are errors;
        #  'h' and 'v' are examined by the lattice oracles themselves)
        if 'd' in dirns and len(set(per[dirns.index('d')])) != len(per[dirns.index('d')]):
            ctx.violation("bonds('d') lists a bond twice on %r" % (tag,), dict(tag, kind='bonds-d-dup'), family='bonds-all')
        if list(g.sites(reverse=True)) != list(g.sites())[::-1]:
            ctx.violation('sites(reverse=True) is not sites() reversed on %r' % (tag,), dict(tag, kind='sites-reverse'), family='bonds-all')
    except (TypeError, AttributeError, IndexError, KeyError) as e:
        ctx.violation('listing all bonds / sites raised %s: %s on %r' % (type(e).__name__, str(e)[:100], tag), dict(tag, kind='bonds-all-raise'), family='bonds-all')


def square_cases(ctx, fpeps, YastnError, quick):
    cases = []   # (op, arg, impl_result, desc)
    dims = [(nx, ny) for nx in range(1, 6) for ny in range(1, 6)]
    for (Nx, Ny) in dims:
        for bi, bc in enumerate(BCS):
            g = fpeps.SquareLattice(dims=(Nx, Ny), boundary=bc)
            # lists
            impl = [[S(s) for s in g.sites()], bonds(g.bonds('h')), bonds(g.bonds('v'))]
            cases.append((OP_LISTS, [bi, Nx, Ny], impl, dict(kind='lists', dims=(Nx, Ny), boundary=bc)))
            # pointwise
            win = [(x, y) for x in range(-2, Nx + 2) for y in range(-2, Ny + 2)]
            win += [(-2 * Nx - 1, 0), (2 * Nx + 1, 3 * Ny), (Nx, -2 * Ny), (3 * Nx - 1, 2 * Ny + 1)]
            shifts = list(DIRS.values()) + [(0, 0), (2, 0), (0, -2), (2 * Nx + 1, -3), (-Nx, Ny), (-2 * Nx - 2, 2)]
            pw = [(x, y) for x in range(-1, Nx + 1) for y in range(-1, Ny + 1)]
            if quick and Nx * Ny > 12:
                pw = [p for p in pw if ctx.rng.random() < 0.5]
            sites = pw + [w for w in win if w not in pw]
            per_site = []
            for s in sites:
                row = []
                for d in shifts:
                    row.append(osite(g.nn_site(s, d)))
                per_site.append([S(g.site2index(s)), row])
                ctx.count('nn_site', len(shifts))
            # named directions must agree with the vector form
            for s in pw[:6]:
                for nm, v in DIRS.items():
                    if g.nn_site(s, nm) != g.nn_site(s, v):
                        ctx.violation('nn_site(%r, %r) != nn_site(%r, %r) on %s %dx%d' % (s, nm, s, v, bc, Nx, Ny),
                                      dict(kind='dir-name', site=s, d=nm, dims=(Nx, Ny), boundary=bc))
            pairs = []
            for s0 in sites:
                row = []
                for s1 in sites:
                    try:
                        dn = DIRN_CODE[g.nn_bond_dirn(s0, s1)]
                    except YastnError:
                        dn = 0
                    row.append([1 if g.f_ordered(s0, s1) else 0, dn])
                pairs.append(row)
            ctx.count('pairs', len(sites) ** 2)
            cases.append((OP_POINT, [bi, Nx, Ny, [list(s) for s in sites], [list(d) for d in shifts]], [per_site, pairs],
                          dict(kind='pointwise', dims=(Nx, Ny), boundary=bc, n_sites=len(sites), n_shifts=len(shifts))))
    return cases


def square_oracle(ctx, fpeps, YastnError):
    """the property, evaluated directly on the real SquareLattice objects"""
    for Nx in range(1, 6):
        for Ny in range(1, 6):
            for bc in BCS:
                g = fpeps.SquareLattice(dims=(Nx, Ny), boundary=bc)
                tag = dict(dims=(Nx, Ny), boundary=bc)
                listing_oracle(ctx, g, dict(tag, lattice='square'))
                sites = list(g.sites())
                if len(set(sites)) != len(sites) or set(sites) != {(x, y) for x in range(Nx) for y in range(Ny)}:
                    ctx.violation('sites() is not the unit cell listed once: %r' % tag, dict(kind='sites', **tag))
                # neighbour lookup mutually inverse wherever defined
                for s in sites:
                    for d in list(DIRS.values()) + [(2, -1), (-Nx - 1, 2), (2 * Nx, 0)]:
                        s1 = g.nn_site(s, d)
                        if s1 is not None:
                            back = g.nn_site(s1, (-d[0], -d[1]))
                            if back != s:
                                ctx.violation('nn_site not mutually inverse: %r %r -> %r -> %r on %r' % (s, d, s1, back, tag),
                                              dict(kind='nn-inverse', site=s, d=d, **tag))
                # bonds
                for dirn, vec, name in (('h', (0, 1), 'lr'), ('v', (1, 0), 'tb')):
                    bs = list(g.bonds(dirn))
                    if len(set(bs)) != len(bs):
                        ctx.violation('duplicate bond in bonds(%r) on %r' % (dirn, tag), dict(kind='bond-dup', dirn=dirn, **tag))
                    expect = [(s, g.nn_site(s, vec)) for s in sites if g.nn_site(s, vec) is not None]
                    if sorted(map(tuple, bs)) != sorted(expect):
                        ctx.violation('bonds(%r) do not cover each nearest-neighbour pair once on %r' % (dirn, tag), dict(kind='bond-cover', dirn=dirn, **tag))
                    for b in bs:
                        try:
                            dn = g.nn_bond_dirn(*b)
                        except YastnError:
                            dn = None
                        if dn != name:
                            ctx.violation('listed bond %r has nn_bond_dirn %r (expected %r) on %r' % (b, dn, name, tag), dict(kind='bond-dirn', bond=b, **tag))
                        if not g.f_ordered(*b):
                            wrap = (bc == 'cylinder' and Nx >= 2 and dirn == 'v' and b[0][0] == Nx - 1 and b[1][0] == 0 and b[0][1] == b[1][1])
                            ctx.violation('listed bond %r is not fermionically ordered on %r' % (b, tag), dict(kind='bond-f-order', bond=b, **tag),
                                          family='cylinder-wrap-bond-not-f-ordered' if wrap else None)
                # site2index invariant under the periods and only those
                for s in [(x, y) for x in range(-1, Nx + 1) for y in range(-1, Ny + 1)]:
                    for a in range(-2 * Nx, 2 * Nx + 1):
                        for b_ in range(-2 * Ny, 2 * Ny + 1):
                            same = g.site2index((s[0] + a, s[1] + b_)) == g.site2index(s)
                            px = (a % Nx == 0) if bc in ('infinite', 'cylinder') else (a == 0)
                            py = (b_ % Ny == 0) if bc == 'infinite' else (b_ == 0)
                            if same != (px and py):
                                ctx.violation('site2index period mismatch at %r shift %r on %r' % (s, (a, b_), tag), dict(kind='period', site=s, shift=(a, b_), **tag))
                                break
                # f_ordered: total order, compatible with the order of sites()
                w = [(x, y) for x in range(-1, Nx + 1) for y in range(-1, Ny + 1)]
                for p in w:
                    if not g.f_ordered(p, p):
                        ctx.violation('f_ordered not reflexive at %r' % (p,), dict(kind='f-refl', site=p, **tag))
                    for q in w:
                        if not (g.f_ordered(p, q) or g.f_ordered(q, p)) or (g.f_ordered(p, q) and g.f_ordered(q, p) and p != q):
                            ctx.violation('f_ordered not total/antisymmetric at %r %r' % (p, q), dict(kind='f-total', sites=(p, q), **tag))
                        for r in w[::3]:
                            if g.f_ordered(p, q) and g.f_ordered(q, r) and not g.f_ordered(p, r):
                                ctx.violation('f_ordered not transitive at %r %r %r' % (p, q, r), dict(kind='f-trans', sites=(p, q, r), **tag))
                for i in range(len(sites) - 1):
                    if not g.f_ordered(sites[i], sites[i + 1]):
                        ctx.violation('sites() not in fermionic order on %r' % tag, dict(kind='sites-order', **tag))
                ctx.count('oracle_lattices')


def ruc_patterns(ctx, quick):
    rng = ctx.rng
    pats = []
    # exhaustive small
    for (nx, ny) in [(1, 1), (1, 2), (2, 1), (1, 3), (3, 1), (2, 2), (1, 4), (4, 1)]:
        for labs in itertools.product(range(4), repeat=nx * ny):
            # canonical up to renaming: first occurrences increasing
            seen = []
            for l in labs:
                if l not in seen:
                    seen.append(l)
            if seen != sorted(seen) or (seen and seen != list(range(len(seen)))):
                continue
            pats.append([list(labs[r * ny:(r + 1) * ny]) for r in range(nx)])
    n_rand = 300 if quick else 6000
    for _ in range(n_rand):
        nx, ny = rng.randint(1, 4), rng.randint(1, 4)
        k = rng.randint(1, 4)
        mode = rng.random()
        if mode < 0.55:   # momentum patterns: mostly valid
            a, b = rng.randrange(k), rng.randrange(k)
            p = [[(a * x + b * y) % k for y in range(ny)] for x in range(nx)]
            if rng.random() < 0.3:   # perturb one cell
                p[rng.randrange(nx)][rng.randrange(ny)] = rng.randrange(4)
        else:
            p = [[rng.randrange(k) for _ in range(ny)] for _ in range(nx)]
        pats.append(p)
    # ragged (shape errors)
    pats += [[[0, 1], [0]], [[0], [0, 1]], [[0, 1, 2], [1, 2]]]
    return pats


def ruc_real(fpeps, YastnError, p, window, as_dict):
    try:
        arg = {(r, c): v for r, row in enumerate(p) for c, v in enumerate(row)} if as_dict else p
        g = fpeps.RectangularUnitcell(pattern=arg)
    except YastnError as e:
        msg = str(e)
        return [-1, 1 if 'two-dimensional' in msg or 'rectangle' in msg else 2 if 'same neighbors' in msg else 9], None
    return [0, [[S(s) for s in g.sites()], bonds(g.bonds('h')), bonds(g.bonds('v')), [int(g.site2index(s)) for s in window]]], g


def ruc_oracle(ctx, g, p, YastnError):
    Nx, Ny = len(p), len(p[0])
    tag = dict(pattern=p)
    listing_oracle(ctx, g, dict(tag, lattice='rectangular-unitcell'))
    # accepted => every label has a single neighbourhood; indexing periodic; unique sites = one per label
    envs = {}
    for x in range(Nx):
        for y in range(Ny):
            lab = g.site2index((x, y))
            env = tuple(g.site2index(g.nn_site((x, y), d)) for d in 'tlbr')
            envs.setdefault(lab, set()).add(env)
    if any(len(v) > 1 for v in envs.values()):
        ctx.violation('RectangularUnitcell accepted a pattern giving a label two neighbourhoods: %r' % p, dict(kind='ruc-accept', **tag))
    labs = [g.site2index(s) for s in g.sites()]
    if sorted(labs) != sorted(envs.keys()) or len(set(labs)) != len(labs):
        ctx.violation('RectangularUnitcell unique sites are not one per label: %r' % p, dict(kind='ruc-sites', **tag))
    for x in range(-1, Nx + 1):
        for y in range(-1, Ny + 1):
            if g.site2index((x + Nx, y)) != g.site2index((x, y)) or g.site2index((x, y - Ny)) != g.site2index((x, y)):
                ctx.violation('RectangularUnitcell site2index not periodic: %r' % p, dict(kind='ruc-period', **tag))
    for dirn, nm in (('h', 'lr'), ('v', 'tb')):
        for b in g.bonds(dirn):
            if g.nn_bond_dirn(*b) != nm or not g.f_ordered(*b):
                ctx.violation('RectangularUnitcell bond %r not nn/ordered: %r' % (b, p), dict(kind='ruc-bond', bond=b, **tag))


def rejected_should_be(ctx, p):
    """independent: a rectangular pattern must be rejected iff some label has two neighbourhoods"""
    Nx, Ny = len(p), len(p[0])
    def lab(x, y): return p[x % Nx][y % Ny]
    envs = {}
    for x in range(Nx):
        for y in range(Ny):
            envs.setdefault(lab(x, y), set()).add((lab(x - 1, y), lab(x, y - 1), lab(x + 1, y), lab(x, y + 1)))
    return any(len(v) > 1 for v in envs.values())


class Obj:
    def __init__(self, v): self.v = v
    def shallow_copy(self): return Obj(self.v)
    def copy(self): return Obj(self.v)
    def clone(self): return Obj(self.v)


def copy_independence(ctx, fpeps, quick):
    """a container and its shallow_copy / copy / clone, also with an active patch: item assignment, move_to_patch and apply_patch on one of them
    never show through the other (the other keeps answering like a twin that replayed only the common history)"""
    rng = ctx.rng

    def rand_ops(k, Nx, Ny, start):
        ops, val = [], start
        for _ in range(k):
            r = rng.random()
            s = (rng.randrange(Nx), rng.randrange(Ny))
            if r < 0.5:
                val += 1; ops.append(('set', s, val))
            elif r < 0.85:
                ops.append(('move', s))
            else:
                ops.append(('apply',))
        return ops, val

    def play(lat, ops):
        for o in ops:
            if o[0] == 'set':
                lat[o[1]] = Obj(o[2])
            elif o[0] == 'move':
                try:
                    if lat[o[1]] is not None:
                        lat.move_to_patch([o[1]])
                except KeyError:
                    pass
            else:
                lat.apply_patch()

    def view(lat, Nx, Ny):
        out = []
        for x in range(-1, Nx + 1):
            for y in range(-1, Ny + 1):
                try:
                    o = lat[(x, y)]
                    out.append(None if o is None else o.v)
                except KeyError:
                    out.append('KeyError')
        return out
    for rep in range(60 if quick else 800):
        Nx, Ny = rng.randint(1, 3), rng.randint(1, 3)
        g = fpeps.SquareLattice(dims=(Nx, Ny), boundary=rng.choice(BCS))
        common, val = rand_ops(rng.randint(2, 8), Nx, Ny, 0)
        for s_ in [(x, y) for x in range(Nx) for y in range(Ny)]:
            common.insert(0, ('set', s_, 1000 + s_[0] * 10 + s_[1]))
        how = rng.choice(['shallow_copy', 'copy', 'clone'])
        a, twin = fpeps._geometry.Lattice(g), fpeps._geometry.Lattice(g)
        play(a, common); play(twin, common)
        b = getattr(a, how)()
        later, _ = rand_ops(rng.randint(1, 6), Nx, Ny, val + 100)
        side = rng.choice(['copy', 'source'])
        play(b if side == 'copy' else a, later)
        other = a if side == 'copy' else b
        desc = dict(kind='lattice-copy', how=how, dims=(Nx, Ny), side=side, common=[list(map(str, o)) for o in common[-6:]], later=[list(map(str, o)) for o in later])
        ctx.case(desc, nontrivial=True)
        ctx.count('lattice-copy:' + how)
        if view(other, Nx, Ny) != view(twin, Nx, Ny):
            ctx.violation('operations %r on the %s of a Lattice.%s() show through the other container (dims %r)' % (later, side, how, (Nx, Ny)), desc, family='lattice-copy-shares')



def lattice_cases(ctx, fpeps, quick):
    rng = ctx.rng
    cases = []
    n = 150 if quick else 2000
    for _ in range(n):
        Nx, Ny = rng.randint(1, 4), rng.randint(1, 4)
        bi = rng.randrange(3)
        g = fpeps.SquareLattice(dims=(Nx, Ny), boundary=BCS[bi])
        lat = fpeps._geometry.Lattice(g)
        ops, obs = [], []
        val = 0
        for _k in range(rng.randint(3, 14)):
            r = rng.random()
            s = (rng.randint(-1, Nx), rng.randint(-1, Ny)) if rng.random() < 0.35 else (rng.randrange(Nx), rng.randrange(Ny))
            inside = 0 <= s[0] < Nx and 0 <= s[1] < Ny
            if r < 0.35:
                ops.append([0, list(s)])
                try:
                    o = lat[s]
                    obs.append([[]] if o is None else [[o.v]])
                except KeyError:
                    obs.append([])
            elif r < 0.7:
                if BCS[bi] != 'infinite' and not inside and s not in lat._patch:
                    # writing outside a finite lattice silently creates a stray entry; modelled, but keep it rare
                    if rng.random() < 0.8:
                        continue
                val += 1
                ops.append([1, list(s), val])
                lat[s] = Obj(val)
            elif r < 0.88:
                try:
                    cur = lat[s]
                except KeyError:
                    cur = None
                if cur is None:
                    continue
                ops.append([2, list(s)])
                lat.move_to_patch([s])
            else:
                ops.append([3])
                lat.apply_patch()
        # final sweep of gets
        for s in [(x, y) for x in range(-1, Nx + 1) for y in range(-1, Ny + 1)]:
            ops.append([0, list(s)])
            try:
                o = lat[s]
                obs.append([[]] if o is None else [[o.v]])
            except KeyError:
                obs.append([])
        cases.append((OP_LATTICE, [bi, Nx, Ny, ops], obs, dict(kind='lattice', dims=(Nx, Ny), boundary=BCS[bi], ops=ops[:12])))
    return cases


def run(ctx):
    st = vlib.prepare(ctx, PROP_V)
    quick = ctx.tier == 'quick'
    import yastn.tn.fpeps as fpeps
    from yastn import YastnError
    ctx.cov['rule'] = ('EXHAUSTIVE over SquareLattice dims 1..5 x 1..5 x 3 boundaries: sites/bond lists, site2index and nn_site for all sites in a '
                       'window x 15 shifts (8 named directions + tuples incl. multi-cell), f_ordered and nn_bond_dirn for all ordered pairs in '
                       'the window; RectangularUnitcell: all patterns (up to label renaming) of the shapes 1x1..2x2,1x4,4x1 over <=4 labels + '
                       'random/momentum patterns up to 4x4; Checkerboard and both Triangular variants; Lattice container: random sequences '
                       'of get/set/move_to_patch/apply_patch. non-trivial = lattice with >1 site or pattern with >1 cell; distinct by arguments')
    cases = square_cases(ctx, fpeps, YastnError, quick)
    # ---- RectangularUnitcell
    pats = ruc_patterns(ctx, quick)
    n_acc = 0
    for p in pats:
        rect = len(set(len(r) for r in p)) == 1
        Nx, Ny = len(p), len(p[0])
        window = [(x, y) for x in range(-Nx, 2 * Nx) for y in range(-Ny, 2 * Ny)]
        impl, g = ruc_real(fpeps, YastnError, p, window, as_dict=rect and ctx.rng.random() < 0.3)
        cases.append((OP_RUC, [p, [list(w) for w in window]], impl, dict(kind='ruc', pattern=p)))
        ctx.count('ruc:' + ('accepted' if impl[0] == 0 else 'rejected%d' % impl[1]))
        if g is not None:
            n_acc += 1
            ruc_oracle(ctx, g, p, YastnError)
        if rect and (impl[0] != 0) != rejected_should_be(ctx, p):
            ctx.violation('RectangularUnitcell accepts/rejects wrongly: %r -> %r' % (p, impl[:2]), dict(kind='ruc-decision', pattern=p))
    # ---- Checkerboard / Triangular
    win = [(x, y) for x in range(-4, 7) for y in range(-4, 7)]
    g = fpeps.CheckerboardLattice()
    cases.append((OP_SPECIAL, [0, 2, 2, 0, [list(w) for w in win]],
                  [[S(s) for s in g.sites()], bonds(g.bonds('h')), bonds(g.bonds('v')), [], [int(g.site2index(s)) for s in win]], dict(kind='checkerboard')))
    g = fpeps.TriangularLattice()
    cases.append((OP_SPECIAL, [1, 3, 3, 0, [list(w) for w in win]],
                  [[S(s) for s in g.sites()], bonds(g.bonds('h')), bonds(g.bonds('v')), bonds(g.bonds('d')), [int(g.site2index(s)) for s in win]], dict(kind='triangular3')))
    for g, nm in ((fpeps.CheckerboardLattice(), 'checkerboard'), (fpeps.TriangularLattice(), 'triangular3')):
        listing_oracle(ctx, g, dict(lattice=nm), dirns=('h', 'v') if nm == 'checkerboard' else ('h', 'v', 'd'))
        for dirn, code in (('h', 'lr'), ('v', 'tb')):
            for b in g.bonds(dirn):
                if g.nn_bond_dirn(*b) != code or not g.f_ordered(*b):
                    ctx.violation('%s bond %r not nn/ordered' % (nm, b), dict(kind='special-bond', lattice=nm, bond=b))
        labs = [g.site2index(s) for s in g.sites()]
        if len(set(labs)) != len(labs):
            ctx.violation('%s unique sites repeat a tensor index' % nm, dict(kind='special-sites', lattice=nm))
    for Nx in range(1, 5):
        for Ny in range(1, 5):
            for bi, bc in enumerate(BCS):
                g = fpeps.TriangularLattice(dims=(Nx, Ny), boundary=bc, full_patch=True)
                listing_oracle(ctx, g, dict(lattice='triangular-full', dims=(Nx, Ny), boundary=bc), dirns=('h', 'v', 'd'))
                bd = [[osite(b[0]), osite(b[1])] for b in g.bonds('d')]
                cases.append((OP_SPECIAL, [2, Nx, Ny, bi, [list(w) for w in win]],
                              [[S(s) for s in g.sites()], bonds(g.bonds('h')), bonds(g.bonds('v')), bd, [int(g.site2index(s)) for s in win]],
                              dict(kind='triangular-full', dims=(Nx, Ny), boundary=bc)))
                cell = [(x, y) for x in range(Nx) for y in range(Ny)]
                idx = [g.site2index(s) for s in cell]
                if len(set(idx)) != len(idx):
                    ctx.violation('TriangularLattice(full_patch=True, dims=%r): two unit-cell sites share tensor index' % ((Nx, Ny),),
                                  dict(kind='tri-index', dims=(Nx, Ny), boundary=bc))
                if any(g.site2index((x + Nx, y - Ny)) != g.site2index((x, y)) for (x, y) in cell):
                    ctx.violation('TriangularLattice(full_patch=True, dims=%r): site2index not periodic' % ((Nx, Ny),),
                                  dict(kind='tri-period', dims=(Nx, Ny), boundary=bc))
                for b in g.bonds('d'):
                    if b[0] is None or b[1] is None:
                        ctx.violation('TriangularLattice(full_patch=True, dims=%r, boundary=%r) lists a diagonal bond with a None end: %r' % ((Nx, Ny), bc, b),
                                      dict(kind='tri-diag-none', dims=(Nx, Ny), boundary=bc, bond=[osite(b[0]), osite(b[1])]),
                                      family='triangular-fullpatch-none-bond')
                    elif not g.f_ordered(*b):
                        ctx.violation('triangular diagonal bond %r not fermionically ordered' % (b,), dict(kind='tri-diag-order', dims=(Nx, Ny), boundary=bc))
    # ---- Lattice container
    cases += lattice_cases(ctx, fpeps, quick)
    copy_independence(ctx, fpeps, quick)
    # ---- model side
    for (op, arg, impl, desc) in cases:
        ctx.case(desc, nontrivial=not (desc.get('dims') == (1, 1)))
        ctx.count('case:' + desc['kind'])
    disagreements = []
    if st['model_ok']:
        mo = vlib.run_model([(op, arg) for (op, arg, impl, desc) in cases])
        for (op, arg, impl, desc), m in zip(cases, mo):
            if m != vlib.canon(impl):
                disagreements.append(dict(desc=desc, first_diff=first_diff(m, vlib.canon(impl))))
        small = [(op, arg, impl) for (op, arg, impl, desc) in cases if len(vlib.to_sx(arg)) + len(vlib.to_sx(impl)) < 6000]
        step = max(1, len(small) // 120)
        ok, idx, n = vlib.coq_sample('C20', small[::step])
        ctx.extra['coq_vm_sample'] = dict(n=n, mismatches=len(idx), ok=ok)
        if not ok and not disagreements:
            ctx.broken.append('in-Coq vm_compute sample disagrees with the extracted driver/implementation at %r' % idx[:5])
    ctx.extra['correspondence'] = dict(cases=len(cases), disagreements=len(disagreements), exhaustive_box='SquareLattice 1..5 x 1..5 x 3 boundaries')
    # ---- the property directly on the real objects
    square_oracle(ctx, fpeps, YastnError)
    if disagreements:
        ctx.broken.append('correspondence model<->implementation: %d disagreements, first: %r' % (len(disagreements), disagreements[0]))
    if ctx.broken and not ctx.violations:
        if disagreements:
            ctx.violation('model and implementation disagree: %r' % (disagreements[0],), dict(kind='correspondence', first=disagreements[:5], broken=ctx.broken), found_input=True)
        else:
            ctx.violation('obligation or tie no longer checks: %s' % ctx.broken[0], dict(kind='obligation', broken=ctx.broken), found_input=False)
    return ctx.finish(level='proof', checker_cmd='make -C /verif/coq (coqc 8.16.1) + coqc properties/C20.v (Print Assumptions)',
                      assumptions=['Python % on ints is floor-mod (Z.modulo for positive modulus)', 'tuple comparison is lexicographic'])


def first_diff(a, b, path=()):
    if isinstance(a, list) and isinstance(b, list):
        if len(a) != len(b):
            return dict(path=path, model_len=len(a), impl_len=len(b))
        for i, (x, y) in enumerate(zip(a, b)):
            d = first_diff(x, y, path + (i,))
            if d:
                return d
        return None
    return None if a == b else dict(path=path, model=a, impl=b)


def replay(ctx, path):
    print(json.dumps(json.load(open(path)), indent=1)[:4000])
    return 0
