"""C15 -- operations never modify their operands; copies are independent.
proof: Heap/Heap.v + Frame.v (frame property for all sequences of non-in-place operations; copy independence);
tie: the classification of the public API into query / alias / fresh / in-place is checked per call on the real code by
byte-level snapshots (data, struct, slices, hfs, mfs, trans; MPS/PEPS site maps) of every argument before and after."""
import json, random, copy as _copy
import numpy as np
import vlib, tcheck

PROP_V = 'properties/C15.v'

# public Tensor attributes: how each is exercised.  'attr' = property/query without arguments
TENSOR_API = {
    'query': ['are_independent', 'allclose', 'get_blocks_charge', 'get_blocks_shape', 'get_dtype', 'get_legs', 'get_rank', 'get_shape',
              'get_signature', 'get_tensor_charge', 'is_complex', 'is_consistent', 'item', 'norm', 'print_blocks_shape', 'print_properties',
              'requires_grad', 'save_to_dict', 'save_to_hdf5', 'to_dense', 'to_dict', 'to_number', 'to_numpy', 'to_raw_tensor', 'vdot',
              'zero_of_dtype', 'from_dict', 'grad'],
    'attr': ['data', 'device', 'dtype', 'isdiag', 'n', 'ndim', 'ndim_n', 's', 's_n', 'shape', 'size', 'trans', 'yastn_dtype'],
    'alias': ['H', 'T', 'add_leg', 'conj', 'conj_blocks', 'consume_transpose', 'detach', 'drop_leg_history', 'flip_charges', 'flip_signature',
              'move_leg', 'moveaxis', 'real', 'imag', 'remove_leg', 'shallow_copy', 'switch_signature', 'to', 'transpose', 'swap_gate',
              'fuse_legs', 'unfuse_legs', 'fuse_meta_to_hard', 'remove_zero_blocks'],
    'fresh': ['add', 'apply_mask', 'bitwise_not', 'broadcast', 'clone', 'copy', 'diag', 'eig', 'eigh', 'eigh_with_truncation', 'exp',
              'expand_krylov_space', 'qr', 'reciprocal', 'rsqrt', 'sqrt', 'svd', 'svd_with_truncation', 'tensordot', 'to_nonsymmetric', 'trace',
              'truncation_mask'],
    'inplace': ['set_block', 'detach_', 'requires_grad_'],
}


def tensor_api_sweep(ctx):
    """every public Tensor method applied to generated operands: operands' snapshots must be unchanged (unless in-place)"""
    import yastn, tgen
    rng = ctx.rng
    names = [n for n in dir(yastn.Tensor) if not n.startswith('_')]
    known = set(sum(TENSOR_API.values(), []))
    unknown = sorted(set(names) - known)
    if unknown:
        ctx.broken.append('public Tensor API has members without a classification in the model: %r' % unknown)
    nrep = 12 if ctx.tier == 'quick' else 120
    for rep in range(nrep):
        sym = rng.choice(['U1', 'Z2', 'dense', 'Z3', 'U1xU1'])
        cfg = tgen.make_cfg(sym, policy=rng.choice(tgen.POLICIES))
        l0, l1, l2 = (tgen.rleg(rng, cfg, sym) for _ in range(3))
        a = tgen.rtensor(rng, cfg, [l0, l1, l2, l0.conj()], n=None if sym == 'dense' else cfg.sym.zero(), cplx=rng.random() < 0.3)
        a, _ = tgen.lazy(rng, a)
        m = tgen.rtensor(rng, cfg, [l0, l0.conj()], cplx=False)           # square matrix, charge 0
        h = m + m.H if m.size else m
        dg = tgen.rtensor(rng, cfg, [l0, l0.conj()], isdiag=True)
        pos = dg.copy(); pos._data = np.abs(pos._data) + 1.0
        b = tgen.rtensor(rng, cfg, [l.conj() for l in a.get_legs()], n=cfg.sym.add_charges(a.n, new_signature=-1) if sym != 'dense' else None)
        calls = {
            'H': lambda: a.H, 'T': lambda: a.T, 'add_leg': lambda: a.add_leg(axis=1), 'conj': lambda: a.conj(), 'conj_blocks': lambda: a.conj_blocks(),
            'consume_transpose': lambda: a.consume_transpose(), 'detach': lambda: a.detach(), 'drop_leg_history': lambda: a.fuse_legs(axes=((0, 1), 2, 3)).drop_leg_history(),
            'flip_charges': lambda: a.flip_charges(), 'flip_signature': lambda: a.flip_signature(), 'move_leg': lambda: a.move_leg(0, 2),
            'moveaxis': lambda: a.moveaxis(0, 2), 'real': lambda: a.real(), 'imag': lambda: a.imag(), 'remove_leg': lambda: a.add_leg(axis=0).remove_leg(axis=0),
            'shallow_copy': lambda: a.shallow_copy(), 'switch_signature': (lambda: a.switch_signature(axes=(0,))) if sym != 'dense' else None,
            'to': lambda: a.to(dtype='complex128'), 'transpose': lambda: a.transpose((1, 0, 3, 2)),
            'swap_gate': lambda: a.swap_gate(axes=(0, 1)), 'fuse_legs': lambda: a.fuse_legs(axes=((0, 1), (2, 3)), mode=rng.choice(['hard', 'meta'])),
            'unfuse_legs': lambda: a.fuse_legs(axes=((0, 1), 2, 3), mode='hard').unfuse_legs(axes=0),
            'fuse_meta_to_hard': lambda: a.fuse_legs(axes=((0, 1), 2, 3), mode='meta').fuse_meta_to_hard(), 'remove_zero_blocks': lambda: a.remove_zero_blocks(),
            'add': lambda: a.add(a) if hasattr(a, 'add') and callable(getattr(a, 'add')) else a + a, 'apply_mask': lambda: (dg > 0).apply_mask(m, axes=0) if hasattr(dg, '__gt__') else None,
            'bitwise_not': lambda: (dg > 0).bitwise_not() if hasattr(dg, '__gt__') else None, 'broadcast': lambda: dg.broadcast(m, axes=0),
            'clone': lambda: a.clone(), 'copy': lambda: a.copy(), 'diag': lambda: dg.diag(), 'eig': lambda: m.eig(axes=(0, 1)) if m.size else None,
            'eigh': lambda: h.eigh(axes=(0, 1)) if h.size else None, 'eigh_with_truncation': lambda: h.eigh_with_truncation(axes=(0, 1), D_total=2) if h.size else None,
            'exp': lambda: dg.exp(), 'expand_krylov_space': None, 'qr': lambda: a.qr(axes=((0, 1), (2, 3))), 'reciprocal': lambda: pos.reciprocal(),
            'rsqrt': lambda: pos.rsqrt(), 'sqrt': lambda: pos.sqrt(), 'svd': lambda: a.svd(axes=((0, 1), (2, 3))),
            'svd_with_truncation': lambda: a.svd_with_truncation(axes=((0, 1), (2, 3)), D_total=2), 'tensordot': lambda: a.tensordot(b, axes=((0, 1), (0, 1))),
            'to_nonsymmetric': lambda: a.to_nonsymmetric(), 'trace': lambda: a.trace(axes=(0, 3)), 'truncation_mask': lambda: yastn.truncation_mask(pos, D_total=2),
            # queries
            'are_independent': lambda: a.are_independent(a.copy()), 'allclose': lambda: a.allclose(a.copy()), 'get_blocks_charge': a.get_blocks_charge,
            'get_blocks_shape': a.get_blocks_shape, 'get_dtype': a.get_dtype, 'get_legs': a.get_legs, 'get_rank': a.get_rank, 'get_shape': a.get_shape,
            'get_signature': a.get_signature, 'get_tensor_charge': a.get_tensor_charge, 'is_complex': a.is_complex, 'is_consistent': a.is_consistent,
            'item': None, 'norm': a.norm, 'print_blocks_shape': None, 'print_properties': None, 'requires_grad': None, 'save_to_dict': a.save_to_dict,
            'save_to_hdf5': None, 'to_dense': a.to_dense, 'to_dict': lambda: a.to_dict(level=rng.choice([0, 1, 2])), 'to_number': None, 'to_numpy': a.to_numpy,
            'to_raw_tensor': None, 'vdot': lambda: a.vdot(a), 'zero_of_dtype': a.zero_of_dtype, 'from_dict': lambda: yastn.Tensor.from_dict(a.to_dict(level=2)), 'grad': None,
        }
        # natural leg order, no pending transpose, sectors of dimension 1 included: the merge-to-matrix step is then a no-op and
        # the backend sees views of the operand's own storage
        lo = [tgen.rleg(rng, cfg, sym, maxD=rng.choice([1, 2, 3])) for _ in range(3)]
        nat = tgen.rtensor(rng, cfg, lo, n=tgen.allowed_charge(rng, cfg, sym, lo), cplx=rng.random() < 0.3)
        nat2 = nat.flip_signature()       # shares storage with nat
        for pol in ('fullrank', 'lowrank', 'block_arnoldi', 'block_propack'):
            for ax in (((0,), (1, 2)), ((0, 1), (2,)), ((1,), (0, 2))):
                calls['svd:%s:%r' % (pol, ax)] = (lambda pol=pol, ax=ax: nat.svd(axes=ax, policy=pol, k_block=1))
                calls['svd_trunc:%s:%r' % (pol, ax)] = (lambda pol=pol, ax=ax: nat.svd_with_truncation(axes=ax, policy=pol, D_block=1, D_total=2))
        calls['qr:nat'] = lambda: nat.qr(axes=((0,), (1, 2)))
        calls['eigh:natural'] = (lambda: h.eigh(axes=(0, 1), which='SR')) if h.size else None
        calls['norm:nat'] = lambda: nat.norm(p='inf')
        operands = dict(a=a, m=m, h=h, dg=dg, pos=pos, b=b, nat=nat, nat2=nat2)
        for name, call in calls.items():
            if call is None or name in TENSOR_API['inplace']:
                continue
            before = {k: tgen.snapshot(v) for k, v in operands.items()}
            try:
                res = call()
            except yastn.YastnError:
                ctx.count('api:%s:rejected' % name)
                res = None
            except Exception as e:
                ctx.count('api:%s:exception' % name)
                res = None
            after = {k: tgen.snapshot(v) for k, v in operands.items()}
            ctx.count('api_calls')
            ctx.case(dict(kind='api', method=name, sym=sym, rep=rep), nontrivial=True)
            changed = [k for k in operands if before[k] != after[k]]
            if changed:
                ctx.violation('Tensor.%s changed its operand(s) %r (sym %s)' % (name, changed, sym), dict(kind='api-mutates', method=name, sym=sym, changed=changed, seed_rep=rep))
            # copy / clone must not share storage, and later in-place edits must not propagate either way
            if name in ('copy', 'clone') and res is not None and a.size:
                if np.shares_memory(res._data, a._data):
                    ctx.violation('Tensor.%s() shares storage with the source' % name, dict(kind='copy-shares', method=name, sym=sym))
                snap = tgen.snapshot(a)
                res._data[...] = 7
                if tgen.snapshot(a) != snap:
                    ctx.violation('writing into Tensor.%s() result changed the source' % name, dict(kind='copy-leak', method=name, sym=sym))


def tensor_copy_independence(ctx):
    import yastn, tgen
    rng = ctx.rng
    for rep in range(40 if ctx.tier == 'quick' else 400):
        sym = rng.choice(['U1', 'Z2', 'dense', 'Z3'])
        cfg = tgen.make_cfg(sym)
        legs = [tgen.rleg(rng, cfg, sym) for _ in range(rng.randint(1, 3))]
        a = tgen.rtensor(rng, cfg, legs, n=tgen.allowed_charge(rng, cfg, sym, legs))
        if a.size == 0:
            continue
        for how in ('copy', 'clone'):
            b = getattr(a, how)()
            sb = tgen.snapshot(b)
            # documented in-place API on the source: item assignment and set_block
            key = a.get_blocks_charge()[0]
            a[key] = a[key] * 0 + 5
            if tgen.snapshot(b) != sb:
                ctx.violation('item assignment on the source changed its %s()' % how, dict(kind='copy-dep', how=how, sym=sym))
            sa = tgen.snapshot(a)
            b[key] = b[key] * 0 - 3
            if tgen.snapshot(a) != sa:
                ctx.violation('item assignment on a %s() changed the source' % how, dict(kind='copy-dep-rev', how=how, sym=sym))
            ctx.case(dict(kind='tensor-copy', how=how, sym=sym, rep=rep), nontrivial=True)


def mps_snap(psi):
    import tgen
    return (psi.N, psi.nr_phys, psi.factor, psi.pC, tuple(sorted((repr(k), tgen.snapshot(v)) for k, v in psi.A.items())))


def mps_checks(ctx):
    import yastn, yastn.tn.mps as mps, mgen
    rng = ctx.rng
    nrep = 10 if ctx.tier == 'quick' else 80
    # dictionaries handed to the Generator stay as they are
    gops = yastn.operators.SpinlessFermions(sym='U1')
    params = {'t': 0.5, 'A': [0, 1, 2]}
    before = repr(sorted(params.items()))
    gen = mps.Generator(4, gops, parameters=params)
    ctx.case(dict(kind='generator-parameters'), nontrivial=True)
    if repr(sorted(params.items())) != before:
        ctx.violation('mps.Generator(N, operators, parameters=d) changed d: %r -> %r' % (before, sorted(params)), dict(kind='generator-parameters'), family='generator-mutates-parameters')
    p2 = {'g': 2.0, 'B': [0, 1]}
    b2 = repr(sorted(p2.items()))
    try:
        gen.mpo_from_latex(r"\sum_{j \in B} g n_{j}", parameters=p2)
        gen.mpo_from_latex(r"\sum_{j \in A} t n_{j}")          # default parameters=None: the Generator's own dictionary
    except TypeError as e:
        ctx.violation('Generator.mpo_from_latex raised TypeError: %s' % str(e)[:100], dict(kind='generator-default-parameters'), family='generator-default-parameters')
    # objects handed out by the generator are the caller's: in-place work on them leaves the generator as it was
    Iref = mgen.dense_state(gen.I(), gops)
    got_I = gen.I()
    got_I[0] = 2 * got_I[0]
    got_I.canonize_(to='first')
    ctx.case(dict(kind='generator-identity'), nontrivial=True)
    if not np.array_equal(mgen.dense_state(gen.I(), gops), Iref):
        ctx.violation('in-place operations on the MPO returned by Generator.I() changed what Generator.I() returns afterwards', dict(kind='generator-identity-shared'),
                      family='generator-identity-shared')
    if repr(sorted(p2.items())) != b2:
        ctx.violation('Generator.mpo_from_latex(parameters=d) changed d', dict(kind='generator-parameters'), family='generator-mutates-parameters')
    for rep in range(nrep):
        fam, sym = rng.choice(mgen.FAMILIES)
        ops = mgen.operators(fam, sym)
        N = rng.randint(2, 5)
        chs = mgen.admissible_charges(ops, N)
        try:
            psi = mgen.int_mps(rng, ops, N, D_total=4, n=rng.choice(chs))
            phi = mgen.int_mps(rng, ops, N, D_total=3, n=psi.virtual_leg('first').t[0] if sym != 'dense' else None)
            H = mgen.int_mps(rng, ops, N, D_total=3, nr_phys=2)
        except Exception:
            continue
        objs = dict(psi=psi, phi=phi, H=H)
        calls = {
            'measure_overlap': lambda: mps.measure_overlap(psi, phi), 'measure_mpo': lambda: mps.measure_mpo(psi, H, phi), 'add': lambda: mps.add(psi, phi, amplitudes=[2, -1]),
            '__add__': lambda: psi + phi, '__matmul__': lambda: H @ psi, 'H@H': lambda: H @ H, 'norm': lambda: psi.norm(), 'get_Schmidt_values': lambda: psi.get_Schmidt_values(),
            'get_entropy': lambda: psi.get_entropy(), 'to_tensor': lambda: psi.to_tensor(), 'conj': lambda: psi.conj(), 'transpose': lambda: H.T, 'H.H': lambda: H.H,
            'reverse_sites': lambda: psi.reverse_sites(), 'zipper': lambda: mps.zipper(H, psi, opts_svd={'D_total': 4}), 'get_bond_dimensions': lambda: psi.get_bond_dimensions(),
            'is_canonical': lambda: psi.is_canonical(to='first'), 'vdot': lambda: mps.vdot(psi, phi), 'mul': lambda: 3 * psi, 'measure_1site': lambda: mps.measure_1site(psi, ops.I(), psi),
            'to_dict': lambda: psi.to_dict(level=2), 'multiply': lambda: mps.multiply(H, psi), 'copy': lambda: psi.copy(), 'clone': lambda: psi.clone(),
            'shallow_copy': lambda: psi.shallow_copy(), 'Env': lambda: mps.Env(psi, [H, phi]).setup_(to='first'),
        }
        # a state caught mid-sweep: pending central block (pC is not None)
        mid = psi.copy()
        mid.canonize_(to='first', normalize=False)
        try:
            mid.orthogonalize_site_(n=rng.randrange(N), to=rng.choice(['first', 'last']), normalize=False)
        except Exception:
            pass
        objs['mid'] = mid
        import io, h5py

        def save_h5(obj):
            with h5py.File(io.BytesIO(), 'w') as f:
                obj.save_to_hdf5(f, 'state/')
        for nm, obj in (('psi', psi), ('mid', mid), ('H', H)):
            calls['%s.save_to_hdf5' % nm] = (lambda obj=obj: save_h5(obj))
            calls['%s.save_to_dict' % nm] = (lambda obj=obj: obj.save_to_dict())
            calls['%s.to_dict' % nm] = (lambda obj=obj: obj.to_dict(level=1))
            calls['%s.copy' % nm] = (lambda obj=obj: obj.copy())
            calls['%s.shallow_copy' % nm] = (lambda obj=obj: obj.shallow_copy())
            calls['%s.get_bond_dimensions' % nm] = (lambda obj=obj: obj.get_bond_dimensions())
            calls['%s.get_bond_charges_dimensions' % nm] = (lambda obj=obj: obj.get_bond_charges_dimensions())
            calls['%s.conj' % nm] = (lambda obj=obj: obj.conj())
        calls['mid.norm-ish'] = lambda: mps.vdot(mid, mid) if mid.pC is None else None
        for name, call in calls.items():
            before = {k: mps_snap(v) for k, v in objs.items()}
            try:
                call()
            except yastn.YastnError:
                ctx.count('mps:%s:rejected' % name)
            except Exception as e:
                ctx.count('mps:%s:exception:%s' % (name.split('.')[-1], type(e).__name__))
            after = {k: mps_snap(v) for k, v in objs.items()}
            ctx.count('mps_calls')
            ctx.case(dict(kind='mps-api', call=name, family=fam, sym=sym, N=N), nontrivial=True)
            ch = [k for k in objs if before[k] != after[k]]
            if ch:
                ctx.violation('mps operation %s changed its argument(s) %r (%s %s N=%d)' % (name, ch, fam, sym, N), dict(kind='mps-mutates', call=name, family=fam, sym=sym, N=N, changed=ch))
        # copy/clone independence under the in-place API
        for how in ('copy', 'clone'):
            c = getattr(psi, how)()
            sc = mps_snap(c)
            w = psi.copy()
            w2 = getattr(w, how)()
            s2 = mps_snap(w2)
            w.canonize_(to='first', normalize=False)
            w.canonize_(to='last', normalize=True)
            w[0] = w[0] * 2
            if mps_snap(w2) != s2:
                ctx.violation('in-place canonize_/item assignment on an MPS changed its %s()' % how, dict(kind='mps-copy-dep', how=how, family=fam, sym=sym, N=N))
            sw = mps_snap(w)
            w2.canonize_(to='first')
            if mps_snap(w) != sw:
                ctx.violation('in-place canonize_ on an MPS %s() changed the source' % how, dict(kind='mps-copy-dep-rev', how=how, family=fam, sym=sym, N=N))
            if mps_snap(c) != sc:
                ctx.violation('MPS %s() changed spontaneously' % how, dict(kind='mps-copy', how=how))
        # the same with a central block pending on a bond (mid-sweep objects are copied, too)
        if N >= 2:
            for how in ('copy', 'clone'):
                w = psi.copy()
                w.orthogonalize_site_(rng.randint(0, N - 2), to='last', normalize=False)
                w2 = getattr(w, how)()
                s2, sw = mps_snap(w2), mps_snap(w)
                ctx.case(dict(kind='mps-copy-central', how=how, family=fam, sym=sym, N=N), nontrivial=True)
                if s2 != sw:
                    ctx.violation('MPS %s() with a central block differs from its source' % how, dict(kind='mps-copy-central', how=how))
                blk = w.A[w.pC]
                w.A[w.pC][blk.get_blocks_charge()[0]] = 7 * blk[blk.get_blocks_charge()[0]]          # item assignment into a block of the central tensor
                if mps_snap(w2) != s2:
                    ctx.violation('writing into the central block of an MPS changed its %s()' % how, dict(kind='mps-copy-central-dep', how=how, family=fam, sym=sym, N=N))
                sw = mps_snap(w)
                blk2 = w2.A[w2.pC]
                w2.A[w2.pC][blk2.get_blocks_charge()[0]] = 3 * blk2[blk2.get_blocks_charge()[0]]
                if mps_snap(w) != sw:
                    ctx.violation('writing into the central block of an MPS %s() changed the source' % how, dict(kind='mps-copy-central-dep-rev', how=how, family=fam, sym=sym, N=N))
        # in-place algorithms modify only their receiver
        before = {k: mps_snap(v) for k, v in (('phi', phi), ('H', H))}
        w = psi.copy()
        w.canonize_(to='first')
        try:
            mps.compression_(w, [H, phi], method='1site', max_sweeps=1)
        except Exception:
            pass
        if {k: mps_snap(v) for k, v in (('phi', phi), ('H', H))} != before:
            ctx.violation('compression_ changed its targets', dict(kind='mps-inplace-leak', call='compression_', family=fam, sym=sym, N=N))


def peps_checks(ctx):
    import yastn, yastn.tn.fpeps as fpeps, tgen
    rng = ctx.rng
    for rep in range(4 if ctx.tier == 'quick' else 30):
        ops = yastn.operators.SpinlessFermions(sym=rng.choice(['Z2', 'U1']))
        geom = fpeps.SquareLattice(dims=(2, 2), boundary='obc')
        occ = {s: ops.vec_n(val=rng.randrange(2)) for s in geom.sites()}
        before = {k: (id(v), tgen.snapshot(v)) for k, v in occ.items()}
        psi = fpeps.product_peps(geom, occ)
        after = {k: (id(v), tgen.snapshot(v)) for k, v in occ.items()}
        ctx.case(dict(kind='product_peps-arguments', rep=rep), nontrivial=True)
        if before != after:
            ctx.violation('product_peps changed the dictionary of vectors it was given (entries replaced or modified at %r)' % [k for k in before if before[k] != after.get(k)][:3],
                          dict(kind='product_peps-mutates-dict'), family='product_peps-mutates-argument-dict')

        def snap(p):
            return tuple(sorted((repr(k), tgen.snapshot(v)) for k, v in p._site_data.items() if v is not None))
        for how in ('copy', 'clone'):
            c = getattr(psi, how)()
            sc = snap(c)
            site = geom.sites()[0]
            psi[site] = psi[site] * 2
            if snap(c) != sc:
                ctx.violation('item assignment on a Peps changed its %s()' % how, dict(kind='peps-copy-dep', how=how))
            sp = snap(psi)
            c[site] = c[site] * 3
            if snap(psi) != sp:
                ctx.violation('item assignment on a Peps %s() changed the source' % how, dict(kind='peps-copy-dep-rev', how=how))
            ctx.case(dict(kind='peps-copy', how=how, rep=rep), nontrivial=True)
        sp = snap(psi)
        psi.to_tensor()
        psi.get_bond_dimensions()
        psi.to_dict(level=2)
        if snap(psi) != sp:
            ctx.violation('Peps query changed the Peps', dict(kind='peps-mutates'))
        # measurements are queries: the boundary MPSs stored in an EnvBoundaryMPS are what they were afterwards
        try:
            import sys as _sys, os as _os
            _sys.path.insert(0, _os.path.join(vlib.VERIF, 'tools', 'checks'))
            import C12
            psi_e, _, ops_e, _, _ = C12.circuit_state(random.Random(rng.randrange(2 ** 31)), 'SpinlessFermions', rng.choice(['U1', 'Z2']), rng.choice([(2, 2), (2, 3), (3, 2)]), 3)
            benv = fpeps.EnvBoundaryMPS(psi_e, opts_svd={'D_total': 8}, setup='lrtb')     # an entangled state: the boundary vectors are not trivial

            def esnap(e_):
                return tuple(sorted((repr(k_), mps_snap(v_)) for k_, v_ in e_._env.items() if hasattr(v_, 'A')))
            I_, n_ = ops_e.I(), ops_e.n()
            for qname, q in (('measure_1site', lambda: benv.measure_1site(n_)), ('measure_nn', lambda: benv.measure_nn(n_, n_)),
                             ('measure_2site(dirn=h)', lambda: benv.measure_2site(n_, n_, dirn='h', opts_svd={'D_total': 8})),
                             ('measure_2site(dirn=v)', lambda: benv.measure_2site(n_, n_, dirn='v', opts_svd={'D_total': 8})),
                             ('measure_2site(cp, c, dirn=h)', lambda: benv.measure_2site(ops_e.cp(), ops_e.c(), dirn='h', opts_svd={'D_total': 8})),
                             ('measure_nsite', lambda: benv.measure_nsite(n_, n_, sites=[(0, 0), (1, 1)], opts_svd={'D_total': 8})),
                             ('sample', lambda: benv.sample(projectors=[ops_e.vec_n(val=0), ops_e.vec_n(val=1)], number=1))):
                b4 = esnap(benv)
                try:
                    q()
                except (yastn.YastnError, TypeError, KeyError, AttributeError, IndexError, ValueError):
                    ctx.count('boundary-mps-query-rejected:' + qname)
                    continue
                ctx.case(dict(kind='boundary-mps-query', query=qname, rep=rep), nontrivial=True)
                if esnap(benv) != b4:
                    ctx.violation('EnvBoundaryMPS.%s changed the boundary MPSs stored in the environment' % qname, dict(kind='boundary-mps-query-mutates', query=qname),
                                  family='boundary-mps-query-mutates')
        except yastn.YastnError:
            pass
        # option dictionaries handed to the in-place environment updates stay what they were
        for ename_, mk_ in (('EnvCTM.update_', lambda o_: fpeps.EnvCTM(psi, init='eye').update_(opts_svd=o_)),
                            ('EnvCTM.ctmrg_', lambda o_: fpeps.EnvCTM(psi, init='eye').ctmrg_(opts_svd=o_, max_sweeps=1))):
            o_ = {'D_total': 4}
            try:
                mk_(o_)
            except (yastn.YastnError, TypeError, KeyError) as e:
                ctx.count('opts-dict-call-rejected:' + ename_)
                continue
            ctx.case(dict(kind='opts-dict', call=ename_, rep=rep), nontrivial=True)
            if o_ != {'D_total': 4}:
                ctx.violation('%s(opts_svd=d) changed the dictionary it was given: %r' % (ename_, o_), dict(kind='opts-dict-mutated', call=ename_), family='ctm-opts-mutated')
        # sampling: the projectors handed over -- in every accepted container form -- stay what they were
        vecs = {0: ops.vec_n(val=0), 1: ops.vec_n(val=1)}
        forms = {'dict for all sites': lambda: dict(vecs), 'list for all sites': lambda: [vecs[0], vecs[1]],
                 'per-site lists': lambda: {s_: [vecs[0], vecs[1]] for s_ in geom.sites()},
                 'per-site dicts': lambda: {s_: dict(vecs) for s_ in geom.sites()}}

        def psnap(pr):
            if isinstance(pr, list):
                return [(id(t), tgen.snapshot(t)) for t in pr]
            return {k: (psnap(v) if isinstance(v, (dict, list)) else (id(v), tgen.snapshot(v))) for k, v in pr.items()}
        envs_ = {'ctm': fpeps.EnvCTM(psi, init='dl'), 'boundary-mps': fpeps.EnvBoundaryMPS(psi, opts_svd={'D_total': 4}, setup='lr'), 'bp': fpeps.EnvBP(psi)}
        for ename, env_ in envs_.items():
            for fname, mk in forms.items():
                pr = mk()
                b4 = psnap(pr)
                try:
                    env_.sample(projectors=pr, number=1)
                except (yastn.YastnError, TypeError, KeyError, AttributeError, IndexError):
                    ctx.count('sample-rejected:%s:%s' % (ename, fname))
                    continue
                ctx.case(dict(kind='sample-arguments', env=ename, form=fname, rep=rep), nontrivial=True)
                if psnap(pr) != b4:
                    ctx.violation('%s.sample(projectors=<%s>) changed the projectors it was given' % (ename, fname), dict(kind='sample-mutates-projectors', env=ename, form=fname),
                                  family='sample-mutates-projectors')
        # copies of a container with an ACTIVE patch (infinite lattices): the copy equals its source and is independent of it
        ipsi = fpeps.product_peps(fpeps.CheckerboardLattice(), ops.vec_n(val=1))
        s0 = ipsi.sites()[0]
        ipsi.move_to_patch(s0)
        ipsi[s0] = 2 * ipsi[s0]
        for how in ('copy', 'clone', 'shallow_copy'):
            c = getattr(ipsi, how)()
            ctx.case(dict(kind='peps-copy-patch', how=how, rep=rep), nontrivial=True)
            if tgen.snapshot(c[s0]) != tgen.snapshot(ipsi[s0]):
                ctx.violation('Peps.%s() of a lattice with an active patch differs from its source at the patched site' % how, dict(kind='peps-copy-patch', how=how), family='lattice-copy-patch')
            elif how != 'shallow_copy':
                before_src = tgen.snapshot(ipsi[s0])
                c[s0] = 5 * c[s0]
                if tgen.snapshot(ipsi[s0]) != before_src:
                    ctx.violation('item assignment on a patched site of Peps.%s() changed the source' % how, dict(kind='peps-copy-patch-dep', how=how), family='lattice-copy-patch')
        # two-layer objects: clone() with a separate bra; pending charge swaps of a DoublePepsTensor survive gate application
        try:
            bra = psi.copy()
            p2 = fpeps.Peps2Layers(psi, bra=bra).clone()
            ctx.case(dict(kind='peps2layers-clone', rep=rep), nontrivial=True)
            if tgen.snapshot(p2.bra[site]) != tgen.snapshot(bra[site]) or tgen.snapshot(p2.ket[site]) != tgen.snapshot(psi[site]):
                ctx.violation('Peps2Layers.clone() differs from its source', dict(kind='peps2layers-clone'), family='peps2layers-clone')
        except TypeError as e:
            ctx.violation('Peps2Layers(ket, bra=other).clone() raised TypeError: %s' % str(e)[:100], dict(kind='peps2layers-clone'), family='peps2layers-clone')
        dpt = fpeps.Peps2Layers(psi)[site]
        ch = ops.c().n
        dpt.add_charge_swaps_(ch, axes=['k4', 'b0'])
        sw_before = dict(dpt.swaps)
        gate = ops.n().add_leg(s=1, axis=2)
        out = dpt.apply_gate_on_ket(gate, dirn='l')
        ctx.case(dict(kind='doublepeps-apply-gate', rep=rep), nontrivial=True)
        if dict(dpt.swaps) != sw_before:
            ctx.violation('DoublePepsTensor.apply_gate_on_ket (returns a copy) changed the pending charge swaps of its receiver: %r -> %r' % (sw_before, dict(dpt.swaps)),
                          dict(kind='doublepeps-apply-gate'), family='doublepeps-apply-gate-mutates')
        out.add_charge_swaps_(ch, axes=['b1'])
        if dict(dpt.swaps) != sw_before:
            ctx.violation('adding charge swaps to the tensor returned by apply_gate_on_ket changed the receiver (shared dictionary)', dict(kind='doublepeps-apply-gate-shared'),
                          family='doublepeps-apply-gate-mutates')


def run(ctx):
    st = vlib.prepare(ctx, PROP_V)
    quick = ctx.tier == 'quick'
    import tgen
    ctx.cov['rule'] = ('every public yastn.Tensor method (list regenerated from the class each run) applied to generated operands; every tools/tgen.py operation '
                       'case incl. operation sequences; MPS/MPO functions and methods on integer-valued states of every operator family; Peps copy/clone; '
                       'byte-level snapshots (data, struct, slices, hfs, mfs, trans / site maps, factor, pC) of every argument before and after each call; '
                       'copy()/clone() followed by in-place edits on either side. non-trivial = call with non-empty operands; distinct by (call, seed)')
    n = 150 if quick else 3000
    base = ctx.seed % 1000 * 100000
    jobs = [(k, s, {}, 'snapshot') for k in tgen.SCENARIOS for s in range(base, base + n)]
    recs = tcheck.run_jobs(jobs)
    for r in recs:
        ctx.case(dict(kind=r['kind'], seed=r['seed']), nontrivial=True)
        ctx.count('snapshot:%s:%s' % (r['kind'], r['status']))
        if r['status'] == 'crash':
            ctx.broken.append('snapshot case crashed: %s' % r['detail'][:200])
        if r.get('operands_changed'):
            ctx.violation('%s case seed %d: the operation changed operand(s) %r' % (r['kind'], r['seed'], r['operands_changed']),
                          dict(kind=r['kind'], seed=r['seed'], opts=r['opts'], describe=r['describe'], changed=r['operands_changed']))
    tensor_api_sweep(ctx)
    tensor_copy_independence(ctx)
    mps_checks(ctx)
    peps_checks(ctx)
    if ctx.broken and not ctx.violations:
        ctx.violation('obligation or tie no longer checks: %s' % ctx.broken[0], dict(kind='obligation', broken=ctx.broken), found_input=False)
    return ctx.finish(level='proof', checker_cmd='make -C /verif/coq (coqc 8.16.1) + coqc properties/C15.v (Print Assumptions)',
                      assumptions=['NumPy itself does not write through read-only uses', 'the classification of public operations (alias/fresh/in-place) is validated per call on the generated workload only'])


def replay(ctx, path):
    print(json.dumps(json.load(open(path)), indent=1)[:4000])
    return 0
