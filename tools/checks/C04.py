"""C04 -- factorisations reconstruct the input with the promised structure.
proof: Linalg/MetaSvd.v (charge bookkeeping of the connecting leg, all branches); tie: exact correspondence of the charges on the connecting leg
of U/S/V and Q/R with the model; premises validated numerically per run: U S V = a (permuted), U, Q isometric, V co-isometric, S >= 0 and ordered
within each sector, R upper triangular with non-negative diagonal, eigh/eig reconstruction and (bi-)orthonormality; requested signature, charge
carrier and position of the connecting leg."""
import json
import numpy as np
import vlib

PROP_V = 'properties/C04.v'
OP_TCON, OP_TCON_QR = 90, 91
SYM_INDEX = {'U1': 0, 'U1xU1': 1, 'U1xU1xZ2': 2, 'Z2': 3, 'Z2xU1': 4, 'Z3': 5, 'dense': 6}
TOL = 1e-10


def gen(rng):
    import yastn, tgen
    sym = rng.choice(tgen.SYMS)
    cfg = tgen.make_cfg(sym, policy=rng.choice(tgen.POLICIES))
    r = rng.randint(2, 5)
    legs = [tgen.rleg(rng, cfg, sym, maxD=4) for _ in range(r)]
    n = tgen.allowed_charge(rng, cfg, sym, legs)
    a = yastn.rand(cfg, legs=legs, n=n, dtype=rng.choice(['float64', 'complex128']))
    if rng.random() < 0.25 and len(a.slices) > 0:       # blocks that are stored but hold exact zeros (also sectors of dimension one)
        for sl in a.slices:
            if rng.random() < 0.4:
                a._data[slice(*sl.slcs[0])] = 0
    style = rng.choice(['plain', 'plain', 'lazy', 'fused', 'meta'])
    if style == 'lazy':
        a, _ = tgen.lazy(rng, a, p=1.0)
    elif style in ('fused', 'meta') and a.ndim >= 3:
        a = a.fuse_legs(axes=((0, 1),) + tuple(range(2, a.ndim)), mode='hard' if style == 'fused' else 'meta')
    nd = a.ndim
    nl = rng.randint(1, nd - 1)
    perm = list(range(nd)); rng.shuffle(perm)
    axes = (tuple(perm[:nl]), tuple(perm[nl:]))
    return a, sym, cfg, style, axes


def eff_charges(cfg, x, axes_group, blocks_native_keys):
    pass


def check_svd(ctx, rng, a, sym, cfg, style, axes, model_jobs, model_src):
    import yastn
    sU = rng.choice([1, -1]); nU = rng.random() < 0.5
    Uaxis = rng.randint(-(len(axes[0]) + 1), len(axes[0])); Vaxis = rng.randint(-(len(axes[1]) + 1), len(axes[1]))
    desc = dict(kind='svd', sym=sym, style=style, axes=axes, sU=sU, nU=nU, Uaxis=Uaxis, Vaxis=Vaxis, n=tuple(a.n), trans=a.trans)
    ctx.case(desc, nontrivial=a.size > 0)
    U, S, V = yastn.svd(a, axes=axes, sU=sU, nU=nU, Uaxis=Uaxis, Vaxis=Vaxis)
    nl, nr = len(axes[0]), len(axes[1])
    ua = Uaxis % (nl + 1); va = Vaxis % (nr + 1)
    # structure: signature and position of the connecting leg, charge carrier
    zero = tuple(cfg.sym.zero())
    if U.get_legs(ua).s != sU or V.get_legs(va).s != -sU or tuple(S.get_legs(0).s for _ in [0])[0] != -sU or S.get_legs(1).s != sU:
        ctx.violation('svd: connecting leg does not have the requested signature (%r)' % desc, desc)
    if (tuple(U.n), tuple(V.n)) != ((tuple(a.n), zero) if nU else (zero, tuple(a.n))) or tuple(S.n) != zero:
        ctx.violation('svd: the tensor charge is not carried by the requested factor: U.n=%r V.n=%r a.n=%r nU=%r' % (U.n, V.n, a.n, nU), desc)
    # remaining legs keep the bipartition order
    ul = [U.get_legs(i) for i in range(nl + 1) if i != ua]; vl = [V.get_legs(i) for i in range(nr + 1) if i != va]
    if ul != [a.get_legs(i) for i in axes[0]] or vl != [a.get_legs(i) for i in axes[1]]:
        # legs of factors list only sectors that occur: compare signatures and history type at least, sectors as subsets
        for x, y in zip(ul + vl, [a.get_legs(i) for i in axes[0] + axes[1]]):
            if x.s != y.s or not set(x.t) <= set(y.t):
                ctx.violation('svd: factor legs are not the legs of the input in bipartition order', desc)
                break
    # reconstruction and isometry
    Um = U.moveaxis(ua, -1); Vm = V.moveaxis(va, 0)
    rec = yastn.tensordot(yastn.tensordot(Um, S, axes=(-1 % Um.ndim, 0)), Vm, axes=(Um.ndim - 1, 0))
    ref = a.transpose(axes[0] + axes[1])
    scale = max(1.0, float(a.norm()))
    if not (rec - ref).norm() <= TOL * scale or not all(np.all(np.isfinite(x._data)) for x in (U, S, V)):
        ctx.violation('svd: U S V differs from the input by %.3g' % float((rec - ref).norm()), desc)
    UU = yastn.tensordot(Um.conj(), Um, axes=(tuple(range(nl)), tuple(range(nl))))
    VV = yastn.tensordot(Vm, Vm.conj(), axes=(tuple(range(1, nr + 1)), tuple(range(1, nr + 1))))
    for nm, M in (('U^dagger U', UU), ('V V^dagger', VV)):
        if M.size and (M - yastn.eye(cfg, legs=M.get_legs(), isdiag=False) if False else None) is None:
            d = M.to_numpy()
            if not np.allclose(d, np.eye(d.shape[0]), atol=1e-9):
                ctx.violation('svd: %s is not the identity (max deviation %.3g)' % (nm, float(np.max(np.abs(d - np.eye(d.shape[0]))))), desc)
    # singular values: non-negative, non-increasing within each sector
    for t in S.get_blocks_charge():
        s = np.real(S[t])
        if np.any(s < -1e-13) or np.any(np.diff(s) > 1e-12 * max(1.0, float(s[0]) if len(s) else 1.0)):
            ctx.violation('svd: singular values of sector %r are negative or not ordered: %r' % (t, s[:6]), desc)
            break
    # model correspondence: charge on the connecting leg for each (effective left, right) block pair
    nsym = cfg.sym.NSYM
    if nsym and style in ('plain', 'lazy'):
        pairs, impl = [], []
        s0 = a.get_legs(axes[0][0]).s; s1 = a.get_legs(axes[1][0]).s
        sl = [a.get_legs(i).s for i in axes[0]]; sr = [a.get_legs(i).s for i in axes[1]]
        ublocks = set()
        Uc = Um.consume_transpose(); Vc = Vm.consume_transpose(); ac = a.consume_transpose()
        for t in Uc.get_blocks_charge():
            ch = [t[i * nsym:(i + 1) * nsym] for i in range(nl + 1)]
            tc = ch.pop(nl)
            ublocks.add((tuple(cfg.sym.add_charges(*ch, signatures=sl, new_signature=s0)), tuple(tc)))
        vblocks = set()
        for t in Vc.get_blocks_charge():
            ch = [t[i * nsym:(i + 1) * nsym] for i in range(nr + 1)]
            tc = ch.pop(0)
            vblocks.add((tuple(tc), tuple(cfg.sym.add_charges(*ch, signatures=sr, new_signature=s1))))
        # blocks of the merged matrix: effective (tl, tr) of every block of a
        mat = set()
        for t in ac.get_blocks_charge():
            chl = [t[i * nsym:(i + 1) * nsym] for i in axes[0]]; chr_ = [t[i * nsym:(i + 1) * nsym] for i in axes[1]]
            mat.add((tuple(cfg.sym.add_charges(*chl, signatures=sl, new_signature=s0)), tuple(cfg.sym.add_charges(*chr_, signatures=sr, new_signature=s1))))
        mat = sorted(mat)
        model_jobs.append((OP_TCON, [SYM_INDEX[sym], nU, sU, s0, s1, [[list(tl), list(tr)] for tl, tr in mat]]))
        model_src.append((desc, mat, ublocks, vblocks))


def check_qr(ctx, rng, a, sym, cfg, style, axes):
    import yastn
    sQ = rng.choice([1, -1])
    nl, nr = len(axes[0]), len(axes[1])
    Qaxis = rng.randint(-(nl + 1), nl); Raxis = rng.randint(-(nr + 1), nr)
    desc = dict(kind='qr', sym=sym, style=style, axes=axes, sQ=sQ, Qaxis=Qaxis, Raxis=Raxis, n=tuple(a.n), trans=a.trans)
    ctx.case(desc, nontrivial=a.size > 0)
    Q, R = yastn.qr(a, axes=axes, sQ=sQ, Qaxis=Qaxis, Raxis=Raxis)
    qa, ra = Qaxis % (nl + 1), Raxis % (nr + 1)
    zero = tuple(cfg.sym.zero())
    if Q.get_legs(qa).s != sQ or R.get_legs(ra).s != -sQ:
        ctx.violation('qr: connecting leg does not have the requested signature', desc)
    if tuple(Q.n) != tuple(a.n) or tuple(R.n) != zero:
        ctx.violation('qr: charge not carried by Q: Q.n=%r R.n=%r a.n=%r' % (Q.n, R.n, a.n), desc)
    Qm = Q.moveaxis(qa, -1); Rm = R.moveaxis(ra, 0)
    rec = yastn.tensordot(Qm, Rm, axes=(Qm.ndim - 1, 0))
    ref = a.transpose(axes[0] + axes[1])
    if not (rec - ref).norm() <= TOL * max(1.0, float(a.norm())):
        ctx.violation('qr: Q R differs from the input by %.3g' % float((rec - ref).norm()), desc)
    QQ = yastn.tensordot(Qm.conj(), Qm, axes=(tuple(range(nl)), tuple(range(nl))))
    if QQ.size:
        d = QQ.to_numpy()
        if not np.allclose(d, np.eye(d.shape[0]), atol=1e-9):
            ctx.violation('qr: Q^dagger Q is not the identity', desc)
    # R upper triangular with non-negative diagonal per block of the merged matrix
    if style not in ('plain', 'lazy'):
        return      # with fused input legs the column order of the merged matrix is not recoverable from R's legs
    Rf = Rm.fuse_meta_to_hard()
    Rf = Rf.fuse_legs(axes=(0, tuple(range(1, Rf.ndim))), mode='hard') if Rf.ndim > 2 else Rf
    for t in Rf.get_blocks_charge():
        b = Rf[t]
        if b.ndim != 2:
            continue
        if not np.allclose(b, np.triu(b), atol=1e-10) or np.any(np.real(np.diag(b)) < -1e-12) or np.any(np.abs(np.imag(np.diag(b))) > 1e-10):
            ctx.violation('qr: block %r of R is not upper triangular with a non-negative diagonal' % (t,), desc)
            break


def _present(rng, h, nl):
    """the operator h (legs: rows 0..nl-1, columns nl..2nl-1) seen through a random leg order, stored order and fusion of either group;
    returns (view, rows, cols, style): eigh/eig(view, axes=(rows, cols)) is the decomposition of the same operator"""
    import yastn
    n2 = 2 * nl
    q = list(range(n2))
    style = []
    if rng.random() < 0.7:
        rng.shuffle(q)
    x = h.transpose(tuple(q))
    r = rng.random()
    if r < 0.35:
        x = x.consume_transpose(); style.append('stored')
    elif r < 0.55:
        q2 = list(range(n2)); rng.shuffle(q2)
        x = x.consume_transpose().transpose(tuple(q2))
        q = [q[i] for i in q2]; style.append('stored+lazy')
    else:
        style.append('lazy')
    rows = [q.index(i) for i in range(nl)]
    cols = [q.index(i) for i in range(nl, n2)]
    if nl >= 2 and rng.random() < 0.5:
        mode = rng.choice(['meta', 'meta', 'hard'])
        which = rng.choice(['rows', 'cols', 'both'])
        if which == 'rows':
            x = x.fuse_legs(axes=(tuple(rows),) + tuple(cols), mode=mode); rows, cols = 0, tuple(range(1, nl + 1))
        elif which == 'cols':
            x = x.fuse_legs(axes=tuple(rows) + (tuple(cols),), mode=mode); rows, cols = tuple(range(nl)), nl
        else:
            x = x.fuse_legs(axes=(tuple(rows), tuple(cols)), mode=mode); rows, cols = 0, 1
            if rng.random() < 0.5:
                x = x.transpose((1, 0)); rows, cols = 1, 0
        style.append('%s-fused-%s' % (mode, which))
    else:
        rows, cols = tuple(rows), tuple(cols)
    return x, rows, cols, '+'.join(style)


def _astuple(x):
    return (x,) if isinstance(x, int) else tuple(x)


def check_eigh(ctx, rng, sym, cfg):
    import yastn, tgen
    legs = [tgen.rleg(rng, cfg, sym, maxD=3) for _ in range(rng.randint(1, 2))]
    if rng.random() < 0.5:      # mixed signatures inside a group
        legs = [l if rng.random() < 0.5 else l.conj() for l in legs]
    m = yastn.rand(cfg, legs=legs + [l.conj() for l in legs], dtype=rng.choice(['float64', 'complex128']))
    nl = len(legs)
    h = m + m.conj().transpose(tuple(range(nl, 2 * nl)) + tuple(range(nl)))
    sU = rng.choice([1, -1])
    which = rng.choice(['LR', 'SR', 'LM', 'SM'])
    x, rows, cols, style = _present(rng, h, nl)
    nr = len(_astuple(rows))
    Uaxis = rng.randint(-(nr + 1), nr)
    desc = dict(kind='eigh', sym=sym, sU=sU, Uaxis=Uaxis, which=which, style=style, rows=rows, cols=cols, s=list(h.get_signature()))
    ctx.case(desc, nontrivial=h.size > 0)
    ctx.count('eigh:' + style.split('+')[-1].split('-fused')[0])
    try:
        S, U = yastn.eigh(x, axes=(rows, cols), sU=sU, Uaxis=Uaxis, which=which)
        ua = Uaxis % (nr + 1)
        if U.get_legs(ua).s != sU:
            ctx.violation('eigh: connecting leg signature', desc)
        Um = U.moveaxis(ua, -1)
        if Um.ndim != nr + 1 or any(Um.get_legs(k) != x.get_legs(r) for k, r in enumerate(_astuple(rows))):
            ctx.violation('eigh (%s): the legs U inherits are not the legs of the input' % style, desc)
            return
        Um.is_consistent()
        rec = yastn.tensordot(yastn.tensordot(Um, S, axes=(nr, 0)), Um.conj(), axes=(nr, nr))
        ref = x.transpose(_astuple(rows) + _astuple(cols))
        rec, ref = tgen.fully_unfused(rec), tgen.fully_unfused(ref)
        if rec.ndim != ref.ndim or (rec - ref).norm() > 1e-9 * max(1.0, float(h.norm())):
            ctx.violation('eigh (%s): U S U^dagger differs from the input' % style, desc)
            return
        UU = yastn.tensordot(Um.conj(), Um, axes=(tuple(range(nr)), tuple(range(nr))))
        if UU.size and not np.allclose(UU.to_numpy(), np.eye(UU.get_shape(0)), atol=1e-9):
            ctx.violation('eigh: U^dagger U is not the identity', desc)
        for t in S.get_blocks_charge():
            s_ = np.real(S[t])
            key = {'LR': -s_, 'SR': s_, 'LM': -np.abs(s_), 'SM': np.abs(s_)}[which]
            if np.any(np.diff(key) < -1e-10 * max(1.0, float(np.max(np.abs(s_))) if len(s_) else 1.0)):
                ctx.violation('eigh(which=%s): eigenvalues of sector %r are not in the requested order: %r' % (which, t, s_[:6]), desc)
                break
    except yastn.YastnError as e:
        if 'hard-fused-rows' in style or 'hard-fused-cols' in style:
            ctx.count('eigh:rejected(one group hard-fused: bases of rows and columns differ)')      # legitimately refused
        else:
            ctx.violation('eigh (%s) on a Hermitian operator raised YastnError: %s' % (style, str(e)[:150]), desc)
    except (AssertionError, ValueError, IndexError, KeyError) as e:
        ctx.violation('eigh (%s) on a Hermitian operator raised %s: %s' % (style, type(e).__name__, str(e)[:150]), desc)
    # eig of a generic (non-hermitian) matrix: bi-orthonormal pairs and reconstruction
    g = yastn.rand(cfg, legs=legs + [l.conj() for l in legs], dtype='float64')
    degenerate = rng.random() < 0.35
    if degenerate and h.size > 0:
        # a diagonalisable operator with REPEATED eigenvalues inside its sectors: same eigenvectors as h, eigenvalues rounded to {1, 2, 3}
        try:
            hm = h.fuse_legs(axes=(tuple(range(nl)), tuple(range(nl, 2 * nl))), mode='hard')
            Sd, Ud = yastn.eigh(hm, axes=(0, 1))
            Sd._data = np.round(np.real(Sd._data)) % 3 + 1.0
            g = yastn.tensordot(yastn.tensordot(Ud, Sd, axes=(1, 0)), Ud.conj(), axes=(1, 1)).unfuse_legs(axes=(0, 1))
            ctx.count('eig:degenerate-spectrum')
        except yastn.YastnError:
            degenerate = False
    x, rows, cols, style = _present(rng, g, nl)
    nr, nc = len(_astuple(rows)), len(_astuple(cols))
    desc = dict(kind='eig', sym=sym, sU=sU, style=style, rows=rows, cols=cols, s=list(g.get_signature()), degenerate=degenerate)
    ctx.case(desc, nontrivial=g.size > 0)
    try:
        Ug, Sg, Vg = yastn.eig(x, axes=(rows, cols), sU=sU)
    except yastn.YastnError:
        ctx.count('eig:rejected(%s)' % style.split('+')[-1])
        return
    except ValueError as e:
        ctx.violation('eig (%s) refused a diagonalisable operator: %s' % (style, str(e)[:120]), desc, family='eig-spurious-biorthonormalization-failure')
        return
    try:
        if Ug.ndim != nr + 1 or Vg.ndim != nc + 1 or any(Ug.get_legs(k) != x.get_legs(r) for k, r in enumerate(_astuple(rows))) \
                or any(Vg.get_legs(k + 1) != x.get_legs(c) for k, c in enumerate(_astuple(cols))):
            ctx.violation('eig (%s): the legs U / V inherit are not the legs of the input' % style, desc)
            return
        Ug.is_consistent(); Vg.is_consistent()
        if Ug.get_legs(nr).s != sU or Vg.get_legs(0).s != -sU:
            ctx.violation('eig: connecting leg signature', desc)
        rec = yastn.tensordot(yastn.tensordot(Ug, Sg, axes=(nr, 0)), Vg, axes=(nr, 0))
        ref = x.transpose(_astuple(rows) + _astuple(cols))
        rec, ref = tgen.fully_unfused(rec), tgen.fully_unfused(ref)
        if rec.ndim != ref.ndim or (rec - ref).norm() > 1e-7 * max(1.0, float(g.norm())):
            ctx.violation('eig (%s): U S V differs from the input' % style, desc)
            return
        if nr == nc:
            VU = yastn.tensordot(Vg, Ug, axes=(tuple(range(1, nc + 1)), tuple(range(nr))))
            if VU.size and not np.allclose(VU.to_numpy(), np.eye(VU.get_shape(0)), atol=1e-7):
                ctx.violation('eig: V U is not the identity (pairs not bi-orthonormal)', desc)
        ctx.count('eig:' + style.split('+')[-1].split('-fused')[0])
    except (AssertionError, ValueError, IndexError, KeyError, yastn.YastnError) as e:
        ctx.violation('eig (%s): factors are unusable: %s: %s' % (style, type(e).__name__, str(e)[:150]), desc)


def check_eig_charged(ctx, rng):
    """eig of an operator with NON-ZERO charge (cyclic groups; all sectors of one size so that the effective blocks are square), nU in {True, False}:
    the charge sits on the requested factor, U S V reproduces the input"""
    import yastn, tgen
    sym = rng.choice(['Z2', 'Z3'])
    cfg = tgen.make_cfg(sym)
    mod = 2 if sym == 'Z2' else 3
    nl = rng.randint(1, 2)
    Dl = [rng.randint(1, 2) for _ in range(nl)]
    legs = [yastn.Leg(cfg, s=rng.choice([1, -1]), t=tuple(range(mod)), D=(Dl[i],) * mod) for i in range(nl)]
    n = rng.randint(1, mod - 1)
    a = yastn.rand(cfg, legs=legs + [l.conj() for l in legs], n=n, dtype=rng.choice(['float64', 'complex128']))
    sU = rng.choice([1, -1]); nU = rng.random() < 0.5
    rows, cols = tuple(range(nl)), tuple(range(nl, 2 * nl))
    desc = dict(kind='eig-charged', sym=sym, n=n, nU=nU, sU=sU, nl=nl, D=Dl)
    ctx.case(desc, nontrivial=True)
    ctx.count('eig:charged:nU=%s' % nU)
    try:
        U, S, V = yastn.eig(a, axes=(rows, cols), sU=sU, nU=nU)
    except (yastn.YastnError, ValueError) as e:
        ctx.count('eig:charged:rejected')
        return
    zero = tuple(cfg.sym.zero())
    if (tuple(U.n), tuple(V.n), tuple(S.n)) != ((tuple(a.n), zero, zero) if nU else (zero, tuple(a.n), zero)):
        ctx.violation('eig(nU=%s) of an operator of charge %r: U.n=%r S.n=%r V.n=%r -- the charge is not on the requested factor' % (nU, tuple(a.n), tuple(U.n), tuple(S.n), tuple(V.n)), desc)
        return
    rec = yastn.tensordot(yastn.tensordot(U, S, axes=(nl, 0)), V, axes=(nl, 0))
    if not (rec - a).norm() <= 1e-8 * max(1.0, float(a.norm())):
        ctx.violation('eig(nU=%s) of an operator of charge %r: U S V differs from the input by %.3g' % (nU, tuple(a.n), float((rec - a).norm())), desc)
    if U.get_legs(nl).s != sU or V.get_legs(0).s != -sU:
        ctx.violation('eig (charged): connecting leg signature', desc)


def run(ctx):
    st = vlib.prepare(ctx, PROP_V)
    quick = ctx.tier == 'quick'
    import yastn, tgen
    rng = ctx.rng
    ctx.cov['rule'] = ('random tensors of all 7 symmetries, ranks 2-5, real/complex, non-zero charges, rectangular sectors, lazily transposed / hard- / meta-fused '
                       'inputs x random bipartitions and leg orders x sU/sQ x nU x Uaxis/Vaxis/Qaxis/Raxis: structure (signature, charge carrier, position of the '
                       'connecting leg, charges on it vs the Coq model) and numerical premises (reconstruction, (co)isometry, ordering, triangularity); eigh (4 '
                       'orderings) and eig on Hermitian / generic matrices. non-trivial = input with >= 1 block; distinct by arguments')
    n = 700 if quick else 8000
    jobs, src = [], []
    for k in range(n):
        a, sym, cfg, style, axes = gen(rng)
        if a.size == 0:
            continue
        try:
            check_svd(ctx, rng, a, sym, cfg, style, axes, jobs, src)
            check_qr(ctx, rng, a, sym, cfg, style, axes)
            if k % 3 == 0:
                check_eigh(ctx, rng, sym, cfg)
            if k % 5 == 0:
                check_eig_charged(ctx, rng)
        except yastn.YastnError as e:
            ctx.violation('factorisation rejected a well-formed input: %s' % str(e)[:200], dict(kind='rejected', sym=sym, style=style, axes=axes, rep=k))
        ctx.count('style:' + style)
    bad = []
    if st['model_ok'] and jobs:
        mo = vlib.run_model(jobs)
        for (desc, mat, ublocks, vblocks), m in zip(src, mo):
            exp_u = {(tl, tuple(tc)) for (tl, tr), tc in zip(mat, m)}
            exp_v = {(tuple(tc), tr) for (tl, tr), tc in zip(mat, m)}
            if not ublocks <= exp_u or not vblocks <= exp_v:
                bad.append(dict(desc=desc, model_U=sorted(exp_u), impl_U=sorted(ublocks), model_V=sorted(exp_v), impl_V=sorted(vblocks)))
        ok, idx, ns = vlib.coq_sample('C04', [(op, arg, out) for (op, arg), out in list(zip(jobs, mo))[:80]])
        ctx.extra['coq_vm_sample'] = dict(n=ns, mismatches=len(idx), ok=ok)
        if not ok:
            ctx.broken.append('in-Coq vm_compute sample disagrees with the extracted driver at %r' % idx[:5])
    ctx.extra['correspondence'] = dict(cases=len(jobs), disagreements=len(bad))
    if bad and not ctx.violations:
        ctx.violation('connecting-leg charges of U/V differ from the model: %r' % (bad[0],), dict(kind='correspondence', first=bad[:3]))
    if ctx.broken and not ctx.violations:
        ctx.violation('obligation or tie no longer checks: %s' % ctx.broken[0], dict(kind='obligation', broken=ctx.broken), found_input=False)
    return ctx.finish(level='proof', checker_cmd='make -C /verif/coq (coqc 8.16.1) + coqc properties/C04.v (Print Assumptions)',
                      assumptions=['LAPACK (scipy/numpy) svd/qr/eigh/eig meet their specifications: validated numerically per call with tolerance 1e-9..1e-10 relative to the input norm'])


def replay(ctx, path):
    print(json.dumps(json.load(open(path)), indent=1)[:4000])
    return 0
