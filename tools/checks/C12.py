"""C12 -- Exact PEPS environments give exact expectation values and valid metrics.
proof: Peps/Swaps.v (bookkeeping of pending charge swaps of a two-layer tensor: leg-wise group sum, order independence, second swap adds,
inverse cancels); tie: exact correspondence of DoublePepsTensor.add_charge_swaps_ for random insertion histories in every symmetry.
search / premises: finite PEPS from product states and random shallow circuits (exact apply_gate_, validated by C11); boundary-MPS, CTM
(init='dl' + expand_outward_) and, on loop-free lattices, BP environments: identity, 1-site, nearest-neighbour, 2-site and n-site expectation
values vs the dense state (Jordan-Wigner matrices in the fermionic site order); NTU bond metrics Hermitian and positive semi-definite;
evolution_step_ without binding truncation vs apply_gate_."""
import json
import numpy as np
import vlib

PROP_V = 'properties/C12.v'
OP_SWAPS = 160
AXES = ['b0', 'b1', 'b2', 'b3', 'b4', 'k0', 'k1', 'k2', 'k3', 'k4']
DESCR = {'Z2': [2], 'U1': [0], 'U1xU1': [0, 0], 'Z2xU1': [2, 0], 'U1xU1xZ2': [0, 0, 2], 'Z3': [3]}


def swaps_correspondence(ctx, st, quick):
    import yastn, yastn.tn.fpeps as fpeps, tgen
    rng = ctx.rng
    jobs, src = [], []
    for rep in range(60 if quick else 1000):
        sym = rng.choice(sorted(DESCR))
        cfg = tgen.make_cfg(sym, fermionic=True)
        legs = [tgen.rleg(rng, cfg, sym, s=s, maxD=1) for s in (-1, 1, 1, -1, 1)]
        A = yastn.rand(cfg, legs=legs)
        if A.size == 0:
            continue
        T = fpeps.DoublePepsTensor(bra=A, ket=A)
        ops = []
        for _ in range(rng.randint(1, 6)):
            c = tgen.rcharge(rng, sym, wide=True)
            c = tuple(int(x) for x in np.atleast_1d(cfg.sym.add_charges(c, cfg.sym.zero())))       # canonical charge, as operators carry
            axes = [rng.choice(AXES) for _ in range(rng.randint(1, 4))]
            T.add_charge_swaps_(c, axes if rng.random() < 0.8 or len(axes) > 1 else axes[0])
            ops.append([list(c), [AXES.index(a) for a in axes]])
        real = [[0] * len(DESCR[sym]) for _ in range(10)]
        for k, v in T.swaps.items():
            real[AXES.index(k)] = [int(x) for x in np.atleast_1d(v)]
        jobs.append((OP_SWAPS, [DESCR[sym], ops]))
        src.append((dict(kind='charge-swaps', sym=sym, ops=ops), real))
        ctx.case(src[-1][0], nontrivial=len(ops) >= 2)
    bad = []
    if st['model_ok'] and jobs:
        mo = vlib.run_model(jobs)
        for (desc, real), m in zip(src, mo):
            if m != real:
                bad.append(dict(desc=desc, model=m, impl=real))
        ok, idx, ns = vlib.coq_sample('C12', [(op, arg, out) for (op, arg), out in list(zip(jobs, mo))[:40]])
        ctx.extra['coq_vm_sample'] = dict(n=ns, mismatches=len(idx), ok=ok)
        if not ok and not bad:
            ctx.broken.append('in-Coq vm_compute sample disagrees with the extracted driver at %r' % idx[:5])
    ctx.extra['swaps_correspondence'] = dict(cases=len(jobs), disagreements=len(bad))
    return bad


# ------------------------------------------------------------------------------------------------------------- states and references
def circuit_state(rng, fam, sym, dims, ngates):
    """finite PEPS: product of local basis states + random nearest-neighbour / local gates applied exactly; returns (psi, dense vector, ops, sites)"""
    import yastn, yastn.tn.fpeps as fpeps, yastn.tn.mps as mps, mgen
    import sys, os
    sys.path.insert(0, os.path.join(vlib.VERIF, 'tools', 'checks'))
    import C11
    ops = mgen.operators(fam, sym)
    g = fpeps.SquareLattice(dims=dims, boundary='obc')
    sites = list(g.sites())
    vecs = C11._local_vectors(fam, ops)
    psi = fpeps.product_peps(g, {s: rng.choice(vecs) for s in sites})
    I = ops.I()
    bonds = list(g.bonds())
    for _ in range(ngates):
        b = rng.choice(bonds)
        step = complex(rng.uniform(0.2, 1.0), rng.uniform(-0.5, 0.5))
        if fam == 'SpinlessFermions':
            gate = fpeps.gates.gate_nn_hopping(rng.uniform(0.5, 1.5), step, I, ops.c(), ops.cp(), bond=b)
        elif fam == 'SpinfulFermions':
            s_ = rng.choice(['u', 'd'])
            gate = fpeps.gates.gate_nn_hopping(rng.uniform(0.5, 1.5), step, I, ops.c(s_), ops.cp(s_), bond=b)
        else:
            gate = fpeps.gates.gate_nn_Heisenberg(rng.uniform(0.5, 1.5), step, I, ops.sz(), ops.sp(), ops.sm(), bond=b)
        psi.apply_gate_(gate)
    t = psi.to_tensor()
    for k in range(t.ndim - 1, 0, -2):
        t = t.remove_leg(axis=k)
    sp = ops.space()
    v = t.to_numpy(legs={i: sp for i in range(t.ndim)}).reshape(-1)
    return psi, v, ops, sites, g


def dense_ev(jw, v, op_list, idx):
    M = jw.product(op_list, idx)
    return np.vdot(v, M @ v) / np.vdot(v, v)


def measure_cases(ctx, quick, n_cases=None, seeds=None):
    import random, yastn, yastn.tn.fpeps as fpeps, mgen
    import sys, os
    sys.path.insert(0, os.path.join(vlib.VERIF, 'tools', 'checks'))
    import C07
    n_cases = n_cases or (14 if quick else 200)
    for rep in range(n_cases):
        sd = seeds[rep] if seeds is not None else ctx.rng.randrange(2 ** 31)
        rng = random.Random(sd)
        fam, sym = rng.choice([('SpinlessFermions', 'Z2'), ('SpinlessFermions', 'U1'), ('SpinlessFermions', 'U1'), ('SpinfulFermions', 'U1xU1'), ('Spin12', 'Z2'), ('Spin12', 'U1'), ('Spin12', 'dense')])
        dims = rng.choice([(2, 2), (2, 3), (3, 2), (1, 3), (3, 1), (1, 4), (2, 2), (3, 3)] if fam != 'SpinfulFermions' else [(2, 2), (1, 3), (2, 1)])
        if dims == (3, 3) and (quick or fam != 'SpinlessFermions'):
            dims = (2, 3)
        ngates = rng.randint(1, 4) if dims != (3, 3) else rng.randint(1, 2)
        try:
            psi, v, ops, sites, g = circuit_state(rng, fam, sym, dims, ngates)
        except yastn.YastnError:
            continue
        if np.linalg.norm(v) < 1e-12:
            continue
        N = len(sites)
        s2i = {s: i for i, s in enumerate(sites)}
        jw = C07.JW(ops, N)
        pool = C07.op_pool(fam, ops, rng)
        desc = dict(kind='peps-measure', family=fam, sym=sym, dims=dims, gates=ngates, case_seed=sd)
        ctx.case(desc, nontrivial=True)
        opts_svd = {'D_total': 64, 'tol': 1e-13}
        envs = {}
        try:
            envs['boundary-mps'] = fpeps.EnvBoundaryMPS(psi, opts_svd=opts_svd, setup='lrtb')
            ctm = fpeps.EnvCTM(psi, init='dl')
            for _ in range(max(dims) - 2):      # init='dl' reaches the nearest neighbours, every expansion one layer further
                ctm.expand_outward_()
            envs['ctm'] = ctm
            if min(dims) == 1:
                bp = fpeps.EnvBP(psi)
                bp.iterate_(max_sweeps=3 * N, diff_tol=1e-14)
                envs['bp'] = bp
        except (yastn.YastnError, KeyError, ValueError) as e:
            ctx.violation('setting up an exact environment raised %s: %s (%s %s %r)' % (type(e).__name__, str(e)[:120], fam, sym, dims), desc)
            continue
        I = ops.I()
        # pairs of operators with vanishing total charge (odd-odd and even-even)
        if fam == 'SpinlessFermions':
            singles = [ops.n(), I]; pairs = [(ops.cp(), ops.c()), (ops.n(), ops.n()), (ops.c(), ops.cp())]
            triples = [(ops.cp(), ops.n(), ops.c()), (ops.n(), ops.cp(), ops.c()), (ops.cp(), ops.c(), ops.n())]
        elif fam == 'SpinfulFermions':
            singles = [ops.n('u'), ops.n('d'), I]; pairs = [(ops.cp('u'), ops.c('u')), (ops.n('u'), ops.n('d')), (ops.cp('d'), ops.c('d'))]
            triples = [(ops.cp('u'), ops.n('d'), ops.c('u'))]
        else:
            singles = [ops.sz(), I]; pairs = [(ops.sp(), ops.sm()), (ops.sz(), ops.sz())]
            triples = [(ops.sp(), ops.sz(), ops.sm())]
        tol = 1e-8
        for name, env in envs.items():
            ctx.count('env:' + name)
            try:
                for O in singles:
                    res = env.measure_1site(O)
                    for s in sites:
                        ref = dense_ev(jw, v, [O], [s2i[s]])
                        if abs(res[s] - ref) > tol:
                            ctx.violation('%s.measure_1site at %r gives %r, the dense state has %r (%s %s %r)' % (name, tuple(s), complex(res[s]), complex(ref), fam, sym, dims), dict(desc, env=name, what='1site'))
                            raise StopIteration
                for (A, B) in pairs:
                    res = env.measure_nn(A, B)
                    for (s0, s1), val in res.items():
                        ref = dense_ev(jw, v, [A, B], [s2i[s0], s2i[s1]])
                        if abs(val - ref) > tol:
                            ctx.violation('%s.measure_nn on bond %r gives %r, the dense state has %r (%s %s %r)' % (name, (tuple(s0), tuple(s1)), complex(val), complex(ref), fam, sym, dims), dict(desc, env=name, what='nn'))
                            raise StopIteration
                    ctx.count('measure_nn:' + name)
                    if name in ('boundary-mps', 'ctm') and min(dims) >= 1:
                        for dirn in ('h', 'v'):
                            kw = dict(dirn=dirn)
                            if name == 'boundary-mps':
                                kw['opts_svd'] = opts_svd
                                # sub-windows whose origins differ in x and y
                                if rng.random() < 0.5 and dims[0] >= 2 and dims[1] >= 2:
                                    kw['xrange'] = (rng.randint(0, dims[0] - 1), dims[0]); kw['yrange'] = (rng.randint(0, dims[1] - 1), dims[1])
                            kw['pairs'] = rng.choice(['corner <=', 'corner <', 'row <', 'row <=', '<', '<='])      # first site: corner / first row / anywhere
                            try:
                                res2 = env.measure_2site(A, B, **kw)
                            except TypeError:
                                continue
                            ctx.count('measure_2site:pairs=' + kw['pairs'].split()[0].strip('<='))
                            for (s0, s1), val in res2.items():
                                ref = dense_ev(jw, v, [A, B], [s2i[s0], s2i[s1]])
                                if abs(val - ref) > tol:
                                    ctx.violation('%s.measure_2site(dirn=%s%s) at %r gives %r, the dense state has %r (%s %s %r)' % (
                                        name, dirn, ''.join(', %s=%r' % kv for kv in kw.items() if kv[0] in ('xrange', 'yrange', 'pairs')), (tuple(s0), tuple(s1)), complex(val), complex(ref), fam, sym, dims),
                                        dict(desc, env=name, what='2site'))
                                    raise StopIteration
                            ctx.count('measure_2site:' + name)
                            # an explicit (sparse) list of pairs: the same numbers for exactly the listed pairs
                            if len(res2) >= 2:
                                sub = rng.sample(sorted(res2), rng.randint(1, 2))
                                res3 = env.measure_2site(A, B, **dict(kw, pairs=sub))
                                ctx.count('measure_2site(pairs=list):' + name)
                                for (s0, s1) in sub:
                                    ref = dense_ev(jw, v, [A, B], [s2i[s0], s2i[s1]])
                                    if (s0, s1) not in res3 or abs(res3[s0, s1] - ref) > tol:
                                        ctx.violation('%s.measure_2site(dirn=%s, pairs=%r) at %r gives %r, the dense state has %r (%s %s %r)' % (
                                            name, dirn, [(tuple(a_), tuple(b_)) for a_, b_ in sub], (tuple(s0), tuple(s1)), res3.get((s0, s1)), complex(ref), fam, sym, dims),
                                            dict(desc, env=name, what='2site-pairs', pairs=[[list(a_), list(b_)] for a_, b_ in sub]), family='measure-2site-sparse-pairs')
                                        raise StopIteration
                # operators given per site (dictionaries; lists of operators at a site): the same values, site by site
                cf = {s: rng.choice([1.0, -2.0, 0.5, 3.0]) for s in sites}
                cg = {s: rng.choice([1.0, -1.5, 2.0]) for s in sites}
                O1 = singles[0]
                res = env.measure_1site({s: [cf[s] * O1, I] for s in sites})
                ctx.count('measure_1site(dict):' + name)
                for key, val in res.items():
                    s, nz = tuple(key[:2]), tuple(key[2:])
                    ref = cf[s] * dense_ev(jw, v, [O1], [s2i[s]]) if nz == (0,) else 1.0
                    if abs(val - ref) > tol:
                        ctx.violation('%s.measure_1site({site: [c_site O, I]}) entry %r gives %r, the dense state has %r (%s %s %r)' % (name, key, complex(val), complex(ref), fam, sym, dims),
                                      dict(desc, env=name, what='1site-dict'))
                        raise StopIteration
                if name == 'ctm':       # one site requested, operators supplied for all of them
                    sq = rng.choice(sites)
                    val = env.measure_1site({s: cf[s] * O1 for s in sites}, site=sq)
                    ref = cf[sq] * dense_ev(jw, v, [O1], [s2i[sq]])
                    ctx.count('measure_1site(dict, site=):ctm')
                    if isinstance(val, dict) or abs(val - ref) > tol:
                        ctx.violation('ctm.measure_1site({site: c_site O}, site=%r) gives %r, the dense state has %r (%s %s %r)' % (tuple(sq), val if isinstance(val, dict) else complex(val), complex(ref), fam, sym, dims),
                                      dict(desc, env=name, what='1site-dict-site'), family='ctm-measure-1site-dict-site')
                        raise StopIteration
                if name in ('boundary-mps', 'ctm'):
                    # lists of operators at both sites of a 2-site correlator: every combination has its own fresh string and normalisation
                    (A, B) = rng.choice(pairs)
                    for dirn in ('h', 'v'):
                        kw = dict(dirn=dirn, pairs=rng.choice(['<', '<=', 'row <']))
                        if name == 'boundary-mps':
                            kw['opts_svd'] = opts_svd
                        Od = {s: [cf[s] * A, A, -cf[s] * A] for s in sites}
                        Pd = {s: [B, cg[s] * B] for s in sites}
                        c0 = lambda s_, k: (cf[s_], 1.0, -cf[s_])[k]
                        c1 = lambda s_, k: (1.0, cg[s_])[k]
                        try:
                            resl = env.measure_2site(Od, Pd, **kw)
                        except TypeError:
                            continue
                        ctx.count('measure_2site(lists,dirn=%s):%s' % (dirn, name))
                        for (k0, k1), val in resl.items():
                            s0, s1 = tuple(k0[:2]), tuple(k1[:2])
                            ref = c0(s0, k0[2]) * c1(s1, k1[2]) * dense_ev(jw, v, [A, B], [s2i[s0], s2i[s1]])
                            if not abs(val - ref) <= tol:
                                ctx.violation('%s.measure_2site({site: [c A, A, -c A]}, {site: [B, d B]}, dirn=%s, pairs=%r) entry %r gives %r, the dense state has %r (%s %s %r)' % (
                                    name, dirn, kw['pairs'], (k0, k1), complex(val), complex(ref), fam, sym, dims), dict(desc, env=name, what='2site-lists', dirn=dirn))
                                raise StopIteration
                if name in ('ctm', 'bp'):
                    for (A, B) in pairs:
                        lists = rng.random() < 0.5
                        Od = {s: cf[s] * A for s in sites}
                        Pd = {s: ([cg[s] * B, B] if lists else cg[s] * B) for s in sites}
                        res = env.measure_nn(Od, Pd)
                        ctx.count('measure_nn(dict%s):%s' % ('+lists' if lists else '', name))
                        for (k0, k1), val in res.items():
                            s0, s1, nz1 = tuple(k0[:2]), tuple(k1[:2]), tuple(k1[2:])
                            ref = cf[s0] * (1.0 if nz1 == (1,) else cg[s1]) * dense_ev(jw, v, [A, B], [s2i[s0], s2i[s1]])
                            if abs(val - ref) > tol:
                                ctx.violation('%s.measure_nn({site: c_site A}, {site: %s}) entry %r gives %r, the dense state has %r (%s %s %r)' % (
                                    name, '[d_site B, B]' if lists else 'd_site B', (k0, k1), complex(val), complex(ref), fam, sym, dims), dict(desc, env=name, what='nn-dict', lists=lists))
                                raise StopIteration
                if hasattr(env, 'measure_nsite') and N >= 3:
                    for tr in triples:
                        for _ in range(3):
                            ss = rng.sample(sites, 3)
                            try:
                                val = env.measure_nsite(*tr, sites=ss, opts_svd=opts_svd) if name == 'boundary-mps' else env.measure_nsite(*tr, sites=ss)
                            except (yastn.YastnError, NotImplementedError):
                                continue
                            ref = dense_ev(jw, v, list(tr), [s2i[s] for s in ss])
                            ctx.count('measure_nsite:' + name)
                            if abs(val - ref) > tol:
                                ctx.violation('%s.measure_nsite at %r gives %r, the dense state has %r (%s %s %r)' % (name, [tuple(s) for s in ss], complex(val), complex(ref), fam, sym, dims),
                                              dict(desc, env=name, what='nsite'))
                                raise StopIteration
            except StopIteration:
                continue
            except (yastn.YastnError, KeyError, IndexError, ValueError) as e:
                if 'supports only' in str(e):
                    continue
                ctx.violation('%s measurement raised %s: %s (%s %s %r)' % (name, type(e).__name__, str(e)[:120], fam, sym, dims), dict(desc, env=name, what='raise'))


def generic_metric_cases(ctx, quick):
    """bond metrics of generic (random, entangled everywhere) PEPS: every bond of the lattice, every cluster type, the QR-reduced tensors evolution_step_ uses"""
    import yastn, yastn.tn.fpeps as fpeps
    rng = ctx.rng
    for rep in range(3 if quick else 30):
        sym = rng.choice(['dense', 'Z2', 'U1'])
        dims = rng.choice([(3, 3), (3, 3), (2, 3), (3, 2)])
        dtype = rng.choice(['float64', 'complex128'])
        cfg = yastn.make_config(sym='none' if sym == 'dense' else sym)
        cfg.backend.random_seed(rng.randrange(2 ** 31))
        g = fpeps.SquareLattice(dims=dims, boundary='obc')
        psi = fpeps.Peps(g)
        desc = dict(kind='ntu-metric-generic', sym=sym, dims=dims, dtype=dtype, rep=rep)
        ctx.case(desc, nontrivial=True)
        Nx, Ny = dims
        if sym == 'dense':
            bl = lambda s_, inner: yastn.Leg(cfg, s=s_, D=(2 if inner else 1,))
            ph = yastn.Leg(cfg, s=1, D=(2,))
        else:
            bl = lambda s_, inner: yastn.Leg(cfg, s=s_, t=(0, 1), D=(1, 1)) if inner else yastn.Leg(cfg, s=s_, t=(0,), D=(1,))
            ph = yastn.Leg(cfg, s=1, t=(0, 1), D=(1, 1))
        for (x, y) in g.sites():
            legs = [bl(-1, x > 0), bl(1, y > 0), bl(1, x < Nx - 1), bl(-1, y < Ny - 1), ph]
            psi[x, y] = yastn.rand(cfg, legs=legs, n=rng.choice([0, 1]) if sym != 'dense' else None, dtype=dtype)
        bonds = list(g.bonds())
        for which in ('NN', 'NN+', 'NN++', 'NNN', 'NNN+', 'NNN++'):
            env = fpeps.EnvNTU(psi, which=which)
            for (s0, s1) in bonds:
                dirn = 'h' if g.nn_bond_dirn(s0, s1) in ('lr', 'rl') else 'v'
                if dirn == 'h':
                    Q0, _ = psi[s0].qr(axes=((0, 1, 2, 4), 3), sQ=-1, Qaxis=3)
                    Q1, _ = psi[s1].qr(axes=((0, 2, 3, 4), 1), sQ=1, Qaxis=1, Raxis=-1)
                else:
                    Q0, _ = psi[s0].qr(axes=((0, 1, 3, 4), 2), sQ=1, Qaxis=2)
                    Q1, _ = psi[s1].qr(axes=((1, 2, 3, 4), 0), sQ=-1, Qaxis=0, Raxis=-1)
                M = env.bond_metric(Q0, Q1, s0, s1, dirn).g.to_numpy()
                ctx.count('metric-generic:%s:%s' % (which, dirn))
                nrm = max(np.linalg.norm(M), 1e-300)
                ah = np.linalg.norm(M - M.conj().T) / nrm
                w = np.linalg.eigvalsh((M + M.conj().T) / 2)
                if not ah <= 1e-10 or not w.min() >= -1e-10 * max(abs(w).max(), 1e-300):
                    ctx.violation('NTU bond metric (%s, dirn=%s) of a random %s PEPS %r on bond %r is not Hermitian positive semi-definite: relative anti-Hermitian part %.3g, eigenvalues in [%.3g, %.3g]' % (
                        which, dirn, sym, dims, (tuple(s0), tuple(s1)), ah, w.min(), w.max()), dict(desc, which=which, bond=[list(s0), list(s1)]))
                    break


def metric_and_evolution(ctx, quick):
    import yastn, yastn.tn.fpeps as fpeps, mgen
    rng = ctx.rng
    for rep in range(8 if quick else 100):
        fam, sym = rng.choice([('SpinlessFermions', 'U1'), ('SpinlessFermions', 'Z2'), ('Spin12', 'Z2'), ('Spin12', 'U1')])
        dims = rng.choice([(2, 2), (2, 3), (3, 2), (3, 3)])
        try:
            psi, v, ops, sites, g = circuit_state(rng, fam, sym, dims, rng.randint(1, 3))
        except yastn.YastnError:
            continue
        desc = dict(kind='ntu-metric', family=fam, sym=sym, dims=dims, rep=rep)
        ctx.case(desc, nontrivial=True)
        I = ops.I()
        for which in ('NN', 'NN+', 'NN++', 'NNN', 'NNN+', 'NNN++'):
            try:
                env = fpeps.EnvNTU(psi, which=which)
            except yastn.YastnError:
                continue
            for bond in list(g.bonds())[:6]:
                s0, s1 = bond
                dirn = 'h' if g.nn_bond_dirn(s0, s1) in ('lr', 'rl') else 'v'
                try:
                    G = env.bond_metric(psi[s0], psi[s1], s0, s1, dirn).g
                except (yastn.YastnError, KeyError, AttributeError):
                    continue
                M = G.to_numpy() if G.ndim == 2 else None
                if M is None or M.shape[0] != M.shape[1]:
                    continue
                ctx.count('metric:' + which)
                nrm = max(np.linalg.norm(M), 1e-300)
                if np.linalg.norm(M - M.conj().T) > 1e-10 * nrm:
                    ctx.violation('NTU bond metric (%s) on bond %r is not Hermitian (relative anti-Hermitian part %.3g; %s %s %r)' % (which, (tuple(s0), tuple(s1)), np.linalg.norm(M - M.conj().T) / nrm, fam, sym, dims), dict(desc, which=which))
                    break
                w = np.linalg.eigvalsh((M + M.conj().T) / 2)
                if w.min() < -1e-10 * max(abs(w).max(), 1e-300):
                    ctx.violation('NTU bond metric (%s) on bond %r has a negative eigenvalue %.3g (largest %.3g; %s %s %r)' % (which, (tuple(s0), tuple(s1)), w.min(), w.max(), fam, sym, dims), dict(desc, which=which))
                    break
        # evolution step without binding truncation vs exact application
        bond = rng.choice(list(g.bonds()))
        step = complex(rng.uniform(0.05, 0.4), rng.uniform(-0.3, 0.3))
        if fam == 'SpinlessFermions':
            gate = fpeps.gates.gate_nn_hopping(1.0, step, I, ops.c(), ops.cp(), bond=bond)
        else:
            gate = fpeps.gates.gate_nn_Heisenberg(1.0, step, I, ops.sz(), ops.sp(), ops.sm(), bond=bond)
        exact = psi.copy()
        exact.apply_gate_(gate)
        ref = exact.to_tensor()
        for which in ('NN', 'NN+'):
            phi = psi.copy()
            env = fpeps.EnvNTU(phi, which=which)
            try:
                info = fpeps.evolution_step_(env, [gate], opts_svd={'D_total': 64, 'tol': 1e-14})
            except (yastn.YastnError, KeyError, ValueError) as e:
                ctx.violation('evolution_step_ raised %s: %s (%s %s %r %s)' % (type(e).__name__, str(e)[:100], fam, sym, dims, which), dict(desc, kind='evolution', which=which))
                continue
            got = phi.to_tensor()
            a, b = got, ref
            ov = yastn.vdot(b, a)
            na, nb = float(a.norm()), float(b.norm())
            ctx.count('evolution:' + which)
            if na < 1e-300 or abs(abs(ov) / (na * nb) - 1) > 1e-8:
                ctx.violation('evolution_step_ (%s, no binding truncation) does not reproduce the exactly evolved state: |<exact|result>| / norms = %.10f (%s %s %r bond %r)' % (
                    which, abs(ov) / max(na * nb, 1e-300), fam, sym, dims, (tuple(bond[0]), tuple(bond[1]))), dict(desc, kind='evolution', which=which))
            errs = [float(getattr(x, 'truncation_error', 0.0)) for x in (info if isinstance(info, (list, tuple)) else [info])]
            if errs and max(errs) > 1e-7:
                ctx.violation('evolution_step_ (%s) reports truncation error %.3g although nothing had to be truncated (%s %s %r)' % (which, max(errs), fam, sym, dims), dict(desc, kind='evolution-error', which=which))


def run(ctx):
    st = vlib.prepare(ctx, PROP_V, need_translators=('tr_window',))
    quick = ctx.tier == 'quick'
    ctx.cov['rule'] = ('(a) random histories of add_charge_swaps_ in 6 symmetries vs the Coq model, exactly; the string bookkeeping of measure_2site translated from the source '
                       'on every run (tr_window); (b) finite PEPS (1x3 .. 3x3) from product states and random '
                       'shallow circuits for spinless / spinful fermions and spins: identity, 1-site, nearest-neighbour, 2-site (both directions, sub-windows) and 3-site '
                       'expectation values from boundary-MPS, CTM (init=dl + expand_outward_) and BP (strips) environments vs the dense state with explicit '
                       'Jordan-Wigner matrices; (c) NTU bond metrics of 6 cluster types Hermitian and positive semi-definite; evolution_step_ with non-binding limits vs '
                       'apply_gate_. non-trivial = every case; distinct by case seed')
    bad = swaps_correspondence(ctx, st, quick)
    measure_cases(ctx, quick)
    generic_metric_cases(ctx, quick)
    metric_and_evolution(ctx, quick)
    if bad and not ctx.violations:
        ctx.violation('charge-swap model and implementation disagree: %s' % json.dumps(bad[0], default=str)[:600], dict(kind='correspondence', first=bad[:2]))
    if (bad or ctx.broken) and not ctx.violations:
        # a proof obligation or the tie broke: look harder for an input on which the property fails
        measure_cases(ctx, quick, n_cases=80)
        ctx.extra['extended_search'] = dict(cases=80, found=len(ctx.violations))
    if ctx.broken and not ctx.violations:
        ctx.violation('obligation or tie no longer checks: %s' % ctx.broken[0], dict(kind='obligation', broken=ctx.broken), found_input=False)
    return ctx.finish(level='proof', checker_cmd='make -C /verif/coq (coqc 8.16.1) + coqc properties/C12.v (Print Assumptions)',
                      assumptions=['contractions of the environments are exact without truncation (validated against the dense state, tolerance 1e-8)'])


def replay(ctx, path):
    st = vlib.prepare(ctx, PROP_V, need_translators=('tr_window',))
    rec = json.load(open(path))
    seeds = [v['replay']['case_seed'] for v in rec.get('violations', []) if isinstance(v.get('replay'), dict) and v['replay'].get('case_seed') is not None]
    if seeds:
        measure_cases(ctx, True, n_cases=len(seeds), seeds=seeds)
    for v in ctx.violations:
        print('REPRODUCED', v['what'][:400])
    if not seeds:
        print(json.dumps(rec, indent=1, default=str)[:3000])
    return 1 if ctx.violations else 0
